(* C18/LemmasSession.v -- what a session of readings and caller edits leaves in every produced
   object (model level): an object attribute the caller did not edit still has the value and the
   origin its own reading gave it, whatever was read or edited before, between and after. *)
From Coq Require Import ZArith List Bool Lia PeanoNat.
From AK Require Import Common.Sx Common.Err C18.Base gen.C18_Consts C18.Model C18.Session.
Import ListNotations.

(* ---- upd_nth *)
Lemma upd_nth_length : forall A (f : A -> A) l n, length (upd_nth n f l) = length l.
Proof. induction l as [|x l IH]; intros [|n]; cbn; auto. Qed.

Lemma upd_nth_same : forall A (f : A -> A) l n,
  nth_error (upd_nth n f l) n = option_map f (nth_error l n).
Proof. induction l as [|x l IH]; intros [|n]; cbn; auto. Qed.

Lemma upd_nth_other : forall A (f : A -> A) l n k, k <> n ->
  nth_error (upd_nth n f l) k = nth_error l k.
Proof.
  induction l as [|x l IH]; intros [|n] [|k] H; cbn; auto; try contradiction.
Qed.

(* ---- the readings and the edits named by a list of operations *)
Inductive spec : Type :=
| SOne (cf : config) (sh : list (list cval)) (qk : list str) (w : bool)     (* one object class *)
| SMany (mc : mconfig) (sh : list (list cval)) (qk : list str).            (* several object classes *)

Fixpoint reads_of (ops : list op) : list spec :=
  match ops with
  | [] => []
  | ORead cf sh qk w :: r => SOne cf sh qk w :: reads_of r
  | OReadM mc sh qk :: r => SMany mc sh qk :: reads_of r
  | OMut _ _ _ _ _ :: r => reads_of r
  end.

Definition read_spec (s : spec) : reading :=
  match s with
  | SOne cf sh qk w => do_read cf sh qk w
  | SMany mc sh qk => do_read_m mc sh qk
  end.

Definition is_target (r j a : nat) (o : op) : bool :=
  match o with
  | OMut r' j' a' _ _ => Nat.eqb r r' && Nat.eqb j j' && Nat.eqb a a'
  | _ => false
  end.
Definition targeted (ops : list op) (r j a : nat) : bool := existsb (is_target r j a) ops.

Lemma reads_of_app : forall a b, reads_of (a ++ b) = reads_of a ++ reads_of b.
Proof. induction a as [|[cf sh qk w|mc sh qk|r j x i m] a IH]; intro b; cbn; rewrite ?IH; auto. Qed.

(* ---- rd is the reading rd0 after edits of the attributes T only *)
Definition obj_sim (T : nat -> bool) (o o0 : obj) : Prop :=
  length (o_attrs o) = length (o_attrs o0) /\
  forall a, nth_error (map snd (o_attrs o)) a = nth_error (map snd (o_attrs o0)) a /\
            (T a = false -> nth_error (o_attrs o) a = nth_error (o_attrs o0) a).

Definition item_sim (T : nat -> bool) (x x0 : option obj) : Prop :=
  match x, x0 with
  | None, None => True
  | Some o, Some o0 => obj_sim T o o0
  | _, _ => False
  end.

Definition rd_sim (T : nat -> nat -> bool) (rd rd0 : reading) : Prop :=
  rd_err rd = rd_err rd0 /\ rd_qkeys rd = rd_qkeys rd0 /\
  length (rd_items rd) = length (rd_items rd0) /\
  forall j x x0, nth_error (rd_items rd) j = Some x -> nth_error (rd_items rd0) j = Some x0 ->
                 item_sim (T j) x x0.

Lemma rd_sim_refl : forall T rd, rd_sim T rd rd.
Proof.
  intros T rd. repeat split; auto.
  intros j x x0 H H0. rewrite H in H0. inversion H0; subst. destruct x0 as [o|]; cbn; auto.
  split; auto.
Qed.

Lemma rd_sim_mono : forall (T T' : nat -> nat -> bool) rd rd0,
  (forall j a, T' j a = false -> T j a = false) -> rd_sim T rd rd0 -> rd_sim T' rd rd0.
Proof.
  intros T T' rd rd0 HT (He & Hq & Hl & Hi). repeat split; auto.
  intros j x x0 H H0. specialize (Hi j x x0 H H0).
  destruct x as [o|], x0 as [o0|]; cbn in *; auto.
  destruct Hi as (Hlen & Ha). split; auto. intro a. destruct (Ha a) as (Ho & Hv). split; auto.
Qed.

Lemma map_snd_upd_attr : forall inner m l a,
  map snd (upd_nth a (mut_attr inner m) l) = map snd l.
Proof. induction l as [|p l IH]; intros [|a]; cbn; rewrite ?IH; auto. Qed.

Lemma rd_sim_mut : forall T rd rd0 j a inner m,
  rd_sim T rd rd0 ->
  rd_sim (fun j' a' => T j' a' || (Nat.eqb j' j && Nat.eqb a' a)) (mut_reading j a inner m rd) rd0.
Proof.
  intros T rd rd0 j a inner m (He & Hq & Hl & Hi). unfold mut_reading. repeat split; cbn; auto.
  - rewrite upd_nth_length; auto.
  - intros j' x x0 H H0. destruct (Nat.eq_dec j' j) as [->|Hne].
    + rewrite upd_nth_same in H. destruct (nth_error (rd_items rd) j) as [y|] eqn:E; cbn in H; [|discriminate].
      inversion H; subst x. specialize (Hi j y x0 E H0).
      destruct y as [o|], x0 as [o0|]; cbn in *; auto.
      destruct Hi as (Hlen & Ha). unfold obj_sim, mut_obj; cbn [o_attrs]. split.
      * rewrite upd_nth_length; auto.
      * intro a'. destruct (Ha a') as (Ho & Hv). split.
        -- rewrite map_snd_upd_attr; auto.
        -- intro Hf. apply orb_false_iff in Hf. destruct Hf as (Hf1 & Hf2).
           rewrite Nat.eqb_refl in Hf2. cbn in Hf2. apply Nat.eqb_neq in Hf2.
           rewrite upd_nth_other by auto. auto.
    + rewrite upd_nth_other in H by auto. specialize (Hi j' x x0 H H0).
      destruct x as [o|], x0 as [o0|]; cbn in *; auto.
      destruct Hi as (Hlen & Ha). split; auto. intro a'. destruct (Ha a') as (Ho & Hv). split; auto.
      intro Hf. apply orb_false_iff in Hf. destruct Hf as (Hf1 & _). auto.
Qed.

(* ---- the invariant of the fold *)
Definition inv (ops : list op) (st : list reading) : Prop :=
  length st = length (reads_of ops) /\
  forall r rd s, nth_error st r = Some rd -> nth_error (reads_of ops) r = Some s ->
                 rd_sim (targeted ops r) rd (read_spec s).

Lemma targeted_app : forall a b r j x, targeted (a ++ b) r j x = targeted a r j x || targeted b r j x.
Proof. intros. unfold targeted. apply existsb_app. Qed.

Lemma inv_read : forall ops st o s, inv ops st -> reads_of [o] = [s] -> step st o = st ++ [read_spec s] ->
  inv (ops ++ [o]) (st ++ [read_spec s]).
Proof.
  intros ops st o s (Hlen & Hall) Ho _. split.
  + rewrite reads_of_app, Ho, !app_length. cbn. lia.
  + intros r rd s0 H H0. rewrite reads_of_app, Ho in H0.
    destruct (Nat.lt_ge_cases r (length st)) as [Hlt|Hge].
    * rewrite nth_error_app1 in H by auto. rewrite nth_error_app1 in H0 by lia.
      eapply rd_sim_mono; [|eapply Hall; eauto].
      intros j0 a0. rewrite targeted_app. intro Hf. apply orb_false_iff in Hf. tauto.
    * rewrite nth_error_app2 in H by auto. rewrite nth_error_app2 in H0 by lia.
      rewrite Hlen in H. destruct (r - length (reads_of ops))%nat as [|k] eqn:E; cbn in H, H0.
      -- inversion H; inversion H0; subst. apply rd_sim_refl.
      -- destruct k; discriminate.
Qed.

Lemma inv_step : forall ops st o, inv ops st -> inv (ops ++ [o]) (step st o).
Proof.
  intros ops st o Hinv. destruct o as [cf sh qk w | mc sh qk | r0 j a inner m]; cbn [step].
  - apply (inv_read ops st (ORead cf sh qk w) (SOne cf sh qk w) Hinv); reflexivity.
  - apply (inv_read ops st (OReadM mc sh qk) (SMany mc sh qk) Hinv); reflexivity.
  - destruct Hinv as (Hlen & Hall). split.
    + rewrite upd_nth_length, reads_of_app. cbn. rewrite app_nil_r. auto.
    + intros r rd s H H0. rewrite reads_of_app in H0. cbn in H0. rewrite app_nil_r in H0.
      destruct (Nat.eq_dec r r0) as [->|Hne].
      * rewrite upd_nth_same in H. destruct (nth_error st r0) as [rd1|] eqn:E; cbn in H; [|discriminate].
        inversion H; subst rd. specialize (Hall r0 rd1 s E H0).
        eapply rd_sim_mono; [|apply rd_sim_mut; exact Hall].
        intros j0 a0. rewrite targeted_app. cbn. rewrite Nat.eqb_refl. cbn. rewrite orb_false_r. auto.
      * rewrite upd_nth_other in H by auto. eapply rd_sim_mono; [|eapply Hall; eauto].
        intros j0 a0. rewrite targeted_app. intro Hf. apply orb_false_iff in Hf. tauto.
Qed.

Lemma run_session_snoc : forall ops o, run_session (ops ++ [o]) = step (run_session ops) o.
Proof. intros. unfold run_session. rewrite fold_left_app. auto. Qed.

Lemma inv_run : forall ops, inv ops (run_session ops).
Proof.
  induction ops as [|o ops IH] using rev_ind.
  - split; cbn; auto. intros [|r] rd s H; discriminate.
  - rewrite run_session_snoc. apply inv_step; auto.
Qed.

(* the r-th reading of a session, as the caller sees it at the end: error, number of items, which
   rows gave no object, every origin, and every attribute value the caller did not edit itself are
   those of reading that sheet with those rules on their own *)
Lemma session_local_lemma : forall ops r s,
  nth_error (reads_of ops) r = Some s ->
  exists rd, nth_error (run_session ops) r = Some rd /\ rd_sim (targeted ops r) rd (read_spec s).
Proof.
  intros ops r s H. destruct (inv_run ops) as (Hlen & Hall).
  destruct (nth_error (run_session ops) r) as [rd|] eqn:E.
  - exists rd. split; [reflexivity | eapply Hall; eauto].
  - apply nth_error_None in E. assert (r < length (reads_of ops))%nat by (apply nth_error_Some; congruence). lia.
Qed.

(* no edits: the session is the list of the separate readings *)
Lemma session_no_edits_lemma : forall ops,
  (forall o, In o ops -> match o with OMut _ _ _ _ _ => False | _ => True end) ->
  run_session ops = map read_spec (reads_of ops).
Proof.
  induction ops as [|o ops IH] using rev_ind; intro H; auto.
  rewrite run_session_snoc, reads_of_app, map_app, IH.
  - assert (Ho : In o (ops ++ [o])) by (apply in_or_app; right; left; auto).
    specialize (H o Ho). destruct o; [| |contradiction]; cbn; auto.
  - intros o' Hin. apply H. apply in_or_app; auto.
Qed.

(* an edit reaches the value it is applied to *)
Lemma session_edit_applied_lemma : forall ops r j a inner m rd o p,
  nth_error (run_session ops) r = Some rd ->
  nth_error (rd_items rd) j = Some (Some o) ->
  nth_error (o_attrs o) a = Some p ->
  exists rd' o',
    nth_error (run_session (ops ++ [OMut r j a inner m])) r = Some rd' /\
    nth_error (rd_items rd') j = Some (Some o') /\
    nth_error (o_attrs o') a = Some (mut_value inner m (fst p), snd p).
Proof.
  intros ops r j a inner m rd o p H Hj Ha. rewrite run_session_snoc. cbn [step].
  exists (mut_reading j a inner m rd), (mut_obj a inner m o). repeat split.
  - rewrite upd_nth_same, H. auto.
  - cbn. rewrite upd_nth_same, Hj. auto.
  - cbn. rewrite upd_nth_same, Ha. auto.
Qed.

(* Run.ReadM evaluates the table once *)
Lemma multi_final_spec : forall mc rows qkeys muts,
  multi_final mc rows qkeys muts =
  (length (fst (read_table_m mc rows)), run_session (multi_ops mc rows qkeys muts)).
Proof.
  intros. unfold multi_final, run_session, multi_ops. cbn [fold_left step app]. unfold do_read_m.
  destruct (read_table_m mc rows) as [items e]. reflexivity.
Qed.
