(* C18/PropsTranslated.v -- the range-text theorems of Props.v once more, for the code TRANSLATED from the current
   text of ak/xlsread.py (gen/C18_Translated.v, written by harness/lib/pytranslate.py through c18.gen_consts on every
   run): T__coord_sort_key = _coord_sort_key, T_range_origin_text = the `range_key is None` branch of
   XlsObject.get_attr_origin as a function of origins.values() (the recorded coordinates, in insertion order) and
   ws_prefix; nothing else.  [coords_of d] = the coordinates of the source cells recorded in d.  The translated code
   has no while loop: the statements hold for every [fuel].
   A file of its own so that Props.v (hand model) still checks when the source has left the hand model. *)
From Coq Require Import ZArith List.
From AK Require Import Common.Err Common.PyLib C18.Base gen.C18_Consts C18.Model C18.Lemmas C18.LemmasRange gen.C18_Translated C18.TransEq.
Import ListNotations.
Open Scope Z_scope.

(* the translated sort key of the coordinate of a worksheet cell is the model's: (len(col), col, row) *)
Theorem translated_key_eq : forall fuel r c,
  T__coord_sort_key fuel (coord_text r c) = Ok (key_z (coord_sort_key (coord_text r c))).
Proof. exact TransEq.translated_key_eq. Qed.
Print Assumptions translated_key_eq.

(* the translated branch returns ws_prefix + the model's range_text, for ANY recorded origins *)
Theorem translated_range_text_eq : forall fuel (d : list (str * (nat * nat))) prefix,
  T_range_origin_text fuel (coords_of d) prefix = Ok (prefix ++ range_text d).
Proof. exact TransEq.translated_range_text_eq. Qed.
Print Assumptions translated_range_text_eq.

(* range_text_extremes, for the translated branch *)
Theorem range_text_extremes_translated : forall fuel prefix (d : list (str * (nat * nat))),
  exists t, T_range_origin_text fuel (coords_of d) prefix = Ok (prefix ++ t) /\
  match map snd d with
  | [] => t = marker_range_empty
  | [p] => t = pos_text p
  | _ => exists p q, In p (map snd d) /\ In q (map snd d) /\
                     (forall x, In x (map snd d) -> pos_le p x /\ pos_le x q) /\
                     t = pos_text p ++ [58%Z] ++ pos_text q
  end.
Proof. exact range_text_extremes_t. Qed.
Print Assumptions range_text_extremes_translated.

(* range_text, for the translated branch *)
Theorem range_text_translated : forall fuel prefix names cells,
  NoDup names -> length names = length cells ->
  (forall i j x y, (i < j)%nat -> nth_error cells i = Some x -> nth_error cells j = Some y ->
                   (c_col x < c_col y)%nat) ->
  T_range_origin_text fuel (coords_of (dict_of (combine names (map cpos cells)))) prefix
  = Ok (prefix ++ range_text_spec (map cpos cells)).
Proof. exact range_text_t. Qed.
Print Assumptions range_text_translated.

(* non-vacuity: the translated code runs (fuel 0): Z2, AA2, Y2, AB2 recorded in that order give "ws:Y2:AB2"
   (as plain strings they would give "AA2:Z2"); one cell; no cell; a string that is not a coordinate *)
Example translated_range_text_runs :
  T_range_origin_text 0 [[90; 50]; [65; 65; 50]; [89; 50]; [65; 66; 50]] [119; 115; 58]
    = Ok [119; 115; 58; 89; 50; 58; 65; 66; 50] /\
  T_range_origin_text 0 [[66; 49; 48]] [] = Ok [66; 49; 48] /\
  T_range_origin_text 0 [] [] = Ok marker_range_empty /\
  T__coord_sort_key 0 [65; 66; 49; 50] = Ok (2, [65; 66], 12) /\
  T__coord_sort_key 0 [65; 66] = Err ValueErr.
Proof. vm_compute. repeat split. Qed.
Print Assumptions translated_range_text_runs.
