(* C09/PropsTranslated.v -- the main theorems of Props.v once more, for the functions TRANSLATED from the current
   text of ak/color.py (gen/C09_Translated.v, written by harness/lib/pytranslate.py through c09.gen_consts on every
   run: T_mse = _ColorSequences._make_seq_element, T_make = _ColorSequences.make); nothing else.
   A colour / background is ANY Python value [pyval] (None, bool, int, float, str, tuple, list, other object);
   [color_of] is what the hand model keeps of it.  The effects and no_color are bools ([T_make_args] passes
   them as VBool).  The translated code has no while loop: the statements hold for every [fuel].
   A file of its own so that Props.v (hand model) still checks when the source has left the hand model. *)
From Coq Require Import ZArith List.
From AK Require Import Common.Err Common.PyLib gen.C09_Consts C09.Model C09.Term C09.Spec C09.Run
                       gen.C09_Translated C09.TransInst C09.TransEq.
Import ListNotations.
Open Scope Z_scope.

(* translated code = hand model, on all Python values *)
Theorem translated_mse_eq : forall fuel v is_bg, T_mse fuel v is_bg = make_seq_element (color_of v) is_bg.
Proof. exact TransEq.translated_mse_eq. Qed.
Print Assumptions translated_mse_eq.

Theorem translated_make_eq : forall fuel vc vb a mk_bytes,
  T_make_args fuel vc vb a mk_bytes = make (abs_args vc vb a) mk_bytes.
Proof. exact TransEq.translated_make_eq. Qed.
Print Assumptions translated_make_eq.

(* what Run.v evaluates next to the hand model *)
Theorem translated_run_eq : forall a mk_bytes, tr_make a mk_bytes = make a mk_bytes.
Proof. exact tr_make_eq. Qed.
Print Assumptions translated_run_eq.

(* sgr_wellformed, for the translated make *)
Theorem sgr_wellformed_translated : forall fuel vc vb a p s, T_make_args fuel vc vb a false = Ok (p, s) ->
  (p = [] /\ s = []) \/ (wf_sgr p /\ s = [27; 91; 48; 109]).
Proof. exact sgr_wellformed_t. Qed.
Print Assumptions sgr_wellformed_translated.

(* term_shows: parts whose ColorFmt is built by the translated make ([tr_build]) *)
Theorem term_shows_translated : forall fuel items, Forall valid_part (map abs_item items) ->
  exists cs, tr_build fuel items = Ok cs /\
    term (chtext_str (chtext_of cs)) = (t0, flat_map (fun it => paint (req (fst it)) (snd it)) (map abs_item items)).
Proof. exact term_shows_t. Qed.
Print Assumptions term_shows_translated.

Theorem no_bleed_translated : forall fuel items cs, Forall ok_part (map abs_item items) -> tr_build fuel items = Ok cs ->
  Forall (fun ch => fst (term (chunk_str ch)) = t0) (chtext_of cs) /\
  forall k, fst (term (chtext_str (firstn k (chtext_of cs)))) = t0.
Proof. exact no_bleed_t. Qed.
Print Assumptions no_bleed_translated.

Theorem strip_render_translated : forall fuel items cs, Forall ok_part (map abs_item items) -> tr_build fuel items = Ok cs ->
  strip (chtext_str (chtext_of cs)) = plain_text (chtext_of cs) /\
  plain_text (chtext_of cs) = flat_map snd (map abs_item items).
Proof. exact strip_render_t. Qed.
Print Assumptions strip_render_translated.

(* invalid_raises: every Python value outside the accepted set makes the translated make raise ValueError *)
Theorem invalid_raises_translated : forall fuel vc vb a b, a_nocolor a = false ->
  (~ none_or accepted (color_of vc)) \/ (none_or accepted (color_of vc) /\ ~ none_or accepted (color_of vb)) ->
  T_make_args fuel vc vb a b = Err ValueErr.
Proof. exact invalid_raises_t. Qed.
Print Assumptions invalid_raises_translated.

(* non-vacuity: the translated functions run (fuel 0): 'RED' on (1, 2, 3) bold; 'g7'; True; a float, a list with a str *)
Example translated_make_runs :
  T_make 0 (VStr [82; 69; 68]) (VTuple [VInt 1; VInt 2; VInt 3]) (VBool true) VNone VNone VNone VNone (VBool false) (VBool false)
    = Ok ([27; 91; 51; 49; 59; 52; 56; 58; 53; 58; 54; 55; 59; 49; 109], [27; 91; 48; 109]) /\
  T_mse 0 (VStr [103; 55]) false = Ok [51; 56; 58; 53; 58; 50; 51; 57] /\
  T_mse 0 (VBool true) true = Ok [52; 56; 58; 53; 58; 49] /\
  T_mse 0 (VFloat (Some (1, 2%positive))) false = Err ValueErr /\
  T_mse 0 (VList [VInt 1; VStr [97]; VInt 2]) false = Err ValueErr /\
  T_make 0 VNone VNone VNone VNone VNone VNone VNone VNone (VBool true) = Ok ([], []).
Proof. vm_compute. repeat split. Qed.
Print Assumptions translated_make_runs.
