(* C02/Session.v -- the life of parser OBJECTS: a program of constructor calls,
   is_ambiguous() calls and parse() calls on (at most) two parser objects that
   are built from ONE productions dict with the two smart_factorization values.

   Every method takes the parser as a VALUE and hands it back: [m_parse] and
   [m_is_ambiguous] return the very parser they were given (LemSession.v:
   parse_does_not_change_tables), so in the model the table, the grammar and
   the answer of is_ambiguous() are the same at every moment of an object's
   life, and the result of parse() depends on the text alone.  That the
   IMPLEMENTATION's objects behave like these values (parse() leaves
   parse_table, prods_map, the productions dict and every other piece of state
   as it found them) is what the correspondence run checks: C02.Run evaluates
   [session] on the same program the implementation executed.
   No proofs in this file. *)
From Coq Require Import ZArith List Bool.
From AK Require Export LLP.Build C02.Model.
Import ListNotations.

Inductive op :=
| OBuild (w : bool)              (* LLParser(tok, productions=D, smart_factorization=w): (re)binds object w *)
| OAmb (w : bool)                (* object w .is_ambiguous() *)
| OParse (w : bool) (i : nat)    (* object w .parse(text of input i) *)
| OParseFrom (w : bool) (i : nat) (s : sym).
                                 (* object w .parse(text of input i, start_symbol_name=s): the debugging aid that
                                    parses a fragment from another symbol; it must not redirect later parse() calls *)

Inductive obs :=
| BBuilt (e : option err)        (* the constructor returned / raised e *)
| BAmb (b : bool)
| BParse (r : res tree)
| BNone.                         (* no such object (never built, constructor raised) or no such input *)

(* the two object slots: smart_factorization False / True *)
Record world := mkWorld { w_plain : option parser; w_smart : option parser }.
Definition no_objects : world := mkWorld None None.
Definition get_obj (W : world) (w : bool) : option parser := if w then w_smart W else w_plain W.
Definition set_obj (W : world) (w : bool) (p : option parser) : world :=
  if w then mkWorld (w_plain W) p else mkWorld p (w_smart W).

(* the methods, in state-passing style: (object after the call, result) *)
Definition m_is_ambiguous (p : parser) : parser * bool := (p, is_ambiguous (p_tables p)).
Definition m_parse (p : parser) (fuel : nat) (toks : list token) : parser * res tree :=
  (p, p_parse p fuel toks).
(* parse(text, start_symbol_name=s): `assert s in self.prods_map`, then the same loop from ($START$ -> s $END$) *)
Definition p_parse_from (p : parser) (fuel : nat) (s : sym) (toks : list token) : res tree :=
  if mem s (gkeys (p_grammar p))
  then parse (fun x => mem x (p_terminals p)) (table_get (p_tables p)) (p_sfxs p) toks fuel s
  else Err AssertErr.
Definition m_parse_from (p : parser) (fuel : nat) (s : sym) (toks : list token) : parser * res tree :=
  (p, p_parse_from p fuel s toks).

Section Session.
  Variable ug : list (sym * list (list sym)).     (* the productions dict (shared by all constructor calls) *)
  Variable terminals : list sym.
  Variable start : sym.
  Variable fuel : nat.
  Variable inputs : list (list (sym * list Z)).

  Definition do_op (W : world) (o : op) : world * obs :=
    match o with
    | OBuild w =>
        match build ug terminals w start with
        | Ok p => (set_obj W w (Some p), BBuilt None)
        | Err e => (set_obj W w None, BBuilt (Some e))
        end
    | OAmb w =>
        match get_obj W w with
        | Some p => let '(p', b) := m_is_ambiguous p in (set_obj W w (Some p'), BAmb b)
        | None => (W, BNone)
        end
    | OParse w i =>
        match get_obj W w, nth_error inputs i with
        | Some p, Some inp =>
            let '(p', r) := m_parse p fuel (mk_toks inp) in (set_obj W w (Some p'), BParse r)
        | _, _ => (W, BNone)
        end
    | OParseFrom w i s =>
        match get_obj W w, nth_error inputs i with
        | Some p, Some inp =>
            let '(p', r) := m_parse_from p fuel s (mk_toks inp) in (set_obj W w (Some p'), BParse r)
        | _, _ => (W, BNone)
        end
    end.

  Fixpoint session (W : world) (ops : list op) : list obs :=
    match ops with
    | [] => []
    | o :: r => let '(W', b) := do_op W o in b :: session W' r
    end.

  (* the objects as the program leaves them *)
  Fixpoint final_world (W : world) (ops : list op) : world :=
    match ops with
    | [] => W
    | o :: r => final_world (fst (do_op W o)) r
    end.

  (* both in one pass (what C02.Run evaluates; LemSession.session_w_eq) *)
  Fixpoint session_w (W : world) (ops : list op) : list obs * world :=
    match ops with
    | [] => ([], W)
    | o :: r => let '(W', b) := do_op W o in
                let '(bs, Wf) := session_w W' r in (b :: bs, Wf)
    end.

  (* the same call on objects that have just been constructed and never used *)
  Definition fresh_obj (w : bool) : option parser :=
    match build ug terminals w start with Ok p => Some p | Err _ => None end.
  Definition fresh_world : world := mkWorld (fresh_obj false) (fresh_obj true).
  Definition fresh_obs (o : op) : obs := snd (do_op fresh_world o).

  (* every slot is empty or holds exactly what the constructor returns *)
  Definition slot_ok (W : world) (w : bool) : Prop :=
    get_obj W w = None \/ get_obj W w = fresh_obj w.
  Definition world_ok (W : world) : Prop := slot_ok W false /\ slot_ok W true.
End Session.

(* observation encoders *)
Definition sx_obs (b : obs) : sx :=
  match b with
  | BBuilt None => SL [SZ 0]
  | BBuilt (Some e) => SL [SZ 1; SZ (err_code e)]
  | BAmb a => SL [SZ 2; sx_bool a]
  | BParse r => SL [SZ 3; sx_res sx_tree r]
  | BNone => SL [SZ 4]
  end.
