(* C07/Props.v -- the property theorems, nothing else.
   "Component builds are reported at the first parent build that ships them"
   Model: C07/Model.v (ReposCollection ordering DFS, ComponentBump, the parent
   repository's RGraph construction and included_at registration).
   Repositories / component RBuilds are numbers; strings never matter here. *)
From Coq Require Import ZArith List Bool Arith Permutation.
From AK Require Import Common.Err gen.C07_Consts C07.Model C07.LemmasOrder C07.Lemmas.
Import ListNotations.

(* the clauses read from ak/ghist.py are the ones the model and the theorems rely on *)
Theorem consts_ok :
  src_prune = PruneAtFrom /\ In ClBump src_is_rbuild /\
  (forall c, In c src_is_rbuild <-> In c [ClNew; ClBump; ClMerge]) /\ src_cycle_err = ValueErr.
Proof. exact (conj src_prune_ok (conj src_bump_clause (conj src_rbuild_clauses src_cycle_err_ok))). Qed.
Print Assumptions consts_ok.

(* ================================================================== *)
(* which build a tag stands for (finalize_build_tag_info, get_builds_numbers, BuildNumData.cmp) *)

(* the three routes of finalize_build_tag_info, in the order and with the tests the model has
   (the guessed major is tested with `is not None`) *)
Theorem tag_routes_ok : src_tag_routes = [RouteKnown; RouteGuessIsNotNone; RouteSaved].
Proof. exact src_tag_routes_ok. Qed.
Print Assumptions tag_routes_ok.

(* build_<n>_release_<M>_<m>_success is build M.m.n for EVERY M, m, n (0 included), whatever is saved in
   the commit; an overridden tag format that delivers major.minor keeps them; any other tag text takes
   major.minor from the saved version and is '?'.'?'.n without one *)
Theorem tag_build_number : forall saved M m n,
  finalize_tag saved (TagRelease M m, n) = (M, m, n) /\
  finalize_tag saved (TagFull M m, n) = (M, m, n) /\
  finalize_tag (Some (M, m)) (TagWord, n) = (M, m, n) /\
  finalize_tag None (TagWord, n) = (qm, qm, n).
Proof.
  intros. repeat split.
Qed.
Print Assumptions tag_build_number.

(* ... so a pin finds that build in a version map iff it names exactly major.minor.build *)
Theorem release_tag_pin : forall saved M m n pin,
  bn_eqb (finalize_tag saved (TagRelease M m, n)) pin = true <-> pin = (M, m, n).
Proof. exact release_tag_pin_l. Qed.
Print Assumptions release_tag_pin.

(* get_builds_numbers neither loses nor invents a build of the commit *)
Theorem builds_numbers_complete : forall saved tags,
  Permutation (builds_numbers saved tags) (map (finalize_tag saved) tags).
Proof. exact builds_numbers_perm. Qed.
Print Assumptions builds_numbers_complete.

(* BuildNumData.cmp: lexicographic on numbered builds (0 is the smallest number, not "missing"),
   every numbered build below every '?' build, and total *)
Theorem build_number_order :
  (forall a b, int_bn a -> int_bn b -> (bn_leb a b = true <-> lex_le a b)) /\
  (forall a n, int_bn a -> bn_leb a (qm, qm, n) = true /\ bn_leb (qm, qm, n) a = false) /\
  (forall a b, bn_leb a b = true \/ bn_leb b a = true).
Proof. exact (conj bn_leb_int (conj bn_leb_qm bn_leb_total)). Qed.
Print Assumptions build_number_order.

Example build_number_order_ex :
  builds_numbers None [(TagWord, 7); (TagRelease 0 10, 7); (TagRelease 0 9, 8); (TagFull 0 9, 0)]%Z
  = [(0, 9, 0); (0, 9, 8); (0, 10, 7); (qm, qm, 7)]%Z.
Proof. vm_compute. reflexivity. Qed.
Print Assumptions build_number_order_ex.

(* ================================================================== *)
(* repositories are analysed components first, whatever the supply order *)

(* sorted_repos is a permutation of the supplied repositories in which every
   repository comes after each of its supplied components *)
Theorem repo_order : forall repos deps out, NoDup repos -> sort_repos repos deps = Ok out ->
  Permutation out repos /\
  forall l1 x l2, out = l1 ++ x :: l2 ->
    forall c, In c (comps_of deps x) /\ In c repos -> In c l1.
Proof. exact repo_order_l. Qed.
Print Assumptions repo_order.

(* ... and it does not depend on the order in which they were supplied *)
Theorem repo_order_supply : forall repos repos' deps, Permutation repos repos' ->
  sort_repos repos deps = sort_repos repos' deps.
Proof. exact supply_order_l. Qed.
Print Assumptions repo_order_supply.

(* make_reports_data analyses in that order and hands every repository the graphs
   of exactly its supplied components *)
Theorem repo_analysis : forall repos deps l, NoDup repos -> reports_order repos deps = Ok l ->
  sort_repos repos deps = Ok (rev (map fst l)) /\
  forall x cs, In (x, cs) l -> forall c, In c cs <-> (In c (comps_of deps x) /\ In c repos).
Proof. exact reports_order_l. Qed.
Print Assumptions repo_analysis.

(* ValueError exactly for cyclic dependencies among the supplied repositories *)
Theorem repo_cycle : forall repos deps, NoDup repos ->
  (sort_repos repos deps = Err ValueErr <-> exists x, In x repos /\ reach repos deps x x).
Proof. exact repo_cycle_l. Qed.
Print Assumptions repo_cycle.

(* the while loop ends within 3*|repos| + 2*|declared dependencies| + 3 iterations
   ([ofuel]): the result is never [Err Hang], and the closing assert never fails *)
Theorem repo_order_terminates : forall repos deps, NoDup repos ->
  (exists out, sort_repos repos deps = Ok out) \/ sort_repos repos deps = Err ValueErr.
Proof. exact repo_total_l. Qed.
Print Assumptions repo_order_terminates.

Example repo_order_ex :
  sort_repos [3; 1; 2] [(1, [2; 9]); (3, [1; 2])] = Ok [2; 1; 3] /\
  sort_repos [3; 1; 2] [(1, [2]); (2, [3]); (3, [1])] = Err ValueErr /\
  sort_repos [5] [(5, [5])] = Err ValueErr /\
  reports_order [3; 1; 2] [(1, [2; 9]); (3, [1; 2])] = Ok [(3, [2; 1]); (1, [2]); (2, [])].
Proof. vm_compute. repeat split. Qed.
Print Assumptions repo_order_ex.

(* ================================================================== *)
(* what a bump contains: get_rbuilds_in_bump                            *)

(* FULL STATEMENT (Lemmas.bump_set_statement): for from-builds contained in the new pin,
   get_rbuilds_in_bump = ancestors*(to) \ ancestors*(from).  It is FALSE for the current
   code: the DFS stops only AT the from-builds, so an ancestor of a from-build is
   collected when a parallel path by-passes that from-build (DESIGN.md section 7). *)
Theorem bump_set_refuted : ~ bump_set_statement.
Proof. exact bump_set_refuted_l. Qed.
Print Assumptions bump_set_refuted.

(* what holds: the result is duplicate free, contains everything the property wants,
   and contains nothing else EXACTLY WHEN the from-builds separate the graph *)
Theorem bump_set : forall cg b t, wf cg -> b_to b = Some t ->
  exists l, rbuilds_in_bump cg b = Some l /\ NoDup l /\
    (forall y, (anc cg t y /\ forall f, In f (b_from b) -> ~ anc cg f y) -> In y l) /\
    (separates cg (b_from b) t <->
     forall y, In y l -> anc cg t y /\ forall f, In f (b_from b) -> ~ anc cg f y).
Proof. exact bump_set_guarded. Qed.
Print Assumptions bump_set.

(* in particular on a linear component history (every RBuild has at most one parent) *)
Theorem bump_set_linear_history : forall cg b t, wf cg -> linear cg -> b_to b = Some t ->
  (forall f, In f (b_from b) -> anc cg t f) ->
  exists l, rbuilds_in_bump cg b = Some l /\ NoDup l /\
    forall y, In y l <-> (anc cg t y /\ forall f, In f (b_from b) -> ~ anc cg f y).
Proof. exact bump_set_linear. Qed.
Print Assumptions bump_set_linear_history.

Example bump_set_ex :
  rbuilds_in_bump [(0, []); (1, [0]); (2, [1]); (3, [2])] (mkB [] (1, 1, 9)%Z [1] (Some 3)) = Some [2; 3] /\
  rbuilds_in_bump w_cg w_bump = Some [0; 1; 3].
Proof. vm_compute. split; reflexivity. Qed.
Print Assumptions bump_set_ex.

(* ================================================================== *)
(* included_at: the first parent build that ships a component build     *)

(* FULL STATEMENT (Lemmas.included_first_statement): in every report, component build y is
   recorded at a reported parent build exactly when that build's pin contains y and no
   ancestor build of it in the same branch has a pin containing y.  FALSE for the current
   code (same defect); the witness is the history of DESIGN.md section 7. *)
Theorem included_first_refuted : ~ included_first_statement.
Proof. exact included_first_refuted_l. Qed.
Print Assumptions included_first_refuted.

Theorem included_first_witness :
  exists r, parent_report w_ci w_commits w_heads = Ok r /\
            included_at r 0 = [(0, (5, 1, 2)%Z); (0, (5, 1, 3)%Z)].
Proof. exact w_included. Qed.
Print Assumptions included_first_witness.

(* PROVED PART: one parent branch whose reported builds form a chain (each bump starts
   from the previous build's pin, pins only grow) over a linear component history: the
   registration loop records y at the i-th build iff that is the first build shipping y.
   Missing for the full statement: (1) that _read_branch produces such chains on linear
   parent histories is checked by the correspondence run only; (2) parent or component
   histories with parallel sub-branches (where the statement is false, see above). *)
Theorem included_first_partial : forall ci br rbs bs regs,
  wf (ci_graph ci) -> linear (ci_graph ci) ->
  map (fun p => rb_bump (snd p)) rbs = map Some bs ->
  (forall p, In p rbs -> bn_eqb (rb_bn (snd p)) fake_not_merged = false) ->
  NoDup (map (fun p => rb_bn (snd p)) rbs) ->
  chain (ci_graph ci) None bs ->
  registrations ci [(br, rbs)] = Some regs ->
  forall i p y, nth_error rbs i = Some p ->
    (In (y, (br, rb_bn (snd p))) regs <->
     ships (ci_graph ci) bs i y /\ forall j, j < i -> ~ ships (ci_graph ci) bs j y).
Proof. exact included_first_l. Qed.
Print Assumptions included_first_partial.

(* the hypotheses are satisfiable: linear component 0 <- 1 <- 2 <- 3, three parent builds
   pinning component builds 1, 1+2 -> 2, 3 *)
Example included_first_ex :
  let ci := mkCI [(0, ((1,1,1)%Z, [])); (1, ((1,1,2)%Z, [0])); (2, ((1,1,3)%Z, [1])); (3, ((1,1,4)%Z, [2]))] [] [] in
  let b1 := mkB [] (1,1,2)%Z [] (Some 1) in
  let b2 := mkB [(1,1,2)%Z] (1,1,3)%Z [1] (Some 2) in
  let b3 := mkB [(1,1,3)%Z] (1,1,4)%Z [2] (Some 3) in
  let rbs := [(0%Z, mkRB (5,1,1)%Z 0 [] [] (Some b1)); (1%Z, mkRB (5,1,2)%Z 0 [0%Z] [] (Some b2));
              (2%Z, mkRB (5,1,3)%Z 0 [1%Z] [] (Some b3))] in
  chain (ci_graph ci) None [b1; b2; b3] /\
  registrations ci [(7, rbs)] =
    Some [(0, (7, (5,1,1)%Z)); (1, (7, (5,1,1)%Z)); (2, (7, (5,1,2)%Z)); (3, (7, (5,1,3)%Z))].
Proof.
  cbv zeta. split; [|vm_compute; reflexivity].
  eapply ch_first; [reflexivity|reflexivity|].
  eapply ch_next; [reflexivity|reflexivity| |].
  { eapply anc_step; [|apply anc_refl]. cbn. auto. }
  eapply ch_next; [reflexivity|reflexivity| |apply ch_nil].
  eapply anc_step; [|apply anc_refl]. cbn. auto.
Qed.
Print Assumptions included_first_ex.

(* ONE DIRECTION HOLDS FOR EVERY HISTORY (any branches, merges, parallel component builds):
   a component build contained in the new pin and in none of the bump's from-builds is
   recorded at that parent build -- registrations are never missing, only (see above)
   sometimes repeated *)
Theorem included_never_missing : forall ci branches regs, wf (ci_graph ci) ->
  registrations ci branches = Some regs ->
  forall br rbs p b t y, In (br, rbs) branches -> In p rbs ->
    bn_eqb (rb_bn (snd p)) fake_not_merged = false -> rb_bump (snd p) = Some b -> b_to b = Some t ->
    (anc (ci_graph ci) t y /\ forall f, In f (b_from b) -> ~ anc (ci_graph ci) f y) ->
    In (y, (br, rb_bn (snd p))) regs.
Proof. exact never_missing_l. Qed.
Print Assumptions included_never_missing.

(* _mk_bumps_info: a bump starts from the to-builds of the parent builds' bumps *)
Theorem bump_from : forall ci g cm prb b, mk_bump ci g cm prb = Some b ->
  forall f, In f (b_from b) <->
    exists p rb pb, In p prb /\ get_rb g p = Some rb /\ rb_bump rb = Some pb /\
                    (b_to pb = Some f \/ (b_to pb = None /\ In f (b_from pb))).
Proof. exact bump_from_l. Qed.
Print Assumptions bump_from.

(* ================================================================== *)
(* a parent build whose pin moves across report-related component builds is reported *)

(* _mk_rcommits on a build commit (or the branch head): if the bump of the component
   computed against the parent builds is not trivial, an RBuild carrying that bump is
   created for the commit -- whether or not it has matching commits of its own *)
Theorem bump_reported : forall ci head c cm g,
  (nonempty (c_tags cm) || (c =? head)) = true ->
  forall nw prb g1 b,
    find_new g (rc_parents_of g (c_parents cm)) = (nw, prb, g1) ->
    mk_bump ci g1 cm prb = Some b -> is_trivial b = false ->
    exists rb, zfind (g_cnt g) (g_cur (finalise ci head c cm g)) = Some rb /\
               rb_bump rb = Some b /\ rb_type rb = 0%Z /\ rb_parents rb = prb /\
               nfind c (g_selected (finalise ci head c cm g)) = Some (g_cnt g).
Proof. exact bump_reported_l. Qed.
Print Assumptions bump_reported.

(* non-vacuity: in the witness history the second and third parent builds have no matching
   commit at all and are reported because of their bumps *)
Example bump_reported_ex :
  exists r, parent_report w_ci w_commits w_heads = Ok r /\
            map (fun br => map (fun p => (rb_bn (snd p), rb_rcommits (snd p))) (snd br)) (r_branches r)
            = [[((5, 1, 2)%Z, [0%Z]); ((5, 1, 3)%Z, [1%Z])]] /\
            map (fun p => rc_expl (snd p)) (r_rcs r) = [false; false].
Proof. eexists. split; [vm_compute; reflexivity|]. vm_compute. split; reflexivity. Qed.
Print Assumptions bump_reported_ex.
