(* C19/LemmasVec.v -- multi-token argument vectors.
   [sub_spec_vec]: what is assumed of argparse on vectors
       --f1 .. --fk  w1 .. wm  --g1 .. --gj
   (store_true flags, one block of words for the nargs='*' positionals): when it
   accepts and what the namespace holds.  The executable stand-in [mini_sub]
   meets it; option scope, namespace contents, positionals and the default
   command are then stated on what parse_args returns. *)
From Coq Require Import ZArith List Bool Lia.
From AK Require Import gen.C19_Consts C19.Model C19.Lemmas C19.LemmasOps C19.LemmasParse.
Import ListNotations.
Open Scope Z_scope.

(* a flag name that add_argument accepts: not a standard option string, no '=' *)
Definition user_flag (nl : bool) (o : str) : Prop :=
  mem (flag_str o) (std_option_strings nl) = false /\ ~ In ch_eq o.

Definition word (w : str) : Prop := starts_dash w = false.

Definition poss_result (P : list str) (ws : list str) : list (str * list str) :=
  match P with
  | [] => []
  | p0 :: ps => (p0, ws) :: map (fun p => (p, [])) ps
  end.

Record sub_spec_vec (sub : subparser) : Prop := {
  sv_accept : forall nl F P os1 ws os2,
      Forall (user_flag nl) (os1 ++ os2) -> Forall word ws ->
      (sub nl F P (map flag_str os1 ++ ws ++ map flag_str os2) <> None <->
       (Forall (fun o => In o F) (os1 ++ os2) /\ (ws = [] \/ P <> [])));
  sv_result : forall nl F P os1 ws os2 s,
      Forall (user_flag nl) (os1 ++ os2) -> Forall word ws ->
      sub nl F P (map flag_str os1 ++ ws ++ map flag_str os2) = Some s ->
      sn_flags s = map (fun o => (o, mem o (os1 ++ os2))) F /\
      sn_poss s = poss_result P ws /\
      sn_verbose s = 0%nat /\ sn_color s = CStr color_default /\ sn_no_color s = false;
  (* a parser without positionals rejects a vector that starts with a word *)
  sv_word_no_pos : forall nl F w r, word w -> sub nl F [] (w :: r) = None
}.

(* ------------------------------------------------------------------ *)
(* the stand-in on flags and words                                       *)

Definition push_flag (o : str) (a : acc) : acc :=
  mkAcc (a_verbose a) (a_color a) (a_seen_color a) (a_no_color a) (o :: a_set a) (a_words a)
        (match a_blk a with BOpen => BClosed | b => b end).

Definition push_word (w : str) (a : acc) : acc :=
  mkAcc (a_verbose a) (a_color a) (a_seen_color a) (a_no_color a) (a_set a) (a_words a ++ [w]) BOpen.

Fixpoint push_flags (os : list str) (a : acc) : acc :=
  match os with [] => a | o :: r => push_flags r (push_flag o a) end.

Fixpoint push_words (ws : list str) (a : acc) : acc :=
  match ws with [] => a | w :: r => push_words r (push_word w a) end.

Lemma mini_go_flag_step nl F P o r a :
  user_flag nl o ->
  mini_go nl F P (flag_str o :: r) a = if mem o F then mini_go nl F P r (push_flag o a) else None.
Proof.
  intros (Hstd & Heq).
  destruct (std_strings_have nl) as (I1 & I2 & I3).
  pose proof (mem_false_each _ _ Hstd) as E.
  assert (strip_prefix (opt_color ++ [ch_eq]) (flag_str o) = None) as Hsp.
  { destruct (strip_prefix (opt_color ++ [ch_eq]) (flag_str o)) as [r0|] eqn:Es; [|reflexivity].
    exfalso. apply strip_prefix_some in Es. destruct opt_color_dashes as (w & Ew).
    rewrite Ew in Es. unfold flag_str in Es. cbn [app] in Es. inversion Es as [Eo].
    apply Heq. rewrite Eo. rewrite <- app_assoc. apply in_or_app. right. left. reflexivity. }
  cbn [mini_go]. replace (starts_dash (flag_str o)) with true by reflexivity. cbn [negb].
  rewrite (E _ I1), Hsp, (E _ I2).
  assert ((negb nl && str_eqb (flag_str o) opt_verbose_long) = false) as ->.
  { destruct nl; [reflexivity|]. cbn [negb andb]. apply E. apply I3. reflexivity. }
  assert ((if nl then None else short_verbose_count (flag_str o)) = None) as ->.
  { destruct nl; [reflexivity|]. unfold short_verbose_count, flag_str.
    replace (ch_dash =? ch_dash) with true by reflexivity. cbn [andb forallb].
    rewrite verbose_letter_not_dash. reflexivity. }
  replace (strip_prefix [ch_dash; ch_dash] (flag_str o)) with (Some o)
    by (symmetry; apply (strip_prefix_app [ch_dash; ch_dash] o)).
  destruct (mem o F); reflexivity.
Qed.

Lemma mini_go_flags nl F P os : forall r a,
  Forall (user_flag nl) os ->
  mini_go nl F P (map flag_str os ++ r) a =
  if forallb (fun o => mem o F) os then mini_go nl F P r (push_flags os a) else None.
Proof.
  induction os as [|o os IH]; intros r a H; cbn [map app forallb push_flags]; [reflexivity|].
  inversion H as [|x l Ho Hos]. subst.
  rewrite (mini_go_flag_step nl F P o _ a Ho).
  destruct (mem o F); cbn [andb]; [apply IH; exact Hos|reflexivity].
Qed.

Lemma mini_go_word_step nl F P w r a :
  word w ->
  mini_go nl F P (w :: r) a =
  match a_blk a with
  | BClosed => None
  | _ => if is_nil P then None else mini_go nl F P r (push_word w a)
  end.
Proof. intros H. unfold word in H. cbn [mini_go]. rewrite H. reflexivity. Qed.

Lemma mini_go_words nl F P ws : forall r a,
  Forall word ws -> P <> [] -> a_blk a <> BClosed ->
  mini_go nl F P (ws ++ r) a = mini_go nl F P r (push_words ws a).
Proof.
  induction ws as [|w ws IH]; intros r a H HP Hb; cbn [app push_words]; [reflexivity|].
  inversion H as [|x l Hw Hws]. subst.
  rewrite (mini_go_word_step nl F P w _ a Hw).
  destruct P as [|p0 ps]; [congruence|]. cbn [is_nil].
  destruct (a_blk a) eqn:Eb; [| |congruence]; apply IH; auto; cbn; discriminate.
Qed.

(* projections of the accumulated state *)
Lemma push_flags_fields os : forall a,
  a_verbose (push_flags os a) = a_verbose a /\ a_color (push_flags os a) = a_color a /\
  a_no_color (push_flags os a) = a_no_color a /\ a_words (push_flags os a) = a_words a /\
  a_set (push_flags os a) = rev os ++ a_set a /\
  (a_blk a = BNone -> a_blk (push_flags os a) = BNone).
Proof.
  induction os as [|o os IH]; intros a; cbn [push_flags rev app]; [repeat split; auto|].
  destruct (IH (push_flag o a)) as (H1 & H2 & H3 & H4 & H5 & H6).
  rewrite H1, H2, H3, H4, H5. cbn [push_flag a_verbose a_color a_no_color a_words a_set a_blk].
  rewrite <- app_assoc. repeat split; auto.
  intros Hb. apply H6. cbn [push_flag a_blk]. rewrite Hb. reflexivity.
Qed.

Lemma push_words_fields ws : forall a,
  a_verbose (push_words ws a) = a_verbose a /\ a_color (push_words ws a) = a_color a /\
  a_no_color (push_words ws a) = a_no_color a /\ a_words (push_words ws a) = a_words a ++ ws /\
  a_set (push_words ws a) = a_set a.
Proof.
  induction ws as [|w ws IH]; intros a; cbn [push_words]; [rewrite app_nil_r; repeat split; auto|].
  destruct (IH (push_word w a)) as (H1 & H2 & H3 & H4 & H5).
  rewrite H1, H2, H3, H4, H5. cbn [push_word a_verbose a_color a_no_color a_words a_set].
  rewrite <- app_assoc. repeat split; auto.
Qed.

Lemma forallb_mem_Forall F os : forallb (fun o => mem o F) os = true <-> Forall (fun o => In o F) os.
Proof.
  rewrite forallb_forall, Forall_forall. split; intros H x Hx; [apply mem_In|apply mem_In]; auto.
Qed.

Lemma mem_ext x l l' : (In x l <-> In x l') -> mem x l = mem x l'.
Proof.
  intros H. destruct (mem x l) eqn:E1; destruct (mem x l') eqn:E2; try reflexivity; exfalso.
  - apply mem_In in E1. apply mem_false in E2. tauto.
  - apply mem_In in E2. apply mem_false in E1. tauto.
Qed.

(* the vector  flags os1, words ws, flags os2  from the initial state *)
Lemma mini_go_vector nl F P os1 ws os2 :
  Forall (user_flag nl) (os1 ++ os2) -> Forall word ws ->
  mini_go nl F P (map flag_str os1 ++ ws ++ map flag_str os2) acc0 =
  if forallb (fun o => mem o F) (os1 ++ os2) && (is_nil ws || negb (is_nil P))
  then Some (push_flags os2 (push_words ws (push_flags os1 acc0)))
  else None.
Proof.
  intros HF HW. apply Forall_app in HF as (H1 & H2).
  rewrite (mini_go_flags nl F P os1 _ acc0 H1). rewrite forallb_app.
  destruct (forallb (fun o => mem o F) os1); cbn [andb]; [|reflexivity].
  destruct (push_flags_fields os1 acc0) as (_ & _ & _ & _ & _ & B1).
  specialize (B1 eq_refl).
  destruct ws as [|w ws].
  - cbn [app is_nil orb push_words]. rewrite andb_true_r.
    rewrite <- (app_nil_r (map flag_str os2)). rewrite (mini_go_flags nl F P os2 [] _ H2).
    destruct (forallb (fun o => mem o F) os2); reflexivity.
  - cbn [is_nil orb]. destruct P as [|p0 ps].
    + cbn [is_nil negb]. rewrite andb_false_r.
      inversion HW as [|x l Hw _]. subst. cbn [app].
      rewrite (mini_go_word_step nl F [] w _ _ Hw). rewrite B1. reflexivity.
    + cbn [is_nil negb]. rewrite andb_true_r.
      rewrite (mini_go_words nl F (p0 :: ps) (w :: ws) _ _ HW); [|discriminate|rewrite B1; discriminate].
      rewrite <- (app_nil_r (map flag_str os2)). rewrite (mini_go_flags nl F (p0 :: ps) os2 [] _ H2).
      destruct (forallb (fun o => mem o F) os2); reflexivity.
Qed.

Lemma mini_sub_spec_vec : sub_spec_vec mini_sub.
Proof.
  constructor.
  - intros nl F P os1 ws os2 HF HW. rewrite mini_sub_some. rewrite (mini_go_vector nl F P os1 ws os2 HF HW).
    destruct (forallb (fun o => mem o F) (os1 ++ os2)) eqn:E1; cbn [andb].
    + apply forallb_mem_Forall in E1.
      destruct ws as [|w ws]; cbn [is_nil orb].
      * split; [intros _; split; auto|discriminate].
      * destruct P as [|p0 ps]; cbn [is_nil negb].
        -- split; [congruence|]. intros (_ & [H|H]); [discriminate|congruence].
        -- split; [intros _; split; [exact E1|right; discriminate]|discriminate].
    + split; [congruence|]. intros (H & _). apply forallb_mem_Forall in H. congruence.
  - intros nl F P os1 ws os2 s HF HW. unfold mini_sub. fold acc0.
    rewrite (mini_go_vector nl F P os1 ws os2 HF HW).
    destruct (forallb (fun o => mem o F) (os1 ++ os2) && (is_nil ws || negb (is_nil P))); [|discriminate].
    intros [= <-]. cbn [sn_flags sn_poss sn_verbose sn_color sn_no_color].
    destruct (push_flags_fields os2 (push_words ws (push_flags os1 acc0))) as (A1 & A2 & A3 & A4 & A5 & _).
    destruct (push_words_fields ws (push_flags os1 acc0)) as (B1 & B2 & B3 & B4 & B5).
    destruct (push_flags_fields os1 acc0) as (C1 & C2 & C3 & C4 & C5 & _).
    rewrite A1, A2, A3, A4, A5, B1, B2, B3, B4, B5, C1, C2, C3, C4, C5.
    cbn [acc0 a_verbose a_color a_no_color a_words a_set app]. rewrite app_nil_r.
    split; [|repeat split; reflexivity].
    apply map_ext. intros o. f_equal. apply mem_ext.
    rewrite !in_app_iff, <- !in_rev. tauto.
  - intros nl F w r Hw. unfold mini_sub. fold acc0. rewrite (mini_go_word_step nl F [] w r acc0 Hw).
    reflexivity.
Qed.
