(* C14/Run.v -- entry point of the correspondence check. *)
From Coq Require Import ZArith List Bool.
From AK Require Export Common.Sx Common.Err C14.Model C14.World.
Import ListNotations.
Open Scope Z_scope.

Inductive op :=
| OReg (items : list (str * str))        (* conf.add_new_items(flat dict, src) *)
| ORegNested (items : list (str * cval)) (* a Palette class with SYNTAX_DEFAULTS = items is created on conf *)
| OPalette.                              (* conf.get_palette() *)

(* ColorsConfig(init, no_color=nc) of a class whose BUILT_IN_CONFIG is [builtin]
   (None = the real one), then the operations; after every step
   str(conf.get_color(id)('x')) is observed for every id of [watch]. *)
Inductive case :=
| Case (nc : bool) (init : list (str * cval)) (builtin : option (list (str * cval)))
       (watch : list str) (ops : list op)
(* a session on the module state of a freshly imported ak.color (C14/World.v): user
   Palette classes 1.. (0 is GlobalPalette), API calls; after every call EVERY access
   path is observed: get_color of every configuration object created so far, the
   accessor attributes of every synced palette object, palette[id] of the synced
   GlobalPalette-like ones, and what the call returned *)
| WCase (classes : list pclass) (watch : list str) (ops : list wop).

(* str(fmt('x')) is  ESC[ p1;p2;... m x ESC[0m  (or just x when there are no parameters);
   the observation is the text between "ESC[" and "m" (the harness checks the frame) *)
Definition render (f : fmt) : str := join [59] f.

Definition observe (c : conf) (watch : list str) : sx :=
  SL (map (fun id => sx_str (render (get_color c id))) watch).

Definition sx_err (e : err) : sx := SL [SZ 1; SZ (err_code e)].

Fixpoint run_ops (c : conf) (watch : list str) (ops : list op) : list sx :=
  match ops with
  | [] => []
  | o :: r =>
      match o with
      | OReg items =>
          match add_new_items c items with
          | Ok c' => SL [SZ 0; observe c' watch] :: run_ops c' watch r
          | Err e => [sx_err e]
          end
      | ORegNested items =>
          match add_new_items c (flatten items) with
          | Ok c' => SL [SZ 0; observe c' watch] :: run_ops c' watch r
          | Err e => [sx_err e]
          end
      | OPalette =>
          let (c', snap) := get_palette c in
          SL [SZ 0; SL (map (fun f => sx_str (render f)) snap); observe c' watch] :: run_ops c' watch r
      end
  end.

(* ---- sessions (C14/World.v).  The rendered formatters of a session are interned: the
   output is (table steps) where table is the sorted list of the distinct parameter
   strings that were observed and every formatter is its index in the table. *)
Section Enc.
  Variable enc : fmt -> sx.
  Definition sx_fmts (l : list fmt) : sx := SL (map enc l).
  Definition observe_e (c : conf) (watch : list str) : sx := sx_fmts (map (get_color c) watch).

  Definition observe_spal (w : world) (watch : list str) (sp : spal) : sx :=
    SL [sx_fmts (sp_attrs sp);
        match nth_error (w_classes w) (sp_cls sp), nth_error (w_confs w) (sp_ptr sp) with
        | Some pc, Some wc => if pc_global pc then observe_e (wc_conf wc) watch else SL []
        | _, _ => SL []
        end;
        (* Palette.get_color(accessor name) reads the same store as the attributes
           (GlobalPalette.get_color(id) is the [id] access above) *)
        match nth_error (w_classes w) (sp_cls sp) with
        | Some pc => if pc_global pc then SL [] else sx_fmts (sp_attrs sp)
        | None => SL []
        end].

  (* the index of the global configuration, the colours of every configuration, every
     synced palette, and the list of argument dictionaries that were modified (never any) *)
  Definition observe_world (w : world) (watch : list str) : list sx :=
    [sx_nat (w_global w);
     SL (map (fun wc => observe_e (wc_conf wc) watch) (w_confs w));
     SL (map (observe_spal w watch) (w_synced w));
     SL []].

  Fixpoint run_wops (w : world) (watch : list str) (ops : list wop) : list sx :=
    match ops with
    | [] => []
    | o :: r =>
        match w_step w o with
        | Err e => [sx_err e]
        | Ok (w', (idx, attrs)) =>
            SL (SZ 0 :: sx_nat idx :: sx_fmts attrs :: observe_world w' watch) :: run_wops w' watch r
        end
    end.
End Enc.

(* every formatter the functions above look at *)
Definition spal_fmts (w : world) (watch : list str) (sp : spal) : list fmt :=
  sp_attrs sp ++
  match nth_error (w_classes w) (sp_cls sp), nth_error (w_confs w) (sp_ptr sp) with
  | Some pc, Some wc => if pc_global pc then map (get_color (wc_conf wc)) watch else []
  | _, _ => []
  end.
Definition world_fmts (w : world) (watch : list str) : list fmt :=
  flat_map (fun wc => map (get_color (wc_conf wc)) watch) (w_confs w) ++ flat_map (spal_fmts w watch) (w_synced w).
Fixpoint wops_fmts (w : world) (watch : list str) (ops : list wop) : list fmt :=
  match ops with
  | [] => []
  | o :: r =>
      match w_step w o with
      | Err e => []
      | Ok (w', (idx, attrs)) => attrs ++ world_fmts w' watch ++ wops_fmts w' watch r
      end
  end.

Fixpoint dedupe_sorted (l : list str) : list str :=
  match l with
  | x :: ((y :: _) as r) => if str_eqb x y then dedupe_sorted r else x :: dedupe_sorted r
  | _ => l
  end.
Fixpoint index_of (s : str) (l : list str) (n : nat) : nat :=
  match l with
  | [] => n
  | x :: r => if str_eqb s x then n else index_of s r (S n)
  end.

Definition run_world (classes : list pclass) (watch : list str) (ops : list wop) : sx :=
  match w_init classes with
  | Err e => SL [sx_err e]
  | Ok w0 =>
      let table := dedupe_sorted (sort_strs (map render (world_fmts w0 watch ++ wops_fmts w0 watch ops))) in
      let enc := fun f => sx_nat (index_of (render f) table 0) in
      SL [SL (map sx_str table);
          SL (SL (SZ 0 :: sx_nat 0 :: sx_fmts enc [] :: observe_world enc w0 watch) :: run_wops enc w0 watch ops)]
  end.

Definition run (c : case) : sx :=
  match c with
  | WCase classes watch ops => run_world classes watch ops
  | Case nc init builtin watch ops =>
      match new_conf nc init (match builtin with Some b => b | None => builtin_config end) with
      | Err e => SL [sx_err e]
      | Ok c0 => SL (SL [SZ 0; observe c0 watch] :: run_ops c0 watch ops)
      end
  end.
