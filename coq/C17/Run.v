(* C17/Run.v -- entry point of the correspondence check: a case is a program
   (list of operations); the observation is the list of per-operation results
   (captured Request + the value returned to the caller, or the exception class)
   followed by the final content of every object the caller created. *)
From Coq Require Import ZArith List Bool Uint63.
From AK Require Export Common.Sx Common.Err gen.C17_Consts C17.Codec C17.Model.
Import ListNotations.
Open Scope Z_scope.

Inductive case := Prog (ops : list op).

Definition sx_hval (v : hval) : sx :=
  match v with
  | HStr s => SL [SZ 0; sx_str s]
  | HBytes b => SL [SZ 1; sx_str b]
  | HGenId => SL [SZ 2; SL []]
  end.

Definition sx_adapter (a : adapter) : sx :=
  match a with
  | APrefix p => SL [SZ 0; sx_str p]
  | ABasic l p => SL [SZ 1; sx_str l; sx_str p]
  | AClient n i s => SL [SZ 2; sx_str n; sx_str i; sx_str s]
  | AToken t => SL [SZ 3; sx_str t]
  | ATag k => SL [SZ 4; SZ k]
  end.

Definition sx_body (b : body) : sx :=
  match b with
  | BBytes x => SL [SZ 0; sx_str x]
  | BStr s => SL [SZ 1; sx_str s]
  | BJson d t => SL [SZ 2; sx_str d; sx_bool t]
  end.

Definition sx_kv (kv : str * hval) : sx := SL [sx_str (fst kv); sx_hval (snd kv)].

Definition sx_cell (c : cell) : sx :=
  match c with
  | CAdapters l => SL [SZ 0; sx_list sx_adapter l]
  | CHeaders d => SL [SZ 1; sx_list sx_kv d]
  | CParams p => SL [SZ 2; sx_list (fun kv => SL [sx_str (fst kv); sx_str (snd kv)]) p]
  | CBody b => SL [SZ 3; sx_body b]
  end.

(* canonical order of Request.headers: sorted by key (code points) *)
Fixpoint str_leb (a b : str) : bool :=
  match a, b with
  | [], _ => true
  | _ :: _, [] => false
  | x :: a', y :: b' => if x <? y then true else if y <? x then false else str_leb a' b'
  end.
Fixpoint insert_kv (kv : str * hval) (l : dict) : dict :=
  match l with
  | [] => [kv]
  | x :: r => if str_leb (fst kv) (fst x) then kv :: l else x :: insert_kv kv r
  end.
Definition sort_kv (l : dict) : dict := fold_right insert_kv [] l.

(* a GENERATED request id is HGenId in the model (its value is not compared: the harness masks values of the
   generated shape); an id supplied by the caller is an ordinary header value and is compared *)
Definition canon_kv (kv : str * hval) : str * hval := kv.

(* the value returned to the caller: decoded json (canonical text) / the raw response object, inside the
   marks of the harness's TagAdapters (outermost first).  The '' of an empty body and the '' decoded from
   the body '""' are the same python value: both are written as the json text of that str (only RText []
   occurs: no escaping needed) *)
Fixpoint sx_rval (v : rval) : sx :=
  match v with
  | RText s => SL [SZ 1; sx_str ([34] ++ s ++ [34])]
  | RJson js => SL [SZ 1; sx_str js]
  | RRaw code body => SL [SZ 2; SZ code; sx_str body]
  | RMark k v' => SL [SZ 3; SZ k; sx_rval v']
  end.

Definition sx_captured (c : captured) (v : rval) : sx :=
  SL [sx_str (q_url c); sx_str (q_method c);
      sx_list sx_kv (sort_kv (map canon_kv (q_headers c)));
      sx_option sx_str (q_data c);
      sx_list SZ (q_resp c);
      sx_rval v].

Definition sx_obsv (o : obsv) : sx :=
  match o with OUnit => SL [] | OReq c v => sx_captured c v end.

Definition run_full (c : case) : sx :=
  match c with
  | Prog ops =>
      let '(st, obs) := run_ops init ops in
      SL [sx_list (sx_res sx_obsv) obs;
          sx_list (fun r => sx_option sx_cell (hget (heap_of st) r)) (cobjs st)]
  end.

(* The full observation of a program is some 5 kB of text; what is printed and
   compared is a digest (63-bit hashes of the canonical encoding; printing long
   strings overflows coqc's stack).  The same hash is computed by
   harness/props/c17.py (sx_hash) on the implementation's observation. *)
Open Scope uint63_scope.
Fixpoint hash_sx (s : sx) : int :=
  match s with
  | SZ z => of_Z z * 1000003 + 12345
  | SL l =>
      let fix go (l : list sx) (acc : int) : int :=
        match l with
        | [] => acc
        | x :: r => go r (acc * 6364136223846793005 + hash_sx x)
        end in
      go l 1442695040888963407 * 31 + 7
  end.
Close Scope uint63_scope.

Definition digest (s : sx) : sx := SZ (to_Z (hash_sx s)).

Definition is_err (r : res obsv) : bool := match r with Err _ => true | Ok _ => false end.

(* one short line per program: hash of the per-operation part, hash of the
   final caller objects, number of operations that raised *)
Definition run (c : case) : sx :=
  match c with
  | Prog ops =>
      let '(st, obs) := run_ops init ops in
      SL [digest (sx_list (fun r => match r with
                            | Ok OUnit => SZ 0
                            | Ok (OReq q v) => digest (sx_captured q v)
                            | Err e => SL [SZ (err_code e)]
                            end) obs);
          digest (sx_list (fun r => sx_option sx_cell (hget (heap_of st) r)) (cobjs st));
          sx_nat (length (filter is_err obs))]
  end.
