(* C01/FactSmart1.v -- the 'smart' undo pass of _factorize_productions (LLP/Factor.v
   smart_pass): closed form of one step, grammar update facts, order of processing. *)
From Coq Require Import ZArith List Bool Lia Permutation Sorted.
From AK Require Import Common.Err LLP.Base LLP.Factor C01.Basics C01.Spec C01.FactExp C01.FactProps C01.FactAll.
Import ListNotations.
Local Open Scope nat_scope.

(* ---------------- gupdate / gremove ---------------- *)
Lemma gupdate_keys : forall (g : grammar) s v, gkeys (gupdate g s v) = gkeys g.
Proof.
  induction g as [|[k w] g IH]; intros s v; [reflexivity|].
  cbn [gupdate]. destruct (sym_eqb k s); unfold gkeys in *; cbn; [reflexivity|]. now rewrite IH.
Qed.

Lemma gupdate_In : forall (g : grammar) s v k w, NoDup (gkeys g) ->
  (In (k, w) (gupdate g s v) <-> (k <> s /\ In (k, w) g) \/ (k = s /\ w = v /\ In s (gkeys g))).
Proof.
  induction g as [|[k0 w0] g IH]; intros s v k w Hnd.
  - cbn. split; [intros []|intros [[_ []]|[_ [_ []]]]].
  - cbn [gkeys map fst] in Hnd. inversion Hnd as [|? ? Hn Hnd']; subst.
    cbn [gupdate]. destruct (sym_eqb k0 s) eqn:E.
    + apply sym_eqb_eq in E. subst k0. cbn [In]. split.
      * intros [H|H].
        -- injection H as <- <-. right. repeat split. now left.
        -- left. split; [|now right]. intros ->. apply Hn. change s with (fst (s, w)). now apply in_map.
      * intros [[Hk [H|H]]|[-> [-> _]]].
        -- injection H as -> ->. contradiction.
        -- now right.
        -- now left.
    + apply sym_eqb_neq in E. cbn [In]. rewrite (IH s v k w Hnd'). split.
      * intros [H|[[Hk H]|[-> [-> H]]]].
        -- injection H as <- <-. left. split; [assumption|now left].
        -- left. split; [assumption|now right].
        -- right. repeat split. now right.
      * intros [[Hk [H|H]]|[-> [-> H]]].
        -- now left.
        -- right. left. now split.
        -- right. right. repeat split. destruct H as [H|H]; [cbn in H; congruence|assumption].
Qed.

Lemma gupdate_grules_other : forall (g : grammar) s v x, x <> s -> grules (gupdate g s v) x = grules g x.
Proof.
  induction g as [|[k w] g IH]; intros s v x Hx; [reflexivity|].
  cbn [gupdate]. destruct (sym_eqb k s) eqn:E.
  - apply sym_eqb_eq in E. subst k. unfold grules. cbn [glookup].
    destruct (sym_eqb s x) eqn:E'; [apply sym_eqb_eq in E'; congruence|reflexivity].
  - unfold grules in *. cbn [glookup]. destruct (sym_eqb k x); [reflexivity|]. now apply IH.
Qed.

Lemma gupdate_grules_same : forall (g : grammar) s v, In s (gkeys g) -> grules (gupdate g s v) s = v.
Proof.
  induction g as [|[k w] g IH]; intros s v Hs; [contradiction|].
  cbn [gupdate]. destruct (sym_eqb k s) eqn:E.
  - unfold grules. cbn [glookup]. now rewrite E.
  - unfold grules in *. cbn [glookup]. rewrite E. apply IH.
    destruct Hs as [Hs|Hs]; [cbn in Hs; subst; rewrite sym_eqb_refl in E; discriminate|assumption].
Qed.

Lemma gremove_In : forall (g : grammar) rem k v, In (k, v) (gremove g rem) <-> In (k, v) g /\ mem k rem = false.
Proof.
  intros g rem k v. unfold gremove. rewrite filter_In. cbn [fst]. rewrite negb_true_iff. tauto.
Qed.

Lemma gremove_keys : forall (g : grammar) rem, gkeys (gremove g rem) = filter (fun k => negb (mem k rem)) (gkeys g).
Proof. intros. unfold gremove, gkeys. apply (map_fst_filter g (fun k => negb (mem k rem))). Qed.

Lemma gremove_grules : forall (g : grammar) rem x, mem x rem = false -> grules (gremove g rem) x = grules g x.
Proof.
  induction g as [|[k w] g IH]; intros rem x Hx; [reflexivity|].
  unfold gremove in *. cbn [filter fst]. destruct (mem k rem) eqn:Ek; cbn [negb].
  - unfold grules in *. cbn [glookup]. destruct (sym_eqb k x) eqn:E.
    + apply sym_eqb_eq in E. congruence.
    + now apply IH.
  - unfold grules in *. cbn [glookup]. destruct (sym_eqb k x); [reflexivity|]. now apply IH.
Qed.

(* ---------------- one step on the rules of one symbol ---------------- *)
Section Step.
  Variables (terminals SS : list sym).

  (* the rule [a; b] is to be replaced by  a :: (each production of b) *)
  Definition inl_of (g : grammar) (r : rule) : option (sym * sym) :=
    match rprod r with
    | [a; b] => if mem a terminals && mem b SS && (length (grules g b) <=? 5) then Some (a, b) else None
    | _ => None
    end.

  Definition new_of (g : grammar) (r : rule) : list newrule :=
    match inl_of g r with
    | Some (a, b) => map (fun sr => Inl (a :: rprod sr)) (grules g b)
    | None => [Keep r]
    end.
  Definition rem_of (g : grammar) (r : rule) : list sym :=
    match inl_of g r with Some (_, b) => [b] | None => [] end.
  Definition newprods_of (g : grammar) (r : rule) : list (list sym) :=
    match inl_of g r with
    | Some (a, b) => map (fun sr => a :: rprod sr) (grules g b)
    | None => [rprod r]
    end.

  Lemma smart_rules_acc : forall g rr acc rem,
    fold_left (fun '(acc, rem) r =>
      match rprod r with
      | [a; b] =>
          if mem a terminals && mem b SS && (length (grules g b) <=? 5)%nat
          then (acc ++ map (fun sr => Inl (a :: rprod sr)) (grules g b), rem ++ [b])
          else (acc ++ [Keep r], rem)
      | _ => (acc ++ [Keep r], rem)
      end) rr (acc, rem) = (acc ++ flat_map (new_of g) rr, rem ++ flat_map (rem_of g) rr).
  Proof.
    intros g. induction rr as [|r rr IH]; intros acc rem; cbn [fold_left flat_map].
    - now rewrite !app_nil_r.
    - unfold new_of at 1, rem_of at 1, inl_of.
      destruct (rprod r) as [|a [|b [|c l]]]; try (rewrite IH, <- !app_assoc; reflexivity).
      destruct (mem a terminals && mem b SS && (length (grules g b) <=? 5)); rewrite IH, <- !app_assoc; reflexivity.
  Qed.

  Lemma smart_rules_closed : forall g rr,
    smart_rules g terminals SS rr = (flat_map (new_of g) rr, flat_map (rem_of g) rr).
  Proof. intros. unfold smart_rules. now rewrite smart_rules_acc. Qed.

  Definition prod_of (x : newrule) : list sym := match x with Keep r => rprod r | Inl p => p end.

  Lemma renumber_prods : forall s l i, map rprod (renumber s l i) = map prod_of l.
  Proof.
    intros s. induction l as [|x l IH]; intros i; [reflexivity|].
    destruct x; cbn [renumber map prod_of rprod]; now rewrite IH.
  Qed.

  Lemma new_of_prods : forall g r, map prod_of (new_of g r) = newprods_of g r.
  Proof.
    intros g r. unfold new_of, newprods_of. destruct (inl_of g r) as [[a b]|]; [|reflexivity].
    rewrite map_map. reflexivity.
  Qed.

  Lemma flat_new_prods : forall g rr, map prod_of (flat_map (new_of g) rr) = flat_map (newprods_of g) rr.
  Proof.
    intros g. induction rr as [|r rr IH]; [reflexivity|]. cbn [flat_map]. now rewrite map_app, new_of_prods, IH.
  Qed.

  Lemma inl_of_Some : forall g r a b, inl_of g r = Some (a, b) ->
    rprod r = [a; b] /\ mem b SS = true /\ length (grules g b) <= 5.
  Proof.
    intros g r a b H. unfold inl_of in H. destruct (rprod r) as [|a' [|b' [|c l]]]; try discriminate.
    destruct (mem a' terminals && mem b' SS && (length (grules g b') <=? 5)) eqn:E; [|discriminate].
    injection H as -> ->. apply andb_true_iff in E as [E E3]. apply andb_true_iff in E as [E1 E2].
    apply Nat.leb_le in E3. auto.
  Qed.

  (* the state transformer of the outer loop *)
  Definition sstep : grammar * list sym -> sym -> grammar * list sym :=
    fun '(g, rem) s =>
    let rr := grules g s in
    let '(nr, rem') := smart_rules g terminals SS rr in
    if (length rr =? length nr)%nat then (g, rem ++ rem')
    else (gupdate g s (renumber s nr 0), rem ++ rem').

  Lemma smart_pass_eq : forall g,
    smart_pass g terminals SS =
    let '(g', rem) := fold_left sstep (sort_by_len_desc (gkeys g)) (g, []) in
    (gremove g' rem, filter (fun s => negb (mem s rem)) SS).
  Proof. reflexivity. Qed.
End Step.

(* ---------------- order of processing: longest names first ---------------- *)
Definition len_ge (a b : sym) : Prop := length b <= length a.

Lemma insert_by_len_In : forall k l x, In x (insert_by_len k l) <-> x = k \/ In x l.
Proof.
  intros k. induction l as [|y l IH]; intros x; cbn [insert_by_len].
  - cbn. intuition.
  - destruct (length y <? length k); cbn [In]; [intuition|]. rewrite IH. intuition.
Qed.

Lemma insert_by_len_sorted : forall k l, StronglySorted len_ge l -> StronglySorted len_ge (insert_by_len k l).
Proof.
  intros k. induction l as [|y l IH]; intros H; cbn [insert_by_len].
  - repeat constructor.
  - inversion H as [|? ? Hs Hall]; subst. destruct (length y <? length k) eqn:E.
    + apply Nat.ltb_lt in E. constructor; [assumption|]. constructor.
      * unfold len_ge. lia.
      * rewrite Forall_forall in *. intros z Hz. specialize (Hall z Hz). unfold len_ge in *. lia.
    + apply Nat.ltb_ge in E. constructor; [now apply IH|].
      rewrite Forall_forall in *. intros z Hz. apply insert_by_len_In in Hz as [->|Hz]; [exact E|now apply Hall].
Qed.

Lemma sort_by_len_desc_sorted : forall l, StronglySorted len_ge (sort_by_len_desc l).
Proof.
  intros l. unfold sort_by_len_desc.
  assert (H : forall l acc, StronglySorted len_ge acc -> StronglySorted len_ge (fold_left (fun acc k => insert_by_len k acc) l acc)).
  { induction l0 as [|k l0 IH]; intros acc Ha; cbn [fold_left]; [assumption|]. apply IH. now apply insert_by_len_sorted. }
  apply H. constructor.
Qed.
