(* C10/Lemmas.v -- proofs about the world model of Model.v, part 1:
   association lists, what a registration does to one configuration
   (cache_reset at the level of a configuration), equations that cut the big
   model functions (register, class_call) into small steps, and the "move"
   relation: every model function changes the world by a sequence of a few
   primitive moves.  The invariants (LemmasInv.v) are proved once per move. *)
From Coq Require Import ZArith List Bool Lia.
From AK Require Import Common.Sx Common.Err C10.Sgr C10.SgrLemmas C10.Base gen.C10_Consts C10.Model.
Import ListNotations.
Open Scope Z_scope.

(* ------------------------------------------------------------------ *)
(* obligations on what was read from the source                         *)

(* ppobj.py PPEnumFieldType.make_desired_cell_ch_chunks: cache_key = field_palette *)
Lemma enum_key_object : enum_key_is_object = true.
Proof. reflexivity. Qed.

(* color.py ColorsConfig.add_new_items: a new syntax id empties self._cache *)
Lemma reset_on_new : reset_cache_on_new = true.
Proof. reflexivity. Qed.

(* ppobj.py PPEnumFieldType: below the palette the cell / length caches are indexed with
   _val_cache_key(value) = (type(value), str(value), value) -- one entry per literal (fix of
   enum-cache-equal-keys); Model.render_item looks the cell up by the literal *)
Lemma val_key_literal : enum_val_key_literal = true.
Proof. reflexivity. Qed.

(* hdoc.py HCommand / LLImpl: the palette is looked up when it is used (fix of hdoc-captured-palette);
   console help is a Render under the global configuration in the model *)
Lemma help_at_call : help_palette_at_call = true.
Proof. reflexivity. Qed.

(* ------------------------------------------------------------------ *)
(* association lists                                                    *)

Lemma zfind_zdel_ne {A} k k' (l : list (Z * A)) : k <> k' -> zfind k (zdel k' l) = zfind k l.
Proof.
  intros H. induction l as [|[a v] l IH]; [reflexivity|].
  cbn [zdel filter fst]. destruct (Z.eqb_spec a k') as [->|Hn]; cbn [negb zfind].
  - destruct (Z.eqb_spec k' k); [congruence|]. exact IH.
  - destruct (a =? k); [reflexivity|exact IH].
Qed.

Lemma zfind_In {A} k (l : list (Z * A)) v : zfind k l = Some v -> In (k, v) l.
Proof.
  induction l as [|[a x] l IH]; [discriminate|]. cbn [zfind].
  destruct (Z.eqb_spec a k) as [->|_]; [intros [= ->]; left; reflexivity|intros H; right; auto].
Qed.

Lemma zfind_none_notin {A} k (l : list (Z * A)) v : zfind k l = None -> ~ In (k, v) l.
Proof.
  induction l as [|[a x] l IH]; [intros _ []|]. cbn [zfind].
  destruct (Z.eqb_spec a k) as [->|Hn]; [discriminate|].
  intros H [E|Hin]; [injection E as -> _; congruence|exact (IH H Hin)].
Qed.

Lemma zfind_none_zdel {A} k (l : list (Z * A)) : zfind k l = None -> zdel k l = l.
Proof.
  induction l as [|[a x] l IH]; [reflexivity|]. cbn [zfind zdel filter fst].
  destruct (Z.eqb_spec a k) as [->|Hn]; [discriminate|]. cbn [negb]. intros H.
  f_equal. exact (IH H).
Qed.

Lemma In_zdel {A} k k' (v : A) l : In (k, v) (zdel k' l) <-> In (k, v) l /\ k <> k'.
Proof.
  unfold zdel. rewrite filter_In. cbn [fst]. destruct (Z.eqb_spec k k'); cbn [negb]; intuition congruence.
Qed.

Lemma zdel_idem {A} k (l : list (Z * A)) : zdel k (zdel k l) = zdel k l.
Proof.
  induction l as [|[a x] l IH]; [reflexivity|]. cbn [zdel filter fst].
  destruct (Z.eqb_spec a k) as [->|Hn]; cbn [negb]; [exact IH|].
  cbn [filter fst]. destruct (Z.eqb_spec a k); [congruence|]. cbn [negb]. f_equal. exact IH.
Qed.

Lemma zmem_In k l : zmem k l = false -> ~ In k l.
Proof.
  unfold zmem. intros H Hin. assert (existsb (Z.eqb k) l = true) as E.
  { apply existsb_exists. exists k. split; [exact Hin|apply Z.eqb_refl]. }
  congruence.
Qed.

Lemma zfind_app_some {A} k (l x : list (Z * A)) v : zfind k l = Some v -> zfind k (l ++ x) = Some v.
Proof.
  induction l as [|[a y] l IH]; [discriminate|]. cbn [zfind app].
  destruct (a =? k); [auto|exact IH].
Qed.

(* ------------------------------------------------------------------ *)
(* one configuration: what registrations do                             *)

(* named colours only: the colour description language of the model *)
Definition descr_ok (d : descr) : Prop :=
  match d_fg d with FCol n => 0 <= n <= 7 | _ => True end.
Definition smap_ok (m : list (synt * descr)) : Prop := Forall (fun it => descr_ok (snd it)) m.

Definition descr_okb (d : descr) : bool :=
  match d_fg d with FCol n => (0 <=? n) && (n <=? 7) | _ => true end.

Lemma descr_okb_ok d : descr_okb d = true -> descr_ok d.
Proof.
  unfold descr_okb, descr_ok. destruct (d_fg d); auto. intros H. apply andb_prop in H as [A B].
  apply Z.leb_le in A. apply Z.leb_le in B. lia.
Qed.

Lemma smap_okb_ok m : forallb (fun it => descr_okb (snd it)) m = true -> smap_ok m.
Proof.
  intros H. apply Forall_forall. intros it Hin. apply descr_okb_ok.
  rewrite forallb_forall in H. exact (H it Hin).
Qed.

(* a step of a configuration: its no_color flag stays, the syntax map is only
   extended, and whenever the map changes the palette cache is empty *)
Definition conf_step (cf cf' : conf) : Prop :=
  c_nocolor cf' = c_nocolor cf /\
  ((exists x, c_smap cf' = c_smap cf ++ x) /\ incl (c_reg cf) (c_reg cf')) /\
  (smap_ok (c_smap cf) -> smap_ok (c_smap cf')) /\
  ((c_smap cf' = c_smap cf /\ c_cache cf' = c_cache cf) \/ c_cache cf' = []).

Lemma conf_step_refl cf : conf_step cf cf.
Proof. repeat split; auto; [exists []; symmetry; apply app_nil_r|apply incl_refl]. Qed.

Lemma conf_step_trans a b c : conf_step a b -> conf_step b c -> conf_step a c.
Proof.
  intros (N1 & ((x1 & X1) & R1) & O1 & C1) (N2 & ((x2 & X2) & R2) & O2 & C2).
  split; [|split; [split|split]].
  - congruence.
  - exists (x1 ++ x2). rewrite X2, X1. symmetry. apply app_assoc.
  - eapply incl_tran; eassumption.
  - auto.
  - destruct C2 as [[S2 K2]|K2]; [|right; exact K2].
    destruct C1 as [[S1 K1]|K1]; [left; split; congruence|right; congruence].
Qed.

Lemma conf_step_fields cf r h : incl (c_reg cf) r -> conf_step cf (mkConf (c_nocolor cf) (c_smap cf) r (c_cache cf) h).
Proof. intros Hr. repeat split; auto. exists []. symmetry. apply app_nil_r. Qed.

Lemma add_raw_step cf items : smap_ok items -> conf_step cf (fst (add_raw cf items)).
Proof.
  intros Hit. unfold add_raw.
  destruct (filter (fun it => negb (zhas (fst it) (c_smap cf))) items) as [|x r] eqn:E; cbn [fst].
  - apply conf_step_refl.
  - rewrite <- E. split; [reflexivity|]. split; [split|split]; cbn [c_nocolor c_smap c_cache c_reg].
    + eexists. reflexivity.
    + apply incl_refl.
    + intros H. apply Forall_app. split; [exact H|]. apply Forall_forall. intros it Hin.
      apply filter_In in Hin as [Hin _]. unfold smap_ok in Hit. rewrite Forall_forall in Hit. exact (Hit it Hin).
    + right. reflexivity.   (* computes with reset_cache_on_new = true (reset_on_new) *)
Qed.

(* snd (add_raw ..) = false: nothing at all changed *)
Lemma add_raw_false cf items : snd (add_raw cf items) = false -> fst (add_raw cf items) = cf.
Proof. unfold add_raw. destruct (filter _ items); cbn [fst snd]; [reflexivity|discriminate]. Qed.

(* the class table read from the source only uses named colours *)
Lemma class_defaults_ok K d : k_defaults (cinfo K) = Some d -> smap_ok d.
Proof.
  assert (forallb (fun Ki => match k_defaults (snd Ki) with
                             | Some d => forallb (fun it => descr_okb (snd it)) d | None => true end) class_table = true)
    as H by (vm_compute; reflexivity).
  unfold cinfo. destruct (zfind K class_table) as [i|] eqn:E; [|discriminate].
  intros Hd. apply zfind_In in E. rewrite forallb_forall in H. specialize (H _ E). cbn [snd] in H.
  rewrite Hd in H. apply smap_okb_ok. exact H.
Qed.

Lemma builtin_ok : smap_ok builtin_config.
Proof. apply smap_okb_ok. vm_compute. reflexivity. Qed.

(* Palette.register_in_colors_conf *)
Lemma register_raw_step fuel : forall cf K, conf_step cf (fst (register_raw fuel cf K)).
Proof.
  induction fuel as [|f IH]; intros cf K; cbn [register_raw]; [apply conf_step_refl|].
  destruct (zmem K (c_reg cf)); [apply conf_step_refl|].
  set (stepf := fun (st : conf * bool) (P : Z) => let r := register_raw f (fst st) P in (fst r, snd st || snd r)).
  assert (forall ps st, conf_step cf (fst st) -> conf_step cf (fst (fold_left stepf ps st))) as Hfold.
  { induction ps as [|P ps IHp]; intros st Hst; [exact Hst|]. cbn [fold_left]. apply IHp.
    unfold stepf. cbn zeta. cbn [fst]. eapply conf_step_trans; [exact Hst|apply IH]. }
  specialize (Hfold (k_parents (cinfo K)) (cf, false) (conf_step_refl cf)).
  remember (fold_left stepf (k_parents (cinfo K)) (cf, false)) as st1 eqn:E1. clear E1.
  destruct (k_defaults (cinfo K)) as [d|] eqn:Ed; [|exact Hfold].
  cbn zeta. cbn [fst]. eapply conf_step_trans; [exact Hfold|].
  eapply conf_step_trans; [apply (conf_step_fields (fst st1) (K :: c_reg (fst st1)) (c_held (fst st1))); apply incl_tl; apply incl_refl|].
  apply add_raw_step. exact (class_defaults_ok K d Ed).
Qed.

(* ---- registering a class twice: the second time nothing is new, whatever
   was registered in between ---- *)
Definition conf_ext (a b : conf) : Prop :=
  (exists x, c_smap b = c_smap a ++ x) /\ incl (c_reg a) (c_reg b).

Lemma conf_ext_refl a : conf_ext a a.
Proof. split; [exists []; symmetry; apply app_nil_r|apply incl_refl]. Qed.

Lemma conf_ext_trans a b c : conf_ext a b -> conf_ext b c -> conf_ext a c.
Proof.
  intros [(x1 & X1) R1] [(x2 & X2) R2]. split; [|eapply incl_tran; eassumption].
  exists (x1 ++ x2). rewrite X2, X1. symmetry. apply app_assoc.
Qed.

Lemma conf_step_ext a b : conf_step a b -> conf_ext a b.
Proof. intros (_ & H & _). exact H. Qed.

Lemma conf_ext_same a b b' : conf_ext a b -> c_smap b' = c_smap b -> incl (c_reg b) (c_reg b') -> conf_ext a b'.
Proof. intros [(x & X) R] E I. split; [exists x; congruence|eapply incl_tran; eassumption]. Qed.

Lemma zhas_app {A} k (l x : list (Z * A)) : zhas k l = true -> zhas k (l ++ x) = true.
Proof.
  unfold zhas. destruct (zfind k l) as [v|] eqn:E; [|discriminate]. intros _.
  rewrite (zfind_app_some _ _ x _ E). reflexivity.
Qed.

Lemma zhas_In {A} k (v : A) l : In (k, v) l -> zhas k l = true.
Proof.
  unfold zhas. induction l as [|[a y] l IH]; [intros []|]. cbn [zfind]. intros [E|H].
  - injection E as -> _. rewrite Z.eqb_refl. reflexivity.
  - destruct (a =? k); [reflexivity|exact (IH H)].
Qed.

Lemma zhas_app_r {A} k (l x : list (Z * A)) : zhas k x = true -> zhas k (l ++ x) = true.
Proof.
  unfold zhas. induction l as [|[a y] l IH]; [auto|]. cbn [app zfind]. intros H.
  destruct (a =? k); [reflexivity|exact (IH H)].
Qed.

Lemma add_raw_has cf items it : In it items -> zhas (fst it) (c_smap (fst (add_raw cf items))) = true.
Proof.
  intros Hin. unfold add_raw.
  destruct (zhas (fst it) (c_smap cf)) eqn:Eh.
  - destruct (filter _ items); cbn [fst c_smap]; [exact Eh|apply zhas_app; exact Eh].
  - assert (In it (filter (fun it => negb (zhas (fst it) (c_smap cf))) items)) as Hf.
    { apply filter_In. split; [exact Hin|]. rewrite Eh. reflexivity. }
    destruct (filter (fun it => negb (zhas (fst it) (c_smap cf))) items) as [|x r] eqn:E; [destruct Hf|].
    cbn [fst c_smap]. apply zhas_app_r. destruct it as [k v]. eapply zhas_In. exact Hf.
Qed.

Lemma add_raw_noop cf items :
  (forall it, In it items -> zhas (fst it) (c_smap cf) = true) -> add_raw cf items = (cf, false).
Proof.
  intros H. unfold add_raw.
  destruct (filter (fun it => negb (zhas (fst it) (c_smap cf))) items) as [|x r] eqn:E; [reflexivity|].
  assert (In x (x :: r)) as Hx by (left; reflexivity). rewrite <- E in Hx.
  apply filter_In in Hx as [Hx Hn]. rewrite (H x Hx) in Hn. discriminate.
Qed.

Lemma zmem_true k l : zmem k l = true <-> In k l.
Proof.
  unfold zmem. rewrite existsb_exists. split.
  - intros (x & Hx & E). apply Z.eqb_eq in E. subst x. exact Hx.
  - intros H. exists k. split; [exact H|apply Z.eqb_refl].
Qed.

Definition reg_fold (f : nat) (st : conf * bool) (P : Z) : conf * bool :=
  let r := register_raw f (fst st) P in (fst r, snd st || snd r).

Lemma reg_fold_step f ps : forall st, conf_step (fst st) (fst (fold_left (reg_fold f) ps st)).
Proof.
  induction ps as [|P ps IHp]; intros st; [apply conf_step_refl|]. cbn [fold_left].
  eapply conf_step_trans; [|apply IHp]. unfold reg_fold. cbn zeta. cbn [fst]. apply register_raw_step.
Qed.

Lemma register_settles f : forall cf K cf2,
  conf_ext (fst (register_raw f cf K)) cf2 -> c_smap (fst (register_raw f cf2 K)) = c_smap cf2.
Proof.
  induction f as [|f IH]; intros cf K cf2 Hext; [reflexivity|].
  cbn [register_raw] in *.
  destruct (zmem K (c_reg cf2)) eqn:E2; [reflexivity|].
  destruct (zmem K (c_reg cf)) eqn:E1.
  { exfalso. apply zmem_true in E1. destruct Hext as [_ R]. apply R in E1. apply zmem_true in E1. congruence. }
  fold (reg_fold f) in *.
  assert (forall ps s0 t0, conf_ext (fst (fold_left (reg_fold f) ps s0)) (fst t0) ->
                           c_smap (fst (fold_left (reg_fold f) ps t0)) = c_smap (fst t0)) as Hfold.
  { induction ps as [|P ps IHp]; intros s0 t0 He; [reflexivity|]. cbn [fold_left] in *.
    assert (conf_ext (fst (reg_fold f s0 P)) (fst t0)) as H1.
    { eapply conf_ext_trans; [|exact He]. apply conf_step_ext. apply reg_fold_step. }
    unfold reg_fold at 1 in H1. cbn zeta in H1. cbn [fst] in H1.
    pose proof (IH _ _ _ H1) as Es.
    assert (conf_ext (fst (fold_left (reg_fold f) ps (reg_fold f s0 P))) (fst (reg_fold f t0 P))) as H2.
    { eapply conf_ext_same; [exact He| |].
      - unfold reg_fold. cbn zeta. cbn [fst]. exact Es.
      - unfold reg_fold. cbn zeta. cbn [fst]. apply (conf_step_ext _ _ (register_raw_step f (fst t0) P)). }
    rewrite (IHp _ _ H2). unfold reg_fold. cbn zeta. cbn [fst]. exact Es. }
  remember (fold_left (reg_fold f) (k_parents (cinfo K)) (cf, false)) as s1 eqn:Es1.
  destruct (k_defaults (cinfo K)) as [d|] eqn:Ed.
  - cbn zeta in *. cbn [fst] in *.
    remember (mkConf (c_nocolor (fst s1)) (c_smap (fst s1)) (K :: c_reg (fst s1)) (c_cache (fst s1)) (c_held (fst s1))) as sa eqn:Esa.
    assert (conf_ext (fst s1) cf2) as H1.
    { eapply conf_ext_trans; [|exact Hext]. eapply conf_ext_trans; [|apply conf_step_ext; apply add_raw_step; exact (class_defaults_ok K d Ed)].
      subst sa. split; cbn [c_smap c_reg]; [exists []; symmetry; apply app_nil_r|apply incl_tl; apply incl_refl]. }
    subst s1. pose proof (Hfold _ (cf, false) (cf2, false) H1) as Et. cbn [fst] in Et.
    remember (fold_left (reg_fold f) (k_parents (cinfo K)) (cf2, false)) as t1 eqn:Et1.
    rewrite add_raw_noop; [cbn [fst c_smap]; exact Et|].
    intros it Hit. cbn [c_smap]. rewrite Et.
    pose proof (add_raw_has sa d it Hit) as Hh. destruct Hext as [(x & X) _]. rewrite X. apply zhas_app. exact Hh.
  - subst s1. exact (Hfold _ (cf, false) (cf2, false) Hext).
Qed.

(* registered for good: registering K again changes nothing in the syntax map,
   now and after any further registrations *)
Definition settled (cf : conf) (K : cls) : Prop :=
  forall cf2, conf_ext cf cf2 -> c_smap (fst (register_raw reg_fuel cf2 K)) = c_smap cf2.

Lemma settled_after_register cf K : settled (fst (register_raw reg_fuel cf K)) K.
Proof. intros cf2 H. eapply register_settles. exact H. Qed.

Lemma settled_ext cf cf' K : settled cf K -> conf_ext cf cf' -> settled cf' K.
Proof. intros H E cf2 E2. apply H. eapply conf_ext_trans; eassumption. Qed.

(* cache_reset, one configuration: after register_in_colors_conf either the
   syntax map and the palette cache are what they were, or the cache is empty *)
Lemma register_raw_reset fuel cf K :
  (c_smap (fst (register_raw fuel cf K)) = c_smap cf /\ c_cache (fst (register_raw fuel cf K)) = c_cache cf)
  \/ c_cache (fst (register_raw fuel cf K)) = [].
Proof. destruct (register_raw_step fuel cf K) as (_ & _ & _ & H). exact H. Qed.

Lemma add_raw_reset cf items :
  (c_smap (fst (add_raw cf items)) = c_smap cf /\ c_cache (fst (add_raw cf items)) = c_cache cf)
  \/ c_cache (fst (add_raw cf items)) = [].
Proof.
  unfold add_raw. destruct (filter _ items); cbn [fst c_smap c_cache]; [left; split; reflexivity|right; reflexivity].
Qed.

(* ------------------------------------------------------------------ *)
(* reading and writing the world                                        *)

Lemma conf_of_put_eq w c cf : conf_of (put_conf w c cf) c = cf.
Proof. unfold conf_of, put_conf. cbn [w_confs set_confs zfind]. rewrite Z.eqb_refl. reflexivity. Qed.

Lemma conf_of_put_ne w c cf c' : c' <> c -> conf_of (put_conf w c cf) c' = conf_of w c'.
Proof.
  intros H. unfold conf_of, put_conf. cbn [w_confs set_confs zfind].
  destruct (Z.eqb_spec c c'); [congruence|]. rewrite zfind_zdel_ne by exact H. reflexivity.
Qed.

Lemma pal_of_put_ne w p o e : e <> p -> pal_of (put_pal w p o) e = pal_of w e.
Proof.
  intros H. unfold pal_of, put_pal. cbn [w_heap set_heap zfind].
  destruct (Z.eqb_spec p e); [congruence|]. rewrite zfind_zdel_ne by exact H. reflexivity.
Qed.

Lemma pal_of_put_eq w p o : pal_of (put_pal w p o) p = o.
Proof. unfold pal_of, put_pal. cbn [w_heap set_heap zfind]. rewrite Z.eqb_refl. reflexivity. Qed.

Lemma put_conf_twice w c cf cf' : put_conf (put_conf w c cf) c cf' = put_conf w c cf'.
Proof.
  unfold put_conf. cbn [w_confs set_confs w_heap w_slots w_global w_synced w_enums w_hcmds w_stack w_oracle w_nextc].
  cbn [zdel filter fst]. rewrite Z.eqb_refl. cbn [negb]. fold (zdel c (zdel c (w_confs w))). rewrite zdel_idem. reflexivity.
Qed.

(* with no palette synced with the global configuration, the hook of
   add_new_items (color.py:1198-1201) changes nothing *)
Lemma resync_nosync w c cf : w_synced w = [] -> is_global (put_conf w c cf) c = true ->
  resync (put_conf w c cf) = put_conf w c cf.
Proof.
  intros Hs Hg. unfold resync. unfold is_global in Hg.
  destruct (w_global (put_conf w c cf)) as [g|]; [|reflexivity].
  apply Z.eqb_eq in Hg. subst g.
  change (w_synced (put_conf w c cf)) with (w_synced w). rewrite Hs. cbn [fold_left].
  rewrite conf_of_put_eq. apply put_conf_twice.
Qed.

Lemma register_eq w c K : w_synced w = [] ->
  register w c K = put_conf w c (fst (register_raw reg_fuel (conf_of w c) K)).
Proof.
  intros Hs. unfold register. remember (register_raw reg_fuel (conf_of w c) K) as r eqn:Er. clear Er.
  destruct (snd r); cbn [andb]; [|reflexivity].
  destruct (is_global (put_conf w c (fst r)) c) eqn:Eg; [|reflexivity].
  apply resync_nosync; assumption.
Qed.

Lemma add_items_eq w c items : w_synced w = [] ->
  add_items w c items = put_conf w c (fst (add_raw (conf_of w c) items)).
Proof.
  intros Hs. unfold add_items. remember (add_raw (conf_of w c) items) as r eqn:Er. clear Er.
  destruct (snd r); cbn [andb]; [|reflexivity].
  destruct (is_global (put_conf w c (fst r)) c) eqn:Eg; [|reflexivity].
  apply resync_nosync; assumption.
Qed.

(* ------------------------------------------------------------------ *)
(* _PaletteMeta.__call__ cut into steps                                 *)

Definition cc_pre (w : world) (copt : option cid) : world * cid :=
  match copt with Some c => (w, c) | None => get_global w end.

Definition cache_put (cf : conf) (K : cls) (p : pid) : conf :=
  mkConf (c_nocolor cf) (c_smap cf) (c_reg cf) ((K, p) :: zdel K (c_cache cf)) (c_held cf).

Definition cc_store (w5 : world) (c : cid) (nocolor : bool) (K : cls) (p : pid) : world :=
  if nocolor then set_slots w5 ((K, p) :: w_slots w5)
  else put_conf w5 c (cache_put (conf_of w5 c) K p).

Definition new_pal (w : world) (c : cid) (nocolor : bool) (K : cls) : pal :=
  mkPal K (local_colors (conf_of w c) K nocolor) c nocolor [].

Definition cc_new (keyobj : bool) (w3 : world) (c : cid) (nocolor : bool) (K : cls) : res (world * pid) :=
  match alloc keyobj w3 with
  | Err e => Err e
  | Ok (w4, p) => Ok (cc_store (put_pal w4 p (new_pal w3 c nocolor K)) c nocolor K p, p)
  end.

Lemma class_call_eq keyobj w copt nocolor K :
  class_call keyobj w copt nocolor K false =
  if nocolor then
    match zfind K (w_slots (register (fst (cc_pre w copt)) (snd (cc_pre w copt)) K)) with
    | Some p => Ok (register (fst (cc_pre w copt)) (snd (cc_pre w copt)) K, p)
    | None => cc_new keyobj (register (fst (cc_pre w copt)) (snd (cc_pre w copt)) K) (snd (cc_pre w copt)) true K
    end
  else
    match zfind K (c_cache (conf_of (fst (cc_pre w copt)) (snd (cc_pre w copt)))) with
    | Some p => Ok (fst (cc_pre w copt), p)
    | None => cc_new keyobj (register (fst (cc_pre w copt)) (snd (cc_pre w copt)) K) (snd (cc_pre w copt)) false K
    end.
Proof.
  unfold class_call. fold (cc_pre w copt). destruct (cc_pre w copt) as [w1 c]. cbn [fst snd].
  destruct nocolor.
  - cbv zeta. destruct (zfind K (w_slots (register w1 c K))); [reflexivity|].
    unfold cc_new, bind. destruct (alloc keyobj (register w1 c K)) as [[w4 p]|]; reflexivity.
  - destruct (zfind K (c_cache (conf_of w1 c))); [reflexivity|].
    unfold cc_new, bind. destruct (alloc keyobj (register w1 c K)) as [[w4 p]|]; reflexivity.
Qed.

(* id(): the new identity is not the identity of a live object *)
Lemma alloc_ok keyobj w w1 p : alloc keyobj w = Ok (w1, p) ->
  ~ In p (pinned keyobj w) /\ w1 = set_oracle w (tl (w_oracle w)).
Proof.
  unfold alloc. destruct (w_oracle w) as [|i r]; [discriminate|].
  destruct (zmem i (pinned keyobj w)) eqn:E; [discriminate|]. intros [= <- <-].
  split; [apply zmem_In; exact E|reflexivity].
Qed.

(* ------------------------------------------------------------------ *)
(* primitive moves                                                      *)

Definition add_sub (o : pal) (K : cls) (q : pid) : pal :=
  mkPal (p_cls o) (p_colors o) (p_conf o) (p_nocolor o) ((K, q) :: p_subs o).

Definition colour_with (o : pal) (x : list (Z * list (Z * list Z))) : list (Z * list chunk) :=
  map (fun mc => (fst mc, map (fun at_ => (color_of o (fst at_), snd at_)) (snd mc))) x.

Lemma colour_with_ext o o' x : p_colors o = p_colors o' -> colour_with o x = colour_with o' x.
Proof. intros H. unfold colour_with, color_of. rewrite H. reflexivity. Qed.

(* everything but the allocator's input, the global pointer and the name supply *)
Definition same_core (w w' : world) : Prop :=
  w_confs w' = w_confs w /\ w_heap w' = w_heap w /\ w_slots w' = w_slots w /\ w_synced w' = w_synced w /\
  w_enums w' = w_enums w /\ w_stack w' = w_stack w /\ w_hcmds w' = w_hcmds w.

(* the sub-palette handed to a compound palette is the one its configuration
   (or, for a no_color palette, the class slot) holds at that moment *)
Definition sub_ok (w : world) (o : pal) (K : cls) (q : pid) : Prop :=
  zfind K (p_subs o) = None /\
  if p_nocolor o then zfind K (w_slots w) = Some q
  else zfind K (c_cache (conf_of w (p_conf o))) = Some q.

Definition enum_put (w : world) (ft e v : Z) (pm : list (Z * list chunk)) : world :=
  let cache := match zfind ft (w_enums w) with Some c => c | None => [] end in
  let by_val := match zfind e cache with Some x => x | None => [] end in
  set_enums w ((ft, (e, (v, pm) :: by_val) :: zdel e cache) :: zdel ft (w_enums w)).


(* ---- palettes held by the running call (stack) or by an HCommand: they and
   their sub-palettes are alive whatever happens to the caches ---- *)
Definition held (w : world) : list pid := w_stack w ++ map snd (w_hcmds w).
Definition hpinned (w : world) : list pid := held w ++ flat_map (subs_of w) (held w).

Lemma held_roots keyobj w x : In x (held w) -> In x (roots keyobj w).
Proof.
  unfold held, roots. rewrite !in_app_iff. intros [H|H]; [do 4 right; left; exact H|do 3 right; left; exact H].
Qed.

Lemma hpinned_pinned keyobj w x : In x (hpinned w) -> In x (pinned keyobj w).
Proof.
  unfold hpinned, pinned. cbv zeta. rewrite !in_app_iff, !in_flat_map.
  intros [H|(h & Hh & Hx)]; [left; apply held_roots; exact H|].
  right. exists h. split; [apply held_roots; exact Hh|exact Hx].
Qed.

(* held palettes only gain sub-palettes; their sub-palettes do not change *)
Definition pal_le (o o' : pal) : Prop :=
  p_cls o' = p_cls o /\ p_colors o' = p_colors o /\ p_conf o' = p_conf o /\ p_nocolor o' = p_nocolor o /\
  forall K q, zfind K (p_subs o) = Some q -> zfind K (p_subs o') = Some q.

Lemma pal_le_refl o : pal_le o o.
Proof. repeat split; auto. Qed.

Definition grows (w w' : world) : Prop :=
  w_stack w' = w_stack w /\ w_hcmds w' = w_hcmds w /\
  (forall x, In x (held w) -> pal_le (pal_of w x) (pal_of w' x)) /\
  (forall h K q, In h (held w) -> zfind K (p_subs (pal_of w h)) = Some q -> p_colors (pal_of w' q) = p_colors (pal_of w q)).

(* light: nothing held or below is touched *)
Definition light (w w' : world) : Prop :=
  w_stack w' = w_stack w /\ w_hcmds w' = w_hcmds w /\
  forall x, In x (hpinned w) -> pal_of w' x = pal_of w x.

Lemma light_refl w : light w w.
Proof. repeat split. Qed.

Lemma held_eq w w' : w_stack w' = w_stack w -> w_hcmds w' = w_hcmds w -> held w' = held w.
Proof. unfold held. intros -> ->. reflexivity. Qed.

Lemma light_hpinned w w' x : light w w' -> In x (hpinned w) -> In x (hpinned w').
Proof.
  intros (S & H & P) Hx. unfold hpinned in *. rewrite (held_eq _ _ S H).
  rewrite in_app_iff, in_flat_map in *. destruct Hx as [Hx|(h & Hh & Hx)]; [left; exact Hx|].
  right. exists h. split; [exact Hh|]. unfold subs_of in *. rewrite P; [exact Hx|].
  unfold hpinned. apply in_or_app. left. exact Hh.
Qed.

Lemma light_trans w1 w2 w3 : light w1 w2 -> light w2 w3 -> light w1 w3.
Proof.
  intros L1 L2. pose proof L1 as (S1 & H1 & P1). pose proof L2 as (S2 & H2 & P2).
  repeat split; [congruence|congruence|]. intros x Hx.
  rewrite P2 by (eapply light_hpinned; eassumption). apply P1. exact Hx.
Qed.

Lemma light_same_heap w w' :
  w_stack w' = w_stack w -> w_hcmds w' = w_hcmds w -> w_heap w' = w_heap w -> light w w'.
Proof. intros S H E. repeat split; auto. intros x _. unfold pal_of. rewrite E. reflexivity. Qed.

Lemma zfind_subs_in w h K q : zfind K (p_subs (pal_of w h)) = Some q -> In q (subs_of w h).
Proof. intros H. unfold subs_of. apply zfind_In in H. apply in_map_iff. exists (K, q). auto. Qed.

Lemma light_grows w w' : light w w' -> grows w w'.
Proof.
  intros (S & H & P). repeat split; auto.
  - rewrite P; [reflexivity|]. unfold hpinned. apply in_or_app. left. assumption.
  - rewrite P; [reflexivity|]. unfold hpinned. apply in_or_app. left. assumption.
  - rewrite P; [reflexivity|]. unfold hpinned. apply in_or_app. left. assumption.
  - rewrite P; [reflexivity|]. unfold hpinned. apply in_or_app. left. assumption.
  - rewrite P; [auto|]. unfold hpinned. apply in_or_app. left. assumption.
  - intros h K q Hh Hz. rewrite P; [reflexivity|]. unfold hpinned. apply in_or_app. right. apply in_flat_map.
    exists h. split; [exact Hh|]. eapply zfind_subs_in. exact Hz.
Qed.

Lemma grows_refl w : grows w w.
Proof. apply light_grows. apply light_refl. Qed.

Lemma grows_trans w1 w2 w3 : grows w1 w2 -> grows w2 w3 -> grows w1 w3.
Proof.
  intros (S1 & H1 & P1 & Q1) (S2 & H2 & P2 & Q2).
  assert (held w2 = held w1) as Eh by (apply held_eq; assumption).
  repeat split; try congruence.
  - destruct (P1 x H) as (A & _). destruct (P2 x) as (B & _); [rewrite Eh; exact H|]. congruence.
  - destruct (P1 x H) as (_ & A & _). destruct (P2 x) as (_ & B & _); [rewrite Eh; exact H|]. congruence.
  - destruct (P1 x H) as (_ & _ & A & _). destruct (P2 x) as (_ & _ & B & _); [rewrite Eh; exact H|]. congruence.
  - destruct (P1 x H) as (_ & _ & _ & A & _). destruct (P2 x) as (_ & _ & _ & B & _); [rewrite Eh; exact H|]. congruence.
  - intros K q Hz. destruct (P1 x H) as (_ & _ & _ & _ & A). destruct (P2 x) as (_ & _ & _ & _ & B); [rewrite Eh; exact H|].
    apply B. apply A. exact Hz.
  - intros h K q Hh Hz. rewrite (Q2 h K q); [apply (Q1 h K q Hh Hz)|rewrite Eh; exact Hh|].
    destruct (P1 h Hh) as (_ & _ & _ & _ & A). apply A. exact Hz.
Qed.

Section Moves.
Variable keyobj : bool.
Variable fts : list (Z * ftdef).

Inductive move : world -> world -> Prop :=
| MMisc w w' : same_core w w' -> move w w'
| MConf w c cf' : conf_step (conf_of w c) cf' -> move w (put_conf w c cf')
| MNewConf w c cf' : c_cache cf' = [] -> smap_ok (c_smap cf') -> move w (put_conf w c cf')
| MAlloc w p c nc K : ~ In p (pinned keyobj w) -> move w (put_pal w p (new_pal w c nc K))
| MCache w c K p :
    zfind K (c_cache (conf_of w c)) = None -> pal_of w p = new_pal w c false K -> settled (conf_of w c) K ->
    move w (put_conf w c (cache_put (conf_of w c) K p))
| MSlot w c K p : pal_of w p = new_pal w c true K -> move w (set_slots w ((K, p) :: w_slots w))
| MSub w cp K q : sub_ok w (pal_of w cp) K q -> move w (put_pal w cp (add_sub (pal_of w cp) K q))
| MEnum w ft e v :
    zfind v (match zfind e (match zfind ft (w_enums w) with Some c => c | None => [] end) with Some x => x | None => [] end) = None ->
    move w (enum_put w ft e v (colour_with (pal_of w e) (ft_texts fts ft v)))
| MGc w f : move w (set_confs w (filter f (w_confs w))).

Inductive moves : world -> world -> Prop :=
| MsRefl w : moves w w
| MsStep w1 w2 w3 : move w1 w2 -> moves w2 w3 -> moves w1 w3.

Lemma moves_one w w' : move w w' -> moves w w'.
Proof. intros H. eapply MsStep; [exact H|apply MsRefl]. Qed.

Lemma moves_trans w1 w2 w3 : moves w1 w2 -> moves w2 w3 -> moves w1 w3.
Proof. induction 1 as [|a b c Hm _ IH]; [auto|]. intros H. eapply MsStep; [exact Hm|exact (IH H)]. Qed.

Lemma move_synced w w' : move w w' -> w_synced w' = w_synced w.
Proof. destruct 1 as [w w' (_ & _ & _ & S & _)| | | | | | | |]; try reflexivity. exact S. Qed.

Lemma moves_synced w w' : moves w w' -> w_synced w' = w_synced w.
Proof. induction 1 as [|a b c Hm _ IH]; [reflexivity|]. rewrite IH. exact (move_synced _ _ Hm). Qed.

Lemma same_core_refl w : same_core w w.
Proof. repeat split. Qed.

(* ---- the model functions as sequences of moves ---- *)

Lemma moves_register w c K : w_synced w = [] -> moves w (register w c K).
Proof.
  intros Hs. rewrite register_eq by exact Hs. apply moves_one. apply MConf. apply register_raw_step.
Qed.

Lemma moves_add_items w c items : w_synced w = [] -> smap_ok items -> moves w (add_items w c items).
Proof.
  intros Hs Hi. rewrite add_items_eq by exact Hs. apply moves_one. apply MConf. apply add_raw_step. exact Hi.
Qed.

Lemma dflt_conf_ok held : c_cache (dflt_conf held) = [] /\ smap_ok (c_smap (dflt_conf held)).
Proof.
  split; [destruct held; vm_compute; reflexivity|].
  unfold dflt_conf.
  destruct (add_raw_step (mkConf false [] [] [] held) builtin_config builtin_ok) as (_ & _ & H & _).
  apply H. constructor.
Qed.

Lemma new_conf_ok nocolor init held : smap_ok init ->
  c_cache (new_conf nocolor init held) = [] /\ smap_ok (c_smap (new_conf nocolor init held)) /\
  c_nocolor (new_conf nocolor init held) = nocolor.
Proof.
  intros Hi. unfold new_conf.
  pose proof (add_raw_step (mkConf nocolor [] [] [] held) init Hi) as S1.
  pose proof (add_raw_step (fst (add_raw (mkConf nocolor [] [] [] held) init)) builtin_config builtin_ok) as S2.
  pose proof (conf_step_trans _ _ _ S1 S2) as (N & _ & O & C).
  split; [|split].
  - destruct C as [[_ C]|C]; exact C.
  - apply O. constructor.
  - exact N.
Qed.

Lemma moves_cc_pre w copt : moves w (fst (cc_pre w copt)).
Proof.
  destruct copt as [c|]; cbn [cc_pre fst]; [apply MsRefl|].
  unfold get_global. destruct (w_global w) as [g|]; cbn [fst]; [apply MsRefl|].
  eapply MsStep; [apply (MNewConf w (w_nextc w) (dflt_conf false)); apply dflt_conf_ok|].
  apply moves_one. apply MMisc. repeat split.
Qed.

Lemma zfind_cache_after_register w c K :
  w_synced w = [] -> zfind K (c_cache (conf_of w c)) = None ->
  zfind K (c_cache (conf_of (register w c K) c)) = None.
Proof.
  intros Hs H. rewrite register_eq by exact Hs. rewrite conf_of_put_eq.
  destruct (register_raw_reset reg_fuel (conf_of w c) K) as [[_ ->]| ->]; [exact H|reflexivity].
Qed.

(* what class_call returns: a palette of the class slot (no_color) or of the
   configuration's cache, built by moves *)
Definition cc_post (w' : world) (c : cid) (nocolor : bool) (K : cls) (p : pid) : Prop :=
  if nocolor then zfind K (w_slots w') = Some p else zfind K (c_cache (conf_of w' c)) = Some p.

Lemma light_put_fresh w q o : ~ In q (pinned keyobj w) -> light w (put_pal w q o).
Proof.
  intros Hf. repeat split. intros x Hx. apply pal_of_put_ne. intros ->.
  apply Hf. eapply hpinned_pinned. exact Hx.
Qed.

Lemma moves_cc_new w c nocolor K w' p :
  (nocolor = false -> zfind K (c_cache (conf_of w c)) = None /\ settled (conf_of w c) K) ->
  cc_new keyobj w c nocolor K = Ok (w', p) -> moves w w' /\ cc_post w' c nocolor K p /\ light w w'.
Proof.
  intros Hn. unfold cc_new. destruct (alloc keyobj w) as [[w4 q]|] eqn:Ea; [|discriminate].
  destruct (alloc_ok _ _ _ _ Ea) as [Hfresh ->]. intros [= <- <-].
  remember (set_oracle w (tl (w_oracle w))) as w4 eqn:E4.
  assert (same_core w w4) as SC by (subst w4; repeat split).
  assert (light w w4) as L4 by (subst w4; apply light_same_heap; reflexivity).
  assert (~ In q (pinned keyobj w4)) as Hf4.
  { subst w4. exact Hfresh. }
  assert (new_pal w c nocolor K = new_pal w4 c nocolor K) as En by (subst w4; reflexivity).
  rewrite En. clear E4 Hfresh En.
  assert (conf_of w4 c = conf_of w c) as Ec.
  { unfold conf_of. destruct SC as (-> & _). reflexivity. }
  pose proof (light_put_fresh w4 q (new_pal w4 c nocolor K) Hf4) as L5.
  remember (put_pal w4 q (new_pal w4 c nocolor K)) as w5 eqn:E5.
  assert (pal_of w5 q = new_pal w5 c nocolor K) as Hp.
  { subst w5. rewrite pal_of_put_eq. reflexivity. }
  assert (conf_of w5 c = conf_of w4 c) as E54 by (subst w5; reflexivity).
  assert (moves w w5) as M5.
  { eapply MsStep; [apply MMisc; exact SC|]. subst w5. apply moves_one. apply MAlloc. exact Hf4. }
  clear E5. unfold cc_store. destruct nocolor.
  - split; [|split].
    + eapply moves_trans; [exact M5|]. apply moves_one. eapply MSlot. exact Hp.
    + unfold cc_post. cbn [w_slots set_slots zfind]. rewrite Z.eqb_refl. reflexivity.
    + eapply light_trans; [exact L4|]. eapply light_trans; [exact L5|]. apply light_same_heap; reflexivity.
  - split; [|split].
    + eapply moves_trans; [exact M5|]. apply moves_one.
      apply MCache; [rewrite E54, Ec; apply Hn; reflexivity|exact Hp|rewrite E54, Ec; apply Hn; reflexivity].
    + unfold cc_post. rewrite conf_of_put_eq. cbn [cache_put c_cache zfind]. rewrite Z.eqb_refl. reflexivity.
    + eapply light_trans; [exact L4|]. eapply light_trans; [exact L5|]. apply light_same_heap; reflexivity.
Qed.

Lemma light_cc_pre w copt : light w (fst (cc_pre w copt)).
Proof.
  destruct copt as [c|]; cbn [cc_pre fst]; [apply light_refl|].
  unfold get_global. destruct (w_global w) as [g|]; cbn [fst]; [apply light_refl|].
  apply light_same_heap; reflexivity.
Qed.

Lemma light_register w c K : w_synced w = [] -> light w (register w c K).
Proof. intros Hs. rewrite register_eq by exact Hs. apply light_same_heap; reflexivity. Qed.

Lemma moves_class_call w copt nocolor K w' p :
  w_synced w = [] -> class_call keyobj w copt nocolor K false = Ok (w', p) ->
  moves w w' /\ cc_post w' (snd (cc_pre w copt)) nocolor K p /\ light w w'.
Proof.
  intros Hs. rewrite class_call_eq.
  pose proof (moves_cc_pre w copt) as M1. pose proof (light_cc_pre w copt) as L1.
  remember (fst (cc_pre w copt)) as w1 eqn:E1. remember (snd (cc_pre w copt)) as c eqn:Ec. clear E1 Ec.
  assert (w_synced w1 = []) as Hs1 by (rewrite (moves_synced _ _ M1); exact Hs).
  pose proof (moves_register w1 c K Hs1) as M2. pose proof (light_register w1 c K Hs1) as L2.
  destruct nocolor.
  - remember (register w1 c K) as w2 eqn:E2. clear E2.
    destruct (zfind K (w_slots w2)) as [q|] eqn:Ez.
    + intros [= <- <-]. split; [eapply moves_trans; eassumption|]. split; [exact Ez|eapply light_trans; eassumption].
    + intros H. destruct (moves_cc_new w2 c true K w' p) as (M3 & P & L3); [discriminate|exact H|].
      split; [|split; [exact P|]].
      * eapply moves_trans; [exact M1|]. eapply moves_trans; eassumption.
      * eapply light_trans; [exact L1|]. eapply light_trans; eassumption.
  - destruct (zfind K (c_cache (conf_of w1 c))) as [q|] eqn:Ez.
    + intros [= <- <-]. split; [exact M1|]. split; [exact Ez|exact L1].
    + pose proof (zfind_cache_after_register w1 c K Hs1 Ez) as Ez2.
      assert (settled (conf_of (register w1 c K) c) K) as Hst.
      { rewrite register_eq by exact Hs1. rewrite conf_of_put_eq. apply settled_after_register. }
      remember (register w1 c K) as w2 eqn:E2. clear E2.
      intros H. destruct (moves_cc_new w2 c false K w' p) as (M3 & P & L3); [intros _; split; assumption|exact H|].
      split; [|split; [exact P|]].
      * eapply moves_trans; [exact M1|]. eapply moves_trans; eassumption.
      * eapply light_trans; [exact L1|]. eapply light_trans; eassumption.
Qed.

(* CompoundPalette.get_sub_palette on a held palette *)
Lemma moves_get_sub w cp K w' p :
  w_synced w = [] -> In cp (held w) -> get_sub keyobj w cp K = Ok (w', p) ->
  moves w w' /\ grows w w' /\ zfind K (p_subs (pal_of w' cp)) = Some p.
Proof.
  intros Hs Hh. unfold get_sub. destruct (zfind K (p_subs (pal_of w cp))) as [q|] eqn:Ez.
  - intros [= <- <-]. split; [apply MsRefl|]. split; [apply grows_refl|exact Ez].
  - destruct (class_call keyobj w (Some (p_conf (pal_of w cp))) (p_nocolor (pal_of w cp)) K false) as [[w1 q]|] eqn:E; [|discriminate].
    cbn [bind]. intros [= <- <-].
    destruct (moves_class_call _ _ _ _ _ _ Hs E) as (M1 & P & L1). cbn [cc_pre snd] in P.
    assert (pal_of w1 cp = pal_of w cp) as Ecp.
    { destruct L1 as (_ & _ & L). apply L. unfold hpinned. apply in_or_app. left. exact Hh. }
    fold (add_sub (pal_of w1 cp) K q).
    split; [|split].
    + eapply moves_trans; [exact M1|]. apply moves_one. apply MSub. unfold sub_ok. rewrite Ecp.
      split; [exact Ez|]. unfold cc_post in P. exact P.
    + eapply grows_trans; [apply light_grows; exact L1|].
      split; [reflexivity|]. split; [reflexivity|]. split.
      * intros x Hx. destruct (Z.eq_dec x cp) as [->|Hn].
        -- rewrite pal_of_put_eq. unfold add_sub. repeat split. intros K' q' Hz. cbn [p_subs zfind].
           destruct (Z.eqb_spec K K') as [<-|_]; [|exact Hz]. rewrite Ecp in Hz. congruence.
        -- rewrite pal_of_put_ne by exact Hn. apply pal_le_refl.
      * intros h K' q' Hh' Hz. destruct (Z.eq_dec q' cp) as [->|Hn].
        -- rewrite pal_of_put_eq. reflexivity.
        -- rewrite pal_of_put_ne by exact Hn. reflexivity.
    + rewrite pal_of_put_eq. unfold add_sub. cbn [p_subs zfind]. rewrite Z.eqb_refl. reflexivity.
Qed.

(* ---- rendering: moves that keep the held palettes ---- *)
Definition good (w w' : world) : Prop := moves w w' /\ grows w w'.

Lemma good_refl w : good w w.
Proof. split; [apply MsRefl|apply grows_refl]. Qed.

Lemma good_trans w1 w2 w3 : good w1 w2 -> good w2 w3 -> good w1 w3.
Proof. intros [M1 G1] [M2 G2]. split; [eapply moves_trans; eassumption|eapply grows_trans; eassumption]. Qed.

Lemma good_held w w' : good w w' -> held w' = held w.
Proof. intros [_ (S & H & _)]. apply held_eq; assumption. Qed.

Lemma good_synced w w' : good w w' -> w_synced w' = w_synced w.
Proof. intros [M _]. apply moves_synced. exact M. Qed.

Lemma good_get_sub w cp K w' p :
  w_synced w = [] -> In cp (held w) -> get_sub keyobj w cp K = Ok (w', p) -> good w w'.
Proof. intros Hs Hh E. destruct (moves_get_sub _ _ _ _ _ Hs Hh E) as (M & G & _). split; assumption. Qed.

(* Before the repair of enum-cache-equal-keys the enum cells were cached by the class of the value
   under ==, and the lemmas needed "lit = vkey" for every enum item (no two Python-equal literals in
   one field type).  The cache is keyed by the literal now: EVERY item and EVERY object qualifies
   (obj_ok_all).  The two predicates only remain as (trivially true) hypotheses of the lemmas below;
   no theorem of Props.v mentions them. *)
Definition item_ok (it : item) : Prop := True.
Definition obj_ok (o : objspec) : Prop := Forall (Forall item_ok) (o_lines o).

Lemma obj_ok_all o : obj_ok o.
Proof.
  unfold obj_ok. apply Forall_forall. intros l _. apply Forall_forall. intros it _. exact I.
Qed.

Lemma good_enum_cell w ft e v modi : good w (fst (enum_cell fts w ft e v v modi)).
Proof.
  unfold enum_cell.
  destruct (zfind v (match zfind e (match zfind ft (w_enums w) with Some c => c | None => [] end) with Some x => x | None => [] end)) eqn:E;
    cbn [fst]; [apply good_refl|].
  split.
  - apply moves_one. exact (MEnum w ft e v E).
  - apply light_grows. apply light_same_heap; reflexivity.
Qed.

Lemma good_render_item w cp it w' cs :
  w_synced w = [] -> In cp (held w) -> item_ok it ->
  render_item keyobj fts w cp it = Ok (w', cs) -> good w w'.
Proof.
  intros Hs Hh Hok. destruct it as [[K|] a t|t|ft K vkey lit modi]; cbn [render_item].
  - destruct (get_sub keyobj w cp K) as [[w1 q]|] eqn:E; [|discriminate]. cbn [bind fst snd].
    intros [= <- _]. eapply good_get_sub; eassumption.
  - intros [= <- _]. apply good_refl.
  - intros [= <- _]. apply good_refl.
  - destruct (get_sub keyobj w cp K) as [[w1 q]|] eqn:E; [|discriminate]. cbn [bind fst snd].
    pose proof (good_get_sub _ _ _ _ _ Hs Hh E) as G1.
    pose proof (good_enum_cell w1 ft q lit modi) as G2.
    destruct (enum_cell fts w1 ft q lit lit modi) as [w2 c2]. cbn [fst] in G2.
    intros [= <- _]. eapply good_trans; eassumption.
Qed.

Lemma good_render_line l : forall w cp w' cs,
  w_synced w = [] -> In cp (held w) -> Forall item_ok l ->
  render_line keyobj fts w cp l = Ok (w', cs) -> good w w'.
Proof.
  induction l as [|it l IH]; intros w cp w' cs Hs Hh Hok; cbn [render_line]; [intros [= <- _]; apply good_refl|].
  inversion Hok as [|? ? Hit Hl]; subst.
  destruct (render_item keyobj fts w cp it) as [[w1 c1]|] eqn:E1; [|discriminate]. cbn [bind fst snd].
  destruct (render_line keyobj fts w1 cp l) as [[w2 c2]|] eqn:E2; [|discriminate]. cbn [bind fst snd].
  intros [= <- _]. pose proof (good_render_item _ _ _ _ _ Hs Hh Hit E1) as G1.
  eapply good_trans; [exact G1|]. eapply IH; [| |exact Hl|exact E2].
  - rewrite (good_synced _ _ G1). exact Hs.
  - rewrite (good_held _ _ G1). exact Hh.
Qed.

Lemma good_render_lines ls : forall w cp w' css,
  w_synced w = [] -> In cp (held w) -> Forall (Forall item_ok) ls ->
  render_lines keyobj fts w cp ls = Ok (w', css) -> good w w'.
Proof.
  induction ls as [|l ls IH]; intros w cp w' css Hs Hh Hok; cbn [render_lines]; [intros [= <- _]; apply good_refl|].
  inversion Hok as [|? ? Hl Hls]; subst.
  destruct (render_line keyobj fts w cp l) as [[w1 c1]|] eqn:E1; [|discriminate]. cbn [bind fst snd].
  destruct (render_lines keyobj fts w1 cp ls) as [[w2 c2]|] eqn:E2; [|discriminate]. cbn [bind fst snd].
  intros [= <- _]. pose proof (good_render_line _ _ _ _ _ Hs Hh Hl E1) as G1.
  eapply good_trans; [exact G1|]. eapply IH; [| |exact Hls|exact E2].
  - rewrite (good_synced _ _ G1). exact Hs.
  - rewrite (good_held _ _ G1). exact Hh.
Qed.

Lemma good_touch_subs ks : forall w cp w',
  w_synced w = [] -> In cp (held w) -> touch_subs keyobj w cp ks = Ok w' -> good w w'.
Proof.
  induction ks as [|K ks IH]; intros w cp w' Hs Hh; cbn [touch_subs]; [intros [= <-]; apply good_refl|].
  destruct (get_sub keyobj w cp K) as [[w1 q]|] eqn:E; [|discriminate]. cbn [bind fst].
  intros E2. pose proof (good_get_sub _ _ _ _ _ Hs Hh E) as G1.
  eapply good_trans; [exact G1|]. eapply IH; [| |exact E2].
  - rewrite (good_synced _ _ G1). exact Hs.
  - rewrite (good_held _ _ G1). exact Hh.
Qed.

Lemma good_gen_lines w cp o w' ls :
  w_synced w = [] -> In cp (held w) -> obj_ok o -> gen_lines keyobj fts w cp o = Ok (w', ls) -> good w w'.
Proof.
  intros Hs Hh Hok. unfold gen_lines.
  destruct (touch_subs keyobj w cp (o_subs o)) as [w1|] eqn:E; [|discriminate]. cbn [bind].
  intros E2. pose proof (good_touch_subs _ _ _ _ Hs Hh E) as G1.
  eapply good_trans; [exact G1|]. eapply good_render_lines; [| |exact Hok|exact E2].
  - rewrite (good_synced _ _ G1). exact Hs.
  - rewrite (good_held _ _ G1). exact Hh.
Qed.

Lemma good_consume w cp o mode w' ts :
  w_synced w = [] -> In cp (held w) -> obj_ok o -> consume keyobj fts w cp o mode = Ok (w', ts) -> good w w'.
Proof.
  intros Hs Hh Hok. unfold consume.
  destruct (gen_lines keyobj fts w cp o) as [[w1 ls]|] eqn:E1; [|discriminate]. cbn [bind].
  pose proof (good_gen_lines _ _ _ _ _ Hs Hh Hok E1) as G1.
  destruct (mode =? 0); [intros [= <- _]; exact G1|].
  destruct (mode =? 1); [intros [= <- _]; exact G1|].
  destruct (gen_lines keyobj fts w1 cp o) as [[w2 ls2]|] eqn:E2; [|discriminate]. cbn [bind].
  assert (good w1 w2) as G2.
  { eapply good_gen_lines; [| |exact Hok|exact E2].
    - rewrite (good_synced _ _ G1). exact Hs.
    - rewrite (good_held _ _ G1). exact Hh. }
  destruct (mode =? 2); intros [= <- _]; eapply good_trans; eassumption.
Qed.

(* PaletteUser._mk_palette without synced palettes *)
Lemma moves_mk_palette w K pa copt nc w' cp :
  w_synced w = [] -> pa <> PSynced -> mk_palette keyobj w K pa copt nc = Ok (w', cp) -> moves w w'.
Proof.
  intros Hs Hpa. unfold mk_palette. destruct pa as [|c|]; [| |congruence].
  - intros E. apply (moves_class_call _ _ _ _ _ _ Hs E).
  - destruct (class_call keyobj w (Some c) false K false) as [[wa pa']|] eqn:Ea; [|discriminate].
    cbn [bind fst]. destruct (moves_class_call _ _ _ _ _ _ Hs Ea) as (Ma & _).
    destruct nc; [|intros [= <- _]; exact Ma].
    intros E. eapply moves_trans; [exact Ma|].
    apply (moves_class_call wa None true K w' cp); [rewrite (moves_synced _ _ Ma); exact Hs|exact E].
Qed.

End Moves.
