(* C05/Lemmas.v -- vocabulary of the theorems (valid derivation trees of
   generated productions, template frontier, yield) and basic facts. *)
From Coq Require Import ZArith List Bool Lia.
From AK Require Import Common.Err LLP.Base gen.C05_Consts C05.Model.
Import ListNotations.

(* ------------------------------------------------------------------ *)
(* symbols                                                             *)

Lemma sym_eqb_refl : forall a : sym, sym_eqb a a = true.
Proof. induction a; simpl; auto. now rewrite Z.eqb_refl. Qed.

Lemma sym_eqb_eq : forall a b : sym, sym_eqb a b = true <-> a = b.
Proof.
  induction a as [|x a IH]; destruct b as [|y b]; simpl; split; intro H; try congruence; auto.
  - apply andb_true_iff in H as [H1 H2]. apply Z.eqb_eq in H1. apply IH in H2. congruence.
  - injection H as -> ->. now rewrite Z.eqb_refl, sym_eqb_refl.
Qed.

Lemma sym_eqb_neq : forall a b : sym, sym_eqb a b = false <-> a <> b.
Proof.
  intros a b. split.
  - intros H E. apply sym_eqb_eq in E. congruence.
  - intros H. destruct (sym_eqb a b) eqn:E; [|reflexivity]. apply sym_eqb_eq in E. contradiction.
Qed.

Lemma sym_eqb_sym : forall a b : sym, sym_eqb a b = sym_eqb b a.
Proof.
  intros a b. destruct (sym_eqb a b) eqn:E.
  - apply sym_eqb_eq in E. subst. now rewrite sym_eqb_refl.
  - symmetry. apply sym_eqb_neq. apply sym_eqb_neq in E. congruence.
Qed.

Lemma syms_eqb_eq : forall a b : list sym, syms_eqb a b = true <-> a = b.
Proof.
  induction a as [|x a IH]; destruct b as [|y b]; simpl; split; intro H; try congruence; auto.
  - apply andb_true_iff in H as [H1 H2]. apply sym_eqb_eq in H1. apply IH in H2. congruence.
  - injection H as -> ->. rewrite sym_eqb_refl. simpl. now apply IH.
Qed.

Lemma syms_eqb_refl : forall a, syms_eqb a a = true.
Proof. intro a. now apply syms_eqb_eq. Qed.

Lemma sig_eqb_eq : forall a b : sig, sig_eqb a b = true <-> a = b.
Proof.
  intros [a1 a2] [b1 b2]. unfold sig_eqb. simpl. rewrite andb_true_iff, sym_eqb_eq, syms_eqb_eq.
  split; [intros [-> ->]; reflexivity | intro H; injection H; auto].
Qed.

Lemma mem_In : forall (s : sym) l, mem s l = true <-> In s l.
Proof.
  intros s l. unfold mem. rewrite existsb_exists. split.
  - intros [x [Hx E]]. apply sym_eqb_eq in E. now subst.
  - intro H. exists s. split; auto. apply sym_eqb_refl.
Qed.

Lemma mem_false : forall (s : sym) l, mem s l = false <-> ~ In s l.
Proof.
  intros s l. rewrite <- mem_In. destruct (mem s l); split; intro H; congruence.
Qed.

(* ------------------------------------------------------------------ *)
(* induction over trees                                                *)

Section RtInd.
  Variable P : rt -> Prop.
  Hypothesis Htok : forall n v, P (RTok n v).
  Hypothesis Hnull : forall n, P (RNull n).
  Hypothesis Hnode : forall n ch, Forall P ch -> P (RNode n ch).
  Hypothesis Hseq : forall n ch, Forall P ch -> P (RSeq n ch).

  Fixpoint rt_ind' (t : rt) : P t :=
    match t with
    | RTok n v => Htok n v
    | RNull n => Hnull n
    | RNode n ch =>
        Hnode n ch ((fix go (l : list rt) : Forall P l :=
                       match l with
                       | [] => Forall_nil _
                       | x :: r => Forall_cons _ (rt_ind' x) (go r)
                       end) ch)
    | RSeq n ch =>
        Hseq n ch ((fix go (l : list rt) : Forall P l :=
                      match l with
                      | [] => Forall_nil _
                      | x :: r => Forall_cons _ (rt_ind' x) (go r)
                      end) ch)
    end.
End RtInd.

(* ------------------------------------------------------------------ *)
(* all_ok                                                              *)

Lemma all_ok_app : forall {A} (l1 l2 : list (res A)),
  all_ok (l1 ++ l2) =
  match all_ok l1 with
  | Err e => Err e
  | Ok a => match all_ok l2 with Ok b => Ok (a ++ b) | Err e => Err e end
  end.
Proof.
  induction l1 as [|[a|e] l1 IH]; intros l2; simpl.
  - destruct (all_ok l2); reflexivity.
  - rewrite IH. destruct (all_ok l1); [destruct (all_ok l2)|]; reflexivity.
  - reflexivity.
Qed.

Lemma all_ok_Ok_length : forall {A} (l : list (res A)) r, all_ok l = Ok r -> length r = length l.
Proof.
  induction l as [|[a|e] l IH]; simpl; intros r H.
  - injection H as <-. reflexivity.
  - destruct (all_ok l); [|discriminate]. injection H as <-. simpl. f_equal. now apply IH.
  - discriminate.
Qed.

(* ------------------------------------------------------------------ *)
(* signature maps                                                      *)

Lemma sig_get_set_same : forall m k v, sig_get (sig_set m k v) k = Some v.
Proof.
  induction m as [|[k' v'] m IH]; intros k v; simpl.
  - assert (H : sig_eqb k k = true) by now apply sig_eqb_eq. now rewrite H.
  - destruct (sig_eqb k' k) eqn:E; simpl; rewrite E; auto.
Qed.

Lemma sig_get_set_other : forall m k k' v, sig_eqb k k' = false -> sig_get (sig_set m k v) k' = sig_get m k'.
Proof.
  induction m as [|[k0 v0] m IH]; intros k k' v H; simpl.
  - now rewrite H.
  - destruct (sig_eqb k0 k) eqn:E; simpl.
    + apply sig_eqb_eq in E. subst k0. now rewrite H.
    + destruct (sig_eqb k0 k'); auto.
Qed.

Lemma sig_set_keys : forall m k v p, In p (map fst (sig_set m k v)) <-> p = k \/ In p (map fst m).
Proof.
  induction m as [|[k0 v0] m IH]; intros k v p; simpl.
  - intuition.
  - destruct (sig_eqb k0 k) eqn:E; simpl.
    + apply sig_eqb_eq in E. subst. intuition.
    + rewrite IH. intuition.
Qed.

(* the value of a signature is a function of the signature itself, so the
   dict built by complete_init maps every production to its own positions *)
Lemma make_sigs_get : forall s a b prods k,
  sig_get (make_sigs s a b prods) k =
  if existsb (fun p => sig_eqb (s, opt_cat p) k) prods
  then Some (find_index (snd k) a, find_index (snd k) b) else None.
Proof.
  intros s a b prods k. unfold make_sigs.
  assert (G : forall m,
             sig_get (fold_left (fun m p => let e := make_sig s a b p in sig_set m (fst e) (snd e)) prods m) k =
             if existsb (fun p => sig_eqb (s, opt_cat p) k) prods
             then Some (find_index (snd k) a, find_index (snd k) b) else sig_get m k).
  { induction prods as [|p prods IH]; intro m; simpl; [reflexivity|].
    rewrite IH. destruct (existsb (fun p0 => sig_eqb (s, opt_cat p0) k) prods) eqn:Ex.
    - now rewrite orb_true_r.
    - rewrite orb_false_r. destruct (sig_eqb (s, opt_cat p) k) eqn:E.
      + apply sig_eqb_eq in E. subst k. simpl. now rewrite sig_get_set_same.
      + now rewrite sig_get_set_other. }
  rewrite G. reflexivity.
Qed.

Lemma make_sigs_keys : forall s a b prods k,
  In k (map fst (make_sigs s a b prods)) <-> exists p, In p prods /\ k = (s, opt_cat p).
Proof.
  intros s a b prods k. unfold make_sigs.
  assert (G : forall m,
             In k (map fst (fold_left (fun m p => let e := make_sig s a b p in sig_set m (fst e) (snd e)) prods m)) <->
             In k (map fst m) \/ exists p, In p prods /\ k = (s, opt_cat p)).
  { induction prods as [|p prods IH]; intro m; simpl.
    - split; [auto|]. intros [H|[p [[] _]]]. exact H.
    - rewrite IH, sig_set_keys. split.
      + intros [[H|H]|[q [Hq E]]]; eauto.
      + intros [H|[q [[<-|Hq] E]]]; eauto. }
  rewrite G. simpl. split; [intros [[]|H]; exact H | auto].
Qed.

Lemma sig_prods_in : forall s a b prods p,
  In p (sig_prods (make_sigs s a b prods)) <-> In p (map opt_cat prods).
Proof.
  intros s a b prods p. unfold sig_prods. split.
  - intro H. apply in_map_iff in H as [[k v] [E H]]. simpl in E. subst p.
    assert (Hk : In k (map fst (make_sigs s a b prods))) by (apply in_map_iff; exists (k, v); auto).
    apply make_sigs_keys in Hk as [q [Hq ->]]. simpl. now apply in_map.
  - intro H. apply in_map_iff in H as [q [<- Hq]].
    assert (Hk : In (s, opt_cat q) (map fst (make_sigs s a b prods))) by (apply make_sigs_keys; eauto).
    apply in_map_iff in Hk as [[k v] [E H]]. simpl in E. subst k.
    apply in_map_iff. exists ((s, opt_cat q), v). auto.
Qed.

(* ------------------------------------------------------------------ *)
(* find_index                                                          *)

Lemma find_index_app_notin : forall pre s rest,
  ~ In s pre -> find_index (pre ++ rest) s =
                match find_index rest s with Some i => Some (length pre + i)%nat | None => None end.
Proof.
  induction pre as [|x pre IH]; intros s rest H; simpl.
  - destruct (find_index rest s); reflexivity.
  - assert (Hx : sym_eqb x s = false) by (apply sym_eqb_neq; intro; subst; apply H; now left).
    rewrite Hx, IH by (intro; apply H; now right).
    destruct (find_index rest s); reflexivity.
Qed.

Lemma find_index_notin : forall l s, ~ In s l -> find_index l s = None.
Proof.
  induction l as [|x l IH]; intros s H; simpl; auto.
  assert (Hx : sym_eqb x s = false) by (apply sym_eqb_neq; intro; subst; apply H; now left).
  rewrite Hx, IH; auto. intro; apply H; now right.
Qed.

Lemma find_index_head : forall s rest, find_index (s :: rest) s = Some O.
Proof. intros. simpl. now rewrite sym_eqb_refl. Qed.

(* ------------------------------------------------------------------ *)
(* generated names                                                     *)

Lemma sfx_nonempty : sfx_tail <> [] /\ sfx_kv_pair <> [] /\ sfx_kv_tail <> [] /\ sfx_element <> [].
Proof. repeat split; discriminate. Qed.

Lemma app_neq_self : forall (a b : sym), b <> [] -> a ++ b <> a.
Proof.
  intros a b Hb E. assert (L : length (a ++ b) = length a) by now rewrite E.
  rewrite app_length in L. destruct b; [congruence|simpl in L; lia].
Qed.

(* ------------------------------------------------------------------ *)
(* unfolding of valid / frontier (the production list stays folded)    *)

Lemma frontier_ext : forall P t, plookup P (rname t) = None -> frontier P t = [t].
Proof. intros P t H. destruct t; simpl in *; now rewrite H. Qed.

Lemma frontier_node : forall P n ch a, plookup P n = Some a -> frontier P (RNode n ch) = flat_map (frontier P) ch.
Proof. intros P n ch a H. simpl. now rewrite H. Qed.

Lemma frontier_null : forall P n a, plookup P n = Some a -> frontier P (RNull n) = [].
Proof. intros P n a H. simpl. now rewrite H. Qed.

Lemma valid_node : forall P n ch a, plookup P n = Some a ->
  valid P (RNode n ch) = negb (is_nil ch) && existsb (syms_eqb (map rname ch)) a && forallb (valid P) ch.
Proof. intros P n ch a H. simpl. now rewrite H. Qed.

Lemma valid_null : forall P n a, plookup P n = Some a -> valid P (RNull n) = existsb (syms_eqb []) a.
Proof. intros P n a H. simpl. now rewrite H. Qed.

Lemma valid_tok : forall P n v a, plookup P n = Some a -> valid P (RTok n v) = false.
Proof. intros P n v a H. simpl. now rewrite H. Qed.

Lemma valid_seq : forall P n ch a, plookup P n = Some a -> valid P (RSeq n ch) = false.
Proof. intros P n ch a H. simpl. now rewrite H. Qed.

Lemma valid_ext : forall P t, plookup P (rname t) = None -> valid P t = true.
Proof. intros P t H. destruct t; simpl in *; now rewrite H. Qed.

Lemma syms_existsb : forall names (a : list (list sym)), In names a -> existsb (syms_eqb names) a = true.
Proof. intros names a H. apply existsb_exists. exists names. split; auto. apply syms_eqb_refl. Qed.

Lemma existsb_syms : forall names (a : list (list sym)), existsb (syms_eqb names) a = true -> In names a.
Proof.
  intros names a H. apply existsb_exists in H as [q [Hq E]]. apply syms_eqb_eq in E. now subst.
Qed.
