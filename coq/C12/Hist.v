(* C12/Hist.v -- histories: several tables that live side by side, printed more
   than once, printed line by line through interleaved iterators, re-formatted
   (PPTable.set_fmt / remove_columns) and cloned (PPTable(records, fmt_obj=t.fmt)).

   The printer has no memory: what a table prints is [render] of its current
   description, whatever was printed before and whatever other tables or line
   iterators exist.  The implementation has state that could break this
   (col.width kept after the first print, the per-palette text cache and the
   length cache of a PPEnumFieldType shared by fields / tables, palette
   singletons, RecordField objects shared by a table and its clones, the
   service-line markers of gen_ch_lines); the correspondence check runs the same
   history through the implementation and through [hist_events].

   ak/ppobj.py: PPTable.set_fmt -> _PPTableImpl.set_fmt 1789-1795 (clone of the
   format: ReprColumn.clone drops the width; PPTableFormat._set_parsed_fmt
   1677-1698, ReprStructure._set_parsed_fmt 1314-1353), remove_columns 1263-1268,
   _init_format with fmt_obj 1778-1782, CHTextResult.__iter__ 101-102 (a lazy
   generator: nothing is computed before the first next()).
   Definitions only, no proofs. *)
From Coq Require Import ZArith List Bool Arith.
From AK Require Import Common.Sx Common.Err gen.C12_Consts C12.Model.
Import ListNotations.

(* columns section of the fmt given to set_fmt: "" (keep the present columns), "*" (a column
   per field), or an explicit list *)
Inductive colspec := CKeep | CAll | CCols (cols : list col).
(* limits section: absent (keep), or "*" = (None, None) / "n:m" *)
Inductive limspec := LKeep | LSet (p : option nat * option nat).

Inductive op :=
| ORender (i : nat)                        (* str(table_i.ch_text(...)): the whole table *)
| OOpen (i : nat)                          (* g = iter(table_i.ch_text(...)): a new line iterator *)
| ONext (g k : nat)                        (* up to k further lines of iterator g *)
| OSetFmt (i : nat) (cs : colspec) (ls : limspec)      (* table_i.set_fmt(fmt) *)
| ORemove (i : nat) (skip : list nat)      (* table_i.remove_columns(names), before the table is printed *)
| OClone (i : nat) (recs : list (list cell)) (header footer : option str)
         (lim : option (option nat * option nat)).      (* PPTable(recs, fmt_obj=table_i.fmt, header=, footer=, limits=) *)

Definition all_cols (t : table) : list col :=
  match t_cols t with Some l => l | None => default_cols (t_fields t) end.

Definition cols_valid (fields : list field) (cols : list col) : bool :=
  forallb (fun c => mod_ok (f_kind (col_field fields c)) (c_mod c)) cols.

(* the constructor accepts the description (ReprColumn.__init__ verifies the modifiers) *)
Definition constructible (t : table) : bool := cols_valid (t_fields t) (all_cols t).

(* _PPTableImpl.set_fmt: a new format object; widths are negotiated again on the next print;
   columns removed earlier come back only if the new fmt names them; limits not given are kept.
   A rejected fmt (bad modifier) leaves the table as it was. *)
Definition set_fmt (t : table) (cs : colspec) (ls : limspec) : res table :=
  let newcols := match cs with
                 | CKeep => Some (columns t)
                 | CAll => None
                 | CCols l => Some l
                 end in
  let lims := match ls with LKeep => limits t | LSet p => p end in
  let t' := mkTable (t_fields t) newcols [] (t_records t) (t_header t) (t_footer t) None (Some lims) in
  if constructible t' then Ok t' else Err ValueErr.

Definition remove_cols (t : table) (skip : list nat) : table :=
  mkTable (t_fields t) (t_cols t) (t_skip t ++ skip) (t_records t) (t_header t) (t_footer t)
          (t_fmt_limits t) (t_arg_limits t).

(* PPTable(recs, fmt_obj=t.fmt, ...): the fields and the present columns of t, other records *)
Definition clone_table (t : table) (recs : list (list cell)) (header footer : option str)
           (lim : option (option nat * option nat)) : table :=
  mkTable (t_fields t) (Some (columns t)) [] recs header footer None
          (Some (match lim with Some p => p | None => limits t end)).

(* a line iterator: not started (it will print the table as it is at the first next()),
   or started, with the lines still to come *)
Inductive gen := GNew (i : nat) | GRun (rest : list str).

Record hstate := mkH { h_tables : list table; h_gens : list gen }.

Fixpoint replace_nth {A} (n : nat) (x : A) (l : list A) : list A :=
  match l, n with
  | [], _ => []
  | _ :: r, O => x :: r
  | y :: r, S m => y :: replace_nth m x r
  end.

Notation event := (res (list str)).

Definition set_gen (s : hstate) (g : nat) (x : gen) : hstate :=
  mkH (h_tables s) (replace_nth g x (h_gens s)).
Definition set_table (s : hstate) (i : nat) (t : table) : hstate :=
  mkH (replace_nth i t (h_tables s)) (h_gens s).

(* one operation: the new state and what the caller sees (lines, nothing = Ok [], or the
   exception class); indices that do not exist give IndexErr (the harness never produces them) *)
Definition step (s : hstate) (o : op) : hstate * event :=
  match o with
  | ORender i =>
      match nth_error (h_tables s) i with
      | Some t => (s, render t)
      | None => (s, Err IndexErr)
      end
  | OOpen i => (mkH (h_tables s) (h_gens s ++ [GNew i]), Ok [])
  | ONext g k =>
      if (k =? 0)%nat then (s, Ok []) else
      match nth_error (h_gens s) g with
      | None => (s, Err IndexErr)
      | Some (GRun rest) => (set_gen s g (GRun (skipn k rest)), Ok (firstn k rest))
      | Some (GNew i) =>
          match nth_error (h_tables s) i with
          | None => (s, Err IndexErr)
          | Some t =>
              match render t with
              | Ok ls => (set_gen s g (GRun (skipn k ls)), Ok (firstn k ls))
              | Err e => (set_gen s g (GRun []), Err e)       (* the generator died in its first next() *)
              end
          end
      end
  | OSetFmt i cs ls =>
      match nth_error (h_tables s) i with
      | None => (s, Err IndexErr)
      | Some t =>
          match set_fmt t cs ls with
          | Ok t' => (set_table s i t', Ok [])
          | Err e => (s, Err e)
          end
      end
  | ORemove i skip =>
      match nth_error (h_tables s) i with
      | None => (s, Err IndexErr)
      | Some t => (set_table s i (remove_cols t skip), Ok [])
      end
  | OClone i recs hd ft lim =>
      match nth_error (h_tables s) i with
      | None => (s, Err IndexErr)
      | Some t => (mkH (h_tables s ++ [clone_table t recs hd ft lim]) (h_gens s), Ok [])
      end
  end.

Fixpoint exec (s : hstate) (ops : list op) : hstate * list event :=
  match ops with
  | [] => (s, [])
  | o :: r => let '(s1, e) := step s o in
              let '(s2, es) := exec s1 r in (s2, e :: es)
  end.

(* the constructor calls come first: one event per initial table *)
Definition construct_event (t : table) : event := if constructible t then Ok [] else Err ValueErr.

Definition hist_events (ts : list table) (ops : list op) : list event :=
  map construct_event ts ++ snd (exec (mkH ts []) ops).

(* the lines iterator g has delivered in a run of operations *)
Fixpoint delivered (g : nat) (ops : list op) (evs : list event) : list str :=
  match ops, evs with
  | o :: r, e :: er =>
      match o, e with
      | ONext g' _, Ok ls => if (g' =? g)%nat then ls ++ delivered g r er else delivered g r er
      | _, _ => delivered g r er
      end
  | _, _ => []
  end.

(* the table an operation writes to *)
Definition op_target (o : op) : option nat :=
  match o with
  | OSetFmt i _ _ => Some i
  | ORemove i _ => Some i
  | _ => None
  end.
