(* C13/TransEq.v -- ReprColumn.to_fmt_str, TRANSLATED from the current ak/ppobj.py (gen/C13_Translated.v, written by
   harness/lib/pytranslate.py through c13.gen_consts on every run) as a function of the attributes it reads
   (name, fmt_modifier, break_by, min_width, max_width, width), is the hand model's col_to_str; hence the column
   description produced by the translated serializer is parsed back by the model's parser (col_roundtrip). *)
From Coq Require Import ZArith List Bool Lia.
From AK Require Import Common.Sx Common.Err Common.PyLib Common.PyLibLemmas.
From AK Require Import gen.C13_Consts C13.Model C13.LemStr C13.LemFmt gen.C13_Translated.
Import ListNotations.
Open Scope Z_scope.

Lemma translation_is_available : translation_available = true.
Proof. reflexivity. Qed.

(* str(int) *)
Lemma digits_pos_digits fuel : forall n acc, rev (py_digits_le fuel n) ++ acc = pos_digits fuel n acc.
Proof.
  induction fuel as [|f IH]; intros n acc; cbn [py_digits_le pos_digits]; [reflexivity|].
  destruct (n <? 10); [reflexivity|]. cbn [rev]. rewrite <- app_assoc. apply IH.
Qed.
Lemma str_of_int_eq n : py_str_of_int n = str_of_int n.
Proof.
  unfold py_str_of_int, str_of_int, py_str_of_nat, nat_str. destruct (n <? 0); [f_equal|];
    rewrite <- digits_pos_digits, app_nil_r; reflexivity.
Qed.

Definition T_col_to_str (fuel : nat) (c : column) : res (list Z) :=
  T_ReprColumn_to_fmt_str fuel (c_name c) (c_mod c) (c_break c) (c_min c) (c_max c) (c_width c).

Theorem translated_to_fmt_str_eq fuel c : T_col_to_str fuel c = Ok (col_to_str c).
Proof.
  destruct c as [name md br mn mx w]. unfold T_col_to_str, T_ReprColumn_to_fmt_str, col_to_str, width_str.
  cbn [c_name c_mod c_break c_min c_max c_width]. cbv zeta.
  destruct md as [m|], br, (mn =? mx), w as [w|]; cbn [bind]; rewrite ?str_of_int_eq;
    unfold ch_slash, ch_bang, ch_colon, ch_minus, ch_lpar, ch_rpar; f_equal;
    repeat rewrite <- app_assoc; cbn [app]; repeat rewrite <- app_assoc; rewrite ?app_nil_r; reflexivity.
Qed.

Lemma col_roundtrip_t fuel c : col_okb c = true ->
  exists s, T_col_to_str fuel c = Ok s /\ parse_col s = Ok (pcol_of c).
Proof.
  intros H. exists (col_to_str c). split; [apply translated_to_fmt_str_eq|apply parse_col_roundtrip; exact H].
Qed.
