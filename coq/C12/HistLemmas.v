(* C12/HistLemmas.v -- proofs about histories of tables (C12/Hist.v). *)
From Coq Require Import ZArith List Bool Arith Lia.
From AK Require Import Common.Sx Common.Err gen.C12_Consts C12.Model C12.Hist.
Import ListNotations.

Lemma replace_nth_length : forall A n (x : A) l, length (replace_nth n x l) = length l.
Proof. intros A n x l. revert n. induction l as [|y l IH]; intros [|n]; simpl; auto. Qed.

Lemma nth_error_replace_neq : forall A n m (x : A) l, n <> m ->
  nth_error (replace_nth n x l) m = nth_error l m.
Proof.
  intros A n m x l. revert n m. induction l as [|y l IH]; intros [|n] [|m] H; simpl; auto.
  - contradiction.
Qed.

Lemma nth_error_replace_eq : forall A n (x : A) l, n < length l ->
  nth_error (replace_nth n x l) n = Some x.
Proof.
  intros A n x l. revert n. induction l as [|y l IH]; intros [|n] H; simpl in *; try lia; auto.
  apply IH. lia.
Qed.

Lemma nth_error_lt : forall A (l : list A) n x, nth_error l n = Some x -> n < length l.
Proof. intros A l n x H. apply nth_error_Some. congruence. Qed.

(* ---- a whole print is the rendering of that table alone; it changes nothing ---- *)
Lemma render_alone_l : forall s i t, nth_error (h_tables s) i = Some t ->
  step s (ORender i) = (s, render t).
Proof. intros s i t H. cbn [step]. rewrite H. reflexivity. Qed.

(* ---- no operation touches a table it is not addressed to ---- *)
Lemma tables_frame_l : forall s o j, j < length (h_tables s) -> op_target o <> Some j ->
  nth_error (h_tables (fst (step s o))) j = nth_error (h_tables s) j.
Proof.
  intros s o j Hj Ht. destruct o as [i|i|g k|i cs ls|i sk|i recs hd ft lim]; cbn [step].
  - destruct (nth_error (h_tables s) i); reflexivity.
  - reflexivity.
  - destruct (k =? 0); [reflexivity|].
    destruct (nth_error (h_gens s) g) as [[i|rest]|]; try reflexivity.
    destruct (nth_error (h_tables s) i) as [t|]; [|reflexivity].
    destruct (render t); reflexivity.
  - destruct (nth_error (h_tables s) i) as [t|]; [|reflexivity].
    destruct (set_fmt t cs ls); [|reflexivity]. cbn [fst set_table h_tables].
    apply nth_error_replace_neq. intros E. apply Ht. cbn [op_target]. congruence.
  - destruct (nth_error (h_tables s) i) as [t|]; [|reflexivity]. cbn [fst set_table h_tables].
    apply nth_error_replace_neq. intros E. apply Ht. cbn [op_target]. congruence.
  - destruct (nth_error (h_tables s) i) as [t|]; [|reflexivity]. cbn [fst h_tables].
    apply nth_error_app1. exact Hj.
Qed.

Lemma tables_grow_l : forall s o, length (h_tables s) <= length (h_tables (fst (step s o))).
Proof.
  intros s o. destruct o as [i|i|g k|i cs ls|i sk|i recs hd ft lim]; cbn [step].
  - destruct (nth_error (h_tables s) i); auto.
  - auto.
  - destruct (k =? 0); [auto|].
    destruct (nth_error (h_gens s) g) as [[i|rest]|]; auto.
    destruct (nth_error (h_tables s) i) as [t|]; auto. destruct (render t); auto.
  - destruct (nth_error (h_tables s) i) as [t|]; auto.
    destruct (set_fmt t cs ls); auto. cbn [fst set_table h_tables]. rewrite replace_nth_length. auto.
  - destruct (nth_error (h_tables s) i) as [t|]; auto. cbn [fst set_table h_tables].
    rewrite replace_nth_length. auto.
  - destruct (nth_error (h_tables s) i) as [t|]; auto. cbn [fst h_tables]. rewrite app_length. lia.
Qed.

(* ---- only ONext g advances iterator g ---- *)
Definition is_next_of (g : nat) (o : op) : bool :=
  match o with ONext g' _ => (g' =? g)%nat | _ => false end.

Lemma gens_frame_l : forall s o g, g < length (h_gens s) -> is_next_of g o = false ->
  nth_error (h_gens (fst (step s o))) g = nth_error (h_gens s) g.
Proof.
  intros s o g Hg Hn. destruct o as [i|i|g' k|i cs ls|i sk|i recs hd ft lim]; cbn [step].
  - destruct (nth_error (h_tables s) i); reflexivity.
  - cbn [fst h_gens]. apply nth_error_app1. exact Hg.
  - cbn [is_next_of] in Hn. apply Nat.eqb_neq in Hn.
    destruct (k =? 0); [reflexivity|].
    destruct (nth_error (h_gens s) g') as [[i|rest]|]; try reflexivity.
    + destruct (nth_error (h_tables s) i) as [t|]; [|reflexivity].
      destruct (render t); cbn [fst set_gen h_gens]; apply nth_error_replace_neq; exact Hn.
    + cbn [fst set_gen h_gens]. apply nth_error_replace_neq. exact Hn.
  - destruct (nth_error (h_tables s) i) as [t|]; [|reflexivity].
    destruct (set_fmt t cs ls); reflexivity.
  - destruct (nth_error (h_tables s) i) as [t|]; reflexivity.
  - destruct (nth_error (h_tables s) i) as [t|]; reflexivity.
Qed.

Lemma gens_grow_l : forall s o, length (h_gens s) <= length (h_gens (fst (step s o))).
Proof.
  intros s o. destruct o as [i|i|g k|i cs ls|i sk|i recs hd ft lim]; cbn [step].
  - destruct (nth_error (h_tables s) i); auto.
  - cbn [fst h_gens]. rewrite app_length. lia.
  - destruct (k =? 0); [auto|].
    destruct (nth_error (h_gens s) g) as [[i|rest]|]; auto.
    + destruct (nth_error (h_tables s) i) as [t|]; auto.
      destruct (render t); cbn [fst set_gen h_gens]; rewrite replace_nth_length; auto.
    + cbn [fst set_gen h_gens]. rewrite replace_nth_length. auto.
  - destruct (nth_error (h_tables s) i) as [t|]; auto. destruct (set_fmt t cs ls); auto.
  - destruct (nth_error (h_tables s) i) as [t|]; auto.
  - destruct (nth_error (h_tables s) i) as [t|]; auto.
Qed.

(* ---- the first next() prints the table as it is then ---- *)
Lemma gen_start_l : forall s g i t k, nth_error (h_gens s) g = Some (GNew i) ->
  nth_error (h_tables s) i = Some t -> 0 < k ->
  step s (ONext g k) =
  match render t with
  | Ok ls => (set_gen s g (GRun (skipn k ls)), Ok (firstn k ls))
  | Err e => (set_gen s g (GRun []), Err e)
  end.
Proof.
  intros s g i t k Hg Ht Hk. cbn [step]. replace (k =? 0) with false by (symmetry; apply Nat.eqb_neq; lia).
  rewrite Hg, Ht. reflexivity.
Qed.

Lemma gen_continue_l : forall s g rest k, nth_error (h_gens s) g = Some (GRun rest) ->
  step s (ONext g k) = (set_gen s g (GRun (skipn k rest)), Ok (firstn k rest)) \/
  (k = 0 /\ step s (ONext g k) = (s, Ok [])).
Proof.
  intros s g rest k Hg. cbn [step]. destruct (k =? 0) eqn:E.
  - right. apply Nat.eqb_eq in E. auto.
  - left. rewrite Hg. reflexivity.
Qed.

(* ---- whatever happens around it, a started iterator delivers its lines in order ---- *)
Lemma gen_stream_l : forall ops s g rest s' evs,
  nth_error (h_gens s) g = Some (GRun rest) -> exec s ops = (s', evs) ->
  exists rest', nth_error (h_gens s') g = Some (GRun rest') /\ rest = delivered g ops evs ++ rest'.
Proof.
  induction ops as [|o ops IH]; intros s g rest s' evs Hg He.
  - cbn [exec] in He. inversion He. subst. exists rest. split; [exact Hg|reflexivity].
  - cbn [exec] in He. destruct (step s o) as [s1 e] eqn:Es. destruct (exec s1 ops) as [s2 es] eqn:Ee.
    inversion He. subst s' evs. clear He.
    destruct (is_next_of g o) eqn:En.
    + destruct o as [i|i|g' k|i cs ls|i sk|i recs hd ft lim]; try discriminate.
      cbn [is_next_of] in En. apply Nat.eqb_eq in En. subst g'.
      destruct (gen_continue_l s g rest k Hg) as [H|[Hk H]]; rewrite H in Es; inversion Es; subst s1 e.
      * assert (Hg1 : nth_error (h_gens (set_gen s g (GRun (skipn k rest)))) g = Some (GRun (skipn k rest))).
        { cbn [set_gen h_gens]. apply nth_error_replace_eq. eapply nth_error_lt. exact Hg. }
        destruct (IH _ g _ _ _ Hg1 Ee) as [rest' [A B]]. exists rest'. split; [exact A|].
        cbn [delivered]. rewrite Nat.eqb_refl. rewrite <- app_assoc. rewrite <- B. symmetry. apply firstn_skipn.
      * destruct (IH _ g _ _ _ Hg Ee) as [rest' [A B]]. exists rest'. split; [exact A|].
        cbn [delivered]. rewrite Nat.eqb_refl. exact B.
    + assert (Hg1 : nth_error (h_gens s1) g = Some (GRun rest)).
      { replace s1 with (fst (step s o)) by (rewrite Es; reflexivity).
        rewrite gens_frame_l; [exact Hg|eapply nth_error_lt; exact Hg|exact En]. }
      destruct (IH _ g _ _ _ Hg1 Ee) as [rest' [A B]]. exists rest'. split; [exact A|].
      rewrite B. destruct o as [i|i|g' k|i cs ls|i sk|i recs hd ft lim]; cbn [delivered]; try (destruct e; reflexivity).
      cbn [is_next_of] in En. rewrite En. destruct e; reflexivity.
Qed.

(* ---- as long as a table is not re-formatted, every whole print of it gives the same text,
        the rendering of that table alone -- whatever else is printed, iterated, re-formatted
        or cloned in between ---- *)
Lemma history_free_l : forall ops s s' evs j t,
  (forall o, In o ops -> op_target o <> Some j) ->
  nth_error (h_tables s) j = Some t -> exec s ops = (s', evs) ->
  nth_error (h_tables s') j = Some t /\
  forall n, nth_error ops n = Some (ORender j) -> nth_error evs n = Some (render t).
Proof.
  induction ops as [|o ops IH]; intros s s' evs j t Hno Ht He.
  - cbn [exec] in He. inversion He. subst. split; [exact Ht|]. intros [|n] H; discriminate.
  - cbn [exec] in He. destruct (step s o) as [s1 e] eqn:Es. destruct (exec s1 ops) as [s2 es] eqn:Ee.
    inversion He. subst s' evs. clear He.
    assert (Ht1 : nth_error (h_tables s1) j = Some t).
    { replace s1 with (fst (step s o)) by (rewrite Es; reflexivity).
      rewrite tables_frame_l; [exact Ht|eapply nth_error_lt; exact Ht|apply Hno; left; reflexivity]. }
    destruct (IH s1 s2 es j t (fun o' H => Hno o' (or_intror H)) Ht1 Ee) as [A B].
    split; [exact A|]. intros [|n] Hn.
    + cbn [nth_error] in Hn. inversion Hn. subst o. rewrite (render_alone_l s j t Ht) in Es.
      inversion Es. reflexivity.
    + cbn [nth_error] in *. apply B. exact Hn.
Qed.

(* ---- what set_fmt / remove_columns / the clone keep and change ---- *)
Lemma filter_all : forall A (f : A -> bool) l, (forall x, f x = true) -> filter f l = l.
Proof. intros A f l H. induction l as [|x l IH]; simpl; [reflexivity|]. rewrite H, IH. reflexivity. Qed.

Lemma set_fmt_spec_l : forall t cs ls t', set_fmt t cs ls = Ok t' ->
  t_fields t' = t_fields t /\ t_records t' = t_records t /\
  t_header t' = t_header t /\ t_footer t' = t_footer t /\
  columns t' = match cs with
               | CKeep => columns t
               | CAll => default_cols (t_fields t)
               | CCols l => l
               end /\
  limits t' = match ls with LKeep => limits t | LSet p => p end.
Proof.
  intros t cs ls t' H. unfold set_fmt in H.
  match type of H with (if constructible ?x then _ else _) = _ => destruct (constructible x); [|discriminate] end.
  inversion H. subst t'. clear H. repeat split.
  unfold columns. cbn [t_cols t_skip t_fields existsb negb].
  rewrite filter_all by reflexivity. destruct cs; reflexivity.
Qed.

Lemma mod_ok_none : forall k, mod_ok k MNone = true.
Proof. intros [|e]; reflexivity. Qed.

Lemma default_cols_valid : forall fields fs, cols_valid fields (default_cols fs) = true.
Proof.
  intros fields fs. unfold cols_valid, default_cols. apply forallb_forall. intros c Hc.
  apply in_map_iff in Hc. destruct Hc as [i [E _]]. subst c. cbn [c_mod]. apply mod_ok_none.
Qed.

Lemma columns_valid : forall t, constructible t = true -> cols_valid (t_fields t) (columns t) = true.
Proof.
  intros t H. unfold constructible, cols_valid in *. rewrite forallb_forall in *.
  intros c Hc. apply H. unfold columns in Hc. apply filter_In in Hc. destruct Hc as [Hc _]. exact Hc.
Qed.

(* set_fmt is rejected exactly when the new fmt names a modifier its field type does not support;
   then the table stays as it was (see [step]) *)
Lemma set_fmt_ok_iff_l : forall t cs ls, constructible t = true ->
  ((exists t', set_fmt t cs ls = Ok t' /\ constructible t' = true) <->
   match cs with CCols l => cols_valid (t_fields t) l = true | _ => True end) /\
  (forall e, set_fmt t cs ls = Err e -> e = ValueErr).
Proof.
  intros t cs ls Hc. unfold set_fmt.
  match goal with |- context [constructible ?x] => set (t1 := x) end.
  assert (E : constructible t1 = match cs with CCols l => cols_valid (t_fields t) l | _ => true end).
  { unfold constructible, all_cols, t1. cbn [t_cols t_fields]. destruct cs as [| |l].
    - apply columns_valid. exact Hc.
    - apply default_cols_valid.
    - reflexivity. }
  split.
  - destruct (constructible t1) eqn:E1.
    + split; [intros _; destruct cs; auto|]. intros _. exists t1. auto.
    + split; [intros [t' [H _]]; discriminate|]. intros H. destruct cs; congruence.
  - intros e H. destruct (constructible t1); [discriminate|]. congruence.
Qed.

Lemma remove_cols_spec_l : forall t skip,
  t_fields (remove_cols t skip) = t_fields t /\ t_records (remove_cols t skip) = t_records t /\
  limits (remove_cols t skip) = limits t /\
  columns (remove_cols t skip) =
    filter (fun c => negb (existsb (Nat.eqb (c_field c)) skip)) (columns t).
Proof.
  intros t skip. repeat split. unfold columns, remove_cols. cbn [t_cols t_skip t_fields].
  induction (match t_cols t with Some l => l | None => default_cols (t_fields t) end) as [|c l IH]; [reflexivity|].
  cbn [filter]. rewrite existsb_app. rewrite negb_orb.
  destruct (negb (existsb (Nat.eqb (c_field c)) (t_skip t))); cbn [andb filter].
  - destruct (negb (existsb (Nat.eqb (c_field c)) skip)); rewrite IH; reflexivity.
  - exact IH.
Qed.

Lemma clone_spec_l : forall t recs hd ft lim,
  let t' := clone_table t recs hd ft lim in
  t_fields t' = t_fields t /\ t_records t' = recs /\ t_header t' = hd /\ t_footer t' = ft /\
  columns t' = columns t /\
  limits t' = match lim with Some p => p | None => limits t end.
Proof.
  intros t recs hd ft lim. repeat split.
  unfold columns at 1. cbn [clone_table t_cols t_skip t_fields existsb negb].
  apply filter_all. reflexivity.
Qed.
