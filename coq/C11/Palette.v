(* C11/Palette.v -- which palette the printer works with, as a function of the public
   arguments  palette= / no_color= / colors_conf=  of PrettyPrinter.__call__ and of the
   global colours configuration: PaletteUser._mk_palette (ak/color.py:1703-1735) on top of
   the construction of a palette, _PaletteMeta.__call__ -> Palette._prepare_local_colors
   (ak/color.py:1357-1403, 1516-1529) and of ColorsConfig(no_color=True)
   (ak/color.py:1053-1112, _ColorConfColorDescr.resolve 764-806).

   Only ONE bit of a palette matters for the property: is it "plain", i.e. is every one
   of its accessors the no-effects format, so that a chunk contributes exactly its text
   and str() of the result is its plain text.  (What the colours are otherwise is not
   modelled.)  No proofs in this file (C11/Run.v uses it). *)
From Coq Require Import Bool.

(* the colors_conf= argument: not given (the global configuration is used), or a
   ColorsConfig which is a no_color configuration (plain = true) or one with colours *)
Inductive conf_arg :=
| ConfNone
| ConfGiven (plain : bool).

(* cls(colors_conf, no_color): no_color=True -> every accessor is _NO_EFFECTS_FMT;
   otherwise the accessors are the colours of the configuration (the global one when
   colors_conf is None), all of which are _NO_EFFECTS_FMT in a no_color configuration.
   A synced palette follows the global configuration: the same bit with conf = ConfNone. *)
Definition class_plain (nc : bool) (conf : conf_arg) (glob_plain : bool) : bool :=
  nc || match conf with
        | ConfGiven p => p
        | ConfNone => glob_plain
        end.

(* the palette= argument *)
Inductive pal_arg :=
| PalNone                                  (* not given: the printer's PALETTE_CLASS *)
| PalClass                                 (* a Palette-derived class *)
| PalObj (nc : bool) (conf : conf_arg).    (* a ready object, built as cls(conf, no_color=nc)
                                              under the global configuration of the call *)

Record cfg := Cfg {
  c_pal : pal_arg;
  c_nc : bool;              (* no_color= (omitted = False) *)
  c_conf : conf_arg;        (* colors_conf= *)
  c_glob_plain : bool       (* the global colours configuration is a no_color one *)
}.

(* _mk_palette: Some plain? ;  None = the call is rejected (AssertionError: a ready palette
   object together with colors_conf) *)
Definition mk_palette_plain (c : cfg) : option bool :=
  match c_pal c with
  | PalObj onc oconf =>
      match c_conf c with
      | ConfGiven _ => None
      | ConfNone =>
          (* if no_color: palette = type(palette)(no_color=True) *)
          Some (if c_nc c then class_plain true ConfNone (c_glob_plain c)
                else class_plain onc oconf (c_glob_plain c))
      end
  | PalNone | PalClass =>
      (* palette_class(colors_conf, no_color) *)
      Some (class_plain (c_nc c) (c_conf c) (c_glob_plain c))
  end.

(* the call  pp(obj)  with default arguments apart from no_color=True *)
Definition cfg_default : cfg := Cfg PalNone true ConfNone false.
