(* LLP/Table.v -- model of _get_nullables, _calc_first_sets, _calc_follow_sets,
   _make_llone_table, is_ambiguous.  Sets are duplicate-free lists; the
   fixpoints are reached by iterating a monotone step (explicit fuel).
   No proofs in this file. *)
From Coq Require Import ZArith List Bool.
From AK Require Import Common.Err LLP.Base.
Import ListNotations.
Open Scope Z_scope.

(* ---------------- nullables ---------------- *)
Definition prod_all_in (S : list sym) (p : list sym) : bool := forallb (fun s => mem s S) p.

Definition null_step (g : grammar) (S : list sym) : list sym :=
  fold_left (fun acc '(nt, rules) =>
      if mem nt acc then acc
      else if existsb (fun r => prod_all_in S (rprod r)) rules then acc ++ [nt] else acc)
    g S.

Fixpoint iter {A} (n : nat) (f : A -> A) (x : A) : A :=
  match n with O => x | S k => iter k f (f x) end.

Definition nullables (g : grammar) : list sym := iter (S (length g)) (null_step g) [].

(* ---------------- FIRST ---------------- *)
(* association list  nonterminal -> set of terminals *)
Notation setmap := (list (sym * list sym)).
Fixpoint sm_get (m : setmap) (s : sym) : list sym :=
  match m with [] => [] | (k, v) :: r => if sym_eqb k s then v else sm_get r s end.
Fixpoint sm_set (m : setmap) (s : sym) (v : list sym) : setmap :=
  match m with [] => [] | (k, w) :: r => if sym_eqb k s then (k, v) :: r else (k, w) :: sm_set r s v end.
Definition sm_size (m : setmap) : nat := fold_left (fun a kv => (a + length (snd kv))%nat) m 0%nat.

(* FIRST of a sentential form prefix, as the loop over prod_r.production does *)
Fixpoint first_of_seq (terminals nulls : list sym) (fs : setmap) (p : list sym) (acc : list sym) : list sym :=
  match p with
  | [] => acc
  | s :: r =>
      let acc' := if mem s terminals then add_set s acc else union_set acc (sm_get fs s) in
      if mem s nulls then first_of_seq terminals nulls fs r acc' else acc'
  end.

Definition first_step (g : grammar) (terminals nulls : list sym) (fs : setmap) : setmap :=
  fold_left (fun fs '(nt, rules) =>
      let cur := fold_left (fun acc r => first_of_seq terminals nulls fs (rprod r) acc) rules (sm_get fs nt) in
      sm_set fs nt cur) g fs.

Definition first_sets (g : grammar) (terminals nulls : list sym) : setmap :=
  let init := map (fun kv => (fst kv, @nil sym)) g in
  iter (S (length g * S (length terminals))) (first_step g terminals nulls) init.

(* ---------------- FOLLOW ---------------- *)
(* phase 1: immediate follows and dependencies, for one occurrence of cur in
   production  ... cur rest  of non_term *)
Fixpoint follow_scan (terminals nulls : list sym) (fs : setmap) (rest : list sym)
         (fol : list sym) : list sym * bool (* all the rest nullable *) :=
  match rest with
  | [] => (fol, true)
  | nx :: r =>
      let fol' := if mem nx terminals then add_set nx fol else union_set fol (sm_get fs nx) in
      if mem nx nulls then follow_scan terminals nulls fs r fol' else (fol', false)
  end.

Fixpoint follow_prod (terminals nulls : list sym) (fs : setmap) (nt : sym) (p : list sym)
         (fol deps : setmap) : setmap * setmap :=
  match p with
  | [] => (fol, deps)
  | cur :: rest =>
      if mem cur terminals then follow_prod terminals nulls fs nt rest fol deps
      else
        let '(f', allnull) := follow_scan terminals nulls fs rest (sm_get fol cur) in
        let fol' := sm_set fol cur f' in
        let deps' := if allnull then sm_set deps cur (add_set nt (sm_get deps cur)) else deps in
        follow_prod terminals nulls fs nt rest fol' deps'
  end.

Definition follow_close_step (deps : setmap) (fol : setmap) : setmap :=
  fold_left (fun fol '(s, ds) =>
      sm_set fol s (fold_left (fun acc d => union_set acc (sm_get fol d)) ds (sm_get fol s)))
    deps fol.

Definition follow_sets (g : grammar) (terminals nulls : list sym) (fs : setmap) (start : sym) : setmap :=
  let init := map (fun kv => (fst kv, if sym_eqb (fst kv) start then [END_TOKEN] else @nil sym)) g in
  let deps0 := map (fun kv => (fst kv, @nil sym)) g in
  let '(fol, deps) :=
    fold_left (fun '(fol, deps) '(nt, rules) =>
        fold_left (fun '(fol, deps) r => follow_prod terminals nulls fs nt (rprod r) fol deps) rules (fol, deps))
      g (init, deps0) in
  iter (S (length g * S (S (length terminals)))) (follow_close_step deps) fol.

(* ---------------- parse table ---------------- *)
(* start symbols (PREDICT set) of a production *)
Fixpoint predict_seq (terminals nulls : list sym) (fs : setmap) (p : list sym) (acc : list sym)
  : list sym * bool (* every symbol nullable *) :=
  match p with
  | [] => (acc, true)
  | s :: r =>
      if mem s terminals then (add_set s acc, false)
      else let acc' := union_set acc (sm_get fs s) in
           if mem s nulls then predict_seq terminals nulls fs r acc' else (acc', false)
  end.

Definition predict (terminals nulls : list sym) (fs fol : setmap) (r : rule) : list sym :=
  let '(st, alln) := predict_seq terminals nulls fs (rprod r) [] in
  if alln then union_set st (sm_get fol (rsym r)) else st.

Fixpoint insert_rule (r : rule) (l : list rule) : list rule :=
  match l with
  | [] => [r]
  | x :: t => if rsort r <? rsort x then r :: l else x :: insert_rule r t
  end.
(* stable sort by sort_n *)
Definition sort_rules (l : list rule) : list rule := fold_left (fun acc r => insert_rule r acc) l [].

Record tables := mkTables {
  t_terminals : list sym;    (* includes $END$ *)
  t_nulls : list sym;
  t_first : setmap;
  t_follow : setmap;
  t_grammar : grammar;
}.

Definition make_tables (g : grammar) (terminals_with_end : list sym) (start : sym) : tables :=
  let nulls := nullables g in
  let fs := first_sets g terminals_with_end nulls in
  let fol := follow_sets g terminals_with_end nulls fs start in
  mkTables terminals_with_end nulls fs fol g.

(* parse_table.get((nt, tok)) : [] stands for None *)
Definition table_get (T : tables) (nt tok : sym) : list rule :=
  sort_rules (filter (fun r => mem tok (predict (t_terminals T) (t_nulls T) (t_first T) (t_follow T) r))
                     (grules (t_grammar T) nt)).

(* all the (nt, tok) keys present in parse_table *)
Definition table_keys (T : tables) : list (sym * sym) :=
  flat_map (fun kv => flat_map (fun tok => match table_get T (fst kv) tok with [] => [] | _ => [(fst kv, tok)] end)
                               (t_terminals T)) (t_grammar T).

Definition is_ambiguous (T : tables) : bool :=
  existsb (fun k => negb (length (table_get T (fst k) (snd k)) =? 1)%nat) (table_keys T).
