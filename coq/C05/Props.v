(* C05/Props.v -- the property theorems, nothing else.
   List, map and sequence templates return exactly the denoted items.

   Vocabulary (C05/Model.v; proofs in C05/Lemmas*.v):
     list_ctor / list_init / list_gen    ListProds.__init__ / complete_init / gen_productions
     map_ctor / map_init / map_gen       the same for MapProds;   seq_gen  ProdSequence.gen_productions
     rt                                  TElement tree of parse(text, do_cleanup=False):
                                         RTok token | RNull empty production | RNode inner | RSeq flattened sequence
     valid P t                           t is a derivation tree of the productions P (elements named by symbols
                                         that P does not define -- items, brackets -- are arbitrary subtrees)
     frontier P t                        those foreign subtrees, in source order;  yield t  = the token names
     litems r o t                        the frontier of a list without its brackets and delimiters = the items
     mcontent r o t                      the frontier of a map without brackets, delimiters and assignment
                                         symbols = key1 value1 key2 value2 ...
     cl E t (MClean fc fch)              StdCleanuper._cleanup(t, for_container=fc, for_choice=fch) in the
                                         cleanup environment E (templates, choice/keep/squash symbols):
                                         Ok (OTe (name, _is_leaf, value) no_squash) or an exception
     clean_tes / clean_pairs             the items (keys and values) cleaned as container entries, in order
     item_value x                        `x.value if x.is_leaf() else x`
     flatten seqs t                      LLParser._process_seq_telement applied bottom-up (as the parse loop does)
     D, enc, den E t d                   abstract data, its python representation, "t denotes d" *)
From Coq Require Import ZArith List Bool.
From AK Require Import Common.Err LLP.Base gen.C05_Consts C05.Model C05.Lemmas C05.LemmasList C05.LemmasMap
     C05.LemmasSeq C05.LemmasNest C05.Witness C05.LemmasEx.
Import ListNotations.

(* ---- what is read from the source on every run ------------------------ *)

(* the generated helper names really extend the template's name, the map's two
   helper names differ, _cleanup descends into the elements of a sequence, and the
   cleanuper's keep_symbols is a private copy of the constructor argument (so the
   environment [grammar_env g keep start] of a parser object depends on its own
   constructor arguments only, not on other parser objects given the same set) *)
Theorem source_shape :
  sfx_tail <> [] /\ sfx_kv_pair <> [] /\ sfx_kv_tail <> [] /\ sfx_element <> [] /\
  sfx_kv_pair <> sfx_kv_tail /\ seq_cleaned = true /\ keep_copied = true.
Proof.
  destruct sfx_nonempty as (A & B & C & D').
  exact (conj A (conj B (conj C (conj D' (conj sfx_pair_tail_differ (conj eq_refl eq_refl)))))).
Qed.
Print Assumptions source_shape.

(* ---- ListProds -------------------------------------------------------- *)

(* the constructor accepts exactly eight combinations of
   (brackets, delimiter, allow_final_delimiter, optional) *)
Theorem list_option_combinations : forall op item d c afd opt o,
  list_ctor op item d c afd opt = Ok o ->
  lo_open o = op /\ lo_item o = item /\ lo_delim o = d /\ lo_close o = c /\
  In (is_some (lo_open o), is_some (lo_delim o), lo_afd o, lo_opt o)
     [(true, true, true, true); (true, true, true, false); (true, true, false, true); (true, true, false, false);
      (true, false, false, true); (true, false, false, false); (false, true, false, false); (false, false, false, false)].
Proof.
  intros op item d c afd opt o. unfold list_ctor.
  destruct op, c, d, afd as [[|]|], opt as [[|]|]; simpl; intro H; try discriminate;
    injection H as <-; simpl; repeat split; tauto.
Qed.
Print Assumptions list_option_combinations.

Example list_option_combinations_all_reachable :
  forallb (fun combo =>
    existsb (fun args : option sym * option sym * option bool * option bool =>
               let '(br, d, afd, opt) := args in
               match list_ctor br sVALUE d br afd opt with
               | Ok o => Bool.eqb (is_some (lo_open o)) (fst (fst (fst combo))) &&
                         Bool.eqb (is_some (lo_delim o)) (snd (fst (fst combo))) &&
                         Bool.eqb (lo_afd o) (snd (fst combo)) && Bool.eqb (lo_opt o) (snd combo)
               | Err _ => false
               end)
            (flat_map (fun br => flat_map (fun d => flat_map (fun afd => map (fun opt => (br, d, afd, opt))
                        [None; Some true; Some false]) [None; Some true; Some false]) [None; Some sCOMMA]) [None; Some sLB]))
    [(true, true, true, true); (true, true, true, false); (true, true, false, true); (true, true, false, false);
     (true, false, false, true); (true, false, false, false); (false, true, false, false); (false, false, false, false)]
  = true.
Proof. vm_compute. reflexivity. Qed.
Print Assumptions list_option_combinations_all_reachable.

(* list_denote: for every derivation tree of the productions generated for ANY
   accepted option combination, the conversion returns the items of the
   frontier, cleaned as container entries, in source order (the first exception
   of an item is propagated); [list_post] is the special-casing of a trailing /
   single None at the end of transform_t_elem; an absent optional list stays None *)
Theorem list_denote : forall result o E t fc fch,
  lopts_ok result o ->
  tmpl_get (e_tmpl E) result = Some (TL (list_init result o)) ->
  rname t = result -> valid (list_gen (list_init result o)) t = true ->
  cl E t (MClean fc fch) =
  if lo_opt o && is_rnull t then Ok (OTe (embed t) fch)
  else match clean_tes E (litems result o t) with
       | Err e => Err e
       | Ok items => Ok (OTe (mkTe result true (CList (list_post o (map item_value items)))) fch)
       end.
Proof. intros result o E t fc fch OK. exact (list_denote_l result o OK E t fc fch). Qed.
Print Assumptions list_denote.

(* the special-casing changes nothing unless the last entry is None in a list
   that allows a final delimiter, or the only entry of a bracket-less list is None *)
Theorem list_post_plain : forall o vals,
  (lo_afd o = false \/ last vals CNone <> CNone) ->
  (is_some (lo_open o) = true \/ vals <> [CNone]) ->
  list_post o vals = vals.
Proof. exact list_post_id. Qed.
Print Assumptions list_post_plain.

(* "[1, 2, ]" matched through an EMPTY last item (nullable item symbol) is read
   as a final delimiter: the trailing None is dropped *)
Theorem final_delimiter_through_empty_item : forall o vals,
  lo_afd o = true -> list_post o (vals ++ [CNone]) = vals.
Proof. exact list_post_final_none. Qed.
Print Assumptions final_delimiter_through_empty_item.

(* round 5 (seeded change C05-m9): a text made of delimiters only - k delimiters separate
   k + 1 (empty) items.  In a list that does not allow a final delimiter (every bracket-less
   list unless asked otherwise) none of them is dropped; only the SINGLE None of the empty
   text of a bracket-less list is no item *)
Theorem delimiters_only_items_kept : forall o n,
  lo_afd o = false -> list_post o (CNone :: CNone :: repeat CNone n) = CNone :: CNone :: repeat CNone n.
Proof.
  intros o n H. apply list_post_id; [left; exact H|right; discriminate].
Qed.
Print Assumptions delimiters_only_items_kept.

Theorem empty_text_is_empty_list : forall o,
  lo_open o = None -> list_post o [CNone] = [].
Proof.
  intros o H. unfold list_post. simpl. rewrite H. simpl. destruct (lo_afd o); reflexivity.
Qed.
Print Assumptions empty_text_is_empty_list.

(* the (delimiter,) production contributes no item: a final delimiter adds nothing *)
Theorem final_delimiter_adds_nothing : forall result o d dl,
  lopts_ok result o -> lo_delim o = Some d -> rname dl = d ->
  filter (nonpunct o) (frontier (list_gen (list_init result o)) (RNode (lt_tail (list_init result o)) [dl])) = [].
Proof. intros result o d dl OK. exact (final_delim_no_item result o OK d dl). Qed.
Print Assumptions final_delimiter_adds_nothing.

(* an empty bracket pair is a derivation tree and gives [] *)
Theorem list_empty_brackets : forall result o E op c b1 b2 fc fch,
  lopts_ok result o ->
  tmpl_get (e_tmpl E) result = Some (TL (list_init result o)) ->
  lo_open o = Some op -> lo_close o = Some c -> rname b1 = op -> rname b2 = c ->
  valid (list_gen (list_init result o)) (RNode result [b1; b2]) = true /\
  cl E (RNode result [b1; b2]) (MClean fc fch) = Ok (OTe (mkTe result true (CList [])) fch).
Proof. intros result o E op c b1 b2 fc fch OK. exact (empty_brackets_l result o OK E op c b1 b2 fc fch). Qed.
Print Assumptions list_empty_brackets.

(* an absent optional list is a derivation tree and its value stays None *)
Theorem list_absent_optional : forall result o E fc fch,
  lopts_ok result o ->
  tmpl_get (e_tmpl E) result = Some (TL (list_init result o)) -> lo_opt o = true ->
  valid (list_gen (list_init result o)) (RNull result) = true /\
  cl E (RNull result) (MClean fc fch) = Ok (OTe (mkTe result true CNone) fch).
Proof. intros result o E fc fch OK. exact (absent_optional_l result o OK E fc fch). Qed.
Print Assumptions list_absent_optional.

(* a bracket-less list that matched nothing gives [] *)
Theorem list_bracketless_empty : forall result o E fc fch,
  lopts_ok result o ->
  tmpl_get (e_tmpl E) result = Some (TL (list_init result o)) -> lo_open o = None ->
  valid (list_gen (list_init result o)) (RNull result) = true /\
  cl E (RNull result) (MClean fc fch) = Ok (OTe (mkTe result true (CList [])) fch).
Proof. intros result o E fc fch OK. exact (bracketless_empty_l result o OK E fc fch). Qed.
Print Assumptions list_bracketless_empty.

(* final_delim_rejected: with allow_final_delimiter=False no derivation tree of
   the list symbol has a token string ending "delimiter close-bracket", when
   brackets/delimiters are single tokens and every item matches at least one
   token and does not itself end with the delimiter token (non-nullable item) *)
Theorem final_delim_rejected : forall result o op d c t,
  lopts_ok result o ->
  lo_open o = Some op -> lo_delim o = Some d -> lo_close o = Some c -> lo_afd o = false ->
  rname t = result -> valid (list_gen (list_init result o)) t = true -> d <> op ->
  Forall (leaf_ok o d) (frontier (list_gen (list_init result o)) t) ->
  forall pre, yield t <> pre ++ [d; c].
Proof. intros result o op d c t OK Eo Ed Ec Ea. exact (final_delim_rejected_l result o OK op d c Eo Ed Ec Ea t). Qed.
Print Assumptions final_delim_rejected.

(* ---- MapProds --------------------------------------------------------- *)

(* map_denote: the conversion returns dict(pairs) of the key/value subtrees of
   the frontier in source order, cleaned as container entries *)
Theorem map_denote : forall result o E t fc fch,
  mopts_ok result o ->
  tmpl_get (e_tmpl E) result = Some (TM (map_init result o)) ->
  rname t = result -> valid (map_gen (map_init result o)) t = true ->
  cl E t (MClean fc fch) =
  if mo_opt o && is_rnull t then Ok (OTe (embed t) fch)
  else match clean_pairs E (mcontent result o t) with
       | Err e => Err e
       | Ok pairs => match py_dict pairs with
                     | Err e => Err e
                     | Ok d => Ok (OTe (mkTe result true (CDict d)) fch)
                     end
       end.
Proof. intros result o E t fc fch OK. exact (map_denote_l result o OK E t fc fch). Qed.
Print Assumptions map_denote.

(* dict(): with hashable keys no exception; one entry per key in the order of
   first occurrence; a repeated (string) key keeps the LAST value *)
Theorem map_dict_semantics : forall ps,
  forallb (fun kv => is_cstr (fst kv)) ps = true ->
  py_dict ps = Ok (dict_of ps) /\
  map fst (dict_of ps) = first_occ (map fst ps) /\
  forall k, dict_get (dict_of ps) k = assoc_last ps k.
Proof.
  intros ps H. split; [|split].
  - apply py_dict_hashable. rewrite forallb_forall in *. intros kv Hkv. specialize (H kv Hkv).
    destruct (fst kv); try discriminate; reflexivity.
  - apply dict_keys_order.
  - intro k. now apply dict_last_wins.
Qed.
Print Assumptions map_dict_semantics.

Theorem map_empty_brackets : forall result o E op c b1 b2 fc fch,
  mopts_ok result o ->
  tmpl_get (e_tmpl E) result = Some (TM (map_init result o)) ->
  mo_open o = Some op -> mo_close o = Some c -> rname b1 = op -> rname b2 = c ->
  valid (map_gen (map_init result o)) (RNode result [b1; b2]) = true /\
  cl E (RNode result [b1; b2]) (MClean fc fch) = Ok (OTe (mkTe result true (CDict [])) fch).
Proof. intros result o E op c b1 b2 fc fch OK. exact (empty_map_l result o OK E op c b1 b2 fc fch). Qed.
Print Assumptions map_empty_brackets.

Theorem map_absent_optional : forall result o E fc fch,
  mopts_ok result o ->
  tmpl_get (e_tmpl E) result = Some (TM (map_init result o)) -> mo_opt o = true ->
  valid (map_gen (map_init result o)) (RNull result) = true /\
  cl E (RNull result) (MClean fc fch) = Ok (OTe (mkTe result true CNone) fch).
Proof. intros result o E fc fch OK. exact (absent_optional_map_l result o OK E fc fch). Qed.
Print Assumptions map_absent_optional.

(* ---- ProdSequence ----------------------------------------------------- *)

(* seq_denote: flattening a derivation tree of the generated productions (as
   the parse loop does, innermost first) gives the leaf whose value is the list
   of matched elements in source order (each flattened in turn) *)
Theorem seq_denote : forall result syms seqs t,
  mem result seqs = true -> mem (seq_elem_name result) seqs = false ->
  ~ In result syms -> ~ In (seq_elem_name result) syms ->
  rname t = result -> valid (seq_gen result syms) t = true ->
  flatten seqs t =
  match all_ok (map (flatten seqs) (frontier (seq_gen result syms) t)) with
  | Ok els => Ok (RSeq result els)
  | Err e => Err e
  end.
Proof. intros result syms seqs t H1 H2 H3 H4. exact (seq_denote_l result syms seqs H1 H2 H3 H4 t). Qed.
Print Assumptions seq_denote.

(* ---- items ------------------------------------------------------------ *)

(* full statement: a symbol with single-symbol productions only, not kept,
   never shows in a container entry *)
Definition squash_item_statement : Prop :=
  forall E c x v ns,
    tmpl_get (e_tmpl E) c = None -> mem c (e_squash E) = true -> mem c (e_keep E) = false ->
    cl E x (MClean true false) = Ok (OTe v ns) ->
    exists y ns', cl E (RNode c [x]) (MClean true false) = Ok (OTe y ns') /\ item_value y = item_value v.

(* it does not hold as coded: a choice symbol below a choice symbol is kept as
   a tree element (the name records which alternative matched): VALUE -> ATOM | LIST,
   ATOM -> WORD | NUM, entry "a" is the element ATOM[WORD a], not "a" *)
Theorem squash_item_refuted : ~ squash_item_statement.
Proof.
  intro H.
  destruct (H (env_of w6_g [] sE true) sVALUE (RNode sATOM [RTok sWORD [97]%Z])
              (mkTe sWORD true (CStr [97]%Z)) true) as (y & ns' & Hy & Hv);
    try (vm_compute; reflexivity).
  vm_compute in Hy. injection Hy as <- _. vm_compute in Hv. discriminate.
Qed.
Print Assumptions squash_item_refuted.

(* proved part: around an element whose cleanup does not depend on its position
   (token, template symbol, sequence) the symbol disappears and the bare value
   is the entry *)
Theorem squash_item_partial : forall E c x d,
  choice_ok E c -> base_result E x d ->
  exists y ns, cl E (RNode c [x]) (MClean true false) = Ok (OTe y ns) /\
               te_leaf y = true /\ te_val y = enc d /\ item_value y = enc d.
Proof. exact squash_item_l. Qed.
Print Assumptions squash_item_partial.

(* ---- nesting ---------------------------------------------------------- *)

(* nested: containers nested in containers to any depth (structural induction
   over the denotation): the entry a tree contributes to its container is the
   python representation of the data it denotes; for tokens, template symbols
   and sequences the same holds in every position, with the element's name kept *)
Theorem nested : forall E t d, den E t d ->
  (exists x ns, cl E t (MClean true false) = Ok (OTe x ns) /\ item_value x = enc d) /\
  (is_base E t -> forall fc fch, exists x,
     cl E t (MClean fc fch) = Ok (OTe x fch) /\ te_name x = rname t /\ te_leaf x = true /\ te_val x = enc d).
Proof.
  intros E t d H. destruct (nested_l E) as (N & _). destruct (N t d H) as [B I]. split; [exact I|exact B].
Qed.
Print Assumptions nested.

(* containers as elements of a sequence (the repaired code: e_seqclean = true,
   which source_shape states of the current source): every element is converted *)
Theorem nested_in_sequence : forall E n ch nds fc fch,
  e_seqclean E = true -> tmpl_get (e_tmpl E) n = None -> densb E ch nds ->
  cl E (RSeq n ch) (MClean fc fch) = Ok (OTe (mkTe n true (enc (DSeq nds))) fch).
Proof.
  intros E n ch nds fc fch SC HT H.
  assert (Dn : den E (RSeq n ch) (DSeq nds)) by (apply den_seq; auto).
  destruct (nested_l E) as (N & _). destruct (N _ _ Dn) as [B _].
  destruct (B HT fc fch) as (x & Hx & Hn & Hl & Hv). rewrite Hx. destruct x as [xn xl xv]. simpl in *. now subst.
Qed.
Print Assumptions nested_in_sequence.

(* a cleanup that returns at the is_leaf() test (the code before c9bcabb,
   e_seqclean = false) hands back the elements of a sequence untouched ... *)
Theorem sequence_elements_untouched_without_descent : forall E n ch fc fch,
  e_seqclean E = false -> tmpl_get (e_tmpl E) n = None ->
  cl E (RSeq n ch) (MClean fc fch) = Ok (OTe (embed (RSeq n ch)) fch).
Proof. intros E n ch fc fch SC HT. rewrite (cl_seq E n ch fc fch HT), SC. reflexivity. Qed.
Print Assumptions sequence_elements_untouched_without_descent.

(* ... so "nested to any depth" fails for it: SEQ: ProdSequence(WORD, LIST), text
   "a [b,[c]] f ;" keeps the raw LIST/ITEM/LIST__TAIL tree (regression witness,
   corpus/C05/nested_in_sequence.json) *)
Theorem nested_in_sequence_refuted :
  exists g keep start raw gi x,
    init_grammar g = Ok gi /\ templates_valid false gi raw = true /\
    cleanup (grammar_env gi keep start false) raw = Ok x /\
    has_raw (e_tmpl (grammar_env gi keep start false)) (te_cv x) = true.
Proof. exists w1_g, [], sE, w1_raw, w1_gi, w1_clean_old. exact w1_refutes. Qed.
Print Assumptions nested_in_sequence_refuted.

(* ---- items that are DIRECTLY template symbols -------------------------- *)

(* A raw element in item position may be a leaf without being a token: the element
   of a ProdSequence (its value is a list of complete sub-trees), an empty
   bracket-less list (value None).  [den] puts no choice symbol between a container
   and its items, so [nested] covers them; the two statements below spell the
   entries out.  A sequence directly as list item / map value: the entry is the list
   of its cleaned elements - the containers among them converted ... *)
Theorem item_directly_sequence : forall E n ch nds,
  e_seqclean E = true -> tmpl_get (e_tmpl E) n = None -> densb E ch nds ->
  exists x ns, cl E (RSeq n ch) (MClean true false) = Ok (OTe x ns) /\ item_value x = enc (DSeq nds).
Proof.
  intros E n ch nds SC HT H.
  assert (Dn : den E (RSeq n ch) (DSeq nds)) by (apply den_seq; auto).
  destruct (nested_l E) as (N & _). destruct (N _ _ Dn) as [_ I]. exact I.
Qed.
Print Assumptions item_directly_sequence.

(* ... and an empty row of a list of bracket-less lists denotes the empty list and
   its entry is [], not None *)
Theorem item_directly_empty_bracketless : forall E n o,
  lopts_ok n o -> tmpl_get (e_tmpl E) n = Some (TL (list_init n o)) -> lo_open o = None ->
  den E (RNull n) (DList []) /\
  exists x ns, cl E (RNull n) (MClean true false) = Ok (OTe x ns) /\ item_value x = CList [].
Proof.
  intros E n o OK HT Ho.
  destruct (bracketless_empty_l n o OK E true false HT Ho) as [V C].
  split; [|eexists; eexists; split; [exact C|reflexivity]].
  assert (Hopt : lo_opt o = false).
  { destruct (lo_opt o) eqn:Eo; [|reflexivity]. pose proof (lok_opt _ _ OK Eo) as B. now rewrite Ho in B. }
  apply (den_list E n o (RNull n) []); auto.
  - now rewrite Hopt.
  - unfold litems. cbn [frontier rname]. unfold list_gen. cbn [plookup lt_res list_init]. rewrite sym_eqb_refl. apply dens_nil.
  - left. destruct (lo_afd o) eqn:Ea; [|reflexivity]. destruct (lok_afd _ _ OK Ea) as [_ B]. now rewrite Ho in B.
  - right. discriminate.
Qed.
Print Assumptions item_directly_empty_bracketless.

(* ---- stretch, not proved ---------------------------------------------- *)

(* template_unambiguous (for lists with a delimiter): the token string of a
   derivation tree determines its items, hence with C01 parse(render d) denotes d.
   Only tested (oracle: equality with the generating data). *)
Definition template_unambiguous_statement : Prop :=
  forall result o d t1 t2,
    lopts_ok result o -> lo_delim o = Some d ->
    rname t1 = result -> rname t2 = result ->
    valid (list_gen (list_init result o)) t1 = true -> valid (list_gen (list_init result o)) t2 = true ->
    Forall (leaf_ok o d) (frontier (list_gen (list_init result o)) t1) ->
    Forall (leaf_ok o d) (frontier (list_gen (list_init result o)) t2) ->
    (forall x, In x (litems result o t1 ++ litems result o t2) -> ~ In d (yield x)) ->
    yield t1 = yield t2 ->
    map yield (litems result o t1) = map yield (litems result o t2).

(* ---- the hypotheses are satisfiable; concrete runs --------------------- *)

(* option records of accepted constructor calls meet lopts_ok / mopts_ok *)
Example options_ok : lopts_ok sLIST o_list /\ mopts_ok sMAP o_map.
Proof. exact (conj o_list_ok o_map_ok). Qed.
Print Assumptions options_ok.

(* "[a, {k: [b, c], k: d}, [], ]": source order, last value of a repeated key,
   empty brackets, final delimiter -- on the tree the implementation returned *)
Example run_list_map :
  valid (list_gen (list_init sLIST o_list)) (match w2_raw with RNode _ [l] => l | _ => RNull [] end) = true /\
  cleanup (env_of w2_g [] sE true) w2_raw =
  Ok (mkTe sE true (CList [CStr [97]%Z; CDict [(CStr [107]%Z, CStr [100]%Z)]; CList []])).
Proof. vm_compute. split; reflexivity. Qed.
Print Assumptions run_list_map.

(* ---- one parser object, several calls ---------------------------------- *)

(* The result of a call depends on the raw tree of THAT call and on the tables the
   constructor made, not on the calls made before on the same parser object (other
   texts, explicit start symbols, calls without cleanup): the model's parser state
   is the cleanup environment, a call returns it unchanged, and the k-th result of
   any sequence of calls is the cleanup of the k-th tree.  So list_denote,
   map_denote, seq_denote and nested speak about every call of a history.  That
   the implementation has no such memory either is what the history cases of the
   correspondence check compare (harness/props/c05.py, kind "hist"). *)
Theorem history_independent : forall E pre r post,
  fst (call_step E r) = E /\
  nth_error (run_calls E (pre ++ r :: post)) (length pre) = Some (cleanup E r).
Proof. intros E pre r post. exact (conj (call_state_constant E r) (run_calls_nth E pre r post)). Qed.
Print Assumptions history_independent.

(* a list with a map and an empty list, then "a" from the start symbol VALUE (the
   item symbol), then the first text again: the same containers both times *)
Example run_history :
  run_calls (env_of w2_g [] sE true) [w2_raw; w2_value_raw; w2_raw] =
  [Ok w2_clean; Ok (mkTe sWORD true (CStr [97]%Z)); Ok w2_clean].
Proof. exact w2_history. Qed.
Print Assumptions run_history.

(* Read-only entry points (print_detailed_descr, the summary generators,
   is_ambiguous, str/repr, reading the tables, a call that raises before a tree
   exists, the printers of a returned tree) used anywhere between the calls: the
   state stays what the constructor made, the results of the calls are those of the
   same history without these steps, and the k-th call still returns the cleanup of
   its own raw tree.  About the model; for the implementation it is what the history
   cases with `look` steps compare. *)
Theorem introspection_transparent : forall E ops,
  (forall o, fst (hop_step E o) = E) /\
  opt_cat (run_ops E ops) = run_calls E (calls_of ops) /\
  (forall pre r post, calls_of ops = pre ++ r :: post ->
     nth_error (opt_cat (run_ops E ops)) (length pre) = Some (cleanup E r)).
Proof.
  intros E ops. split; [exact (hop_state_constant E)|]. split; [exact (run_ops_calls E ops)|].
  intros pre r post. exact (run_ops_nth E ops pre r post).
Qed.
Print Assumptions introspection_transparent.

Example run_history_with_looks :
  run_ops (env_of w2_g [] sE true) [HLook 0; HCall w2_raw; HLook 3; HCall w2_value_raw; HLook 8; HLook 0; HCall w2_raw] =
  [None; Some (Ok w2_clean); None; Some (Ok (mkTe sWORD true (CStr [97]%Z))); None; None; Some (Ok w2_clean)].
Proof. exact w2_history_looks. Qed.
Print Assumptions run_history_with_looks.

(* nullable item: "[a, ]" gives [a] (the empty last item is the final delimiter),
   "[a, , ]" gives [a, None] *)
Example run_final_delimiter_nullable_item :
  cleanup (env_of w3_g [] sE true) w3_raw = Ok (mkTe sE true (CList [CStr [97]%Z])) /\
  cleanup (env_of w3b_g [] sE true) w3b_raw = Ok (mkTe sE true (CList [CStr [97]%Z; CNone])).
Proof. vm_compute. split; reflexivity. Qed.
Print Assumptions run_final_delimiter_nullable_item.

(* absent optional list "a ;" stays None; bracket-less list "a b ;" *)
Example run_absent_and_bracketless :
  cleanup (env_of w4_g [] sE true) w4_raw =
  Ok (mkTe sE false (CList [CElem sWORD true (CStr [97]%Z); CElem sLIST true CNone; CElem sSEMI true (CStr [59]%Z)])) /\
  cleanup (env_of w7_g [] sE true) w7_raw =
  Ok (mkTe sE false (CList [CElem sLIST true (CList [CStr [97]%Z; CStr [98]%Z]); CElem sSEMI true (CStr [59]%Z)])).
Proof. vm_compute. split; reflexivity. Qed.
Print Assumptions run_absent_and_bracketless.

(* the un-flattened tree of "a 1 b ;" flattens to the tree the parser returned *)
Example run_flatten : flatten [sSEQ] w5_raw2 = Ok w5_raw /\ flatten [sSEQ] w1_raw2 = Ok w1_raw.
Proof. vm_compute. split; reflexivity. Qed.
Print Assumptions run_flatten.

(* a denotation derivation exists for a nested value with a repeated key ... *)
Example den_satisfiable : den E8 w8_list d8 /\ enc d8 = CList [CStr [97]%Z; CDict [(CStr [107]%Z, CStr [99]%Z)]].
Proof. split; [exact w8_den|vm_compute; reflexivity]. Qed.
Print Assumptions den_satisfiable.

(* ... and for containers inside a sequence; the repaired cleanup converts the
   witness of nested_in_sequence_refuted *)
Example den_sequence_satisfiable :
  den (E1 true) w1_seq d1 /\
  exists x, cleanup (E1 true) w1_raw = Ok x /\ has_raw (e_tmpl (E1 true)) (te_cv x) = false.
Proof.
  split; [exact w1_den|]. eexists. split; [vm_compute; reflexivity|vm_compute; reflexivity].
Qed.
Print Assumptions den_sequence_satisfiable.

(* ... and for items that are DIRECTLY template symbols, on the trees the
   implementation returned: "[a, b; ; c]" (rows = bracket-less lists, the middle one
   empty) denotes [[a, b], [], [c]]; "[s {k: [p]}; ; g]" (rows = sequences, one
   holding a map whose value is again a list of rows) *)
Example den_direct_items_satisfiable :
  den E9 w9_list d9 /\ den E10 w10_list d10 /\
  cleanup E9 w9_raw = Ok (mkTe sE true (enc d9)) /\ cleanup E10 w10_raw = Ok (mkTe sE true (enc d10)) /\
  enc d9 = CList [CList [CStr [97]%Z; CStr [98]%Z]; CList []; CList [CStr [99]%Z]].
Proof.
  split; [exact w9_den|]. split; [exact w10_den|]. destruct w9_w10_clean as [A B].
  split; [exact A|]. split; [exact B|]. vm_compute. reflexivity.
Qed.
Print Assumptions den_direct_items_satisfiable.
