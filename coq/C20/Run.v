(* C20/Run.v -- entry point of the correspondence check. *)
From Coq Require Import ZArith List.
From AK Require Export Common.Sx Common.Err C20.Model.
Import ListNotations.

Inductive case :=
| ToShort (u : Z)
| FromShort (a : pyarg)
| FromStr (std : option Z) (s : list Z).

Definition run (c : case) : sx :=
  match c with
  | ToShort u => sx_str (uuid_to_short_str u)
  | FromShort a => sx_res SZ (uuid_from_short_str a)
  | FromStr std s => sx_res SZ (uuid_from_str std s)
  end.
