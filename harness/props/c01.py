"""C01  Every parse result is a valid derivation of the user's grammar (ak/llparser.py)"""
import random

from harness.lib import sx as SX
from harness.props import llp_common as L

ID = "C01"
DISABLED = "work in progress: the model and its correspondence check exist, parse_sound is not proved yet (DESIGN.md section 8, C01)"
COQ_DIR = "C01"
EXTRA_COQ_DIRS = ["LLP"]
RUN_MOD = L.RUN_MOD
MODEL_TARGETS = ["C01/Run.vo"]
PROOF_TARGETS = ["C01/Basics.vo", "C01/Lemmas.vo", "C01/LemmasFact.vo", "C01/LemmasTable.vo", "C01/LemmasTop.vo"]
PROPS = ["C01/Props.v"]
ALLOWED_AXIOMS = []
IMPL_TIMEOUT = 20.0
COQ_SHARD = 40
RULE = ("random grammars (2-6 non-terminals with permuted names, 2-5 terminals, 1-4 ordered alternatives of length 0-4; "
        "forced shapes: common prefixes, nested common prefixes, an alternative that is a prefix of another, empty "
        "alternatives, some left recursion), both smart_factorization values; per grammar up to 12 inputs: sampled "
        "sentences, sentences with one token inserted/deleted/replaced, random token strings; token values differ from "
        "token names.  Non-trivial = distinct (grammar, inputs) whose constructor succeeds, whose grammar has a common-prefix "
        "group or an empty alternative, and at least one input parses to a tree.")
TRUSTED_BASE = [
    "tokenisation is outside this model: the model's parse receives the generator's token list (names, values); "
    "the implementation tokenises the rendered text itself (tokenizer covered by C04)",
    "GrammarError checks of _verify_grammar_structure_part1 (unknown symbols etc.) are outside the model; generated grammars never trigger them",
]
ASSUMPTIONS = ["grammars use plain productions (templates are C05's subject)"]
MODELLED = ("ak/llparser.py: _create_productions (plain), _factorize_productions and helpers, _get_nullables, _calc_first_sets, "
            "_calc_follow_sets, _make_llone_table, _verify_grammar_structure_part2, the main loop of parse incl. suffix splicing and roll-back")


def _mutate_for_c01(rng, g):
    """extra shapes on top of L.gen_grammar: an alternative sharing its first symbols with a NON-adjacent
    earlier one (not factorized -> the table offers several productions -> roll-back after children were
    collected), an alternative that is a proper prefix of / equal to a factorized one (nullable remainder),
    a third member for an existing common-prefix group (nested groups)"""
    prods = [[nt, [list(a) for a in alts]] for nt, alts in g["prods"]]
    for _ in range(rng.randint(0, 2)):
        nt, alts = rng.choice(prods)
        cands = [a for a in alts if a]
        if not cands or len(alts) >= 6:
            continue
        src = rng.choice(cands)
        k = rng.randint(1, len(src))
        tail = [rng.choice(g["terms"]) for _ in range(rng.randint(0, 2))]
        new = src[:k] + tail
        r = rng.random()
        if r < 0.45:
            # non-adjacent: put it at the far end, behind an alternative with a different first symbol
            if alts[-1] and alts[-1][0] == new[0]:
                alts.append([rng.choice(g["terms"])])
            alts.append(new)
        elif r < 0.8:
            # adjacent: joins (or creates) a common-prefix group, possibly nested
            alts.insert(alts.index(src) + 1, new)
        else:
            alts.insert(alts.index(src), src[:k])
    g2 = dict(g)
    g2["prods"] = prods
    return g2


def gen_cases(rng, tier):
    n = 1500 if tier == "thorough" else 220
    cases = []
    for i in range(n):
        g = L.gen_grammar(rng, allow_leftrec=0.08)
        if rng.random() < 0.5:
            g = _mutate_for_c01(rng, g)
        c = {"g": g, "inputs": L.gen_inputs(rng, g, 12)}
        if tier == "thorough" or i % 10 == 0:
            c["diag"] = True      # also compare prods_map / _suffix_symbols themselves
        cases.append(c)
    return cases


def kind(case):
    g = case["g"]
    prods = dict(g["prods"])
    has_prefix = any(a and b and a[0] == b[0] for alts in prods.values() for a, b in zip(alts, alts[1:]))
    has_empty = any(not a for alts in prods.values() for a in alts)
    return f"prefix={int(has_prefix)} empty={int(has_empty)} smart={int(g['smart'])}"


# ------------------------------------------------------------------ implementation side
def impl_run(case):
    """L.impl_run + the factorized grammar (prods_map, _suffix_symbols) of the constructed parser"""
    from ak import llparser
    g = case["g"]
    prods = {nt: [tuple(a) if a else None for a in alts] for nt, alts in g["prods"]}
    try:
        p = llparser.LLParser(L.tokenizer_str(g["terms"]), productions=prods,
                              start_symbol_name=g["start"], smart_factorization=g["smart"])
    except BaseException as e:  # noqa
        if type(e).__name__ == "Hang":
            raise
        return {"ctor": ["err", SX.exc_name(e)]}
    out = {"ctor": ["ok"], "amb": bool(p.is_ambiguous()), "res": [],
           "fg": [[s, [[r.symbol, list(r.production), r.sort_n] for r in rr]] for s, rr in p.prods_map.items()],
           "sfxs": sorted(p._suffix_symbols),
           "terminals": sorted(p.terminals)}
    for inp in case["inputs"]:
        text = " ".join(v for _, v in inp)
        try:
            t = p.parse(text, do_cleanup=False)
            out["res"].append(["ok", L.tree_obs(t)])
        except llparser.Error as e:
            out["res"].append(["err", SX.exc_name(e)])
        except BaseException as e:  # noqa
            if type(e).__name__ == "Hang":
                out["res"].append(["err", "Hang"])
                out["hang_at"] = len(out["res"]) - 1
                while len(out["res"]) < len(case["inputs"]):
                    out["res"].append(["err", "NotRun"])
                return out
            out["res"].append(["err", SX.exc_name(e)])
    return out


# ------------------------------------------------------------------ validator of the factorization (Python re-implementation)
def py_fact_problems(uprods, start, fg, sfxs, terminals):
    """The hypotheses of parse_sound_build checked on the IMPLEMENTATION's prods_map / _suffix_symbols,
    written independently of coq/C01/Spec.v fact_ok: -> list of problems (empty = validated)

    uprods: [[symbol, [alternative, ...]], ...] as the user wrote them;  fg: [[symbol, [[rule symbol, production, sort_n], ...]], ...]"""
    problems = []
    sfx = set(sfxs)
    user = [nt for nt, _ in uprods]
    rules = {}
    for s, rr in fg:
        if s in rules:
            problems.append(f"symbol {s!r} occurs twice in prods_map")
        rules[s] = [list(r[1]) for r in rr]
        for r in rr:
            if any(x in sfx for x in r[1][:-1]):
                problems.append(f"suffix symbol inside production {s!r} -> {r[1]}")
    for nt in user:
        if nt in sfx:
            problems.append(f"user symbol {nt!r} is also a suffix symbol")
    for s in sfx:
        if s in terminals:
            problems.append(f"suffix symbol {s!r} is a terminal")
    if start not in user:
        problems.append(f"start symbol {start!r} is not one of the user's symbols")
    if [s for s, _ in fg if s not in sfx] != user:
        problems.append(f"non-suffix symbols of prods_map {[s for s, _ in fg if s not in sfx]} differ from the user's {user}")

    def expansions(prod, above):
        if prod and prod[-1] in sfx:
            g = prod[-1]
            if g in above:
                raise ValueError(f"suffix symbol {g!r} refers to itself")
            if g not in rules:
                raise ValueError(f"suffix symbol {g!r} has no productions")
            out = []
            for tail in rules[g]:
                for e in expansions(tail, above | {g}):
                    out.append(list(prod[:-1]) + e)
            return out
        return [list(prod)]

    want = {nt: [list(a) for a in alts] for nt, alts in uprods}
    for s, _ in fg:
        if s in sfx:
            continue
        try:
            got = [e for r in rules[s] for e in expansions(r, frozenset())]
        except ValueError as e:
            problems.append(str(e))
            continue
        if got != want.get(s, []):
            problems.append(f"productions of {s!r} expand to {got}, the user wrote {want.get(s, [])}")
    return problems


def _diag(case):
    return bool(case.get("diag"))


def coq_case(case, obs):
    # "Grammar ..." -> "GrammarV <diag> ..."
    base = L.coq_case(case, obs)
    assert base.startswith("Grammar ")
    return "GrammarV " + SX.cbool(_diag(case)) + base[len("Grammar"):]


def expected_sx(case, obs):
    if obs["ctor"][0] == "err":
        return SX.dumps(SX.err(obs["ctor"][1]))
    res = []
    for r in obs["res"]:
        res.append(SX.ok(L.tree_sx(r[1])) if r[0] == "ok" else SX.err(r[1]))
    g = case["g"]
    hyps = not py_fact_problems(g["prods"], g["start"], obs["fg"], obs["sfxs"], obs["terminals"])
    diag = []
    if _diag(case):
        diag = [[[SX.s(s), [[SX.s(r[0]), [SX.s(x) for x in r[1]], r[2]] for r in rr]] for s, rr in obs["fg"]],
                [SX.s(x) for x in sorted(obs["sfxs"])]]
    return SX.dumps([0, obs["amb"], hyps, diag, res])


def _reserved_names(g):
    return "__" in g["start"] or any("__" in s for _, alts in g["prods"] for a in alts for s in a)


def oracle(case, obs):
    if "__hang__" in obs:
        return [("ctor-hang", "constructor/parse batch did not return")]
    out = []
    if obs["ctor"][0] != "ok":
        return out
    g = case["g"]
    prods = {nt: alts for nt, alts in g["prods"]}
    # a user grammar that mentions a reserved helper name is the known finding, anything else is new
    sig_tree = "helper-name-in-user-grammar" if _reserved_names(g) else "invalid-tree"
    for inp, r in zip(case["inputs"], obs["res"]):
        if r[0] == "ok":
            probs = L.check_derivation(prods, g["start"], r[1], inp)
            if probs:
                out.append((sig_tree, f"grammar {g['prods']} start {g['start']} smart={g['smart']} input {inp}: " + "; ".join(probs[:3])))
    if not _reserved_names(g):
        probs = py_fact_problems(g["prods"], g["start"], obs["fg"], obs["sfxs"], obs["terminals"])
        if probs:
            out.append(("factorization-invalid", f"grammar {g['prods']} smart={g['smart']}: prods_map {[(s, [r[1] for r in rr]) for s, rr in obs['fg']]} "
                        f"suffix symbols {obs['sfxs']}: " + "; ".join(probs[:3])))
    # at most one report per signature
    seen, res = set(), []
    for sig, msg in out:
        if sig not in seen:
            seen.add(sig)
            res.append((sig, msg))
    return res


def nontrivial(case, obs):
    if "__hang__" in obs or obs["ctor"][0] != "ok":
        return False
    k = kind(case)
    return ("prefix=1" in k or "empty=1" in k) and any(r[0] == "ok" for r in obs["res"])


def outcome(case, obs):
    if "__hang__" in obs:
        return "hang"
    if obs["ctor"][0] != "ok":
        return "ctor:" + obs["ctor"][1]
    n_ok = sum(1 for r in obs["res"] if r[0] == "ok")
    return f"ctor:ok amb={int(obs['amb'])} parsed={'some' if n_ok else 'none'}"


def shrink_candidates(case):
    g = case["g"]
    # fewer inputs
    if len(case["inputs"]) > 1:
        for i in range(len(case["inputs"])):
            yield {"g": g, "inputs": [case["inputs"][i]]}
    # drop an alternative
    for i, (nt, alts) in enumerate(g["prods"]):
        if len(alts) > 1:
            for j in range(len(alts)):
                g2 = dict(g)
                g2["prods"] = [list(x) for x in g["prods"]]
                g2["prods"][i] = [nt, alts[:j] + alts[j + 1:]]
                yield {"g": g2, "inputs": case["inputs"]}


TECHNIQUE = "Coq proof (stack-machine invariant, induction on fuel) over a hand-written Gallina model of the parser + per-run correspondence (vm_compute vs implementation)"
LEVEL_TEXT = "in progress"
LEVEL_NOTE = "in progress"
DESIGN_REF = "DESIGN.md section 8, C01"
