(* C10/LemmasLayout.v -- the chunk program the layout model (Layout.v) gives for a
   pretty-printer value consists of top-palette chunks only, whatever the value
   and the offsets: it meets the guards obj_ok / simple_obj of the rendering
   theorems, and obj_noesc when the texts of the value have no ESC. *)
From Coq Require Import ZArith List Bool Arith Lia.
From AK Require Import Common.Sx Common.Err C10.Sgr C10.SgrLemmas C10.Base gen.C10_Consts C10.Model C10.Layout
  C10.Lemmas C10.LemmasPure C10.LemmasTop.
Import ListNotations.
Open Scope Z_scope.

(* ---- induction over json-like values (nested through list) ---- *)
Section JvInd.
Variable P : jv -> Prop.
Hypothesis HStr : forall t, P (JStr t).
Hypothesis HKw : forall k, P (JKw k).
Hypothesis HNum : forall t, P (JNum t).
Hypothesis HED : P JEmptyD.
Hypothesis HEL : P JEmptyL.
Hypothesis HD : forall ks vs, Forall P vs -> P (JD ks vs).
Hypothesis HL : forall xs, Forall P xs -> P (JL xs).

Fixpoint jv_ind2 (v : jv) : P v :=
  match v with
  | JStr t => HStr t
  | JKw k => HKw k
  | JNum t => HNum t
  | JEmptyD => HED
  | JEmptyL => HEL
  | JD ks vs =>
      HD ks vs ((fix go (l : list jv) : Forall P l :=
                   match l with [] => Forall_nil P | x :: r => Forall_cons x (jv_ind2 x) (go r) end) vs)
  | JL xs =>
      HL xs ((fix go (l : list jv) : Forall P l :=
                match l with [] => Forall_nil P | x :: r => Forall_cons x (jv_ind2 x) (go r) end) xs)
  end.
End JvInd.

(* ---- every text of the program satisfies Q ---- *)
Section Texts.
Variable Q : list Z -> Prop.

(* an item of the top palette whose text satisfies Q *)
Definition top_q (it : item) : Prop :=
  match it with IChunk None _ t => Q t | _ => False end.

Definition tok_q (t : option item) : Prop := match t with Some it => top_q it | None => True end.

Definition key_q (k : jkey) : Prop := match k with KStr t => Q (quote t) | KRaw t => Q t end.

(* the texts the value brings along *)
Fixpoint jv_q (v : jv) : Prop :=
  match v with
  | JStr t => Q (quote t)
  | JNum t => Q t
  | JD ks vs => Forall key_q ks /\ (fix go (l : list jv) : Prop := match l with [] => True | x :: r => jv_q x /\ go r end) vs
  | JL xs => (fix go (l : list jv) : Prop := match l with [] => True | x :: r => jv_q x /\ go r end) xs
  | _ => True
  end.

Fixpoint all_q (l : list jv) : Prop := match l with [] => True | x :: r => jv_q x /\ all_q r end.

Lemma jv_q_D ks vs : jv_q (JD ks vs) = (Forall key_q ks /\ all_q vs).
Proof. reflexivity. Qed.

Lemma jv_q_L xs : jv_q (JL xs) = all_q xs.
Proof. reflexivity. Qed.

(* the literal texts of the layout code *)
Record lits_q : Prop := mkLits {
  q_nil : Q [];
  q_kw : forall fj k, Q (kw_text fj k);
  q_sp : forall n, Q (spaces n);
  q_spc : forall n c, (c = 125 \/ c = 93) -> Q (spaces n ++ [c]);
  q_1 : forall c, (c = 123 \/ c = 125 \/ c = 91 \/ c = 93 \/ c = 44) -> Q [c];
  q_2 : forall a b, ((a = 44 /\ b = 32) \/ (a = 58 /\ b = 32) \/ (a = 123 /\ b = 125) \/ (a = 91 /\ b = 93)) -> Q [a; b]
}.

Hypothesis L : lits_q.

Lemma top_tx t : Q t -> top_q (tx t).
Proof. intros H. exact H. Qed.

Lemma simple_item_q fj v : jv_q v -> top_q (simple_item fj v).
Proof.
  destruct v; intros H; cbn [simple_item tx top_q]; cbn [jv_q] in H.
  - exact H.
  - apply (q_kw L).
  - exact H.
  - apply (q_2 L). auto.
  - apply (q_2 L). auto 6.
  - apply (q_nil L).
  - apply (q_nil L).
Qed.

Lemma key_item_q k : key_q k -> top_q (key_item k).
Proof. destruct k; intros H; exact H. Qed.

Lemma dict_line_q fj ks : forall vs first, Forall key_q ks -> all_q vs -> Forall top_q (dict_line fj ks vs first).
Proof.
  induction ks as [|k ks IH]; intros vs first Hk Hv; [constructor|].
  destruct vs as [|v vs]; [constructor|]. cbn [dict_line].
  inversion Hk as [|? ? Hk1 Hk2]; subst. destruct Hv as [Hv1 Hv2].
  apply Forall_app. split.
  - destruct first; [constructor|]. constructor; [|constructor]. apply top_tx, (q_2 L). auto.
  - cbn [app]. constructor; [apply key_item_q; exact Hk1|]. constructor; [apply top_tx, (q_2 L); auto|].
    constructor; [apply simple_item_q; exact Hv1|]. apply IH; assumption.
Qed.

Lemma list_line_q its : forall first, Forall top_q its -> Forall top_q (list_line its first).
Proof.
  induction its as [|it r IH]; intros first H; [constructor|]. inversion H; subst. cbn [list_line].
  apply Forall_app. split.
  - destruct first; [constructor|]. constructor; [|constructor]. apply top_tx, (q_2 L). auto.
  - constructor; [assumption|]. apply IH. assumption.
Qed.

Lemma map_simple_q fj xs : all_q xs -> Forall top_q (map (simple_item fj) xs).
Proof.
  induction xs as [|x r IH]; intros H; [constructor|]. destruct H as [H1 H2]. cbn [map].
  constructor; [apply simple_item_q; exact H1|apply IH; exact H2].
Qed.

Lemma wrap_q offset its : forall len_y first, Forall top_q its -> Forall tok_q (wrap offset its len_y first).
Proof.
  induction its as [|it r IH]; intros len_y first H; [constructor|]. inversion H as [|? ? H1 H2]; subst.
  cbn [wrap]. apply Forall_app. split.
  - destruct (Nat.ltb 150 (len_y + item_len it) && negb first); [|constructor].
    constructor; [apply top_tx, (q_1 L); auto 6|]. constructor; [exact I|constructor].
  - apply Forall_app. split.
    + destruct (first || (Nat.ltb 150 (len_y + item_len it) && negb first)).
      * constructor; [apply top_tx, (q_sp L)|constructor].
      * constructor; [apply top_tx, (q_2 L); auto|constructor].
    + constructor; [exact H1|]. apply Forall_app. split.
      * destruct r; [constructor; [exact I|constructor]|constructor].
      * apply IH. exact H2.
Qed.

Lemma map_some_q l : Forall top_q l -> Forall tok_q (map Some l).
Proof. induction 1; constructor; assumption. Qed.

Lemma pp_tokens_q fj v : forall offset, jv_q v -> Forall tok_q (pp_tokens fj v offset).
Proof.
  induction v as [t|k|t| | |ks vs IH|xs IH] using jv_ind2; intros offset Hq.
  - constructor; [apply (simple_item_q fj (JStr t)); exact Hq|constructor].
  - constructor; [apply (simple_item_q fj (JKw k)); exact Hq|constructor].
  - constructor; [apply (simple_item_q fj (JNum t)); exact Hq|constructor].
  - constructor; [apply (simple_item_q fj JEmptyD); exact Hq|constructor].
  - constructor; [apply (simple_item_q fj JEmptyL); exact Hq|constructor].
  - rewrite jv_q_D in Hq. destruct Hq as [Hk Hv]. cbn [pp_tokens].
    destruct (forallb is_simple vs && Nat.ltb (offset + items_len (tx [123] :: dict_line fj ks vs true ++ [tx [125]])) 200).
    + apply map_some_q. constructor; [apply top_tx, (q_1 L); auto|]. apply Forall_app. split.
      * apply dict_line_q; assumption.
      * constructor; [apply top_tx, (q_1 L); auto|constructor].
    + constructor; [apply top_tx, (q_1 L); auto|]. apply Forall_app. split.
      * generalize true. revert ks Hk. induction vs as [|x vs IHvs]; intros ks Hk first; [constructor|].
        destruct ks as [|k ks]; [constructor|].
        inversion IH as [|? ? IHx IHr]; subst. destruct Hv as [Hx Hr]. inversion Hk as [|? ? Hk1 Hk2]; subst.
        apply Forall_app. split.
        { destruct first; [constructor|]. constructor; [apply top_tx, (q_1 L); auto 6|constructor]. }
        apply Forall_app. split.
        { constructor; [exact I|]. constructor; [apply top_tx, (q_sp L)|].
          constructor; [apply key_item_q; exact Hk1|]. constructor; [apply top_tx, (q_2 L); auto|constructor]. }
        apply Forall_app. split; [apply IHx; exact Hx|]. apply IHvs; assumption.
      * constructor; [exact I|]. constructor; [apply top_tx, (q_spc L); auto|constructor].
  - rewrite jv_q_L in Hq. cbn [pp_tokens]. destruct (forallb is_simple xs).
    + destruct (Nat.ltb (offset + (items_len (map (simple_item fj) xs) + 2 * length (map (simple_item fj) xs))) 200).
      * apply map_some_q. constructor; [apply top_tx, (q_1 L); auto|]. apply Forall_app. split.
        { apply list_line_q. apply map_simple_q. exact Hq. }
        constructor; [apply top_tx, (q_1 L); auto 6|constructor].
      * constructor; [apply top_tx, (q_1 L); auto|]. constructor; [exact I|]. apply Forall_app. split.
        { apply wrap_q. apply map_simple_q. exact Hq. }
        constructor; [apply top_tx, (q_spc L); auto|constructor].
    + constructor; [apply top_tx, (q_1 L); auto|]. apply Forall_app. split.
      * generalize true. induction xs as [|x xs IHxs]; intros first; [constructor|].
        inversion IH as [|? ? IHx IHr]; subst. destruct Hq as [Hx Hr].
        apply Forall_app. split.
        { destruct first; [constructor|]. constructor; [apply top_tx, (q_1 L); auto 6|constructor]. }
        apply Forall_app. split.
        { constructor; [exact I|]. constructor; [apply top_tx, (q_sp L)|constructor]. }
        apply Forall_app. split; [apply IHx; exact Hx|]. apply IHxs; assumption.
      * constructor; [exact I|]. constructor; [apply top_tx, (q_spc L); auto|constructor].
Qed.

Lemma split_lines_q toks : forall cur, Forall tok_q toks -> Forall top_q cur -> Forall (Forall top_q) (split_lines toks cur).
Proof.
  induction toks as [|t r IH]; intros cur Ht Hc.
  - cbn [split_lines]. destruct cur; [constructor|]. constructor; [|constructor]. apply Forall_rev. exact Hc.
  - inversion Ht as [|? ? H1 H2]; subst. destruct t as [it|]; cbn [split_lines].
    + apply IH; [exact H2|]. constructor; assumption.
    + constructor; [apply Forall_rev; exact Hc|]. apply IH; [exact H2|constructor].
Qed.

Lemma pp_lines_q fj v : jv_q v -> Forall (Forall top_q) (pp_lines fj v).
Proof. intros H. unfold pp_lines. apply split_lines_q; [apply pp_tokens_q; exact H|constructor]. Qed.

End Texts.

(* ---- the guards of the rendering theorems ---- *)
Lemma top_item_ok Q it : top_q Q it -> item_ok it.
Proof. destruct it as [[?|] ? ?| |]; cbn; intros H; try contradiction; exact I. Qed.

Lemma top_item_subs Q it : top_q Q it -> item_subs it = [].
Proof. destruct it as [[?|] ? ?| |]; cbn; intros H; try contradiction; reflexivity. Qed.

Lemma top_lines_ok Q ls : Forall (Forall (top_q Q)) ls -> Forall (Forall item_ok) ls.
Proof.
  intros H. eapply Forall_impl; [|exact H]. intros l Hl. eapply Forall_impl; [|exact Hl]. intros it. apply top_item_ok.
Qed.

Lemma top_lines_subs Q ls : Forall (Forall (top_q Q)) ls -> lines_subs ls = [].
Proof.
  induction 1 as [|l ls Hl _ IH]; [reflexivity|]. unfold lines_subs in *. cbn [flat_map]. rewrite IH, app_nil_r.
  unfold line_subs. induction Hl as [|it l Hit _ IHl]; [reflexivity|]. cbn [flat_map].
  rewrite (top_item_subs Q it Hit), IHl. reflexivity.
Qed.

Lemma top_lines_noesc fts ls : Forall (Forall (top_q no_esc)) ls -> Forall (Forall (item_noesc fts)) ls.
Proof.
  intros H. eapply Forall_impl; [|exact H]. intros l Hl. eapply Forall_impl; [|exact Hl].
  intros it. destruct it as [[?|] ? ?| |]; cbn; intros Hit; try contradiction; exact Hit.
Qed.

Lemma lits_true : lits_q (fun _ => True).
Proof. constructor; intros; exact I. Qed.

Lemma no_esc_spaces n : no_esc (spaces n).
Proof. unfold no_esc, spaces. intros H. apply repeat_spec in H. discriminate. Qed.

Lemma lits_noesc : lits_q no_esc.
Proof.
  constructor.
  - intros H. exact H.
  - intros fj k. unfold kw_text, no_esc.
    destruct (k =? 0); [|destruct (k =? 1)]; destruct fj; cbn; intros H;
      repeat (destruct H as [H|H]; [discriminate|]); exact H.
  - exact no_esc_spaces.
  - intros n c Hc. unfold no_esc. intros H. apply in_app_or in H. destruct H as [H|H].
    + exact (no_esc_spaces n H).
    + destruct H as [H|[]]. destruct Hc; subst; discriminate.
  - intros c Hc. unfold no_esc. intros [H|[]]. repeat (destruct Hc as [Hc|Hc]; [subst; discriminate|]). subst; discriminate.
  - intros a b Hc. unfold no_esc. intros [H|[H|[]]];
      repeat (destruct Hc as [[Ha Hb]|Hc]; [subst; discriminate|]); destruct Hc as [Ha Hb]; subst; discriminate.
Qed.

(* all texts of the value (string contents, str() of numbers and keys) *)
Definition jv_any (v : jv) : Prop := jv_q (fun _ => True) v.
Definition jv_noesc (v : jv) : Prop := jv_q no_esc v.

Lemma jv_any_all v : jv_any v.
Proof.
  unfold jv_any. induction v as [t|k|t| | |ks vs IH|xs IH] using jv_ind2; try exact I.
  - rewrite jv_q_D. split.
    + induction ks as [|k ks IHk]; constructor; [destruct k; exact I|exact IHk].
    + induction IH as [|x r Hx _ IHr]; [exact I|]. split; assumption.
  - rewrite jv_q_L. induction IH as [|x r Hx _ IHr]; [exact I|]. split; assumption.
Qed.

Lemma pp_obj_ok_l fj v : obj_ok (pp_obj fj v).
Proof. unfold obj_ok, pp_obj. cbn [o_lines]. apply (top_lines_ok (fun _ => True)). apply pp_lines_q; [exact lits_true|apply jv_any_all]. Qed.

Lemma pp_obj_simple_l fj v : simple_obj (pp_obj fj v).
Proof. unfold simple_obj, pp_obj. cbn [o_lines]. apply (top_lines_subs (fun _ => True)). apply pp_lines_q; [exact lits_true|apply jv_any_all]. Qed.

Lemma pp_obj_noesc_l fts fj v : jv_noesc v -> obj_noesc fts (pp_obj fj v).
Proof. intros H. unfold obj_noesc, pp_obj. cbn [o_lines]. apply top_lines_noesc. apply pp_lines_q; [exact lits_noesc|exact H]. Qed.
