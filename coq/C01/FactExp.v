(* C01/FactExp.v -- facts about the expansion function of the validator
   (C01/Spec.v expand): more fuel does not change a result, plain and group
   productions, one grammar against another. *)
From Coq Require Import ZArith List Bool Lia.
From AK Require Import Common.Err LLP.Base LLP.Factor C01.Basics C01.Spec.
Import ListNotations.
Local Open Scope nat_scope.

Lemma concat_opt_map_ext : forall A B (f f' : A -> option (list B)) l es,
  (forall x e, In x l -> f x = Some e -> f' x = Some e) ->
  concat_opt (map f l) = Some es -> concat_opt (map f' l) = Some es.
Proof.
  intros A B f f'. induction l as [|x l IH]; intros es H E; cbn [map concat_opt] in *; [assumption|].
  destruct (f x) as [e|] eqn:Ex; [|discriminate].
  rewrite (H x e (or_introl eq_refl) Ex).
  destruct (concat_opt (map f l)) as [y|] eqn:Ey; [|discriminate].
  rewrite (IH y); [assumption| |reflexivity]. intros x0 e0 Hx0. apply H. now right.
Qed.

Lemma concat_opt_app : forall A (a b : list (option (list A))),
  concat_opt (a ++ b) = match concat_opt a with
                        | Some x => match concat_opt b with Some y => Some (x ++ y) | None => None end
                        | None => None
                        end.
Proof.
  intros A. induction a as [|o a IH]; intros b; cbn [app concat_opt].
  - destruct (concat_opt b); reflexivity.
  - destruct o as [x|]; [|reflexivity]. rewrite IH.
    destruct (concat_opt a) as [y|]; [|reflexivity].
    destruct (concat_opt b) as [z|]; [|reflexivity]. now rewrite app_assoc.
Qed.

Definition clean (SS : list sym) (p : list sym) : Prop := forall x, In x p -> mem x SS = false.

Lemma clean_skipn : forall SS n p, clean SS p -> clean SS (skipn n p).
Proof. intros SS n p H x Hx. apply H. rewrite <- (firstn_skipn n p). apply in_or_app. now right. Qed.

Lemma last_In : forall (p : list sym), p <> [] -> In (last p []) p.
Proof.
  intros p H. destruct (snoc_cases _ p) as [->|[p' [x ->]]]; [contradiction|].
  rewrite last_snoc. apply in_or_app. right. now left.
Qed.

Section Exp.
  Variables (G : grammar) (SS : list sym).

  Lemma expand_rules_cons : forall F r rs,
    expand_rules G SS F (r :: rs) =
    match expand G SS F (rprod r) with
    | Some x => match expand_rules G SS F rs with Some y => Some (x ++ y) | None => None end
    | None => None
    end.
  Proof. reflexivity. Qed.

  Lemma expand_rules_app : forall F a b,
    expand_rules G SS F (a ++ b) =
    match expand_rules G SS F a with
    | Some x => match expand_rules G SS F b with Some y => Some (x ++ y) | None => None end
    | None => None
    end.
  Proof. intros. unfold expand_rules. rewrite map_app. apply concat_opt_app. Qed.

  Lemma expand_mono_S : forall F p es, expand G SS F p = Some es -> expand G SS (S F) p = Some es.
  Proof.
    induction F as [|F IH]; intros p es H; [discriminate|].
    cbn [expand] in H. cbn [expand]. destruct p as [|s0 p0]; [assumption|].
    destruct (mem (last (s0 :: p0) []) SS); [|assumption].
    destruct (concat_opt (map (fun r => expand G SS F (rprod r)) (grules G (last (s0 :: p0) [])))) as [eb|] eqn:E; [|discriminate].
    rewrite (concat_opt_map_ext _ _ (fun r => expand G SS F (rprod r)) (fun r => expand G SS (S F) (rprod r)) _ eb); [assumption| |exact E].
    intros x e _ Hx. now apply IH.
  Qed.

  Lemma expand_mono : forall F F' p es, F <= F' -> expand G SS F p = Some es -> expand G SS F' p = Some es.
  Proof.
    intros F F' p es Hle H. induction Hle as [|F' Hle IH]; [assumption|]. now apply expand_mono_S.
  Qed.

  Lemma expand_rules_mono : forall F F' rules es, F <= F' ->
    expand_rules G SS F rules = Some es -> expand_rules G SS F' rules = Some es.
  Proof.
    intros F F' rules es Hle H. unfold expand_rules in *.
    eapply concat_opt_map_ext; [|exact H]. intros x e _ Hx. eapply expand_mono; eassumption.
  Qed.

  Lemma expand_det : forall F F' p es es',
    expand G SS F p = Some es -> expand G SS F' p = Some es' -> es = es'.
  Proof.
    intros F F' p es es' H H'.
    apply (expand_mono F (Nat.max F F')) in H; [|lia].
    apply (expand_mono F' (Nat.max F F')) in H'; [|lia]. congruence.
  Qed.

  Lemma expand_rules_det : forall F F' rules es es',
    expand_rules G SS F rules = Some es -> expand_rules G SS F' rules = Some es' -> es = es'.
  Proof.
    intros F F' rules es es' H H'.
    apply (expand_rules_mono F (Nat.max F F')) in H; [|lia].
    apply (expand_rules_mono F' (Nat.max F F')) in H'; [|lia]. congruence.
  Qed.

  (* a production without suffix symbols stands for itself *)
  Lemma expand_plain : forall F p, (p = [] \/ mem (last p []) SS = false) -> expand G SS (S F) p = Some [p].
  Proof.
    intros F p H. cbn [expand]. destruct p as [|s0 p0]; [reflexivity|].
    destruct H as [H|H]; [discriminate|]. now rewrite H.
  Qed.

  Lemma expand_clean : forall F p, clean SS p -> expand G SS (S F) p = Some [p].
  Proof.
    intros F p H. apply expand_plain. destruct p as [|s0 p0]; [now left|right].
    apply H. apply last_In. discriminate.
  Qed.

  (* a group production: prefix + suffix symbol *)
  Lemma expand_group : forall F pre g eb, mem g SS = true ->
    expand_rules G SS F (grules G g) = Some eb ->
    expand G SS (S F) (pre ++ [g]) = Some (map (app pre) eb).
  Proof.
    intros F pre g eb Hg Hb. cbn [expand].
    destruct (pre ++ [g]) as [|s0 p0] eqn:E; [destruct pre; discriminate|].
    rewrite <- E, last_snoc, removelast_snoc, Hg.
    unfold expand_rules in Hb. now rewrite Hb.
  Qed.

  Lemma expand_group_inv : forall F pre g es, mem g SS = true ->
    expand G SS (S F) (pre ++ [g]) = Some es ->
    exists eb, expand_rules G SS F (grules G g) = Some eb /\ es = map (app pre) eb.
  Proof.
    intros F pre g es Hg H. cbn [expand] in H.
    destruct (pre ++ [g]) as [|s0 p0] eqn:E; [destruct pre; discriminate|].
    rewrite <- E, last_snoc, removelast_snoc, Hg in H.
    fold (expand_rules G SS F (grules G g)) in H.
    destruct (expand_rules G SS F (grules G g)) as [eb|]; [|discriminate].
    cbn in H. injection H as <-. now exists eb.
  Qed.
End Exp.

(* "expands to", whatever the fuel *)
Definition Exp (G : grammar) (SS : list sym) (rules : list rule) (es : list (list sym)) : Prop :=
  exists F, expand_rules G SS F rules = Some es.

Lemma Exp_nil : forall G SS, Exp G SS [] [].
Proof. intros. now exists 0. Qed.

Lemma Exp_cons : forall G SS r rs F e es,
  expand G SS F (rprod r) = Some e -> Exp G SS rs es -> Exp G SS (r :: rs) (e ++ es).
Proof.
  intros G SS r rs F e es H [F' H']. exists (Nat.max F F'). rewrite expand_rules_cons.
  rewrite (expand_mono G SS F (Nat.max F F') _ e) by (try lia; assumption).
  rewrite (expand_rules_mono G SS F' (Nat.max F F') _ es) by (try lia; assumption). reflexivity.
Qed.

Lemma Exp_app : forall G SS a b ea eb, Exp G SS a ea -> Exp G SS b eb -> Exp G SS (a ++ b) (ea ++ eb).
Proof.
  intros G SS a b ea eb [F H] [F' H']. exists (Nat.max F F'). rewrite expand_rules_app.
  rewrite (expand_rules_mono G SS F (Nat.max F F') _ ea) by (try lia; assumption).
  rewrite (expand_rules_mono G SS F' (Nat.max F F') _ eb) by (try lia; assumption). reflexivity.
Qed.

Lemma Exp_det : forall G SS rules es es', Exp G SS rules es -> Exp G SS rules es' -> es = es'.
Proof. intros G SS rules es es' [F H] [F' H']. eapply expand_rules_det; eassumption. Qed.
