(* C03/LemmasRC.v -- the left-recursion check of LLP/RecCheck.v (model of
   LLParser._verify_grammar_structure_part2) raises exactly for left-recursive
   grammars, whatever the order in which the symbols are visited, and never
   runs out of its step budget. *)
From Coq Require Import ZArith List Bool Lia Arith.
From AK Require Import Common.Err LLP.Base LLP.RecCheck C03.Spec.
Import ListNotations.
Open Scope nat_scope.

(* ------------------------------------------------------------------ basics *)
Lemma sym_eqb_eq : forall a b : sym, sym_eqb a b = true <-> a = b.
Proof.
  induction a as [|x a IH]; destruct b as [|y b]; simpl; split; intro H;
    try congruence; try discriminate.
  - apply andb_true_iff in H. destruct H as [H1 H2].
    apply Z.eqb_eq in H1. apply IH in H2. congruence.
  - inversion H; subst. apply andb_true_iff. split.
    + apply Z.eqb_refl.
    + apply IH. reflexivity.
Qed.

Lemma sym_eqb_refl : forall a : sym, sym_eqb a a = true.
Proof. intro a. apply sym_eqb_eq. reflexivity. Qed.

Lemma sym_eqb_neq : forall a b : sym, a <> b -> sym_eqb a b = false.
Proof.
  intros a b H. destruct (sym_eqb a b) eqn:E; auto.
  apply sym_eqb_eq in E. contradiction.
Qed.

Lemma mem_In : forall (s : sym) l, mem s l = true <-> In s l.
Proof.
  unfold mem. intros s l. rewrite existsb_exists. split.
  - intros [x [Hx He]]. apply sym_eqb_eq in He. subst. exact Hx.
  - intro H. exists s. split; auto. apply sym_eqb_refl.
Qed.

Lemma mem_add_set : forall (x s : sym) l, mem x (add_set s l) = true <-> x = s \/ mem x l = true.
Proof.
  intros x s l. rewrite !mem_In. unfold add_set. destruct (mem s l) eqn:E.
  - split; [auto|]. intros [-> |H]; auto. apply mem_In; auto.
  - rewrite in_app_iff. simpl. split; intros H; intuition.
Qed.

Lemma nth_error_split' : forall (A : Type) (l : list A) n x,
  nth_error l n = Some x -> l = firstn n l ++ x :: skipn (S n) l.
Proof.
  induction l as [|a l IH]; destruct n; simpl; intros x H; try discriminate.
  - inversion H; auto.
  - f_equal. apply IH; auto.
Qed.

Lemma firstn_snoc_nth : forall (A : Type) (l : list A) n x,
  nth_error l n = Some x -> firstn (S n) l = firstn n l ++ [x].
Proof.
  induction l as [|a l IH]; destruct n; simpl; intros x H; try discriminate.
  - inversion H; auto.
  - f_equal. apply IH; auto.
Qed.

Lemma skipn_nth_error : forall (A : Type) (l : list A) n x,
  nth_error l n = Some x -> skipn n l = x :: skipn (S n) l.
Proof.
  induction l as [|a l IH]; destruct n; simpl; intros x H; try discriminate.
  - inversion H; auto.
  - apply IH; auto.
Qed.

Lemma Forall_firstn_nth : forall (A : Type) (P : A -> Prop) (l : list A) j i x,
  Forall P (firstn j l) -> i < j -> nth_error l i = Some x -> P x.
Proof.
  induction l as [|a l IH]; intros j i x HF Hlt Hn.
  - destruct i; discriminate.
  - destruct j; [lia|]. simpl in HF. inversion HF; subst.
    destruct i; simpl in Hn.
    + inversion Hn; subst; auto.
    + eapply IH; eauto. lia.
Qed.

Lemma list_sum_cons : forall a l, list_sum (a :: l) = a + list_sum l.
Proof. reflexivity. Qed.

Lemma sum_le : forall (U : list sym) (F F' : sym -> nat),
  (forall k, F' k <= F k) -> list_sum (map F' U) <= list_sum (map F U).
Proof.
  induction U as [|a U IH]; simpl; intros F F' H; auto.
  specialize (IH F F' H). specialize (H a). lia.
Qed.

Lemma sum_drop : forall (U : list sym) (F F' : sym -> nat) x,
  (forall k, F' k <= F k) -> In x U ->
  list_sum (map F' U) + (F x - F' x) <= list_sum (map F U).
Proof.
  induction U as [|a U IH]; simpl; intros F F' x H Hin; [contradiction|].
  destruct Hin as [-> |Hin].
  - pose proof (sum_le U F F' H). specialize (H x). lia.
  - specialize (IH F F' x H Hin). specialize (H a). lia.
Qed.

(* ------------------------------------------------------------------ grammar lookups *)
Lemma glookup_None_keys : forall (g : grammar) s, ~ In s (gkeys g) -> glookup g s = None.
Proof.
  induction g as [|[k v] g IH]; simpl; intros s H; auto.
  destruct (sym_eqb k s) eqn:E.
  - apply sym_eqb_eq in E. subst. exfalso. apply H. auto.
  - apply IH. intro; apply H; auto.
Qed.

Lemma grules_keys : forall (g : grammar) s, grules g s <> [] -> In s (gkeys g).
Proof.
  intros g s H. destruct (in_dec (list_eq_dec Z.eq_dec) s (gkeys g)) as [Hin|Hn]; auto.
  exfalso. apply H. unfold grules. rewrite glookup_None_keys; auto.
Qed.

Lemma glookup_NoDup : forall (g : grammar) k v, NoDup (gkeys g) -> In (k, v) g -> glookup g k = Some v.
Proof.
  induction g as [|[k0 v0] g IH]; simpl; intros k v ND Hin; [contradiction|].
  inversion ND; subst. destruct Hin as [He|Hin].
  - inversion He; subst. rewrite sym_eqb_refl. reflexivity.
  - destruct (sym_eqb k0 k) eqn:E.
    + apply sym_eqb_eq in E. subst. exfalso. apply H1.
      change (In (fst (k, v)) (map fst g)). apply in_map. exact Hin.
    + apply IH; auto.
Qed.

(* ------------------------------------------------------------------ paths *)
Section Paths.
  Variable R : sym -> list rule.

  Lemma lstep_gen_impl : forall (N N' : sym -> Prop), (forall s, N s -> N' s) ->
    forall A B, lstep_gen R N A B -> lstep_gen R N' A B.
  Proof.
    intros N N' H A B [r [pre [post [H1 [H2 H3]]]]]. exists r, pre, post. repeat split; auto.
    eapply Forall_impl; eauto.
  Qed.

  Lemma lpath_gen_impl : forall (N N' : sym -> Prop), (forall s, N s -> N' s) ->
    forall A B, lpath_gen R N A B -> lpath_gen R N' A B.
  Proof.
    intros N N' H A B P. induction P.
    - apply lpath_one. eapply lstep_gen_impl; eauto.
    - eapply lpath_cons; eauto. eapply lstep_gen_impl; eauto.
  Qed.

  Lemma lpath_snoc : forall N A B C, lpath_gen R N A B -> lstep_gen R N B C -> lpath_gen R N A C.
  Proof.
    intros N A B C P. revert C. induction P; intros C' S.
    - eapply lpath_cons; eauto. apply lpath_one; auto.
    - eapply lpath_cons; eauto.
  Qed.

  Lemma lpath_trans : forall N A B C, lpath_gen R N A B -> lpath_gen R N B C -> lpath_gen R N A C.
  Proof.
    intros N A B C P. revert C. induction P; intros C' Q.
    - eapply lpath_cons; eauto.
    - eapply lpath_cons; eauto.
  Qed.

  (* every symbol on a path except the last has productions *)
  Lemma lstep_has_rules : forall N A B, lstep_gen R N A B -> R A <> [].
  Proof. intros N A B [r [pre [post [H1 _]]]] E. rewrite E in H1. contradiction. Qed.

  Lemma lpath_has_rules : forall N A B, lpath_gen R N A B -> R A <> [].
  Proof. intros N A B P. destruct P; eapply lstep_has_rules; eauto. Qed.
End Paths.

(* ------------------------------------------------------------------ the check *)
Section RC.
  Variable g : grammar.
  Variable nulls : list sym.
  Variable P0 : list sym.            (* the symbols processed from the start: the terminals *)

  Notation R := (grules g).
  Definition nb (s : sym) : Prop := mem s nulls = true.
  Notation lstepb := (lstep_gen R nb).
  Notation lpathb := (lpath_gen R nb).

  (* ---- invariants of the explicit stack ---- *)
  Definition frame_ok (f : rframe) : Prop :=
    rf_rules f = R (rf_sym f) /\
    forall r, nth_error (rf_rules f) (rf_pid f) = Some r ->
      rf_sid f <= length (rprod r) /\ Forall nb (firstn (rf_sid f) (rprod r)).

  (* the |>-successors found in the first n positions of r are processed *)
  Definition succ_done (p : list sym) (r : rule) (n : nat) : Prop :=
    forall j s, j < n -> nth_error (rprod r) j = Some s -> Forall nb (firstn j (rprod r)) ->
                mem s p = true.

  Definition frame_prog (p : list sym) (f : rframe) : Prop :=
    (forall i r, i < rf_pid f -> nth_error (rf_rules f) i = Some r -> succ_done p r (length (rprod r))) /\
    (forall r, nth_error (rf_rules f) (rf_pid f) = Some r -> succ_done p r (rf_sid f)).

  (* head = top; the frame below is scanning the symbol of the frame above *)
  Fixpoint chain (st : list rframe) : Prop :=
    match st with
    | child :: rest =>
        match rest with
        | par :: _ =>
            (exists r, nth_error (rf_rules par) (rf_pid par) = Some r /\
                       nth_error (rprod r) (rf_sid par) = Some (rf_sym child)) /\ chain rest
        | [] => True
        end
    | [] => True
    end.

  Definition closed (p : list sym) : Prop :=
    forall A B, mem A p = true -> lstepb A B -> mem B p = true.
  Definition acyclic (p : list sym) : Prop :=
    forall A, mem A p = true -> ~ lpathb A A.
  Definition good (p : list sym) : Prop :=
    closed p /\ acyclic p /\ (forall t, mem t P0 = true -> mem t p = true).

  Record INV (st : list rframe) (p : list sym) : Prop := mkINV {
    inv_good : good p;
    inv_ok : Forall frame_ok st;
    inv_prog : Forall (frame_prog p) st;
    inv_chain : chain st;
    inv_nodup : NoDup (map rf_sym st);
    inv_unproc : Forall (fun f => mem (rf_sym f) p = false) st }.

  (* ---- frame updates ---- *)
  Lemma frame_lstep : forall f r cs, frame_ok f ->
    nth_error (rf_rules f) (rf_pid f) = Some r -> nth_error (rprod r) (rf_sid f) = Some cs ->
    lstepb (rf_sym f) cs.
  Proof.
    intros f r cs [Hr Hf] Hn Hs. destruct (Hf r Hn) as [_ HF].
    exists r, (firstn (rf_sid f) (rprod r)), (skipn (S (rf_sid f)) (rprod r)).
    split; [|split]; auto.
    - rewrite <- Hr. eapply nth_error_In; eauto.
    - apply nth_error_split'; auto.
  Qed.

  Lemma frame_ok_next_symbol : forall f r cs, frame_ok f ->
    nth_error (rf_rules f) (rf_pid f) = Some r -> nth_error (rprod r) (rf_sid f) = Some cs ->
    nb cs -> frame_ok (next_symbol f).
  Proof.
    intros f r cs [Hr Hf] Hn Hs Hnb. split; [exact Hr|].
    unfold next_symbol; cbn [rf_sym rf_rules rf_pid rf_sid]. intros r' Hn'.
    rewrite Hn in Hn'. inversion Hn'; subst r'. destruct (Hf r Hn) as [Hle HF]. split.
    - assert (rf_sid f < length (rprod r)) by (apply nth_error_Some; congruence). lia.
    - rewrite (firstn_snoc_nth _ _ _ _ Hs). apply Forall_app. split; auto.
  Qed.

  Lemma frame_ok_next_prod : forall f, frame_ok f -> frame_ok (next_prod f).
  Proof.
    intros f [Hr Hf]. split; [exact Hr|]. simpl. intros r' _. split; [lia|]. simpl. constructor.
  Qed.

  Lemma frame_prog_mono : forall p p' f, (forall s, mem s p = true -> mem s p' = true) ->
    frame_prog p f -> frame_prog p' f.
  Proof.
    intros p p' f Hm [H1 H2]. split.
    - intros i r Hi Hn j s Hj Hs HF. apply Hm. eapply H1; eauto.
    - intros r Hn j s Hj Hs HF. apply Hm. eapply H2; eauto.
  Qed.

  Lemma frame_prog_next_symbol : forall p f r cs, frame_prog p f ->
    nth_error (rf_rules f) (rf_pid f) = Some r -> nth_error (rprod r) (rf_sid f) = Some cs ->
    mem cs p = true -> frame_prog p (next_symbol f).
  Proof.
    intros p f r cs [H1 H2] Hn Hs Hm. split; simpl.
    - exact H1.
    - intros r' Hn'. rewrite Hn in Hn'. inversion Hn'; subst r'.
      intros j s Hj Hjs HF. destruct (Nat.eq_dec j (rf_sid f)) as [-> |Hne].
      + rewrite Hs in Hjs. inversion Hjs; subst; auto.
      + eapply (H2 r Hn); eauto. lia.
  Qed.

  Lemma frame_prog_next_prod : forall p f, frame_prog p f ->
    (forall r, nth_error (rf_rules f) (rf_pid f) = Some r -> succ_done p r (length (rprod r))) ->
    frame_prog p (next_prod f).
  Proof.
    intros p f [H1 H2] H3. split; simpl.
    - intros i r Hi Hn. destruct (Nat.eq_dec i (rf_pid f)) as [-> |Hne].
      + apply H3; auto.
      + apply H1 with i; auto. lia.
    - intros r _ j s Hj. lia.
  Qed.

  (* the scan of r may stop at position sid: the symbol there is processed and not nullable *)
  Lemma succ_done_stop : forall p r sid cs, succ_done p r sid ->
    nth_error (rprod r) sid = Some cs -> mem cs p = true -> ~ nb cs ->
    succ_done p r (length (rprod r)).
  Proof.
    intros p r sid cs H Hs Hm Hnn j s Hj Hjs HF.
    destruct (lt_eq_lt_dec j sid) as [[Hlt| ->]|Hgt].
    - eapply H; eauto.
    - rewrite Hs in Hjs. inversion Hjs; subst; auto.
    - exfalso. apply Hnn. eapply Forall_firstn_nth; eauto.
  Qed.

  Lemma succ_done_end : forall p r sid, succ_done p r sid ->
    nth_error (rprod r) sid = None -> succ_done p r (length (rprod r)).
  Proof.
    intros p r sid H Hs j s Hj Hjs HF. apply nth_error_None in Hs.
    eapply H; eauto. lia.
  Qed.

  (* ---- processed set ---- *)
  Lemma closed_lpath : forall p A B, closed p -> mem A p = true -> lpathb A B -> mem B p = true.
  Proof.
    intros p A B Hc Hm P. induction P.
    - eapply Hc; eauto.
    - apply IHP. eapply Hc; eauto.
  Qed.

  Lemma good_add : forall p X, good p -> mem X p = false ->
    (forall B, lstepb X B -> mem B p = true) -> good (add_set X p).
  Proof.
    intros p X [Hc [Ha H0]] HX Hs. split; [|split].
    - intros A B HA St. apply mem_add_set. right. apply mem_add_set in HA. destruct HA as [-> |HA].
      + apply Hs; auto.
      + eapply Hc; eauto.
    - intros A HA P. apply mem_add_set in HA. destruct HA as [-> |HA].
      + assert (mem X p = true); [|congruence].
        inversion P; subst.
        * apply Hs; auto.
        * eapply closed_lpath; eauto.
      + eapply Ha; eauto.
    - intros t Ht. apply mem_add_set. right. auto.
  Qed.

  (* ---- the stack is a |> path ---- *)
  Lemma chain_lpath : forall st top, Forall frame_ok (top :: st) -> chain (top :: st) ->
    forall f, In f st -> lpathb (rf_sym f) (rf_sym top).
  Proof.
    induction st as [|par rest IH]; intros top Hok Hch f Hin; [contradiction|].
    simpl in Hch. destruct Hch as [[r [Hr Hs]] Hch'].
    inversion Hok as [|? ? _ Hok']; subst. inversion Hok' as [|? ? Hpar _]; subst.
    assert (St : lstepb (rf_sym par) (rf_sym top)) by (eapply frame_lstep; eauto).
    destruct Hin as [<-|Hin].
    - apply lpath_one; auto.
    - eapply lpath_snoc; [|exact St]. apply IH; auto.
  Qed.

  Lemma cycle_found : forall top rest r cs, Forall frame_ok (top :: rest) -> chain (top :: rest) ->
    nth_error (rf_rules top) (rf_pid top) = Some r -> nth_error (rprod r) (rf_sid top) = Some cs ->
    existsb (fun f => sym_eqb (rf_sym f) cs) (top :: rest) = true ->
    exists A, lpathb A A.
  Proof.
    intros top rest r cs Hok Hch Hn Hs He.
    apply existsb_exists in He. destruct He as [f [Hin Hf]]. apply sym_eqb_eq in Hf.
    assert (St : lstepb (rf_sym top) cs).
    { inversion Hok; subst. eapply frame_lstep; eauto. }
    exists cs. destruct Hin as [<-|Hin].
    - rewrite <- Hf in *. apply lpath_one; auto.
    - rewrite <- Hf. eapply lpath_snoc; [|rewrite Hf; exact St]. eapply chain_lpath; eauto.
  Qed.

  (* ---- the potential function: bounds the number of steps still to come ---- *)
  Definition rule_cost (r : rule) : nat := 2 * length (rprod r) + 4.
  Definition rules_cost (rs : list rule) : nat := list_sum (map rule_cost rs).
  Definition rem (f : rframe) : nat :=
    2 + (rules_cost (skipn (rf_pid f) (rf_rules f)) - 2 * rf_sid f).
  Definition cost (k : sym) : nat := 3 + rules_cost (R k).
  Definition onstack (k : sym) (st : list rframe) : bool := existsb (fun f => sym_eqb (rf_sym f) k) st.
  Definition W (st : list rframe) (p : list sym) (k : sym) : nat :=
    if mem k p || onstack k st then 0 else cost k.
  Definition Phi (st : list rframe) (p : list sym) : nat :=
    list_sum (map rem st) + list_sum (map (W st p) (gkeys g)).

  Lemma rem_ge_2 : forall f, 2 <= rem f.
  Proof. intro f. unfold rem. lia. Qed.

  Lemma rem_next_symbol : forall f r cs,
    nth_error (rf_rules f) (rf_pid f) = Some r -> nth_error (rprod r) (rf_sid f) = Some cs ->
    rem (next_symbol f) + 2 <= rem f.
  Proof.
    intros f r cs Hn Hs. unfold rem, next_symbol; simpl.
    rewrite (skipn_nth_error _ _ _ _ Hn). unfold rules_cost; simpl. unfold rule_cost at 1 3.
    assert (rf_sid f < length (rprod r)) by (apply nth_error_Some; congruence). lia.
  Qed.

  Lemma rem_next_prod : forall f r,
    nth_error (rf_rules f) (rf_pid f) = Some r -> rf_sid f <= length (rprod r) ->
    rem (next_prod f) + 4 <= rem f.
  Proof.
    intros f r Hn Hle. unfold rem, next_prod; simpl.
    rewrite (skipn_nth_error _ _ _ _ Hn). unfold rules_cost; simpl. unfold rule_cost at 2. lia.
  Qed.

  Lemma Phi_top_update : forall f f' rest p d, rf_sym f' = rf_sym f -> rem f' + d <= rem f ->
    Phi (f' :: rest) p + d <= Phi (f :: rest) p.
  Proof.
    intros f f' rest p d Hs Hr. unfold Phi. cbn [map]. rewrite !list_sum_cons.
    assert (E : forall k, W (f' :: rest) p k = W (f :: rest) p k).
    { intro k. unfold W, onstack. simpl. rewrite Hs. reflexivity. }
    rewrite (map_ext _ _ E). lia.
  Qed.

  Lemma W_pop : forall top rest p k, W rest (add_set (rf_sym top) p) k <= W (top :: rest) p k.
  Proof.
    intros top rest p k. unfold W, onstack. simpl.
    destruct (mem k p) eqn:E1; simpl.
    - assert (mem k (add_set (rf_sym top) p) = true) by (apply mem_add_set; auto).
      rewrite H. simpl. lia.
    - destruct (sym_eqb (rf_sym top) k) eqn:E2; simpl.
      + apply sym_eqb_eq in E2. subst k.
        assert (mem (rf_sym top) (add_set (rf_sym top) p) = true) by (apply mem_add_set; auto).
        rewrite H. simpl. lia.
      + destruct (existsb (fun f => sym_eqb (rf_sym f) k) rest); simpl.
        * rewrite orb_true_r. lia.
        * destruct (mem k (add_set (rf_sym top) p)); simpl; lia.
  Qed.

  Lemma Phi_pop_last : forall top p, Phi [] (add_set (rf_sym top) p) + 2 <= Phi [top] p.
  Proof.
    intros top p. unfold Phi. cbn [map]. rewrite !list_sum_cons. cbn [list_sum fold_right].
    pose proof (sum_le (gkeys g) (W [top] p) (W [] (add_set (rf_sym top) p)) (W_pop top [] p)).
    pose proof (rem_ge_2 top). lia.
  Qed.

  Lemma Phi_pop : forall top par par' rest p, rf_sym par' = rf_sym par -> rem par' + 2 <= rem par ->
    Phi (par' :: rest) (add_set (rf_sym top) p) + 4 <= Phi (top :: par :: rest) p.
  Proof.
    intros top par par' rest p Hs Hr.
    pose proof (Phi_top_update par par' rest (add_set (rf_sym top) p) 2 Hs Hr).
    assert (Phi (par :: rest) (add_set (rf_sym top) p) + 2 <= Phi (top :: par :: rest) p); [|lia].
    unfold Phi. cbn [map]. rewrite !list_sum_cons.
    pose proof (sum_le (gkeys g) (W (top :: par :: rest) p) (W (par :: rest) (add_set (rf_sym top) p))
                       (W_pop top (par :: rest) p)).
    pose proof (rem_ge_2 top). lia.
  Qed.

  Lemma Phi_push : forall st p cs, mem cs p = false -> onstack cs st = false -> In cs (gkeys g) ->
    Phi (mkRF cs (R cs) 0 0 :: st) p + 1 <= Phi st p.
  Proof.
    intros st p cs Hm Ho Hin. unfold Phi. cbn [map]. rewrite !list_sum_cons.
    set (new := mkRF cs (R cs) 0 0).
    assert (Hle : forall k, W (new :: st) p k <= W st p k).
    { intro k. unfold W, onstack. simpl.
      destruct (mem k p); simpl; [lia|].
      destruct (sym_eqb cs k); simpl; [lia|].
      destruct (existsb (fun f => sym_eqb (rf_sym f) k) st); simpl; lia. }
    pose proof (sum_drop (gkeys g) (W st p) (W (new :: st) p) cs Hle Hin) as Hd.
    assert (W st p cs = cost cs) as E1 by (unfold W; rewrite Hm, Ho; reflexivity).
    assert (W (new :: st) p cs = 0) as E2.
    { unfold W, onstack. simpl. rewrite sym_eqb_refl. simpl. rewrite orb_true_r. reflexivity. }
    rewrite E1, E2 in Hd.
    assert (E3 : rem new + 1 = cost cs).
    { unfold rem, new, cost. cbn [rf_pid rf_sid rf_rules skipn]. lia. }
    lia.
  Qed.

  (* ---- one step ---- *)
  Hypothesis known : forall k r s, In r (R k) -> In s (rprod r) -> mem s P0 = true \/ In s (gkeys g).

  Definition keeps (st st' : list rframe) (p' : list sym) : Prop :=
    forall f, In f st -> mem (rf_sym f) p' = true \/ exists f', In f' st' /\ rf_sym f' = rf_sym f.

  Definition mono (p p' : list sym) : Prop := forall s, mem s p = true -> mem s p' = true.

  Lemma mono_add : forall X p, mono p (add_set X p).
  Proof. intros X p s H. apply mem_add_set. auto. Qed.

  Lemma keeps_top_update : forall f f' rest p, rf_sym f' = rf_sym f -> keeps (f :: rest) (f' :: rest) p.
  Proof.
    intros f f' rest p Hs x [<-|Hin]; right.
    - exists f'. split; [left|]; auto.
    - exists x. split; [right|]; auto.
  Qed.

  Lemma INV_top_update : forall f f' rest p, INV (f :: rest) p ->
    rf_sym f' = rf_sym f -> rf_rules f' = rf_rules f -> frame_ok f' -> frame_prog p f' ->
    (match rest with
     | par :: _ => exists r, nth_error (rf_rules par) (rf_pid par) = Some r /\
                             nth_error (rprod r) (rf_sid par) = Some (rf_sym f)
     | [] => True end -> True) ->
    INV (f' :: rest) p.
  Proof.
    intros f f' rest p [Hg Hok Hpr Hch Hnd Hun] Hs Hr Hok' Hpr' _.
    inversion Hok; subst. inversion Hpr; subst. inversion Hun; subst.
    constructor; auto.
    - destruct rest as [|par rest']; simpl in *; auto. rewrite Hs. exact Hch.
    - simpl in *. rewrite Hs. exact Hnd.
    - constructor; auto. rewrite Hs. auto.
  Qed.

  Lemma step_inv : forall top rest p, INV (top :: rest) p ->
    match rc_step g nulls (top :: rest) p with
    | RC_Run st' p' => INV st' p' /\ Phi st' p' < Phi (top :: rest) p /\ mono p p' /\ keeps (top :: rest) st' p'
    | RC_Done _ => False
    | RC_Cycle => exists A, lpathb A A
    | RC_Stuck => False
    end.
  Proof.
    intros top rest p I. pose proof I as [Hg Hok Hpr Hch Hnd Hun].
    inversion Hok as [|? ? Hok_top Hok_rest]; subst.
    inversion Hpr as [|? ? Hpr_top Hpr_rest]; subst.
    inversion Hun as [|? ? Hun_top Hun_rest]; subst.
    unfold rc_step.
    destruct (nth_error (rf_rules top) (rf_pid top)) as [cur_prod|] eqn:Hn.
    2:{ (* all productions of top scanned: pop *)
      assert (Hsucc : forall B, lstepb (rf_sym top) B -> mem B p = true).
      { intros B [r [pre [post [Hin [Hsplit Hpre]]]]].
        destruct Hok_top as [Hrules _]. rewrite <- Hrules in Hin.
        apply In_nth_error in Hin. destruct Hin as [i Hi].
        assert (i < rf_pid top).
        { apply nth_error_None in Hn. assert (i < length (rf_rules top)) by (apply nth_error_Some; congruence). lia. }
        destruct Hpr_top as [H1 _]. apply (H1 i r H Hi (length pre) B).
        - rewrite Hsplit, app_length. simpl. lia.
        - rewrite Hsplit. rewrite nth_error_app2 by lia. rewrite Nat.sub_diag. reflexivity.
        - rewrite Hsplit. rewrite firstn_app, Nat.sub_diag, firstn_all. simpl. rewrite app_nil_r. exact Hpre. }
      assert (Hg' : good (add_set (rf_sym top) p)) by (apply good_add; auto).
      destruct rest as [|par rest'].
      - (* last frame *)
        split; [|split; [|split]].
        + constructor; simpl; auto. constructor.
        + pose proof (Phi_pop_last top p). lia.
        + apply mono_add.
        + intros f [<-|[]]. left. apply mem_add_set. auto.
      - simpl in Hch. destruct Hch as [[r [Hr Hs]] Hch'].
        rewrite Hr, Hs.
        inversion Hok_rest as [|? ? Hok_par Hok_rest']; subst.
        inversion Hpr_rest as [|? ? Hpr_par Hpr_rest']; subst.
        inversion Hun_rest as [|? ? Hun_par Hun_rest']; subst.
        simpl in Hnd. inversion Hnd as [|? ? Hnotin Hnd']; subst.
        assert (Hmono : mono p (add_set (rf_sym top) p)) by apply mono_add.
        assert (Hproc : mem (rf_sym top) (add_set (rf_sym top) p) = true) by (apply mem_add_set; auto).
        assert (Hun' : Forall (fun f => mem (rf_sym f) (add_set (rf_sym top) p) = false) (par :: rest')).
        { apply Forall_forall. intros f Hf.
          destruct (mem (rf_sym f) (add_set (rf_sym top) p)) eqn:E; auto.
          apply mem_add_set in E. destruct E as [E|E].
          - exfalso. apply Hnotin. rewrite <- E. exact (in_map rf_sym (par :: rest') f Hf).
          - rewrite Forall_forall in Hun_rest. rewrite (Hun_rest f Hf) in E. discriminate. }
        assert (Hpr' : Forall (frame_prog (add_set (rf_sym top) p)) rest').
        { eapply Forall_impl; [|exact Hpr_rest']. intros a Ha. eapply frame_prog_mono; eauto. }
        assert (Hpar_m : frame_prog (add_set (rf_sym top) p) par) by (eapply frame_prog_mono; eauto).
        inversion Hun' as [|? ? Hun'_par Hun'_rest]; subst.
        destruct (mem (rf_sym top) nulls) eqn:Hnull.
        + (* popped symbol nullable: the parent looks at its next symbol *)
          split; [|split; [|split]].
          * constructor; auto.
            -- constructor; auto. eapply frame_ok_next_symbol; eauto.
            -- constructor; auto. eapply frame_prog_next_symbol; eauto.
          * pose proof (Phi_pop top par (next_symbol par) rest' p eq_refl (rem_next_symbol par r _ Hr Hs)). lia.
          * exact Hmono.
          * intros f [<-|[<-|Hin]]; [left; auto| |].
            -- right. exists (next_symbol par). split; [left|]; auto.
            -- right. exists f. split; [right|]; auto.
        + (* not nullable: the parent's production is finished *)
          split; [|split; [|split]].
          * constructor; auto.
            -- constructor; auto. apply frame_ok_next_prod; auto.
            -- constructor; auto. apply frame_prog_next_prod; auto.
               intros r' Hr'. rewrite Hr in Hr'. inversion Hr'; subst r'.
               destruct Hpar_m as [_ H2]. eapply succ_done_stop; eauto.
               unfold nb. rewrite Hnull. discriminate.
          * destruct Hok_par as [_ Hf]. destruct (Hf r Hr) as [Hle _].
            pose proof (rem_next_prod par r Hr Hle).
            assert (rem (next_prod par) + 2 <= rem par) by lia.
            pose proof (Phi_pop top par (next_prod par) rest' p eq_refl H0). lia.
          * exact Hmono.
          * intros f [<-|[<-|Hin]]; [left; auto| |].
            -- right. exists (next_prod par). split; [left|]; auto.
            -- right. exists f. split; [right|]; auto. }
    (* a production is being scanned *)
    destruct Hok_top as [Hrules Hf]. destruct (Hf cur_prod Hn) as [Hle Hpre].
    assert (Hok_top : frame_ok top) by (split; auto).
    destruct (nth_error (rprod cur_prod) (rf_sid top)) as [cs|] eqn:Hs.
    2:{ (* end of the production *)
      split; [|split; [|split]].
      - eapply INV_top_update; eauto.
        + apply frame_ok_next_prod; auto.
        + apply frame_prog_next_prod; auto. intros r' Hr'. rewrite Hn in Hr'. inversion Hr'; subst r'.
          destruct Hpr_top as [_ H2]. eapply succ_done_end; eauto.
      - pose proof (rem_next_prod top cur_prod Hn Hle).
        pose proof (Phi_top_update top (next_prod top) rest p 4 eq_refl H). lia.
      - intros s Hs'. exact Hs'.
      - apply keeps_top_update. reflexivity. }
    destruct (existsb (fun f => sym_eqb (rf_sym f) cs) (top :: rest)) eqn:Hon.
    { eapply cycle_found; eauto. }
    destruct (mem cs p) eqn:Hproc.
    { destruct (mem cs nulls) eqn:Hnull.
      - (* processed and nullable: go on behind it *)
        split; [|split; [|split]].
        + eapply INV_top_update; eauto.
          * eapply frame_ok_next_symbol; eauto.
          * eapply frame_prog_next_symbol; eauto.
        + pose proof (rem_next_symbol top cur_prod cs Hn Hs).
          pose proof (Phi_top_update top (next_symbol top) rest p 2 eq_refl H). lia.
        + intros s Hs'. exact Hs'.
        + apply keeps_top_update. reflexivity.
      - split; [|split; [|split]].
        + eapply INV_top_update; eauto.
          * apply frame_ok_next_prod; auto.
          * apply frame_prog_next_prod; auto. intros r' Hr'. rewrite Hn in Hr'. inversion Hr'; subst r'.
            destruct Hpr_top as [_ H2]. eapply succ_done_stop; eauto.
            unfold nb. rewrite Hnull. discriminate.
        + pose proof (rem_next_prod top cur_prod Hn Hle).
          pose proof (Phi_top_update top (next_prod top) rest p 4 eq_refl H). lia.
        + intros s Hs'. exact Hs'.
        + apply keeps_top_update. reflexivity. }
    (* an unprocessed non-terminal *)
    assert (Hprev : (match rf_sid top with
                     | O => true
                     | S k => match nth_error (rprod cur_prod) k with Some q => mem q nulls | None => false end
                     end) = true).
    { destruct (rf_sid top) as [|k] eqn:Ek; auto.
      assert (k < length (rprod cur_prod)) by lia.
      destruct (nth_error (rprod cur_prod) k) as [q|] eqn:Hq.
      - eapply (Forall_firstn_nth _ nb (rprod cur_prod) (S k) k q); eauto.
      - apply nth_error_None in Hq. lia. }
    rewrite Hprev. simpl.
    assert (Hin : In cs (gkeys g)).
    { destruct (known (rf_sym top) cur_prod cs) as [H|H]; auto.
      - rewrite <- Hrules. eapply nth_error_In; eauto.
      - eapply nth_error_In; eauto.
      - destruct Hg as [_ [_ H0]]. rewrite (H0 cs H) in Hproc. discriminate. }
    split; [|split; [|split]].
    - constructor; auto.
      + constructor; auto. split; simpl; auto. intros r _. split; [lia|]. simpl. constructor.
      + constructor; auto. split; simpl.
        * intros i r Hi. lia.
        * intros r _ j s Hj. lia.
      + simpl. split; auto. exists cur_prod. split; auto.
      + simpl. constructor; auto. intro Hc. change (In cs (map rf_sym (top :: rest))) in Hc. apply in_map_iff in Hc. destruct Hc as [f [Hf1 Hf2]].
        assert (existsb (fun f => sym_eqb (rf_sym f) cs) (top :: rest) = true); [|congruence].
        apply existsb_exists. exists f. split; auto. apply sym_eqb_eq. auto.
    - pose proof (Phi_push (top :: rest) p cs Hproc Hon Hin). lia.
    - intros s Hs'. exact Hs'.
    - intros f0 Hf0. right. exists f0. split; [right|]; auto.
  Qed.

  (* ---- the loop ---- *)
  Lemma run_inv : forall fuel st p, INV st p -> st <> [] -> Phi st p <= fuel ->
    match rc_run fuel g nulls st p with
    | RC_Done p' => good p' /\ mono p p' /\ (forall f, In f st -> mem (rf_sym f) p' = true)
    | RC_Cycle => exists A, lpathb A A
    | _ => False
    end.
  Proof.
    induction fuel as [|fuel IH]; intros st p I Hne Hphi.
    - destruct st as [|top rest]; [congruence|]. unfold Phi in Hphi. simpl in Hphi.
      pose proof (rem_ge_2 top). lia.
    - destruct st as [|top rest]; [congruence|]. cbn [rc_run].
      pose proof (step_inv top rest p I) as Hst.
      destruct (rc_step g nulls (top :: rest) p) as [st' p'| | |]; try contradiction; auto.
      destruct Hst as [I' [Hlt [Hm Hk]]].
      destruct st' as [|f' st''].
      + split; [apply I'|split; auto].
        intros f Hf. destruct (Hk f Hf) as [H|[f' [[] _]]]. exact H.
      + specialize (IH (f' :: st'') p' I').
        assert (f' :: st'' <> []) by discriminate. specialize (IH H).
        assert (Phi (f' :: st'') p' <= fuel) by lia. specialize (IH H0).
        destruct (rc_run fuel g nulls (f' :: st'') p'); auto.
        destruct IH as [Hg' [Hm' Hall]]. split; [auto|split].
        * intros s Hs. auto.
        * intros f Hf. destruct (Hk f Hf) as [Hp|[f2 [Hin2 He]]].
          -- auto.
          -- rewrite <- He. auto.
  Qed.

  (* ---- the step budget rc_fuel g is never exhausted ---- *)
  Hypothesis keys_nodup : NoDup (gkeys g).

  Lemma fold_rules_cost : forall rs a,
    fold_left (fun (a : nat) (r : rule) => a + 2 * length (rprod r) + 4) rs a = a + rules_cost rs.
  Proof.
    induction rs as [|r rs IH]; intro a; simpl.
    - unfold rules_cost. simpl. lia.
    - rewrite IH. unfold rules_cost. simpl. unfold rule_cost at 2. lia.
  Qed.

  Lemma fold_grammar_cost : forall (h : grammar) a,
    fold_left (fun (a : nat) (kv : sym * list rule) =>
                 fold_left (fun (a : nat) (r : rule) => a + 2 * length (rprod r) + 4) (snd kv) (a + 4)) h a
    = a + list_sum (map (fun kv : sym * list rule => 4 + rules_cost (snd kv)) h).
  Proof.
    induction h as [|kv h IH]; intro a; cbn [fold_left map].
    - simpl. lia.
    - rewrite IH. rewrite fold_rules_cost. rewrite list_sum_cons. lia.
  Qed.

  Lemma rc_fuel_eq : rc_fuel g = 8 + list_sum (map (fun kv : sym * list rule => 4 + rules_cost (snd kv)) g).
  Proof. unfold rc_fuel. apply fold_grammar_cost. Qed.

  Lemma sum_cost_le : list_sum (map cost (gkeys g)) + 8 <= rc_fuel g.
  Proof.
    rewrite rc_fuel_eq. unfold gkeys. rewrite map_map.
    assert (H : forall h : grammar, (forall kv, In kv h -> cost (fst kv) = 3 + rules_cost (snd kv)) ->
              list_sum (map (fun x => cost (fst x)) h) <=
              list_sum (map (fun kv : sym * list rule => 4 + rules_cost (snd kv)) h)).
    { induction h as [|kv h IH]; cbn [map]; intro Hc; auto.
      rewrite !list_sum_cons.
      rewrite (Hc kv (or_introl eq_refl)).
      assert (H : forall kv0, In kv0 h -> cost (fst kv0) = 3 + rules_cost (snd kv0)).
      { intros kv0 Hk. apply Hc. right. exact Hk. }
      specialize (IH H). lia. }
    assert (Hg : forall kv, In kv g -> cost (fst kv) = 3 + rules_cost (snd kv)).
    { intros [k v] Hin. unfold cost, grules. simpl. rewrite (glookup_NoDup g k v keys_nodup Hin). reflexivity. }
    specialize (H g Hg). lia.
  Qed.

  Lemma Phi_init : forall s p, Phi [mkRF s (R s) 0 0] p + 6 <= rc_fuel g.
  Proof.
    intros s p. pose proof sum_cost_le as Hc. unfold Phi. cbn [map]. rewrite list_sum_cons. cbn [list_sum fold_right].
    set (f0 := mkRF s (R s) 0 0).
    assert (Hle : forall k, W [f0] p k <= cost k).
    { intro k. unfold W. destruct (mem k p || onstack k [f0]); lia. }
    assert (Er : rem f0 = 2 + rules_cost (R s)).
    { unfold rem, f0. cbn [rf_pid rf_sid rf_rules skipn]. lia. }
    destruct (in_dec (list_eq_dec Z.eq_dec) s (gkeys g)) as [Hin|Hn].
    - pose proof (sum_drop (gkeys g) cost (W [f0] p) s Hle Hin) as Hd.
      assert (W [f0] p s = 0) as E.
      { unfold W, onstack, f0. simpl. rewrite sym_eqb_refl. simpl. rewrite orb_true_r. reflexivity. }
      rewrite E in Hd. assert (Ec : cost s = 3 + rules_cost (R s)) by reflexivity. lia.
    - assert (R s = []) as E by (unfold grules; rewrite glookup_None_keys; auto).
      rewrite E in Er. unfold rules_cost in Er. simpl in Er.
      pose proof (sum_le (gkeys g) cost (W [f0] p) Hle). lia.
  Qed.

  Lemma INV_init : forall s p, good p -> mem s p = false -> INV [mkRF s (R s) 0 0] p.
  Proof.
    intros s p Hg Hm. constructor; auto.
    - constructor; auto. split; simpl; auto. intros r _. split; [lia|]. simpl. constructor.
    - constructor; auto. split; simpl.
      + intros i r Hi. lia.
      + intros r _ j x Hj. lia.
    - simpl. exact I.
    - simpl. constructor; auto. constructor.
  Qed.

  (* ---- for symbol, prod_rules in sorted(self.prods_map.items()) : any order ---- *)
  Definition outer_post (p : list sym) (order : list sym) (r : res unit) : Prop :=
    match r with
    | Ok _ => exists p', good p' /\ mono p p' /\ forall s, In s order -> mem s p' = true
    | Err GrammarRec => exists A, lpathb A A
    | Err _ => False
    end.

  Lemma outer_inv : forall order p, good p -> outer_post p order (rc_outer g nulls order p).
  Proof.
    induction order as [|s rest IH]; intros p Hg; simpl.
    - exists p. split; [auto|split]; [intros x Hx; exact Hx|intros x []].
    - destruct (mem s p) eqn:Hm.
      + specialize (IH p Hg). unfold outer_post in *.
        destruct (rc_outer g nulls rest p) as [u|e]; auto.
        destruct IH as [p' [Hg' [Hmono Hall]]]. exists p'. split; [auto|split; auto].
        intros x [<-|Hx]; auto.
      + pose proof (run_inv (rc_fuel g) [mkRF s (R s) 0 0] p (INV_init s p Hg Hm)) as Hrun.
        assert (Hne : [mkRF s (R s) 0 0] <> []) by discriminate.
        pose proof (Phi_init s p) as Hphi.
        assert (Hle : Phi [mkRF s (R s) 0 0] p <= rc_fuel g) by lia.
        specialize (Hrun Hne Hle).
        destruct (rc_run (rc_fuel g) g nulls [mkRF s (R s) 0 0] p) as [st' p'|p'| |]; try contradiction.
        * destruct Hrun as [Hg' [Hmono Hall]]. specialize (IH p' Hg'). unfold outer_post in *.
          destruct (rc_outer g nulls rest p') as [u|e]; auto.
          destruct IH as [p'' [Hg'' [Hmono' Hall']]]. exists p''. split; [auto|split].
          -- intros x Hx. auto.
          -- intros x [<-|Hx]; auto. apply Hmono'. apply (Hall (mkRF s (R s) 0 0)). left; auto.
        * exact Hrun.
  Qed.
End RC.

(* ------------------------------------------------------------------ sorted(...) visits every key *)
Lemma In_insert_sym : forall (x s : sym) l, In x (insert_sym s l) <-> x = s \/ In x l.
Proof.
  induction l as [|a l IH]; simpl.
  - intuition.
  - destruct (sym_ltb a s); simpl; rewrite ?IH; intuition.
Qed.

Lemma In_sort_syms : forall (x : sym) l, In x (sort_syms l) <-> In x l.
Proof.
  induction l as [|a l IH]; simpl; [tauto|].
  unfold sort_syms in *. simpl. rewrite In_insert_sym, IH. intuition.
Qed.

(* ------------------------------------------------------------------ exactness *)
Section Exact.
  Variable g : grammar.
  Variable terms nulls : list sym.
  Hypothesis Hterm : terminals_have_no_rules g terms.
  Hypothesis Hknown : symbols_known g terms.
  Hypothesis Hnodup : NoDup (gkeys g).

  Notation R := (grules g).

  Lemma good_terms : good g nulls terms terms.
  Proof.
    split; [|split]; auto.
    - intros A B HA St. exfalso. apply (lstep_has_rules R _ A B St). apply Hterm; auto.
    - intros A HA P. apply (lpath_has_rules R _ A A P). apply Hterm; auto.
  Qed.

  Definition nulls_sound : Prop := forall s, mem s nulls = true -> Nullable R s.
  Definition nulls_complete : Prop := forall s, Nullable R s -> mem s nulls = true.

  (* soundness needs only that everything in [nulls] is nullable *)
  Lemma outer_sound : forall order, nulls_sound ->
    rc_outer g nulls order terms = Err GrammarRec -> left_recursive R.
  Proof.
    intros order Hs E.
    pose proof (outer_inv g nulls terms Hknown Hnodup order terms good_terms) as H.
    rewrite E in H. simpl in H. destruct H as [A P]. exists A.
    eapply lpath_gen_impl; [|exact P]. exact Hs.
  Qed.

  (* completeness needs that every nullable symbol is in [nulls] *)
  Lemma outer_complete : forall order, nulls_complete ->
    (forall s, In s (gkeys g) -> In s order) ->
    rc_outer g nulls order terms = Ok tt -> ~ left_recursive R.
  Proof.
    intros order Hc Hord E [A P].
    pose proof (outer_inv g nulls terms Hknown Hnodup order terms good_terms) as H.
    rewrite E in H. simpl in H. destruct H as [p' [[_ [Hac _]] [_ Hall]]].
    assert (Pb : lpath_gen R (nb nulls) A A) by (eapply lpath_gen_impl; [|exact P]; exact Hc).
    apply (Hac A); auto. apply Hall. apply Hord. apply grules_keys.
    eapply lpath_has_rules; eauto.
  Qed.

  Lemma outer_total : forall order,
    rc_outer g nulls order terms = Ok tt \/ rc_outer g nulls order terms = Err GrammarRec.
  Proof.
    intro order.
    pose proof (outer_inv g nulls terms Hknown Hnodup order terms good_terms) as H.
    destruct (rc_outer g nulls order terms) as [[]|e]; auto.
    destruct e; simpl in H; try contradiction. auto.
  Qed.

  Lemma outer_exact : forall order, nulls_exact g nulls ->
    (forall s, In s (gkeys g) -> In s order) ->
    (rc_outer g nulls order terms = Err GrammarRec <-> left_recursive R) /\
    (rc_outer g nulls order terms = Ok tt <-> ~ left_recursive R).
  Proof.
    intros order Hex Hord.
    assert (Hs : nulls_sound) by (intros s; apply Hex).
    assert (Hc : nulls_complete) by (intros s; apply Hex).
    pose proof (outer_sound order Hs) as S. pose proof (outer_complete order Hc Hord) as C.
    destruct (outer_total order) as [E|E]; rewrite E in *; split; split; intro H; auto;
      try discriminate.
    - exfalso. apply C; auto.
    - exfalso. apply H. apply S. reflexivity.
  Qed.

  Lemma rec_check_exact_l : nulls_exact g nulls ->
    (rec_check g terms nulls = Err GrammarRec <-> left_recursive R) /\
    (rec_check g terms nulls = Ok tt <-> ~ left_recursive R).
  Proof.
    intro Hex. unfold rec_check. apply outer_exact; auto.
    intros s Hs. apply In_sort_syms. exact Hs.
  Qed.
End Exact.
