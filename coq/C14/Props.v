(* C14/Props.v -- the property theorems, nothing else.
   Syntax colors resolve by inheritance, independent of registration order.

   Vocabulary (C14/LemSpec.v, LemLoop.v, LemHist.v):
     descr            a parsed description (parent?, fg, bg, modifiers)
     dset             the set of descriptions registered so far, first registration wins
     resolves S id r  the reference chain of id is complete in S and yields r: own parts
                      override, "" inherits, "-" is the terminal default (None), modifiers
                      are merged child over parent
     spec_fmt nc r    the SGR parameters of r ([] under no_color)
     hop              HReg items = one add_new_items batch; HPal = get_palette()
     run_hops         the model of ColorsConfig driven through a history
     union_hops [] h  the description set of a history
     valid_hops       every description string is accepted by the parser
     acyclic          no id refers (transitively) to itself *)
From Coq Require Import ZArith List Permutation.
From AK Require Import Common.Err C14.Model C14.World C14.LemSpec C14.LemLoop C14.LemHist C14.LemFlat C14.Lemmas C14.LemWorld.
Import ListNotations.
Open Scope Z_scope.

(* what the proofs need of the tables read from ak/color.py: every name the parser
   accepts is "", "-" or a colour ColorFmt accepts; BUILT_IN_CONFIG is valid and defines
   the default syntax; resolve() (its statements are generated into acts_parent /
   acts_root) computes one inheritance step, '-' included *)
Theorem consts_ok :
  forallb (fun s => str_eqb s empty_s || str_eqb s dash_s || color_okb (CStr s))%bool color_names = true /\
  valid (flatten builtin_config) /\ has_key dflt_id (flatten builtin_config) = true /\
  (forall e p, run_acts (Some p) acts_parent e =
     Ok (mk_entry (e_init e) (e_parent e) (post_parent (e_fg e) (e_fg p)) (post_parent (e_bg e) (e_bg p))
                  (merge_mods (e_mods e) (e_mods p)) (e_fmt e))) /\
  (forall e, run_acts None acts_root e =
     Ok (mk_entry (e_init e) (e_parent e) (post_root (e_fg e)) (post_root (e_bg e)) (e_mods e) (e_fmt e))).
Proof. exact (conj names_wf (conj builtin_valid (conj builtin_has_default (conj acts_parent_spec acts_root_spec)))). Qed.
Print Assumptions consts_ok.

(* every colour the parser lets through is "", "-" or accepted by ColorFmt, so no
   description that parses can make a later resolution raise *)
Theorem parser_colors_wf : forall s d, parse_init_str s = Ok d -> wf_descr d.
Proof. exact parse_init_str_wf. Qed.
Print Assumptions parser_colors_wf.

(* the constructor is a history of two batches *)
Theorem constructor_is_history : forall nc init builtin,
  new_conf nc init builtin = run_hops (conf0 nc) [HReg (flatten init); HReg (flatten builtin)].
Proof. exact new_conf_hops. Qed.
Print Assumptions constructor_is_history.

(* MAIN: after ANY sequence of registration batches (and get_palette calls) whose
   descriptions are valid and whose first-wins union S is acyclic: no exception; the
   registry has exactly the ids of S; an id is resolved to r (attributes and formatter)
   iff its chain is complete in S and yields r; every other id is pending; and
   get_color(id) is the formatter of id's resolution (of the default syntax's for an
   unknown id), the effect-free one while that chain is incomplete *)
Theorem resolve_correct : forall nc h,
  valid_hops h -> acyclic (union_hops [] h) ->
  exists c, run_hops (conf0 nc) h = Ok c /\
    map fst (c_map c) = map fst (union_hops [] h) /\
    (forall id r, resolves (union_hops [] h) id r <-> resolved_entry nc c id r) /\
    (forall id e, incomplete (union_hops [] h) id -> lookup id (c_map c) = Some e -> e_fmt e = None) /\
    (forall id, spec_color nc (union_hops [] h) id (get_color c id)).
Proof. exact resolve_correct_l. Qed.
Print Assumptions resolve_correct.

(* two histories with the same description set are observationally equal *)
Theorem order_independent : forall nc h1 h2,
  valid_hops h1 -> valid_hops h2 ->
  (forall id, lookup id (union_hops [] h1) = lookup id (union_hops [] h2)) ->
  acyclic (union_hops [] h1) ->
  exists c1 c2, run_hops (conf0 nc) h1 = Ok c1 /\ run_hops (conf0 nc) h2 = Ok c2 /\
                forall id, get_color c1 id = get_color c2 id.
Proof. exact order_independent_l. Qed.
Print Assumptions order_independent.

(* batching never matters for the description set; when no id is described twice, any
   permutation and re-batching of the registrations gives the same colours *)
Theorem batching_irrelevant : forall h S, union_hops S h = union_add S (items_of h).
Proof. exact union_hops_items. Qed.
Print Assumptions batching_irrelevant.

Theorem order_independent_perm : forall nc h1 h2,
  valid_hops h1 -> Permutation (items_of h1) (items_of h2) -> NoDup (map fst (items_of h1)) ->
  acyclic (union_hops [] h1) ->
  exists c1 c2, run_hops (conf0 nc) h1 = Ok c1 /\ run_hops (conf0 nc) h2 = Ok c2 /\
                forall id, get_color c1 id = get_color c2 id.
Proof. exact order_independent_perm_l. Qed.
Print Assumptions order_independent_perm.

(* items of the first batch (the explicit configuration) keep their description whatever
   is registered later, and their resolved value is explained by that description *)
Theorem explicit_wins : forall nc b0 rest,
  valid_hops (HReg b0 :: rest) -> acyclic (union_hops [] (HReg b0 :: rest)) ->
  exists c, run_hops (conf0 nc) (HReg b0 :: rest) = Ok c /\
    forall id d, lookup id (union_add [] b0) = Some d ->
      lookup id (union_hops [] (HReg b0 :: rest)) = Some d /\
      (exists e, lookup id (c_map c) = Some e /\ e_parent e = d_parent d) /\
      (forall r, resolved_entry nc c id r -> explains (union_hops [] (HReg b0 :: rest)) d r).
Proof. exact explicit_wins_l. Qed.
Print Assumptions explicit_wins.

(* registering more: resolved formatters are never touched again, every chain that
   became complete is resolved to what the final set demands, nothing else is *)
Theorem later_registration_completes : forall nc h b,
  valid_hops (h ++ [HReg b]) -> acyclic (union_hops [] (h ++ [HReg b])) ->
  exists c c', run_hops (conf0 nc) h = Ok c /\ add_new_items c b = Ok c' /\
    run_hops (conf0 nc) (h ++ [HReg b]) = Ok c' /\
    (forall id e, lookup id (c_map c) = Some e -> e_fmt e <> None -> lookup id (c_map c') = Some e) /\
    (forall id r, resolves (union_hops [] (h ++ [HReg b])) id r -> resolved_entry nc c' id r) /\
    (forall id e, incomplete (union_hops [] (h ++ [HReg b])) id -> lookup id (c_map c') = Some e -> e_fmt e = None).
Proof. exact later_registration_completes_l. Qed.
Print Assumptions later_registration_completes.

(* a no_color configuration only hands out the effect-free formatter *)
Theorem no_color_plain : forall h,
  valid_hops h -> acyclic (union_hops [] h) ->
  exists c, run_hops (conf0 true) h = Ok c /\
    (forall id, get_color c id = []) /\ snd (get_palette c) = map (fun _ => []) accessors.
Proof. exact no_color_plain_l. Qed.
Print Assumptions no_color_plain.

(* ... and that without any hypothesis: invalid or cyclic registrations make the
   constructor / add_new_items raise, but a no_color configuration that exists never
   hands out an effect *)
Theorem no_color_always : forall h c,
  run_hops (conf0 true) h = Ok c ->
  (forall id, get_color c id = []) /\ snd (get_palette c) = map (fun _ => []) accessors.
Proof. exact no_color_always_l. Qed.
Print Assumptions no_color_always.

(* a palette obtained from the configuration (at any point of any history) carries the
   configuration's current formatters, and obtaining it changes no colour *)
Theorem palette_current : forall nc h,
  valid_hops h -> acyclic (union_hops [] h) ->
  exists c, run_hops (conf0 nc) h = Ok c /\
    snd (get_palette c) = map (get_color c) accessors /\
    (forall id, get_color (fst (get_palette c)) id = get_color c id).
Proof. exact palette_current_l. Qed.
Print Assumptions palette_current.

(* nested dictionaries: a group {k: {...}} is the dotted flat form, and a configuration
   built from the dotted flat form of a nested one is the same configuration *)
Theorem flatten_nested :
  (forall k sub, flatten [(k, VDict sub)] = map (dotted k) (flatten sub)) /\
  (forall t, NoDup (map fst (flatten t))) /\
  (forall t, flatten (to_flat (flatten t)) = flatten t) /\
  (forall nc init builtin, new_conf nc (to_flat (flatten init)) builtin = new_conf nc init builtin).
Proof. exact (conj flatten_group (conj flatten_nodup (conj flatten_idem new_conf_flat))). Qed.
Print Assumptions flatten_nested.

(* ------------------------------------------------------------------ the module state (C14/World.v)
   w_init classes   the state after `import ak.color`: the default configuration is the global
                    one, global_palette is the first synced palette; class 0 is GlobalPalette
   w_run w ops      API calls: ColorsConfig(...), set_global_colors_config, Cls(synced=True),
                    conf.add_new_items, Cls.register_in_colors_conf, Cls(conf), conf.get_palette();
                    classes register their SYNTAX_DEFAULTS (PARENT_PALETTES first) in a configuration
                    when they start to use it, a modification of the global configuration
                    re-syncs - recursively - all the synced palettes *)

(* whenever the calls return: every synced palette object carries exactly the formatters
   the global configuration gives NOW for its accessors, and a GlobalPalette-like one
   points to the global configuration - whatever was installed, registered or created,
   in whatever order *)
Theorem synced_current : forall classes ops w0 w,
  w_init classes = Ok w0 -> w_run w0 ops = Ok w ->
  forall j sp, nth_error (w_synced w) j = Some sp ->
    exists pc wc, nth_error (w_classes w) (sp_cls sp) = Some pc /\
                  nth_error (w_confs w) (w_global w) = Some wc /\
                  sp_attrs sp = map (get_color (wc_conf wc)) (pc_acc pc) /\
                  sp_ptr sp = w_global w.
Proof. exact synced_current_l. Qed.
Print Assumptions synced_current.

(* every configuration object of such a session is what a history of registration batches
   makes of an empty configuration: the theorems above (resolve_correct, order_independent,
   explicit_wins, ...) speak about each of them *)
Theorem world_confs_are_histories : forall classes ops w0 w,
  w_init classes = Ok w0 -> w_run w0 ops = Ok w ->
  forall i wc, nth_error (w_confs w) i = Some wc -> exists nc h, run_hops (conf0 nc) h = Ok (wc_conf wc).
Proof. exact world_confs_histories_l. Qed.
Print Assumptions world_confs_are_histories.

(* together: the accessor attributes of every synced palette are the resolution of the
   description set of the global configuration *)
Theorem synced_resolve_correct : forall classes ops w0 w,
  w_init classes = Ok w0 -> w_run w0 ops = Ok w ->
  forall j sp, nth_error (w_synced w) j = Some sp ->
    exists pc wc nc h,
      nth_error (w_classes w) (sp_cls sp) = Some pc /\
      nth_error (w_confs w) (w_global w) = Some wc /\
      run_hops (conf0 nc) h = Ok (wc_conf wc) /\
      sp_attrs sp = map (get_color (wc_conf wc)) (pc_acc pc) /\
      (valid_hops h -> acyclic (union_hops [] h) ->
       forall id, spec_color nc (union_hops [] h) id (get_color (wc_conf wc) id)).
Proof. exact synced_resolved_l. Qed.
Print Assumptions synced_resolve_correct.

(* deciding the hypotheses of the theorems above on concrete histories *)
Theorem hypotheses_decidable :
  (forall h, valid_hopsb h = true -> valid_hops h) /\ (forall S, acyclicb S = true -> acyclic S).
Proof. exact (conj valid_hopsb_valid acyclicb_sound). Qed.
Print Assumptions hypotheses_decidable.

(* ------------------------------------------------------------------ non-vacuity *)
(* {'A': 'RED/BLUE:bold', 'B': 'A:-/YELLOW', 'C': 'X:bold'} + the real BUILT_IN_CONFIG, then
   X is registered: the hypotheses hold, '-' with a parent gives the terminal default
   (B = ESC[43;1m), C waits for X *)
Definition ex_init : list (str * cval) :=
  [([65], VStr [82;69;68;47;66;76;85;69;58;98;111;108;100]);
   ([66], VStr [65;58;45;47;89;69;76;76;79;87]);
   ([67], VStr [88;58;98;111;108;100])].
Definition ex_later : list (str * str) := [([88], [71;82;69;69;78])].
Definition ex_hist : list hop := [HReg (flatten ex_init); HReg (flatten builtin_config); HPal; HReg ex_later].

Example ex_hypotheses : valid_hops ex_hist /\ acyclic (union_hops [] ex_hist).
Proof.
  split; [apply valid_hopsb_valid|apply acyclicb_sound]; vm_compute; reflexivity.
Qed.
Print Assumptions ex_hypotheses.

Example ex_colors :
  match run_hops (conf0 false) (firstn 3 ex_hist), run_hops (conf0 false) ex_hist with
  | Ok c1, Ok c2 =>
      map (get_color c1) [[65]; [66]; [67]; [88]] = [[[51;49]; [52;52]; [49]]; [[52;51]; [49]]; []; []] /\
      map (get_color c2) [[65]; [66]; [67]; [88]] = [[[51;49]; [52;52]; [49]]; [[52;51]; [49]]; [[51;50]; [49]]; [[51;50]]]
  | _, _ => False
  end.
Proof. vm_compute. split; reflexivity. Qed.
Print Assumptions ex_colors.

(* a cycle is reported as AssertionError by the code; the theorems exclude it by hypothesis *)
Example ex_cycle :
  run_hops (conf0 false) [HReg [([65], [66]); ([66], [65])]] = Err AssertErr /\
  acyclicb (union_hops [] [HReg [([65], [66]); ([66], [65])]]) = false.
Proof. vm_compute. split; reflexivity. Qed.
Print Assumptions ex_cycle.

(* a session: class 1 (accessor APP.HL, no defaults) and class 2 (SYNTAX_DEFAULTS {COMP.ACCENT: RED})
   have synced palettes; a configuration {KEYWORD: COMP.ACCENT:bold, APP.HL: COMP.ACCENT:/BLUE} is
   created and installed as the global one.  The calls return, and global_palette.keyword (the third
   accessor of palette 0) is RED+bold although COMP.ACCENT is registered only while the palettes
   are being switched *)
Definition ex_accent : str := [67;79;77;80;46;65;67;67;69;78;84].
Definition ex_hl : str := [65;80;80;46;72;76].
Definition ex_classes : list pclass :=
  [mk_pclass None [] [dflt_id; ex_hl] false;
   mk_pclass (Some [(ex_accent, VStr [82;69;68])]) [] [dflt_id; ex_accent] false].
Definition ex_conf : list (str * cval) :=
  [([75;69;89;87;79;82;68], VStr (ex_accent ++ [58;98;111;108;100]));
   (ex_hl, VStr (ex_accent ++ [58;47;66;76;85;69]))].
Definition ex_wops : list wop := [WSynced 1; WSynced 2; WNew false ex_conf None; WSetGlobal (Some 1%nat)].

Example ex_world :
  match bind (w_init ex_classes) (fun w0 => w_run w0 ex_wops) with
  | Ok w => w_global w = 1%nat /\
            map sp_attrs (w_synced w) =
              [[[]; [[51;50]; [49]]; [[51;49]; [49]]; [[51;50]; [49]]; [[51;49]]; [[51;49]; [49]]];
               [[]; [[51;49]; [52;52]]];
               [[]; [[51;49]]]]
  | Err _ => False
  end.
Proof. vm_compute. split; reflexivity. Qed.
Print Assumptions ex_world.
