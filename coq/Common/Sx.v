(* Common/Sx.v -- the observation language shared by every model and the
   Python harness.  A model's [run : case -> sx] result is printed with [show]
   (one observation per line) and compared textually with the canonical
   encoding of what the implementation did on the same case.
   No proofs in this file. *)
From Coq Require Import ZArith List String Ascii DecimalString Bool.
Import ListNotations.
Open Scope string_scope.

Inductive sx : Type :=
| SZ (z : Z)
| SL (l : list sx).

Definition string_of_Z (z : Z) : string := NilZero.string_of_int (Z.to_int z).

(* accumulator style, so that printing is linear in the output size *)
Fixpoint show_acc (s : sx) (acc : string) {struct s} : string :=
  match s with
  | SZ z => string_of_Z z ++ acc
  | SL l =>
      let fix go (l : list sx) (first : bool) (acc : string) : string :=
        match l with
        | [] => acc
        | x :: r =>
            if first then show_acc x (go r false acc)
            else String " "%char (show_acc x (go r false acc))
        end in
      String "("%char (go l true (String ")"%char acc))
  end.

Definition show (s : sx) : string := show_acc s EmptyString.

Definition nl : string := String (ascii_of_nat 10) EmptyString.

Fixpoint show_lines (l : list sx) : string :=
  match l with
  | [] => EmptyString
  | x :: r => show_acc x (nl ++ show_lines r)
  end.

(* ---- encoders used by the per-property Run.v files ---- *)
Definition sx_bool (b : bool) : sx := SZ (if b then 1 else 0)%Z.
Definition sx_nat (n : nat) : sx := SZ (Z.of_nat n).
Definition sx_N (n : N) : sx := SZ (Z.of_N n).
Definition sx_str (s : list Z) : sx := SL (map SZ s).
Definition sx_list {A} (f : A -> sx) (l : list A) : sx := SL (map f l).
Definition sx_option {A} (f : A -> sx) (o : option A) : sx :=
  match o with None => SL [] | Some a => SL [f a] end.
Definition sx_pair {A B} (f : A -> sx) (g : B -> sx) (p : A * B) : sx :=
  SL [f (fst p); g (snd p)].
