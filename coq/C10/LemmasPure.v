(* C10/LemmasPure.v -- what a rendering prints, as a pure function of the
   colours of the palette objects it uses: in a world satisfying the invariants
   the enum cell cache is transparent, and the chunks produced by gen_ch_lines
   are  pure_lines (colours of the palette) (colours of its sub-palettes).
   Consuming a result twice (by line and whole) gives the same chunks. *)
From Coq Require Import ZArith List Bool Lia.
From AK Require Import Common.Sx Common.Err C10.Sgr C10.SgrLemmas C10.Base gen.C10_Consts C10.Model
  C10.Lemmas C10.LemmasInv C10.LemmasRun.
Import ListNotations.
Open Scope Z_scope.

Notation colours := (list (acc * list Z))%type.

Definition col (l : colours) (a : acc) : list Z :=
  match zfind a l with Some f => f | None => [] end.

Definition colour_cl (cl : colours) (x : list (Z * list (Z * list Z))) : list (Z * list chunk) :=
  map (fun mc => (fst mc, map (fun at_ => (col cl (fst at_), snd at_)) (snd mc))) x.

Lemma colour_with_cl o x : colour_with o x = colour_cl (p_colors o) x.
Proof. reflexivity. Qed.

Definition item_subs (it : item) : list cls :=
  match it with IChunk (Some K) _ _ => [K] | IEnum _ K _ _ _ => [K] | _ => [] end.

Definition subcol (w : world) (cp : pid) (K : cls) : colours :=
  match zfind K (p_subs (pal_of w cp)) with Some q => p_colors (pal_of w q) | None => [] end.

Section Pure.
Variable fts : list (Z * ftdef).

Definition pure_cell (cl : colours) (ft v modi : Z) : list chunk :=
  match zfind modi (colour_cl cl (ft_texts fts ft v)) with Some x => x | None => [] end.

Definition pure_item (top : colours) (subc : cls -> colours) (it : item) : list chunk :=
  match it with
  | IPlain t => [([], t)]
  | IChunk None a t => [(col top a, t)]
  | IChunk (Some K) a t => [(col (subc K) a, t)]
  | IEnum ft K _ v modi => pure_cell (subc K) ft v modi
  end.

Definition pure_line (top : colours) (subc : cls -> colours) (l : list item) : list chunk :=
  flat_map (pure_item top subc) l.
Definition pure_lines (top : colours) (subc : cls -> colours) (ls : list (list item)) : list (list chunk) :=
  map (pure_line top subc) ls.

Lemma pure_item_ext top f g it :
  (forall K, In K (item_subs it) -> f K = g K) -> pure_item top f it = pure_item top g it.
Proof.
  intros H. destruct it as [[K|] a t|t|ft K v lit modi]; cbn [pure_item item_subs] in *; try reflexivity.
  - rewrite (H K) by (left; reflexivity). reflexivity.
  - rewrite (H K) by (left; reflexivity). reflexivity.
Qed.

(* ---- the enum cell cache is transparent ---- *)
Lemma enum_cell_pure w ft e v modi :
  inv_enum fts w ->
  snd (enum_cell fts w ft e v v modi) = pure_cell (p_colors (pal_of w e)) ft v modi /\
  w_heap (fst (enum_cell fts w ft e v v modi)) = w_heap w.
Proof.
  intros Hi. unfold enum_cell, pure_cell. rewrite <- colour_with_cl.
  destruct (zfind ft (w_enums w)) as [cache|] eqn:E1.
  - destruct (zfind e cache) as [by_val|] eqn:E2.
    + destruct (zfind v by_val) as [pm|] eqn:E3; cbn [fst snd]; [|split; reflexivity].
      rewrite (Hi _ _ _ _ _ _ E1 E2 E3). split; reflexivity.
    + cbn [zfind fst snd]. split; reflexivity.
  - cbn [zfind fst snd]. split; reflexivity.
Qed.

(* ---- state of a rendering in progress ---- *)
Definition st_ok (w : world) (cp : pid) : Prop := inv fts w /\ In cp (held w).

Lemma st_ok_good w w' cp : st_ok w cp -> good true fts w w' -> st_ok w' cp.
Proof.
  intros [Hi Hh] G. split; [eapply inv_moves; [exact Hi|apply G]|]. rewrite (good_held _ _ _ _ G). exact Hh.
Qed.

Definition present (w : world) (cp : pid) (K : cls) : Prop := zfind K (p_subs (pal_of w cp)) <> None.

Lemma grows_cp w w' cp : grows w w' -> In cp (held w) -> p_colors (pal_of w' cp) = p_colors (pal_of w cp).
Proof. intros (_ & _ & P & _) Hh. destruct (P cp Hh) as (_ & E & _). exact E. Qed.

Lemma grows_present w w' cp K : grows w w' -> In cp (held w) -> present w cp K -> present w' cp K.
Proof.
  intros (_ & _ & P & _) Hh Hp. destruct (P cp Hh) as (_ & _ & _ & _ & S). unfold present in *.
  destruct (zfind K (p_subs (pal_of w cp))) as [q|] eqn:E; [|congruence]. rewrite (S K q E). discriminate.
Qed.

Lemma grows_subcol w w' cp K : grows w w' -> In cp (held w) -> present w cp K -> subcol w' cp K = subcol w cp K.
Proof.
  intros (_ & _ & P & Q) Hh Hp. destruct (P cp Hh) as (_ & _ & _ & _ & S). unfold present, subcol in *.
  destruct (zfind K (p_subs (pal_of w cp))) as [q|] eqn:E; [|congruence]. rewrite (S K q E). exact (Q cp K q Hh E).
Qed.

Definition pitem (w : world) (cp : pid) (it : item) : list chunk := pure_item (p_colors (pal_of w cp)) (subcol w cp) it.

Lemma pitem_grows w w' cp it :
  grows w w' -> In cp (held w) -> (forall K, In K (item_subs it) -> present w cp K) -> pitem w' cp it = pitem w cp it.
Proof.
  intros G Hh Hp. unfold pitem. rewrite (grows_cp _ _ _ G Hh). apply pure_item_ext.
  intros K HK. apply grows_subcol; auto.
Qed.

Lemma render_item_pure w cp it w' cs :
  st_ok w cp -> item_ok it -> render_item true fts w cp it = Ok (w', cs) ->
  cs = pitem w' cp it /\ forall K, In K (item_subs it) -> present w' cp K.
Proof.
  intros [Hi Hh] Hok. unfold pitem. destruct it as [[K|] a t|t|ft K vkey lit modi]; cbn [render_item pure_item item_subs].
  - destruct (get_sub true w cp K) as [[w1 q]|] eqn:E; [|discriminate]. cbn [bind fst snd].
    intros [= <- <-]. destruct (moves_get_sub true fts _ _ _ _ _ (proj1 Hi) Hh E) as (_ & _ & Hz).
    split.
    + unfold subcol. rewrite Hz. reflexivity.
    + intros K' [<-|[]]. unfold present. rewrite Hz. discriminate.
  - intros [= <- <-]. split; [reflexivity|intros K []].
  - intros [= <- <-]. split; [reflexivity|intros K []].
  - destruct (get_sub true w cp K) as [[w1 q]|] eqn:E; [|discriminate]. cbn [bind fst snd].
    destruct (moves_get_sub true fts _ _ _ _ _ (proj1 Hi) Hh E) as (M & _ & Hz).
    assert (inv fts w1) as Hi1 by (eapply inv_moves; eassumption).
    destruct (enum_cell_pure w1 ft q lit modi) as [Ec Eh]; [apply Hi1|].
    destruct (enum_cell fts w1 ft q lit lit modi) as [w2 c2]. cbn [fst snd] in *.
    intros [= <- <-].
    assert (forall x, pal_of w2 x = pal_of w1 x) as Ep by (intros x; unfold pal_of; rewrite Eh; reflexivity).
    split.
    + unfold subcol. rewrite Ep, Hz, Ep. exact Ec.
    + intros K' [<-|[]]. unfold present. rewrite Ep, Hz. discriminate.
Qed.

Definition line_subs (l : list item) : list cls := flat_map item_subs l.

Lemma render_line_pure l : forall w cp w' cs,
  st_ok w cp -> Forall item_ok l -> render_line true fts w cp l = Ok (w', cs) ->
  cs = flat_map (pitem w' cp) l /\ forall K, In K (line_subs l) -> present w' cp K.
Proof.
  induction l as [|it l IH]; intros w cp w' cs Hst Hok; cbn [render_line].
  - intros [= <- <-]. split; [reflexivity|intros K []].
  - inversion Hok as [|? ? Hit Hl]; subst.
    destruct (render_item true fts w cp it) as [[w1 c1]|] eqn:E1; [|discriminate]. cbn [bind fst snd].
    destruct (render_line true fts w1 cp l) as [[w2 c2]|] eqn:E2; [|discriminate]. cbn [bind fst snd].
    intros [= <- <-].
    pose proof (good_render_item true fts _ _ _ _ _ (proj1 (proj1 Hst)) (proj2 Hst) Hit E1) as G1.
    pose proof (st_ok_good _ _ _ Hst G1) as Hst1.
    pose proof (good_render_line true fts _ _ _ _ _ (proj1 (proj1 Hst1)) (proj2 Hst1) Hl E2) as G2.
    destruct (render_item_pure _ _ _ _ _ Hst Hit E1) as [-> P1].
    destruct (IH _ _ _ _ Hst1 Hl E2) as [-> P2].
    split.
    + cbn [flat_map]. f_equal. symmetry. apply pitem_grows; [apply G2|apply Hst1|exact P1].
    + intros K HK. unfold line_subs in HK. cbn [flat_map] in HK. apply in_app_or in HK as [HK|HK]; [|exact (P2 K HK)].
      eapply grows_present; [apply G2|apply Hst1|exact (P1 K HK)].
Qed.

Definition lines_subs (ls : list (list item)) : list cls := flat_map line_subs ls.

Lemma pline_grows w w' cp l :
  grows w w' -> In cp (held w) -> (forall K, In K (line_subs l) -> present w cp K) ->
  flat_map (pitem w' cp) l = flat_map (pitem w cp) l.
Proof.
  intros G Hh. induction l as [|it l IH]; intros Hp; [reflexivity|]. cbn [flat_map]. f_equal.
  - apply pitem_grows; auto. intros K HK. apply Hp. unfold line_subs. cbn [flat_map]. apply in_or_app. left. exact HK.
  - apply IH. intros K HK. apply Hp. unfold line_subs. cbn [flat_map]. apply in_or_app. right. exact HK.
Qed.

Definition plines (w : world) (cp : pid) (ls : list (list item)) : list (list chunk) :=
  map (fun l => flat_map (pitem w cp) l) ls.

Lemma plines_grows w w' cp ls :
  grows w w' -> In cp (held w) -> (forall K, In K (lines_subs ls) -> present w cp K) ->
  plines w' cp ls = plines w cp ls.
Proof.
  intros G Hh. induction ls as [|l ls IH]; intros Hp; [reflexivity|]. unfold plines. cbn [map]. f_equal.
  - apply pline_grows; auto. intros K HK. apply Hp. unfold lines_subs. cbn [flat_map]. apply in_or_app. left. exact HK.
  - apply IH. intros K HK. apply Hp. unfold lines_subs. cbn [flat_map]. apply in_or_app. right. exact HK.
Qed.

Lemma render_lines_pure ls : forall w cp w' css,
  st_ok w cp -> Forall (Forall item_ok) ls -> render_lines true fts w cp ls = Ok (w', css) ->
  css = plines w' cp ls /\ forall K, In K (lines_subs ls) -> present w' cp K.
Proof.
  induction ls as [|l ls IH]; intros w cp w' css Hst Hok; cbn [render_lines].
  - intros [= <- <-]. split; [reflexivity|intros K []].
  - inversion Hok as [|? ? Hl Hls]; subst.
    destruct (render_line true fts w cp l) as [[w1 c1]|] eqn:E1; [|discriminate]. cbn [bind fst snd].
    destruct (render_lines true fts w1 cp ls) as [[w2 c2]|] eqn:E2; [|discriminate]. cbn [bind fst snd].
    intros [= <- <-].
    pose proof (good_render_line true fts _ _ _ _ _ (proj1 (proj1 Hst)) (proj2 Hst) Hl E1) as G1.
    pose proof (st_ok_good _ _ _ Hst G1) as Hst1.
    pose proof (good_render_lines true fts _ _ _ _ _ (proj1 (proj1 Hst1)) (proj2 Hst1) Hls E2) as G2.
    destruct (render_line_pure _ _ _ _ _ Hst Hl E1) as [-> P1].
    destruct (IH _ _ _ _ Hst1 Hls E2) as [-> P2].
    split.
    + unfold plines. cbn [map]. f_equal. symmetry. apply pline_grows; [apply G2|apply Hst1|exact P1].
    + intros K HK. unfold lines_subs in HK. cbn [flat_map] in HK. apply in_app_or in HK as [HK|HK]; [|exact (P2 K HK)].
      eapply grows_present; [apply G2|apply Hst1|exact (P1 K HK)].
Qed.

Lemma gen_lines_pure w cp o w' ls :
  st_ok w cp -> obj_ok o -> gen_lines true fts w cp o = Ok (w', ls) ->
  ls = plines w' cp (o_lines o) /\ (forall K, In K (lines_subs (o_lines o)) -> present w' cp K) /\ good true fts w w'.
Proof.
  intros Hst Hok E. pose proof (good_gen_lines true fts _ _ _ _ _ (proj1 (proj1 Hst)) (proj2 Hst) Hok E) as G.
  revert E. unfold gen_lines.
  destruct (touch_subs true w cp (o_subs o)) as [w1|] eqn:E1; [|discriminate]. cbn [bind]. intros E2.
  pose proof (good_touch_subs true fts _ _ _ _ (proj1 (proj1 Hst)) (proj2 Hst) E1) as G1.
  pose proof (st_ok_good _ _ _ Hst G1) as Hst1.
  destruct (render_lines_pure _ _ _ _ _ Hst1 Hok E2) as [A B]. auto.
Qed.

(* CHTextResult consumed as text, by line, or both: one list of lines *)
Definition texts_of (mode : Z) (ls : list (list chunk)) : list (list Z) :=
  if mode =? 0 then [text_whole ls] else if mode =? 1 then [text_lines ls]
  else if mode =? 2 then [text_lines ls; text_whole ls] else [text_whole ls; text_lines ls].

Lemma consume_pure w cp o mode w' ts :
  st_ok w cp -> obj_ok o -> consume true fts w cp o mode = Ok (w', ts) ->
  ts = texts_of mode (plines w' cp (o_lines o)) /\ good true fts w w' /\
  (forall K, In K (lines_subs (o_lines o)) -> present w' cp K).
Proof.
  intros Hst Hok. unfold consume, texts_of.
  destruct (gen_lines true fts w cp o) as [[w1 ls]|] eqn:E1; [|discriminate]. cbn [bind].
  destruct (gen_lines_pure _ _ _ _ _ Hst Hok E1) as (-> & P1 & G1).
  destruct (mode =? 0); [intros [= <- <-]; split; [reflexivity|split; [exact G1|exact P1]]|].
  destruct (mode =? 1); [intros [= <- <-]; split; [reflexivity|split; [exact G1|exact P1]]|].
  pose proof (st_ok_good _ _ _ Hst G1) as Hst1.
  destruct (gen_lines true fts w1 cp o) as [[w2 ls2]|] eqn:E2; [|discriminate]. cbn [bind].
  destruct (gen_lines_pure _ _ _ _ _ Hst1 Hok E2) as (-> & P2 & G2).
  assert (plines w2 cp (o_lines o) = plines w1 cp (o_lines o)) as Ep.
  { apply plines_grows; [apply G2|apply Hst1|exact P1]. }
  destruct (mode =? 2); intros [= <- <-]; rewrite Ep;
    (split; [reflexivity|split; [eapply good_trans; eassumption|exact P2]]).
Qed.

(* whole_eq_lines at the level of the model: whatever the order, the text read
   by line (joined with newlines) is the text read whole *)
Lemma texts_all_equal mode ls t : In t (texts_of mode ls) -> t = text_whole ls.
Proof.
  unfold texts_of, text_lines, text_whole. rewrite <- whole_eq_lines_l.
  destruct (mode =? 0); [intros [<-|[]]; reflexivity|].
  destruct (mode =? 1); [intros [<-|[]]; reflexivity|].
  destruct (mode =? 2); intros [<-|[<-|[]]]; reflexivity.
Qed.

End Pure.
