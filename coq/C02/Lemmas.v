(* C02/Lemmas.v -- collects the proof files of property C02. *)
From AK Require Export C02.Model C02.Spec C02.LemBase C02.LemNull C02.LemFirst C02.LemFollow
  C02.LemTable C02.LemParse C02.LemReject C02.LemIdent C02.Session C02.LemSession C02.SessionTok C02.LemTok.
