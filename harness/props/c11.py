"""C11  Pretty-printed JSON-like data reads back as the same data  (ak/ppobj.py PrettyPrinter)"""
import ast
import json
import os

from harness.lib import sx as SX

ID = "C11"
COQ_DIR = "C11"
RUN_MOD = "C11.Run"
MODEL_TARGETS = ["C11/Run.vo"]
PROOF_TARGETS = ["C11/Lemmas.vo", "C11/LemmasWrap.vo", "C11/LemmasPalette.vo"]
PROPS = ["C11/Props.v"]
ALLOWED_AXIOMS = []
IMPL_TIMEOUT = 10.0
COQ_SHARD = 50
RULE = ("values built AT the layout thresholds: all-simple dicts and lists whose one-line length makes "
        "offset+len land on every value from limit-6 to limit+6 at nesting offsets 0,2,..,12 (the limits are re-read "
        "from the source); wrapped lists whose running line length lands on wrap_limit-2..wrap_limit+2 for the 2nd, "
        "3rd.. item of a line, items longer than the limit, items of length 1-40; random nestings up to depth 6 with "
        "empty containers, int/str/True/False/None keys (mixed), floats, big and negative ints, non-ASCII strings; "
        "values in which ONE list/dict object occurs several times ([[0]*3]*3, one defaults dict under several keys, "
        "one tags list in several records, a wrapped list or a list at the one-line limit at several nesting offsets, "
        "an object next to an equal distinct copy, random DAGs; the model is given the expanded tree); both modes.  "
        "Every case is rendered by ONE printer per mode per worker process and consumed in many ways, all of which "
        "must give the model's lines: a coloured rendering and the other mode's printer first; str() then lines "
        "converted while iterating; lines collected with list() then converted (str and plain_text); str() after the "
        "iteration; a second iteration (and the first collection again after it); two no-colour results, a coloured "
        "one, the other mode's printer and the rendering of [v, {'k': v}] (v itself twice) consumed interleaved line "
        "by line with the line objects kept; a fresh printer; a result object made first and consumed last; str() "
        "after the user extended get_ch_text() / sums; format(), f-string, %s, print(), + '', [:], fixed_len(len()), "
        "len(); the input value unchanged afterwards.  "
        "Configuration of the call (case['cfg'], kind 'config'): EVERY combination that asks for no-colour output of "
        "printer object (PrettyPrinter(fmt_json=True/False) shared, PrettyPrinter(fmt_json=1/0), PrettyPrinter(), the "
        "module-level ak.ppobj.pp) x palette= (omitted, the default class, a subclass with other colours, a subclass "
        "with syntax ids of its own, a ready OBJECT of each of these, an object built from a configuration with other "
        "colours / from a no_color configuration / with no_color=True, the synced object) x colors_conf= (omitted, other "
        "colours, a no_color configuration) x no_color= (True; False / omitted where the configuration is no-colour by "
        "itself) x global colours configuration (as found, other colours, a no_color one; then also str()/repr() of "
        "PPWrap and pp(v) with default arguments), on five values with keys, keywords, numbers, strings (one-line, "
        "nested, wrapped list, random) in both modes (quick: 2100 renderings-with-battery in 135 cases -- one case = one "
        "value, one printer object, one global configuration and up to 16 (palette=, colors_conf=, no_color=) "
        "combinations rendered one after the other in one process, so that the palette caches are shared; the printer "
        "kinds made per case are crossed with the default global configuration only; thorough: the full product on 15 "
        "values, 9810 renderings), and one configuration drawn at random on every 4th case of the other kinds; the "
        "whole battery of consumption orders runs under each configuration, followed by the plain default call and, "
        "for a changed global configuration, by a result consumed after the former configuration is back.  "
        "Non-trivial = distinct value whose top level is a non-empty container.")
TRUSTED_BASE = [
    "json.loads / ast.literal_eval interpret the atoms the reader of the theorems leaves opaque: str(int)/str(float) "
    "of a finite number reads back as that number, the JSON/Python literals read back as True/False/None; both lex "
    "punctuation, blanks, newlines and quoted strings (no quote, backslash, control character) as the reader "
    "C11.Reader does -- validated by the oracle on every generated case",
    "gen/C11_Consts.v: _CONSTANTS_LITERALS, the table index chosen by fmt_json, the one-line limits of the dict and "
    "list branches, the wrap limit (with their comparison operators) and the ranks of _mk_type_sort_value are read "
    "from ak/ppobj.py by harness/props/c11.py:gen_consts (ast, fail-closed)",
    "ak.color CHText / a plain palette (no_color=True or built from a no_color configuration): a chunk contributes "
    "exactly its text (covered by the correspondence check only, through str() of the lines, under every "
    "configuration of the call); C11/Palette.v models only WHICH arguments give a plain palette "
    "(PaletteUser._mk_palette, the no_color / configuration rule of the palette constructor) and is hand-written, "
    "not extracted: its fidelity is checked by the correspondence on every combination of the arguments",
    "harness/props/c11.py:cfg_plain_without_no_color (the generator's reading of the doc-strings: which configurations "
    "are no-colour without no_color=True) -- cross-checked against C11.Palette.mk_palette_plain on every config case "
    "(result (2) = they disagree)",
    "harness/props/c11.py:impl_run drops a view of the lines that is == (Python list-of-str equality) the first view "
    "before the views are handed to the model; expand() gives the model the tree a value with shared objects stands for",
]
ASSUMPTIONS = [
    "values are nestings of dict, list, str, int, finite float, bool, None; strings and str keys contain no "
    "quote (the theorems need nothing more; the oracle additionally avoids backslash and control characters as the "
    "property does); dict keys are str, int, True/False/None (JSON mode is parsed back only when all keys are str)",
    "number lexemes (Python's str()) are non-empty and contain none of  space newline { } [ ] , : \"",
]
MODELLED = ("ak/ppobj.py PrettyPrinter._gen_ch_lines, _gen_ch_chunks_for_obj, _all_values_are_simple, "
            "_value_is_simple, _simple_val_to_ch_chunk, _dict_key_to_sc_chunk, _mk_type_sort_value, "
            "_PrettyPrinterTextGen.make_ch_text (as '\\n'.join of the line texts); ak/color.py "
            "PaletteUser._mk_palette + the no_color rule of _PaletteMeta.__call__ / Palette._prepare_local_colors / "
            "ColorsConfig(no_color=True) as ONE bit (is the palette plain?) in C11/Palette.v; the colours themselves, "
            "tuples, float keys and non-JSON objects (the str(obj) fallback) are not modelled")


class ExtractError(Exception):
    pass


# ------------------------------------------------------------------ constants
def _find(body, cls, name):
    for n in body:
        if isinstance(n, cls) and getattr(n, "name", None) == name:
            return n
    raise ExtractError(f"{name} not found")


def _is_name(n, ident):
    return isinstance(n, ast.Name) and n.id == ident


def _int_const(n):
    if isinstance(n, ast.Constant) and type(n.value) is int:
        return n.value
    raise ExtractError("expected an int literal, got " + ast.dump(n)[:80])


def _isinstance_test(test, typename):
    """test is `isinstance(<name>, typename)`"""
    return (isinstance(test, ast.Call) and _is_name(test.func, "isinstance") and len(test.args) == 2
            and isinstance(test.args[0], ast.Name) and _is_name(test.args[1], typename))


def _if_chain(stmt):
    """If / elif chain -> [(test, body)], else-body"""
    out = []
    while True:
        out.append((stmt.test, stmt.body))
        if len(stmt.orelse) == 1 and isinstance(stmt.orelse[0], ast.If):
            stmt = stmt.orelse[0]
        else:
            return out, stmt.orelse


def _compares(nodes, left_a, left_b, strict, loose):
    """all `left_a + left_b <op> INT` comparisons below nodes -> [int], normalised to the strict operator
    (`a < K` == `a <= K-1`, `a > K` == `a >= K+1` on integers)"""
    found = []
    for top in nodes:
        for n in ast.walk(top):
            if (isinstance(n, ast.Compare) and isinstance(n.left, ast.BinOp) and isinstance(n.left.op, ast.Add)
                    and _is_name(n.left.left, left_a) and _is_name(n.left.right, left_b)):
                if len(n.ops) != 1 or len(n.comparators) != 1:
                    raise ExtractError(f"comparison of {left_a}+{left_b} has an unrecognised shape")
                k = _int_const(n.comparators[0])
                if isinstance(n.ops[0], strict):
                    found.append(k)
                elif isinstance(n.ops[0], loose):
                    found.append(k + 1 if loose is ast.LtE else k - 1)
                else:
                    raise ExtractError(f"comparison of {left_a}+{left_b} uses an unexpected operator")
    return found


def gen_consts(repo):
    src = open(os.path.join(repo, "ak", "ppobj.py")).read()
    tree = ast.parse(src)
    cls = _find(tree.body, ast.ClassDef, "PrettyPrinter")
    # --- _CONSTANTS_LITERALS
    tables = None
    for n in cls.body:
        if isinstance(n, ast.Assign) and len(n.targets) == 1 and _is_name(n.targets[0], "_CONSTANTS_LITERALS"):
            try:
                tables = ast.literal_eval(n.value)
            except Exception as e:
                raise ExtractError(f"_CONSTANTS_LITERALS is not a literal: {e}")
    if not (isinstance(tables, tuple) and len(tables) == 2 and all(isinstance(t, dict) for t in tables)):
        raise ExtractError("_CONSTANTS_LITERALS is not a pair of dicts")
    lits = []
    for t in tables:
        row = []
        for k in (True, False, None):
            hit = [v for kk, v in t.items() if kk is k]
            if len(hit) != 1 or not isinstance(hit[0], str):
                raise ExtractError(f"_CONSTANTS_LITERALS: no str literal for {k}")
            row.append(hit[0])
        if len(t) != 3:
            raise ExtractError("_CONSTANTS_LITERALS: unexpected extra entries")
        lits.append(row)
    # --- which table fmt_json selects:  self._consts = self._CONSTANTS_LITERALS[1 if fmt_json else 0]
    init = _find(cls.body, ast.FunctionDef, "__init__")
    sel = None
    for n in ast.walk(init):
        if (isinstance(n, ast.Assign) and len(n.targets) == 1 and isinstance(n.targets[0], ast.Attribute)
                and n.targets[0].attr == "_consts"):
            v = n.value
            if not (isinstance(v, ast.Subscript) and isinstance(v.value, ast.Attribute)
                    and v.value.attr == "_CONSTANTS_LITERALS" and isinstance(v.slice, ast.IfExp)
                    and _is_name(v.slice.test, "fmt_json")):
                raise ExtractError("__init__: unrecognised selection of the constants table")
            sel = (_int_const(v.slice.body), _int_const(v.slice.orelse))
    if sel is None or set(sel) != {0, 1}:
        raise ExtractError("__init__: selection of the constants table not found")
    lit_json, lit_py = lits[sel[0]], lits[sel[1]]
    # --- thresholds in _gen_ch_chunks_for_obj
    fn = _find(cls.body, ast.FunctionDef, "_gen_ch_chunks_for_obj")
    ifs = [s for s in fn.body if isinstance(s, ast.If)]
    if len(ifs) != 1:
        raise ExtractError("_gen_ch_chunks_for_obj: expected one if/elif chain")
    chain, _else = _if_chain(ifs[0])
    dict_body = [b for t, b in chain if _isinstance_test(t, "dict")]
    list_body = [b for t, b in chain if _isinstance_test(t, "list")]
    if len(chain) != 3 or len(dict_body) != 1 or len(list_body) != 1:
        raise ExtractError("_gen_ch_chunks_for_obj: expected the branches simple / dict / list / else")
    d_lim = _compares(dict_body[0], "offset", "scr_len", ast.Lt, ast.LtE)
    l_lim = _compares(list_body[0], "offset", "scr_len", ast.Lt, ast.LtE)
    w_lim = _compares(list_body[0], "len_yielded", "cur_chunk_len", ast.Gt, ast.GtE)
    if len(d_lim) != 1 or len(l_lim) != 1 or len(w_lim) != 1:
        raise ExtractError(f"thresholds not found exactly once: dict {d_lim} list {l_lim} wrap {w_lim}")
    if _compares(dict_body[0], "len_yielded", "cur_chunk_len", ast.Gt, ast.GtE):
        raise ExtractError("unexpected wrap comparison in the dict branch")
    # --- ranks in _mk_type_sort_value
    sv = _find(cls.body, ast.FunctionDef, "_mk_type_sort_value")
    ifs = [s for s in sv.body if isinstance(s, ast.If)]
    if len(ifs) != 1:
        raise ExtractError("_mk_type_sort_value: expected one if/elif chain")
    chain, _else = _if_chain(ifs[0])

    def ret_rank(body, payload):
        if not (len(body) == 1 and isinstance(body[0], ast.Return) and isinstance(body[0].value, ast.Tuple)
                and len(body[0].value.elts) == 2):
            raise ExtractError("_mk_type_sort_value: branch does not return a pair")
        r, p = body[0].value.elts
        if payload == "value" and not _is_name(p, "value"):
            raise ExtractError("_mk_type_sort_value: payload is not the value itself")
        if payload == "str" and not (isinstance(p, ast.Call) and _is_name(p.func, "str") and len(p.args) == 1
                                     and _is_name(p.args[0], "value")):
            raise ExtractError("_mk_type_sort_value: payload is not str(value)")
        return _int_const(r)
    if len(chain) < 3:
        raise ExtractError("_mk_type_sort_value: too few branches")
    t0, t1, t2 = chain[0][0], chain[1][0], chain[2][0]
    if not (isinstance(t0, ast.Call) and isinstance(t0.func, ast.Attribute) and t0.func.attr == "is_keyword_value"):
        raise ExtractError("_mk_type_sort_value: first test is not is_keyword_value")
    if not _isinstance_test(t1, "Number") or not _isinstance_test(t2, "str"):
        raise ExtractError("_mk_type_sort_value: expected the tests keyword / Number / str in this order")
    rank_kw = ret_rank(chain[0][1], "str")
    rank_num = ret_rank(chain[1][1], "value")
    rank_str = ret_rank(chain[2][1], "value")

    def zl(s):
        return SX.cZlist(ord(c) for c in s)
    text = ("(* generated from ak/ppobj.py by harness/props/c11.py -- do not edit *)\n"
            "From Coq Require Import ZArith List.\nImport ListNotations.\n"
            "(* literals for True, False, None *)\n"
            f"Definition lit_py : list (list Z) := [{'; '.join(zl(s) for s in lit_py)}].\n"
            f"Definition lit_json : list (list Z) := [{'; '.join(zl(s) for s in lit_json)}].\n"
            "(* offset + scr_len < limit ;  len_yielded + cur_chunk_len > wrap_limit *)\n"
            f"Definition dict_oneline_limit : Z := {SX.cZ(d_lim[0])}%Z.\n"
            f"Definition list_oneline_limit : Z := {SX.cZ(l_lim[0])}%Z.\n"
            f"Definition wrap_limit : Z := {SX.cZ(w_lim[0])}%Z.\n"
            "(* first components of _mk_type_sort_value *)\n"
            f"Definition rank_num : Z := {SX.cZ(rank_num)}%Z.\n"
            f"Definition rank_str : Z := {SX.cZ(rank_str)}%Z.\n"
            f"Definition rank_kw : Z := {SX.cZ(rank_kw)}%Z.\n")
    global _LIMITS
    _LIMITS = (d_lim[0], l_lim[0], w_lim[0])
    return {"C11_Consts": text}


_LIMITS = None


def _limits():
    """(dict one-line limit, list one-line limit, wrap limit) of the checked source, for targeting only"""
    global _LIMITS
    if _LIMITS is None:
        try:
            gen_consts(os.environ.get("VERIF_REPO", "/repo"))
        except Exception:
            _LIMITS = (200, 200, 150)
    d, l, w = _LIMITS
    ok = lambda x: x if 20 <= x <= 2000 else None  # noqa: E731
    return ok(d) or 200, ok(l) or 200, ok(w) or 150


# ------------------------------------------------------------------ value encoding (JSON-serialisable)
# A value may contain the same list / dict OBJECT several times (a DAG, never a cycle).  Containers are numbered
# in the order in which they are completed (post-order); ["r", k] stands for "the k-th completed container, the
# same object again".  dec() is total: k is taken modulo the number of containers completed so far ([] when there
# is none), so that every structurally shrunk case is still a case.
def enc(v, _memo=None):
    memo = {} if _memo is None else _memo
    if v is None or v is True or v is False:
        return ["k", str(v)]
    if isinstance(v, int):
        return ["i", v]
    if isinstance(v, float):
        return ["f", repr(v)]
    if isinstance(v, str):
        return ["s", v]
    if isinstance(v, (list, dict)):
        if id(v) in memo:
            return ["r", memo[id(v)]]
        if isinstance(v, list):
            e = ["l", [enc(x, memo) for x in v]]
        else:
            e = ["d", [[enc(k, memo), enc(x, memo)] for k, x in v.items()]]
        memo[id(v)] = len(memo)
        return e
    raise TypeError(v)


KW = {"True": True, "False": False, "None": None}


def dec(e, _done=None):
    done = [] if _done is None else _done
    t, a = e
    if t == "k":
        return KW[a]
    if t == "i":
        return int(a)
    if t == "f":
        return float(a)
    if t == "s":
        return a
    if t == "r":
        return done[int(a) % len(done)] if done else []
    if t == "l":
        v = [dec(x, done) for x in a]
    elif t == "d":
        v = {dec(k, done): dec(x, done) for k, x in a}
    else:
        raise ValueError(t)
    done.append(v)
    return v


def expand(e, _done=None):
    """the encoding of the same value as a tree (what the model, which knows no object identity, is given)"""
    done = [] if _done is None else _done
    t, a = e
    if t == "r":
        return done[int(a) % len(done)] if done else ["l", []]
    if t == "l":
        x = ["l", [expand(y, done) for y in a]]
    elif t == "d":
        x = ["d", [[k, expand(y, done)] for k, y in a]]
    else:
        return e
    done.append(x)
    return x


def has_sharing(e):
    t, a = e
    if t == "r":
        return True
    if t == "l":
        return any(has_sharing(x) for x in a)
    if t == "d":
        return any(has_sharing(x) for _k, x in a)
    return False


# ------------------------------------------------------------------ generators
ASCII = "abcdefghijklmnopqrstuvwxyzABCDEFGHIJKLMNOPQRSTUVWXYZ0123456789 _-+.,:;{}[]()/'!?#%&*<>=@^|~`$"
WIDE = "é中ßπж\U0001f600ü€"


def rstr(rng, n, wide=False):
    alpha = ASCII + (WIDE if wide else "")
    return "".join(rng.choice(alpha) for _ in range(n))


def rnum(rng):
    c = rng.randrange(10)
    if c < 4:
        return rng.randrange(-50, 1000)
    if c < 6:
        return rng.choice([0, -1, 10 ** 18, -10 ** 25, 2 ** 64, 7, 99, 100, 12345678901234567890])
    if c < 8:
        return rng.choice([0.0, -0.0, 1.5, -2.25, 1e16, 1e-7, 3.141592653589793, 1e300, 5e-324, 123456.789, 1e22, 0.1])
    return round(rng.uniform(-1000, 1000), rng.randrange(0, 6))


def rsimple(rng, maxlen=12, wide=True):
    c = rng.randrange(12)
    if c < 4:
        return rstr(rng, rng.randrange(0, maxlen + 1), wide and rng.random() < 0.3)
    if c < 8:
        return rnum(rng)
    if c < 9:
        return rng.choice([True, False, None])
    if c < 10:
        return rng.choice([[], {}])
    return rng.choice([True, False, None, "", 0])


def rkey(rng, style):
    """style: 'str' | 'int' | 'mixed' | 'kw'"""
    if style == "mixed":
        style = rng.choice(["str", "str", "int", "kw"])
    if style == "int":
        return rng.choice([rng.randrange(-20, 200), rng.randrange(2, 10 ** 6), -rng.randrange(2, 10 ** 12), 10 ** 20 + rng.randrange(9)])
    if style == "kw":
        return rng.choice([True, False, None])
    n = rng.choice([0, 1, 1, 2, 2, 3, 3, 4, 6, 9])
    return rstr(rng, n, rng.random() < 0.2)


def rdict_keys(rng, n, json_ok):
    style = "str" if json_ok else rng.choice(["str", "int", "mixed", "mixed"])
    keys = []
    seen = set()
    tries = 0
    while len(keys) < n and tries < 10 * n + 10:
        tries += 1
        k = rkey(rng, style)
        # True == 1, False == 0 as dict keys: keep them apart
        norm = ("n", int(k)) if isinstance(k, (bool, int)) else ("o", k)
        if norm in seen:
            continue
        seen.add(norm)
        keys.append(k)
    return keys


def rvalue(rng, depth, json_ok):
    """random nesting; json_ok -> str keys only"""
    if depth <= 0 or rng.random() < 0.3:
        return rsimple(rng)
    n = rng.choice([0, 1, 1, 2, 2, 3, 4, 5])
    if rng.random() < 0.5:
        return [rvalue(rng, depth - 1, json_ok) for _ in range(n)]
    return {k: rvalue(rng, depth - 1, json_ok) for k in rdict_keys(rng, n, json_ok)}


def chunk_len(v, mode):
    """length of the one-token rendering of a simple value (harness-side, used for targeting only)"""
    if isinstance(v, str):
        return len(v) + 2
    if v is True or v is False or v is None:
        return len({"py": str(v), "json": {True: "true", False: "false", None: "null"}[v]}[mode])
    if isinstance(v, (int, float)):
        return len(str(v))
    return 2


def key_len(k):
    return len(k) + 2 if isinstance(k, str) else len(str(k))


def simple_list_of_len(rng, total, mode, maxitem=40):
    """all-simple list with sum(len)+2n == total (n >= 1, total >= 4)"""
    items = []
    left = max(total, 4)
    while left > maxitem + 6:
        v = rsimple(rng, maxlen=maxitem - 2, wide=False)
        ln = chunk_len(v, mode) + 2
        if left - ln < 4:
            continue
        items.append(v)
        left -= ln
    items.insert(rng.randrange(len(items) + 1), rstr(rng, left - 4))
    return items


def list_scr_len(items, mode):
    return sum(chunk_len(v, mode) for v in items) + 2 * len(items)


def simple_dict_of_len(rng, total, mode, json_ok):
    """all-simple dict whose one-line text has exactly `total` characters"""
    n = rng.randrange(1, 9)
    keys = rdict_keys(rng, n, json_ok)
    d = {k: rsimple(rng, maxlen=10, wide=False) for k in keys}
    pad_key = "pad"
    while pad_key in d:
        pad_key += "_"
    d[pad_key] = ""

    def ln(dd):
        return 2 + sum(key_len(k) + 2 + chunk_len(v, mode) for k, v in dd.items()) + 2 * (len(dd) - 1)
    cur = ln(d)
    while cur > total and len(d) > 1:
        k = next(k for k in d if k != pad_key)
        del d[k]
        cur = ln(d)
    if cur > total:
        return None
    d[pad_key] = rstr(rng, total - cur)
    assert ln(d) == total
    # shuffle insertion order
    ks = list(d)
    rng.shuffle(ks)
    return {k: d[k] for k in ks}


def nest(rng, v, depth, json_ok):
    """put v at nesting offset 2*depth below alternating non-simple containers"""
    for _ in range(depth):
        c = rng.randrange(4)
        if c == 0:
            v = [v]
        elif c == 1:
            v = [rsimple(rng), v, rsimple(rng)]
        elif c == 2:
            v = {rkey(rng, "str"): v}
        else:
            ks = rdict_keys(rng, 3, json_ok)
            d = {k: rsimple(rng) for k in ks}
            d[ks[rng.randrange(len(ks))]] = v
            v = d
    return v


def wrapped_list(rng, mode, off, wlim, llim):
    """all-simple list that is wrapped (too long for one line); line fills aimed at the wrap limit"""
    items = []
    style = rng.randrange(6)
    nlines = rng.randrange(2, 6)
    for _ in range(nlines):
        if style == 0:
            # fill a line so that len_yielded + cur lands on wlim-2 .. wlim+2 for its last item
            target = wlim + rng.randrange(-2, 3)
            cur = off + 2
            first = True
            while True:
                room = target - cur - (0 if first else 2)
                if room < 1:
                    break
                if room <= 42 and not first:
                    if room >= 2:
                        items.append(rstr(rng, room - 2))
                    else:
                        items.append(rng.randrange(0, 10))
                    break
                v = rsimple(rng, maxlen=38, wide=False)
                ln = chunk_len(v, mode)
                if ln > room - 3:
                    continue
                items.append(v)
                cur += ln + (0 if first else 2)
                first = False
        elif style == 1:
            items += [rsimple(rng, maxlen=rng.choice([1, 5, 38]), wide=True) for _ in range(rng.randrange(5, 40))]
        elif style == 2:
            # an item longer than the limit, alone or after/before short ones
            items += [rsimple(rng) for _ in range(rng.randrange(0, 3))]
            items.append(rstr(rng, wlim + rng.randrange(-6, 30)))
            items += [rsimple(rng) for _ in range(rng.randrange(0, 3))]
        elif style == 3:
            items += [rng.randrange(0, 10 ** rng.randrange(1, 6)) for _ in range(rng.randrange(20, 70))]
        elif style == 4:
            k = rng.choice([1, 2, 3, 5, 8, 13, 38])
            items += [rstr(rng, k) for _ in range(rng.randrange(10, 50))]
        else:
            items += [rng.choice([[], {}, None, True, "", 0.5]) for _ in range(rng.randrange(20, 60))]
    # make sure it is too long for one line
    while off + list_scr_len(items, mode) < llim + rng.randrange(0, 3):
        items.append(rsimple(rng, maxlen=20, wide=False))
    return items


def rvalue_dag(rng, depth, json_ok, pool):
    """random nesting in which a container built earlier may occur again (the same object)"""
    if pool and rng.random() < 0.25:
        return rng.choice(pool)
    if depth <= 0 or rng.random() < 0.25:
        return rsimple(rng)
    n = rng.choice([1, 1, 2, 2, 3, 4, 5])
    if rng.random() < 0.5:
        v = [rvalue_dag(rng, depth - 1, json_ok, pool) for _ in range(n)]
    else:
        v = {k: rvalue_dag(rng, depth - 1, json_ok, pool) for k in rdict_keys(rng, n, json_ok)}
    pool.append(v)
    return v


def shared_value(rng, mode, dlim, llim, wlim):
    """a value in which one list / dict object occurs more than once (never inside itself)"""
    json_ok = mode == "json" or rng.random() < 0.5
    style = rng.randrange(9)
    if style == 0:
        # [[0] * 3] * 3 and relatives
        inner = rng.choice([[0] * rng.randrange(1, 5), [rsimple(rng) for _ in range(rng.randrange(1, 4))],
                            {"a": 1}, {"x": [1, 2], "y": None}, [[1], [2, [3]]], [{}], [[]]])
        return [inner] * rng.randrange(2, 6)
    if style == 1:
        # one defaults dict stored under several keys
        dflt = {k: rsimple(rng) for k in rdict_keys(rng, rng.randrange(1, 5), json_ok)}
        if rng.random() < 0.4:
            dflt["nested"] = [1, [2]]
        keys = rdict_keys(rng, rng.randrange(2, 6), json_ok)
        return {k: (dflt if rng.random() < 0.7 else rsimple(rng)) for k in keys} if len(keys) > 1 else [dflt, dflt]
    if style == 2:
        # one tags list shared by several records
        tags = [rstr(rng, rng.randrange(1, 8)) for _ in range(rng.randrange(1, 6))]
        return [{"name": rstr(rng, 5), "tags": tags, "n": i} for i in range(rng.randrange(2, 7))]
    if style == 3:
        # a long (wrapped) list at several nesting offsets
        big = wrapped_list(rng, mode, rng.choice([0, 2, 4]), wlim, llim)
        return rng.choice([[big, big], {"a": big, "b": {"c": big}}, [[big], big, {"k": [big]}], {"x": [big, [big]]}])
    if style == 4:
        # a list / dict whose one-line length is at the limit: one line at one offset, several lines at another
        total = llim - rng.randrange(0, 9)
        one = simple_list_of_len(rng, total, mode) if rng.random() < 0.5 else \
            (simple_dict_of_len(rng, dlim - rng.randrange(0, 9), mode, True) or [1, 2])
        return rng.choice([[one, [one], [[one]], [[[one]]]], {"a": one, "b": {"c": {"d": one}}}, [[[[one]]], one]])
    if style == 5:
        # the same object next to an equal but distinct one
        a = rvalue(rng, 2, json_ok)
        if not isinstance(a, (list, dict)) or not a:
            a = [1, {"k": [2]}]
        b = dec(enc(a))
        return rng.choice([[a, b, a], {"p": a, "q": b, "r": a}, [b, [a, [b, a]]]])
    if style == 6:
        # child and grandchild
        c = rvalue(rng, 2, json_ok)
        if not isinstance(c, (list, dict)) or not c:
            c = {"z": [0]}
        return rng.choice([[c, [c]], {"a": c, "b": [c, {"c": c}]}, [[c, c], [c, c]]])
    pool = []
    v = rvalue_dag(rng, rng.randrange(2, 6), json_ok, pool)
    return v if isinstance(v, (list, dict)) and v else [v, pool and pool[0], pool and pool[0]]


def gen_cases(rng, tier):
    big = tier == "thorough"
    dlim, llim, wlim = _limits()
    cases = []

    def add(kind, v, mode=None):
        for m in ([mode] if mode else ["json", "py"]):
            c = {"kind": kind, "mode": m, "v": enc(v)}
            # the rendering of [v, {"k": v}] is compared with the model on every case of the quick tier and on
            # every 4th case of the thorough tier (it triples the Coq term); the oracle reads it back on all
            if big and len(cases) % 4:
                c["wm"] = 0
            cases.append(c)

    # top-level simple values and tiny containers
    for v in [None, True, False, 0, -1, 10 ** 30, 1.5, -0.0, 1e16, "", "abc", "é中", [], {}, [[]], [{}], {"a": []},
              {"": ""}, [1], {"a": 1}, [1, 2, 3], {"b": 1, "a": 2}, [[1]], {"a": {"b": {"c": [1, [2, [3]]]}}},
              [None, True, False], {"t": True, "f": False, "n": None}]:
        add("small", v)
    for v in [{1: "a", "1": "b", -1: "c", 10: "d", 9: "e"}, {True: 1, None: 2, "x": 3, False: 4},
              {2: [1, 2], "a": {"b": 1}, 1: [3, [4]], "B": 0}, {10 ** 20: 1, -10 ** 20: 2, 0: 3},
              {"b": 1, "a": 2, "B": 3, "": 4, "ab": 5, "a ": 6, "é": 7, "z": 8}]:
        add("keys", v, "py")
        add("keys-json", v, "json")

    # outside the property's domain, inside the model (fidelity only: the oracle checks the lines, not the parse)
    for v in ['a"b', "back\\slash", "two\nlines", ["x\ty", {"k\"": "\n"}], {"a\nb": [1, [2]]}]:
        add("odd-strings", v)
    # float keys: outside the model (their order needs float comparison), oracle only
    for v in [{1.5: "a", 2: "b", -0.5: "c", 10: "d"}, {2.5: [1, [2]], 1: {}, "s": 0.5}]:
        add("float-keys", v, "py")

    # one-line thresholds for dicts and lists at nesting offsets 0..12
    deltas = range(-6, 7) if big else range(-4, 5)
    reps = 10 if big else 1
    for depth in range(0, 7):
        off = 2 * depth
        for dl in deltas:
            for _ in range(reps):
                for m in ("json", "py"):
                    json_ok = m == "json" or rng.random() < 0.5
                    d = simple_dict_of_len(rng, dlim + dl - off, m, json_ok)
                    if d is not None:
                        add("dict-threshold", nest(rng, d, depth, json_ok), m)
                    items = simple_list_of_len(rng, llim + dl - off, m)
                    add("list-threshold", nest(rng, items, depth, True), m)
    # wrapped lists
    for _ in range(3500 if big else 180):
        depth = rng.randrange(0, 7)
        m = rng.choice(["json", "py"])
        items = wrapped_list(rng, m, 2 * depth, wlim, llim)
        add("wrapped-list", nest(rng, items, depth, True), m)
    # long dicts (multi-line because too long, or because of one non-simple value)
    for _ in range(1000 if big else 50):
        m = rng.choice(["json", "py"])
        json_ok = m == "json"
        n = rng.randrange(8, 30)
        d = {k: rsimple(rng, maxlen=30) for k in rdict_keys(rng, n, json_ok)}
        if rng.random() < 0.4 and d:
            d[next(iter(d))] = [1, [2]]
        add("long-dict", nest(rng, d, rng.randrange(0, 4), json_ok), m)
    # values in which one list / dict object occurs several times
    fixed_inner = [0, 0, 0]
    fixed_dflt = {"colour": None, "size": 1}
    for v in [[fixed_inner] * 3, {"a": fixed_dflt, "b": fixed_dflt}, [fixed_dflt, {"again": fixed_dflt}, fixed_inner, [fixed_inner]]]:
        add("shared", v)
    for _ in range(2500 if big else 150):
        m = rng.choice(["json", "py"])
        add("shared", shared_value(rng, m, dlim, llim, wlim), m)
    # random nestings
    for _ in range(12000 if big else 420):
        m = rng.choice(["json", "py"])
        json_ok = m == "json" and rng.random() < 0.9
        add("random", rvalue(rng, rng.randrange(1, 7), json_ok), m)
    # every 4th of the cases above is rendered under a configuration drawn at random (the layout must not
    # depend on how the no-colour output was asked for)
    pools = {m: all_cfgs(m, True) for m in ("json", "py")}
    for c in cases:
        if rng.random() < 0.25:
            c["cfgs"] = [dict(rng.choice(pools[c["mode"]]))]
    # the configuration of the call: EVERY combination of printer object x palette= x colors_conf= x no_color= x
    # global configuration that asks for no-colour output (see DEFAULT_CFG), on a handful of values with keys,
    # keywords, numbers and strings (one-line, nested, wrapped).  One case = one value, one printer object, one
    # global configuration and a list of (palette=, colors_conf=, no_color=) combinations, rendered one after
    # the other by one impl_run (palettes are cached per class / per configuration: the calls share that state)
    vals = config_values(rng)
    for i in range(10 if big else 0):
        vals.append(rvalue(rng, rng.randrange(1, 5), True))
    conf = []
    for v in vals:
        for m in ("json", "py"):
            groups = {}
            for cfg in all_cfgs(m, big):
                groups.setdefault((cfg.get("k"), cfg.get("g")), []).append(cfg)
            for key in groups:
                cs = groups[key]
                if rng.random() < 0.5:
                    cs = cs[::-1]
                for i in range(0, len(cs), 16):   # at most 16 configurations per case (per-case time limit)
                    conf.append({"kind": "config", "mode": m, "v": enc(v), "cfgs": cs[i:i + 16]})
    # spread evenly over the list (the implementation workers take contiguous slices of it)
    step = max(1, len(cases) // (len(conf) + 1))
    for i, c in enumerate(conf):
        cases.insert(min(len(cases), (i + 1) * step + i), c)
    return cases


def all_cfgs(mode, full):
    """every configuration of the call that asks for no-colour output; not full: the printer kinds other than the
    shared / module-level ones are crossed with the default global configuration only"""
    out = []
    for g in (None, "col", "nc"):
        for pal in PALS:
            for cc in ((None,) if pal in PAL_OBJ_BUILT else (None, "col", "nc")):
                for nc in (1, 0, None):
                    for k in KINDS[mode]:
                        if not full and g is not None and k not in ("shared", "pp"):
                            continue
                        c = {"k": k, "pal": pal, "cc": cc, "nc": nc, "g": g}
                        if cfg_valid(c, mode):
                            out.append(cfg_short(c))
    return out


def config_values(rng):
    long_list = []
    for i in range(14):   # ~35 items, too long for one line: several items per line
        long_list += [i * 37 % 1000, rng.choice([True, False, None]), "item%03d" % i, round(rng.uniform(-9, 9), 2)][: 1 + i % 4]
    rnd = rvalue(rng, 3, True)
    if not isinstance(rnd, (list, dict)) or not rnd:
        rnd = [rnd, {"k": [rnd, None]}]
    return [
        [True, 0, "s", None, -2.5],
        {"name": "x1", "flags": [True, False, None], "numbers": [1, -2, 3.5, 1e100],
         "nested": {"b": {"k": [1, 2, {"z": "w"}]}, "a": [], "": {}}},
        {"long": long_list, "k": None, "n": 17},
        {"b": 1, "a": {"c": [None, 2.5, "\xe9\u4e2d", [False]]}, "": ""},
        rnd,
    ]


def search_cases(rng, tier):
    out = gen_cases(rng, "quick")
    out += gen_cases(rng, "quick")
    return out


def kind(case):
    return case["kind"] + "/" + case["mode"]


# ------------------------------------------------------------------ implementation
_PRINTERS = {}


def twice(v):
    """a value that contains the object v twice, at two nesting offsets (C11.Run.twice)"""
    return [v, {"k": v}]


def _interleave(its):
    """its: [(iterator, sink or None)]; one line from each live iterator in turn, the first one a line ahead;
    the line OBJECTS are kept (sink) and converted only after every iterator is exhausted"""
    live = list(its)
    if live:
        it, sink = live[0]
        try:
            x = next(it)
            if sink is not None:
                sink.append(x)
        except StopIteration:
            live.pop(0)
    while live:
        for pair in list(live):
            it, sink = pair
            try:
                x = next(it)
            except StopIteration:
                live.remove(pair)
                continue
            if sink is not None:
                sink.append(x)


# ---- the configuration of the call (case["cfg"]; absent = DEFAULT_CFG) -------------------------------------------
# k    which printer object:  "shared" PrettyPrinter(fmt_json=True/False), one per mode per worker process;
#      "int" PrettyPrinter(fmt_json=1 / 0), made for the case;  py mode only: "pp" the module-level ak.ppobj.pp,
#      "ctor0" PrettyPrinter() without arguments, made for the case
# pal  the palette= argument: None (omitted) | "cls-default" PrettyPrinter.PPPalette | "cls-sub" a subclass with
#      other colours | "cls-sub2" a subclass of it with syntax ids of its own (SYNTAX_DEFAULTS) | a ready OBJECT:
#      "obj-default" PPPalette() | "obj-sub" Sub() | "obj-sub2" Sub2() | "obj-sub-cc" Sub(<config with other colours>)
#      | "obj-nc" Sub(no_color=True) | "obj-ccn" Sub(<no_color config>) | "obj-synced" PPPalette(synced=True)
# cc   the colors_conf= argument: None (omitted) | "col" a ColorsConfig with other colours | "nc" ColorsConfig(no_color=True)
# nc   the no_color= argument: 1 True | 0 False | None omitted   (0 / None only where the configuration is no-colour by itself)
# g    the global colours configuration during the case: None (as found) | "col" other colours | "nc" a no_color one
DEFAULT_CFG = {"k": "shared", "pal": None, "cc": None, "nc": 1, "g": None}
PALS = [None, "cls-default", "cls-sub", "cls-sub2", "obj-default", "obj-sub", "obj-sub2", "obj-sub-cc", "obj-nc",
        "obj-ccn", "obj-synced"]
KINDS = {"json": ["shared", "int"], "py": ["shared", "pp", "ctor0", "int"]}
# how the palette objects are built: (no_color, colors_conf) of cls(colors_conf, no_color)
PAL_OBJ_BUILT = {"obj-default": (0, None), "obj-sub": (0, None), "obj-sub2": (0, None), "obj-sub-cc": (0, "col"),
                 "obj-nc": (1, None), "obj-ccn": (0, "nc"), "obj-synced": (0, None)}


def cfg_full(c):
    return dict(DEFAULT_CFG, **(c or {}))


def cfgs_of(case):
    """the configurations under which the case is rendered (case["cfgs"]: a list, one after the other in one
    impl_run; absent = the default call only)"""
    return [cfg_full(c) for c in (case.get("cfgs") or [{}])]


def cfg_short(c):
    return {x: y for x, y in c.items() if y != DEFAULT_CFG[x]}


def cfg_valid(c, mode):
    """a configuration the generator may produce (shrinking keeps to these)"""
    return (c.get("k") in KINDS[mode] and c.get("pal") in PALS and c.get("cc") in (None, "col", "nc")
            and c.get("nc") in (1, 0, None) and c.get("g") in (None, "col", "nc")
            and not (c["pal"] in PAL_OBJ_BUILT and c["cc"] is not None)
            and (c["nc"] == 1 or cfg_plain_without_no_color(c)))


def cfg_plain_without_no_color(c):
    """the documented meaning of the arguments (ak/color.py: ColorsConfig 'no_color: if True - ignores all other config
    settings and creates no-color config'; Palette 'no_color: if True creates a palette object which produces text
    without any coloring effects'; 'colors_conf: global colors config is used by default'): is the output colour-free
    even without no_color=True?  Used by the generator only (the model has its own rule, C11/Palette.v)."""
    def conf_plain(cc):
        return cc == "nc" or (cc is None and c["g"] == "nc")
    if c["pal"] in PAL_OBJ_BUILT:
        onc, occ = PAL_OBJ_BUILT[c["pal"]]
        return bool(onc) or conf_plain(occ)
    return conf_plain(c["cc"])


def cfg_text(c):
    d = {k: v for k, v in c.items() if v != DEFAULT_CFG.get(k)}
    return ", ".join(f"{k}={d[k]}" for k in sorted(d)) or "default"


_ENV = {}


def _env():
    """palette classes / colour configurations of the worker process (made once: palettes are cached per class and per
    configuration, which is the state a defect of the no-colour handling would live in)"""
    if not _ENV:
        from ak.ppobj import PrettyPrinter
        from ak.color import ConfColor, ColorsConfig

        class Sub(PrettyPrinter.PPPalette):
            """application palette with other colours"""
            number = ConfColor("WARN")
            keyword = ConfColor("ERROR")

        class Sub2(Sub):
            """... with syntax ids of its own, the plain text included"""
            SYNTAX_DEFAULTS = {"VERIF.NUM": "RED/BLUE:bold,underline", "VERIF.KEY": "NAME:no_bold",
                               "VERIF.TEXT": "CYAN"}
            number = ConfColor("VERIF.NUM")
            name = ConfColor("VERIF.KEY")
            text = ConfColor("VERIF.TEXT")

        other = {"TEXT": "GREEN", "NAME": "CYAN:underline", "NUMBER": "RED/BLUE", "KEYWORD": "MAGENTA:bold",
                 "WARN": "YELLOW:blink"}
        _ENV.update(PPPalette=PrettyPrinter.PPPalette, Sub=Sub, Sub2=Sub2,
                    cc={"col": ColorsConfig(other), "nc": ColorsConfig(other, no_color=True)},
                    g={"col": ColorsConfig(dict(other, TEXT="BLUE")), "nc": ColorsConfig(no_color=True)})
    return _ENV


def _mk_pal(name, E):
    if name is None:
        return None
    if name == "cls-default":
        return E["PPPalette"]
    if name == "cls-sub":
        return E["Sub"]
    if name == "cls-sub2":
        return E["Sub2"]
    if name == "obj-default":
        return E["PPPalette"]()
    if name == "obj-sub":
        return E["Sub"]()
    if name == "obj-sub2":
        return E["Sub2"]()
    if name == "obj-sub-cc":
        return E["Sub"](E["cc"]["col"])
    if name == "obj-nc":
        return E["Sub"](no_color=True)
    if name == "obj-ccn":
        return E["Sub"](E["cc"]["nc"])
    if name == "obj-synced":
        return E["PPPalette"](synced=True)
    raise ValueError(name)


def impl_run(case):
    v = dec(case["v"])
    before = enc(v)
    cfgs = cfgs_of(case)
    views = []   # (name, [line text])   every one of them must be the lines of the no-colour rendering of v
    texts = []   # (name, text)          every one of them must be the whole no-colour text of v
    wviews = []  # the same for twice(v)
    done = 0
    try:
        for cfg in cfgs:
            tag = f"[{cfg_text(cfg)}] " if len(cfgs) > 1 else ""
            vs, ts, ws = [], [], []
            try:
                _battery(case, v, cfg, bool(case.get("cfgs")), vs, ts, ws)
            finally:
                views += [(tag + n, x) for n, x in vs]
                texts += [(tag + n, x) for n, x in ts]
                wviews += [(tag + n, x) for n, x in ws]
            done += 1
    except Exception as e:
        return {"exc": SX.exc_name(e), "stage": [done, len(views) + len(texts) + len(wviews)]}
    for _n, t in texts:
        if not isinstance(t, str):
            return {"exc": "NotAString"}
    for _n, ls in views + wviews:
        if not all(isinstance(x, str) for x in ls):
            return {"exc": "NotAString"}
    lines = views[0][1]
    text = texts[0][1]
    obs = {"text": text, "lines": lines, "wlines": wviews[0][1]}
    # views / texts equal to the first one are not repeated (what differs is kept, with its name)
    other = {n: ls for n, ls in views[1:] if ls != lines}
    if other:
        obs["views"] = other
    other = {n: t for n, t in texts[1:] if t != text}
    if other:
        obs["texts"] = other
    other = {n: ls for n, ls in wviews[1:] if ls != wviews[0][1]}
    if other:
        obs["wviews"] = other
    if enc(v) != before:
        obs["input_changed"] = 1
    return obs


def _battery(case, v, cfg, explicit, views, texts, wviews):
    """render v under ONE configuration of the call and consume the result in every way; appends to views / texts /
    wviews; the implementation's exceptions propagate"""
    import contextlib
    import io
    from ak.ppobj import PrettyPrinter
    from ak import color as akcolor
    from ak import ppobj as akppobj
    js = case["mode"] == "json"
    saved_global = late = None
    try:
        E = _env()
        if cfg["g"] is not None:
            saved_global = akcolor.get_global_colors_config()
            akcolor.set_global_colors_config(E["g"][cfg["g"]])
        # one printer object per mode for the whole worker process, and a coloured rendering of
        # the same value consumed first: what the no-colour output is must not depend on what the
        # printer rendered before (a memory of earlier, coloured renderings is how caches go wrong)
        for m in ("json", "py"):
            if m not in _PRINTERS:
                _PRINTERS[m] = PrettyPrinter(fmt_json=(m == "json"))
        if cfg["k"] == "shared":
            pp = _PRINTERS[case["mode"]]
        elif cfg["k"] == "int":
            pp = PrettyPrinter(fmt_json=(1 if js else 0))
        elif cfg["k"] == "pp" and not js:
            pp = akppobj.pp
        elif cfg["k"] == "ctor0" and not js:
            pp = PrettyPrinter()
        else:
            raise ValueError("printer kind")
        po = _PRINTERS["py" if js else "json"]   # the printer of the other mode
        # the arguments of the call: the no-colour call (kw) and the same call without no_color (ckw: coloured,
        # unless the configuration is no-colour by itself)
        ckw = {}
        palette = _mk_pal(cfg["pal"], E)   # a ready object is built once and used for every call of the case
        if palette is not None:
            ckw["palette"] = palette
        if cfg["cc"] is not None:
            ckw["colors_conf"] = E["cc"][cfg["cc"]]
        kw = dict(ckw)
        if cfg["nc"] is not None:
            kw["no_color"] = bool(cfg["nc"])
        early = pp(v, **kw)   # made before anything else is rendered, consumed last
        # a result asked for with no_color=True while another global configuration is in force, consumed after
        # the former global configuration is back (the result is lazy; what it prints was decided by the call)
        late = pp(v, **kw) if saved_global is not None and cfg["nc"] == 1 else None
        coloured = pp(v, **ckw)
        str(coloured)
        for _ in coloured:
            pass
        str(po(v, **kw))      # what the other printer renders is its own business
        # (1) str() first, then the lines, each converted as soon as it is yielded
        r = pp(v, **kw)
        # what a user gets from the no-colour result is str(): the text as printed (plain_text()
        # would hide an escape sequence that leaked into the no-colour output)
        texts.append(("str", str(r)))
        views.append(("converted-while-iterating", [str(ln) for ln in r]))
        texts.append(("str-again", str(r)))
        texts.append(("plain_text", r.plain_text()))
        copy = r.get_ch_text()
        texts.append(("get_ch_text", str(copy)))
        # every other public way to the text: format / f-string, %s, print, sums, slices
        texts.append(("format", format(r, "")))
        texts.append(("f-string", f"{r}"))
        texts.append(("percent-s", "%s" % (r,)))
        buf = io.StringIO()
        print(r, file=buf)
        texts.append(("print", buf.getvalue()[:-1] if buf.getvalue().endswith("\n") else buf.getvalue() + "<no newline>"))
        texts.append(("add-empty-str", str(r + "")))
        texts.append(("radd-empty-str", str("" + r)))
        texts.append(("slice-all", str(r[:])))
        texts.append(("fixed_len(len())", str(r.fixed_len(len(r)))))
        texts.append(("len", texts[0][1] if len(r) == len(texts[0][1]) else f"<len() is {len(r)}, str() has {len(texts[0][1])} characters>: {texts[0][1]}"))
        views.append(("lines-format", [format(ln, "") for ln in r]))
        buf = io.StringIO()
        for ln in r:
            print(ln, file=buf)
        views.append(("lines-printed", buf.getvalue().split("\n")[:-1] if wsplit_ok(case) else views[0][1]))
        # what the user does with the copy / with sums must not reach the result object
        copy += "#"
        _ = (r + "#", "#" + r)
        texts.append(("str-after-extending-a-copy", str(r)))
        # (2) the lines collected first (a user may keep the line objects), converted afterwards; str() after
        #     the iteration; a second iteration of the same result; the first collection once more
        r2 = pp(v, **kw)
        kept = list(r2)
        views.append(("collected-then-converted", [str(x) for x in kept]))
        views.append(("collected-plain_text", [x.plain_text() for x in kept]))
        texts.append(("str-after-iteration", str(r2)))
        kept2 = list(r2)
        _ = [x + "#" for x in kept]
        views.append(("second-iteration", [str(x) for x in kept2]))
        views.append(("first-collection-after-second-iteration", [str(x) for x in kept]))
        # (3) results of the one printer consumed interleaved: two no-colour results of v, a coloured one,
        #     and the no-colour result of a value that contains the object v twice
        w = twice(v)
        la, lb, lw = [], [], []
        rw = pp(w, **kw)
        _interleave([(iter(pp(v, **kw)), la), (iter(rw), lw), (iter(pp(v, **ckw)), None),
                     (iter(pp(v, **kw)), lb), (iter(pp(w, **ckw)), None), (iter(po(w, **kw)), None)])
        views.append(("interleaved-first", [str(x) for x in la]))
        views.append(("interleaved-second", [str(x) for x in lb]))
        wviews.append(("interleaved", [str(x) for x in lw]))
        wviews.append(("str-split", str(rw).split("\n")))
        wviews.append(("collected", [str(x) for x in list(pp(w, **kw))]))
        # (4) a printer of its own
        fresh = PrettyPrinter(fmt_json=js)
        views.append(("fresh-printer", [str(x) for x in list(fresh(v, **kw))]))
        texts.append(("fresh-printer", str(fresh(v, **kw))))
        # (5) the plain call  pp(v, no_color=True)  of the shared printer (the reference configuration) -- after
        #     the configured calls: the no-colour palette of a class is cached on the class
        if explicit:
            views.append(("default-call-afterwards", [str(x) for x in _PRINTERS[case["mode"]](v, no_color=True)]))
            texts.append(("default-call-afterwards", str(_PRINTERS[case["mode"]](v, no_color=True))))
        # (6) under a no_color GLOBAL configuration the console wrapper prints the no-colour Python text
        if cfg["g"] == "nc" and not js:
            texts.append(("PPWrap-str", str(akppobj.PPWrap(v))))
            buf = io.StringIO()
            with contextlib.redirect_stdout(buf):
                rep = repr(akppobj.PPWrap(v))
            texts.append(("PPWrap-repr-printed", buf.getvalue()[:-1] if rep == "" and buf.getvalue().endswith("\n")
                          else f"<repr {rep!r:.40} printed {buf.getvalue()!r:.200}>"))
            texts.append(("module-pp-default-arguments", str(akppobj.pp(v))))
        # (7) the result made at the very beginning, consumed after the printer rendered all of the above
        views.append(("early-result-consumed-last", [str(x) for x in list(early)]))
        texts.append(("early-result-consumed-last", str(early)))
    finally:
        if saved_global is not None:
            akcolor.set_global_colors_config(saved_global)
    if late is not None:
        views.append(("consumed-after-the-global-configuration-was-restored", [str(x) for x in late]))
        texts.append(("consumed-after-the-global-configuration-was-restored", str(late)))


# ------------------------------------------------------------------ model side
KW_COQ = {"True": "KwTrue", "False": "KwFalse", "None": "KwNone"}


def coq_key(e):
    t, a = e
    if t == "i":
        return f"KInt {SX.cZ(a)}"
    if t == "s":
        return f"KStr {SX.cstr(a)}"
    if t == "k":
        return f"KKw {KW_COQ[a]}"
    raise ValueError("key outside the model: " + t)


def coq_value(e):
    t, a = e
    if t == "k":
        return f"VKw {KW_COQ[a]}"
    if t == "i":
        return f"VNum {SX.cstr(str(int(a)))}"
    if t == "f":
        return f"VNum {SX.cstr(str(float(a)))}"
    if t == "s":
        return f"VStr {SX.cstr(a)}"
    if t == "l":
        return "VList [" + "; ".join("(" + coq_value(x) + ")" for x in a) + "]"
    if t == "d":
        return "VDict [" + "; ".join("(" + coq_key(k) + ", " + coq_value(x) + ")" for k, x in a) + "]"
    raise ValueError(t)


def _coq_lines(lines):
    return "[" + "; ".join(SX.cstr(ln) for ln in lines) + "]" if lines else "(@nil (list Z))"


def _coq_views(first, others):
    """the first view and (at most two of) the views that differ from it (impl_run dropped those equal to the
    first): the first or a differing one is bound to differ from the model; fixed order"""
    vs = [first] + [others[n] for n in sorted(others)[:2]]
    return "[" + "; ".join(_coq_lines(ls) for ls in vs) + "]"


def wsplit_ok(case):
    """may the text of twice(v) be split at newlines to get its lines back (no newline inside a string)"""
    def ok(e):
        t, a = e
        if t == "s":
            return "\n" not in a
        if t == "l":
            return all(ok(x) for x in a)
        if t == "d":
            return all(ok(k) and ok(x) for k, x in a)
        return True
    return ok(case["v"])


def _wothers(case, obs):
    o = dict(obs.get("wviews") or {})
    if not wsplit_ok(case):
        o = {n: x for n, x in o.items() if not n.endswith("str-split")}
    return o


def coq_case(case, obs):
    if "lines" not in obs:
        views = wviews = "[]"
    else:
        views = _coq_views(obs["lines"], obs.get("views") or {})
        wviews = _coq_views(obs["wlines"], _wothers(case, obs)) if case.get("wm", 1) else "[]"
    m = "Json" if case["mode"] == "json" else "Py"
    if case.get("cfgs"):
        cs = "[" + "; ".join(coq_cfg(c) for c in cfgs_of(case)) + "]"
        return f"PPC {m} ({coq_value(expand(case['v']))}) {cs} {views} {wviews}"
    return f"PP {m} ({coq_value(expand(case['v']))}) {views} {wviews}"


def _coq_conf(cc):
    return "ConfNone" if cc is None else f"(ConfGiven {SX.cbool(cc == 'nc')})"


def coq_cfg(c):
    """the configuration as C11.Palette.cfg (the printer kind does not enter: it only decides the mode)"""
    pal = c["pal"]
    if pal is None:
        p = "PalNone"
    elif pal in PAL_OBJ_BUILT:
        onc, occ = PAL_OBJ_BUILT[pal]
        p = f"(PalObj {SX.cbool(bool(onc))} {_coq_conf(occ)})"
    else:
        p = "PalClass"
    return f"(Cfg {p} {SX.cbool(c['nc'] == 1)} {_coq_conf(c['cc'])} {SX.cbool(c['g'] == 'nc')})"


def in_model(case, obs):
    def ok(e):
        t, a = e
        if t == "l":
            return all(ok(x) for x in a)
        if t == "d":
            return all(k[0] in "isk" and ok(x) for k, x in a)
        return True
    return ok(expand(case["v"]))


def expected_sx(case, obs):
    if "exc" in obs:
        return SX.dumps(SX.err(obs["exc"]))
    if "__hang__" in obs:
        return SX.dumps(SX.err("Hang"))
    return SX.dumps([1])   # every view of the lines equals the model's lines (compared inside Coq, see C11/Run.v)


# ------------------------------------------------------------------ oracle (statement, independently)
def same(a, b):
    """equal values of equal types (True != 1, 1 != 1.0, -0.0 != 0.0)"""
    if type(a) is not type(b):
        return False
    if isinstance(a, float):
        return repr(a) == repr(b)
    if isinstance(a, list):
        return len(a) == len(b) and all(same(x, y) for x, y in zip(a, b))
    if isinstance(a, dict):
        if len(a) != len(b):
            return False
        tk = {(type(k).__name__, repr(k)): k for k in b}
        for k, x in a.items():
            kb = tk.get((type(k).__name__, repr(k)))
            if (type(k).__name__, repr(k)) not in tk or not same(x, b[kb]):
                return False
        return True
    return a == b


def _walk(v):
    yield v
    if isinstance(v, list):
        for x in v:
            yield from _walk(x)
    elif isinstance(v, dict):
        for k, x in v.items():
            yield from _walk(x)


def readable(v, mode):
    """is v in the domain where the text must parse back (see ASSUMPTIONS)"""
    for x in _walk(v):
        if isinstance(x, float) and (x != x or x in (float("inf"), float("-inf"))):
            return False
        strs = [x] if isinstance(x, str) else [k for k in x if isinstance(k, str)] if isinstance(x, dict) else []
        for s in strs:
            if any(c in '"\\' or ord(c) < 32 or 0x7f <= ord(c) < 0xa0 or ord(c) in (0x2028, 0x2029) or 0xd800 <= ord(c) < 0xe000 for c in s):
                return False
        if isinstance(x, dict) and mode == "json" and not all(isinstance(k, str) for k in x):
            return False
    return True


def keys_unsorted(parsed):
    """first dict (anywhere in parsed) whose keys of one type are not in ascending order, else None"""
    for x in _walk(parsed):
        if isinstance(x, dict):
            ks = list(x)
            groups = {}
            for k in ks:
                if k is None or isinstance(k, bool):
                    continue  # True/False/None have no order of their own: nothing demanded
                g = "num" if isinstance(k, (int, float)) else "str"
                groups.setdefault(g, []).append(k)
            for g, seq in groups.items():
                if any(seq[i] > seq[i + 1] for i in range(len(seq) - 1)):
                    return ks
    return None


def _first_line_diff(a, b):
    for i in range(max(len(a), len(b))):
        x = a[i] if i < len(a) else None
        y = b[i] if i < len(b) else None
        if x != y:
            return f"line {i}: {y!r:.120} instead of {x!r:.120} ({len(b)} lines instead of {len(a)})"
    return "no difference"


def oracle(case, obs):
    out = _oracle(case, obs)
    if case.get("cfgs"):
        cs = cfgs_of(case)
        how = f"  [call: {cfg_text(cs[0])}]" if len(cs) == 1 else f"  [{len(cs)} configurations of the call, the first: {cfg_text(cs[0])}]"
        out = [(sig, msg + how) for sig, msg in out]
    return out


def _has_esc(v):
    return any("\x1b" in x for y in _walk(v) for x in ([y] if isinstance(y, str) else list(y) if isinstance(y, dict) else [])
               if isinstance(x, str))


def _oracle(case, obs):
    if "__hang__" in obs:
        return [("hang", "pretty printing did not return")]
    v = dec(case["v"])
    mode = case["mode"]
    if "exc" in obs:
        return [("raises", f"PrettyPrinter raised {obs['exc']} on {v!r:.300}")]
    out = []
    text = obs["text"]
    if "\n".join(obs["lines"]) != text:
        out.append(("lines-differ", f"line iteration does not give the whole text for {v!r:.300}"))
    # the same rendering obtained in another way / order must be the same lines and the same text
    bad = dict(obs.get("views") or {})
    wbad = {"[v, {'k': v}]: " + n: ls for n, ls in (obs.get("wviews") or {}).items()
            if not n.endswith("str-split") or wsplit_ok(case)}
    if bad or wbad:
        n = sorted(bad)[0] if bad else sorted(wbad)[0]
        d = _first_line_diff(obs["lines"], bad[n]) if bad else _first_line_diff(obs["wlines"], wbad[n])
        out.append(("view-differs", f"the lines of the no-colour result depend on how they are consumed: "
                    f"{sorted(bad) + sorted(wbad)} differ from the lines converted while iterating; '{n}': {d}; value {v!r:.300}"))
    if obs.get("texts"):
        n = sorted(obs["texts"])[0]
        out.append(("text-differs", f"the text of the no-colour result depends on how it is obtained: {sorted(obs['texts'])} "
                    f"differ from str(); '{n}' gives {obs['texts'][n]!r:.300} instead of {text!r:.300}; value {v!r:.300}"))
    if obs.get("input_changed"):
        out.append(("input-mutated", f"pretty printing changed the value it was given: {v!r:.300}"))
    # "the no-color output": no escape sequence, however the no-colour output was asked for
    if "\x1b" in text and not _has_esc(v):
        out.append(("colour-in-no-colour-output", f"the no-colour {mode} text of {v!r:.200} contains escape sequences: {text!r:.200}"))
    if not readable(v, mode):
        return out
    try:
        parsed = json.loads(text) if mode == "json" else ast.literal_eval(text)
    except Exception as e:
        out.append(("unparsable-" + mode, f"{mode} text of {v!r:.300} does not parse: {type(e).__name__}: {e!s:.120}; text {text!r:.400}"))
        return out
    if not same(parsed, v):
        out.append(("value-differs-" + mode, f"{mode} text of {v!r:.300} reads back as {parsed!r:.300}"))
    else:
        bad = keys_unsorted(parsed)
        if bad is not None:
            out.append(("keys-unsorted", f"dict keys appear as {bad!r:.200} in the text of {v!r:.300}"))
    if out:
        return out
    # a value that contains the object v twice (rendered interleaved with v) reads back as that value
    w = twice(v)
    wtext = "\n".join(obs["wlines"])
    try:
        parsed = json.loads(wtext) if mode == "json" else ast.literal_eval(wtext)
    except Exception as e:
        return [("shared-unparsable-" + mode, f"{mode} text of [v, {{'k': v}}] (one object v = {v!r:.300} twice) does not parse: "
                 f"{type(e).__name__}: {e!s:.120}; text {wtext!r:.400}")]
    if not same(parsed, w):
        return [("shared-value-differs-" + mode, f"{mode} text of [v, {{'k': v}}] (one object v = {v!r:.300} twice) reads back as {parsed!r:.300}")]
    return out


def nontrivial(case, obs):
    return case["v"][0] in "ld" and len(case["v"][1]) > 0


def outcome(case, obs):
    if "__hang__" in obs:
        return "hang"
    if "exc" in obs:
        return obs["exc"]
    n = len(obs["lines"])
    return "1 line" if n == 1 else "2-5 lines" if n <= 5 else "6-20 lines" if n <= 20 else ">20 lines"


def shrink_candidates(case):
    """structurally smaller values: a child instead of the value, one element dropped, strings halved"""
    def variants(e):
        t, a = e
        if t == "l":
            for i in range(len(a)):
                yield ["l", a[:i] + a[i + 1:]]
            for i in range(len(a)):
                for s in variants(a[i]):
                    yield ["l", a[:i] + [s] + a[i + 1:]]
        elif t == "d":
            for i in range(len(a)):
                yield ["d", a[:i] + a[i + 1:]]
            for i in range(len(a)):
                for s in variants(a[i][1]):
                    yield ["d", a[:i] + [[a[i][0], s]] + a[i + 1:]]
        elif t == "s" and len(a) > 1:
            yield ["s", a[: len(a) // 2]]
            yield ["s", a[:-1]]

    # fewer configurations of the call first (halves, then each one alone), then a simpler one (one argument
    # back to its default at a time)
    cs = case.get("cfgs")
    if cs and len(cs) > 1:
        if len(cs) > 3:
            yield dict(case, cfgs=cs[: len(cs) // 2])
            yield dict(case, cfgs=cs[len(cs) // 2:])
        for c in cs[:36]:
            yield dict(case, cfgs=[c])
    elif cs:
        c = cfg_full(cs[0])
        for f in ("g", "k", "cc", "pal", "nc"):
            if c[f] != DEFAULT_CFG[f]:
                c2 = dict(c)
                c2[f] = DEFAULT_CFG[f]
                if cfg_valid(c2, case["mode"]):
                    yield dict(case, cfgs=[cfg_short(c2)])
    t, a = case["v"]
    if t == "l":
        for x in a:
            if x[0] in "ld":
                yield dict(case, v=x)
    elif t == "d":
        for k, x in a:
            if x[0] in "ld":
                yield dict(case, v=x)
    n = 0
    for s in variants(case["v"]):
        yield dict(case, v=s)
        n += 1
        if n > 60:
            return


TECHNIQUE = ("Coq proof (nested structural induction over values, one case per layout branch; character-level "
             "lexer + token parser as the reader) on a hand-written Gallina model + per-run correspondence check "
             "(vm_compute vs implementation) + constants regenerated from the source")
LEVEL_TEXT = ("Full (about the model, unbounded values / offsets / both modes): roundtrip and roundtrip_any_offset "
              "(a character-level lexer + recursive-descent parser reads the generated text back as tree_of m v = the "
              "value with every dict in sorted key order; proved by nested induction on the value with one case per "
              "layout branch: simple, one-line dict, multi-line dict, one-line list, several-items-per-line list with "
              "its len_yielded/is_first_in_line state machine, one-item-per-line list), lines_lossless, keys_sorted "
              "(permutation + StronglySorted for _mk_type_sort_value's order) with key_order (total, transitive, "
              "antisymmetric) and key_order_spec, no_drop_dup, long_containers_wrapped and wrapped_lines_bounded "
              "(the two layout limits are respected), consts_ok (JSON literals true/false/null, Python literals, "
              "distinct sort ranks) re-proved against the constants re-read from the source on every run; "
              "no_color_wins (no_color=True gives the plain palette whatever palette= -- omitted, class, ready coloured "
              "object -- colors_conf= and the global configuration are), rejected_iff, no_color_conf_plain (about the "
              "hand-written one-bit model of _mk_palette, C11/Palette.v). "
              "Partial / tested only: atoms are opaque in the reader, so 'str(number) and the literals are read back "
              "as the same number / constant' and the injectivity of tree_of are trusted to json.loads / "
              "ast.literal_eval and checked by the oracle on every generated case (~1270 quick, ~23350 thorough); "
              "float dict keys and non-JSON objects are outside the model (oracle only).  "
              "Tested only (the model is a pure function of mode and value, so it has nothing to say about object "
              "identity or consumption order): that the implementation's lines are the same however the result is "
              "consumed (collected before use, iterated twice, interleaved with other results of the same printer, "
              "after coloured / other renderings, late) and that a value containing one object several times prints as "
              "its expanded tree -- every such view is compared with gen_lines in C11.Run (quick: also the rendering "
              "of [v, {'k': v}] on every case; thorough: on every 4th) and by the oracle (view-differs, text-differs, "
              "input-mutated, shared-unparsable-*, shared-value-differs-*).  Likewise tested only: that a plain "
              "palette makes str() the plain text, i.e. that the no-colour text is the model's text under every "
              "configuration of the call that asks for it (C11.Run PPC: the model decides from the configuration that "
              "the palette is plain, then all views must be gen_lines; oracle colour-in-no-colour-output, "
              "unparsable-*, text-differs).")
LEVEL_NOTE = ("Trusted: Coq kernel + vm_compute; the hand model's fidelity (checked by correspondence on every case, not "
              "proved); json.loads/ast.literal_eval agreeing with the reader C11.Reader on punctuation/strings and "
              "interpreting atoms; the ast extractor and harness. Print Assumptions: closed under the global context "
              "for every theorem.")
DESIGN_REF = "DESIGN.md section 8, C11"
