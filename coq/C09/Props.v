(* C09/Props.v -- the property theorems, nothing else.
   Emitted escape sequences are well-formed, self-contained and strippable.

   Vocabulary (Spec.v, Term.v):
     term s            what a reference ECMA-48 terminal starting in the default state t0 does
                       with the character stream s: (final state, shown characters with attributes)
     build items       the chunks ColorFmt(args)(text) / plain str parts of CHText( *parts )
     chtext_of cs      the chunk list of CHText( *cs )   (empty texts dropped, equal prefixes merged)
     chtext_str        str(CHText)        plain_text        CHText.plain_text()
     strip             CHText.strip_colors
     make a false      (prefix, suffix) of ColorFmt(a);  make a true  of ColorBytes(a)
     colour_of / denotes   which documented colour value asks for which terminal colour
     req o             the attributes a part is asked for
     append_chunk / iadd   one call of CHText._append_chunk / x += parts, x += other_text (Seq.v)
     exec_texts pieces ops (repeat [] n)   the n texts after the operations ops (+= piece(s), += text,
                       CHText( *pieces ), CHText(text), text + piece(s), piece + text; renderings in
                       between change nothing) over
                       a pool of piece objects that may be shared between texts
     hist ops ...      the indices of the pieces that went into each text, in order
     text_of pieces h  CHText( *[pieces[p] for p in h] ), built at once
   All statements are about the model, for unbounded lists of parts and texts. *)
From Coq Require Import ZArith List.
From AK Require Import Common.Sx Common.Err gen.C09_Consts C09.Model C09.Term C09.Spec C09.Seq C09.Run C09.Lemmas C09.LemmasSeq.
Import ListNotations.
Open Scope Z_scope.

(* the literals read from ak/color.py are what the proofs below rely on *)
Theorem consts_ok :
  seq_open = [27; 91] /\ seq_sep = [59] /\ seq_close = [109] /\ seq_reset = [27; 91; 48; 109] /\
  strip_open = [27; 91] /\ strip_close = 109 /\
  (forall c, is_param_char c = true -> in_class c = true) /\ in_class 109 = false /\
  name_lookup_guarded = true /\ idx_int_conv = true /\ comp_guarded = true.
Proof.
  exact (conj seq_open_ok (conj seq_sep_ok (conj seq_close_ok (conj seq_reset_ok (conj strip_open_ok
        (conj strip_close_ok (conj class_covers (conj class_not_close (conj guard_ok
        (conj int_conv_ok comp_guard_ok)))))))))).
Qed.
Print Assumptions consts_ok.

(* the two presentations of "documented colour value" agree *)
Theorem colour_of_iff : forall c cl, colour_of c = Some cl <-> denotes c cl.
Proof. exact (fun c cl => conj (colour_of_denotes c cl) (denotes_colour_of c cl)). Qed.
Print Assumptions colour_of_iff.

(* term_shows: for all lists of parts with documented colour values, any effects and
   ESC-free texts, the text is accepted and a terminal starting in default state shows
   every character of every part with exactly the requested foreground, background and
   effects, and ends in the default state *)
Theorem term_shows : forall items, Forall valid_part items ->
  exists cs, build items = Ok cs /\
    term (chtext_str (chtext_of cs)) = (t0, flat_map (fun it => paint (req (fst it)) (snd it)) items).
Proof. exact term_shows_l. Qed.
Print Assumptions term_shows.

(* the same for one chunk rendered on its own, str(ColorFmt(a)(text)) (also with an empty
   text, which CHText would drop), together with its strip_colors *)
Theorem chunk_shows : forall a text, valid_fmt a -> esc_free text ->
  exists ps, make a false = Ok ps /\
    term (chunk_str (fmt_call ps text)) = (t0, paint (req (Some a)) text) /\
    strip (chunk_str (fmt_call ps text)) = text.
Proof. exact chunk_shows_l. Qed.
Print Assumptions chunk_shows.

(* no_bleed: for ANY accepted parts (also lenient grey spellings and bools) every chunk on its
   own, and every initial segment of the chunk list, leaves the terminal in the default state
   (in particular nothing the terminal does not understand was emitted: t_bad t0 = false) *)
Theorem no_bleed : forall items cs, Forall ok_part items -> build items = Ok cs ->
  Forall (fun ch => fst (term (chunk_str ch)) = t0) (chtext_of cs) /\
  forall k, fst (term (chtext_str (firstn k (chtext_of cs)))) = t0.
Proof. exact no_bleed_l. Qed.
Print Assumptions no_bleed.

(* strip_render: strip_colors(str(x)) == x.plain_text() == the concatenated texts *)
Theorem strip_render : forall items cs, Forall ok_part items -> build items = Ok cs ->
  strip (chtext_str (chtext_of cs)) = plain_text (chtext_of cs) /\
  plain_text (chtext_of cs) = flat_map snd items.
Proof. exact strip_render_l. Qed.
Print Assumptions strip_render.

(* sgr_wellformed: whatever make accepts, the prefix is empty (then so is the suffix) or
   ESC [ p (; p)* m with p = digits(:digits)*, and the suffix is ESC [ 0 m *)
Theorem sgr_wellformed : forall a p s, make a false = Ok (p, s) ->
  (p = [] /\ s = []) \/ (wf_sgr p /\ s = [27; 91; 48; 109]).
Proof. exact sgr_wellformed_l. Qed.
Print Assumptions sgr_wellformed.

(* no_color_no_esc: a no_color formatter (text or bytes) adds nothing, whatever the other
   arguments are; hence no escape character / byte 27 for an ESC-free text *)
Theorem no_color_no_esc : forall a text, a_nocolor a = true ->
  make a false = Ok ([], []) /\ make a true = Ok ([], []) /\
  chunk_str (fmt_call ([], []) text) = text /\
  (Forall (fun c => 0 <= c) text -> esc_free text -> ~ In 27 (utf8 text)).
Proof.
  intros a text H. destruct (no_color_l a text H) as [H1 [H2 H3]].
  exact (conj H1 (conj H2 (conj H3 (utf8_no_esc text)))).
Qed.
Print Assumptions no_color_no_esc.

(* bytes_same: ColorBytes accepts / rejects exactly like ColorFmt, with the same prefix and
   suffix, and ColorBytes(a)(text.encode()) == str(ColorFmt(a)(text)).encode() *)
Theorem bytes_same : forall a text,
  match make a false with
  | Ok ps => make a true = Ok ps /\
             fst ps ++ utf8 text ++ snd ps = utf8 (chunk_str (fmt_call ps text))
  | Err e => make a true = Err e
  end.
Proof. exact bytes_same_l. Qed.
Print Assumptions bytes_same.

(* invalid_raises: every colour value outside the accepted set makes the constructor (text
   and bytes) raise ValueError -- first the colour, then the background.  [accepted] is the
   exact set: the 8 names, 'g' + anything int() reads as 0..23, int/bool 0..255, tuple/list of
   three ints 0..5; everything else (other str, int out of range, wrong length, float / str /
   None components, float, bytes, dict ...) is rejected *)
Theorem invalid_raises : forall a b, a_nocolor a = false ->
  (~ none_or accepted (a_color a)) \/ (none_or accepted (a_color a) /\ ~ none_or accepted (a_bg a)) ->
  make a b = Err ValueErr.
Proof. exact make_invalid_l. Qed.
Print Assumptions invalid_raises.

(* ... and exactly the accepted values are accepted; the documented ones are among them *)
Theorem accepted_exact : forall a b,
  (none_or accepted (a_color a) -> none_or accepted (a_bg a) -> exists ps, make a b = Ok ps) /\
  (forall c cl, denotes c cl -> none_or accepted c).
Proof.
  intros a b. split; [apply make_accepts_l|].
  intros c cl D. destruct c; try (right; exact (denotes_accepted _ cl D ltac:(discriminate))). left. reflexivity.
Qed.
Print Assumptions accepted_exact.

(* ---- colored texts are mutable: the statements hold in every state of every text ---- *)

(* incremental_same: extending an existing text (x += parts, x += other_text, CHText(other)) gives
   exactly the chunk list of the text built at once from all the parts *)
Theorem incremental_same : forall cs ds,
  iadd (chtext_of cs) ds = chtext_of (cs ++ ds) /\
  iadd (chtext_of cs) (chtext_of ds) = chtext_of (cs ++ ds) /\
  iadd [] (chtext_of cs) = chtext_of cs.
Proof. exact (fun cs ds => conj (iadd_parts cs ds) (conj (iadd_texts cs ds) (copy_text cs))). Qed.
Print Assumptions incremental_same.

(* seq_incremental: after ANY sequence of operations on n texts over shared pieces, text i is the text
   built at once from the pieces of its history (so str(), plain_text(), len() of a text that was
   rendered, extended and rendered again are those of a freshly built one) *)
Theorem seq_incremental : forall pieces ops n,
  exec_texts pieces ops (repeat [] n) = map (text_of pieces) (hist ops (repeat [] n)).
Proof. exact seq_incremental_l. Qed.
Print Assumptions seq_incremental.

(* seq_strip_render / no bleed in every reachable state, for ANY accepted pieces *)
Theorem seq_strip_render : forall items pieces ops n i,
  Forall ok_part items -> build items = Ok pieces ->
  let x := nth i (exec_texts pieces ops (repeat [] n)) [] in
  let h := nth i (hist ops (repeat [] n)) [] in
  strip (chtext_str x) = plain_text x /\
  plain_text x = flat_map (fun p => snd (nth p items no_item)) h /\
  fst (term (chtext_str x)) = t0.
Proof.
  intros items pieces ops n i H E. cbv zeta. rewrite seq_text_l. exact (text_of_render items pieces _ H E).
Qed.
Print Assumptions seq_strip_render.

(* seq_shows: with documented colour values, in every reachable state the terminal shows every
   character of every piece that went into the text with exactly the requested attributes *)
Theorem seq_shows : forall items, Forall valid_part items ->
  exists pieces, build items = Ok pieces /\
    forall ops n i,
      term (chtext_str (nth i (exec_texts pieces ops (repeat [] n)) [])) =
      (t0, want_shown items (nth i (hist ops (repeat [] n)) [])).
Proof.
  intros items H. destruct (text_of_shows items H) as [pieces [E Hs]]. exists pieces. split; [exact E|].
  intros ops n i. rewrite seq_text_l. apply Hs.
Qed.
Print Assumptions seq_shows.

(* ---- non-vacuity: the hypotheses are satisfiable by non-trivial values ---- *)

Definition ex_red_on_cube : fmtargs :=       (* ColorFmt('RED', bg_color=(1,2,3), bold=True, crossed=True) *)
  mkArgs (CStr [82;69;68]) (CSeq false [EInt 1; EInt 2; EInt 3]) true false false false true false.
Definition ex_gray : fmtargs :=              (* ColorFmt('g23', underline=True) *)
  mkArgs (CStr [103;50;51]) CNone false false true false false false.
Definition ex_items : list (option fmtargs * list Z) :=
  [(Some ex_red_on_cube, [97;98]); (None, [32]); (Some ex_gray, [109;59;49]); (Some ex_gray, [120])].

Example ex_items_valid : Forall valid_part ex_items /\ Forall ok_part ex_items.
Proof.
  assert (forall t : list Z, forallb (fun c => negb (c =? 27)) t = true -> esc_free t) as He.
  { intros t H. apply Forall_forall. intros c Hc Ec. rewrite forallb_forall in H.
    specialize (H c Hc). subst c. discriminate. }
  assert (valid_fmt ex_red_on_cube /\ valid_fmt ex_gray) as [V1 V2]
    by (split; right; split; vm_compute; discriminate).
  split; unfold ex_items.
  - apply Forall_cons; [split; [apply He; reflexivity|exact V1]|].
    apply Forall_cons; [split; [apply He; reflexivity|exact I]|].
    apply Forall_cons; [split; [apply He; reflexivity|exact V2]|].
    apply Forall_cons; [split; [apply He; reflexivity|exact V2]|]. apply Forall_nil.
  - repeat (apply Forall_cons; [apply He; reflexivity|]). apply Forall_nil.
Qed.
Print Assumptions ex_items_valid.

Example ex_items_render :
  exists cs, build ex_items = Ok cs /\
    chtext_str (chtext_of cs) =
      [27;91;51;49;59;52;56;58;53;58;54;55;59;49;59;57;109; 97;98; 27;91;48;109;   (* ESC[31;48:5:67;1;9m ab ESC[0m *)
       32;
       27;91;51;56;58;53;58;50;53;53;59;52;109; 109;59;49;120; 27;91;48;109] /\    (* ESC[38:5:255;4m m;1x ESC[0m *)
    snd (term (chtext_str (chtext_of cs))) =
      paint (mkAttrs (Named 1) (Idx 67) true false false false true) [97;98] ++
      paint dflt [32] ++
      paint (mkAttrs (Idx 255) Default false false true false false) [109;59;49;120].
Proof. eexists. split; [reflexivity|]. split; vm_compute; reflexivity. Qed.
Print Assumptions ex_items_render.

Example ex_invalid :
  make (mkArgs (CInt 256) CNone false false false false false false) false = Err ValueErr /\
  make (mkArgs (CStr [103;50;52]) CNone false false false false false false) true = Err ValueErr /\   (* 'g24' *)
  make (mkArgs CNone (CSeq true [EInt 0; EInt 6; EInt 0]) true false false false false false) false = Err ValueErr /\
  make (mkArgs CUnhash CNone false false false false false false) false = Err ValueErr /\
  make (mkArgs (CSeq false [EBad; EInt 1; EInt 2]) CNone false false false false false false) false = Err ValueErr /\  (* ('a',1,2) *)
  make (mkArgs (CSeq false [EFloat true; EInt 1; EInt 2]) CNone false false false false false false) false = Err ValueErr.
Proof. vm_compute. repeat split. Qed.
Print Assumptions ex_invalid.

(* render, extend with the same colour (merged into the last chunk), render again; a piece shared by
   two texts; a text added to itself:
     x0 += p0; str(x0); x0 += p1; str(x0); str(x0); x1 = CHText(x0); x0 += p1; x1 += x1; str(x1); str(x0) *)
Definition ex_ops : list op :=
  [OAdd 0 [0%nat]; ORender 0; OAdd 0 [1%nat]; ORender 0; ORender 0; OCopy 1 0; OAdd 0 [1%nat]; OAddText 1 1;
   ORender 1; ORender 0].
Definition ex_pieces : list (option fmtargs * list Z) := [(Some ex_gray, [97]); (Some ex_gray, [98]); (None, [99])].

Example ex_seq :
  Forall valid_part ex_pieces /\
  hist ex_ops (repeat [] 2) = [[0;1;1]; [0;1;0;1]]%nat /\
  exists pieces, build ex_pieces = Ok pieces /\
    map (fun x => chtext_str x) (exec_texts pieces ex_ops (repeat [] 2)) =
      [ [27;91;51;56;58;53;58;50;53;53;59;52;109; 97;98;98; 27;91;48;109];          (* ESC[38:5:255;4m abb ESC[0m *)
        [27;91;51;56;58;53;58;50;53;53;59;52;109; 97;98;97;98; 27;91;48;109] ] /\   (* ESC[38:5:255;4m abab ESC[0m *)
    exec [ex_gray] pieces ex_ops (repeat [] 2) =
      map (fun t => sx_render [fmt_call ([27;91;51;56;58;53;58;50;53;53;59;52;109], [27;91;48;109]) t])
          [[97]; [97;98]; [97;98]; [97;98;97;98]; [97;98;98]].
Proof.
  split; [|split; [reflexivity|]].
  - assert (forall t : list Z, forallb (fun c => negb (c =? 27)) t = true -> esc_free t) as He.
    { intros t H. apply Forall_forall. intros c Hc Ec. rewrite forallb_forall in H.
      specialize (H c Hc). subst c. discriminate. }
    assert (valid_fmt ex_gray) as V by (right; split; vm_compute; discriminate).
    repeat (apply Forall_cons; [split; [apply He; reflexivity|first [exact V|exact I]]|]). apply Forall_nil.
  - eexists. split; [reflexivity|]. split; vm_compute; reflexivity.
Qed.
Print Assumptions ex_seq.
