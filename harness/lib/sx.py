"""S-expression observation language shared with coq/Common/Sx.v.

Python side: an observation is a nested list of ints (``[0, [104, 105]]``).
``dumps`` gives the canonical text ``(0 (104 105))`` that ``Sx.show`` prints.
Helpers mirror the Coq encoders (sx_str, sx_bool, sx_option, sx_res).
Also helpers to write Coq literals for case files.
"""

ERR_CODES = {
    "ValueError": 1, "KeyError": 2, "IndexError": 3, "AssertionError": 4,
    "AttributeError": 5, "TypeError": 6, "ParsingError": 7, "LexicalError": 8,
    "GrammarIsRecursive": 9, "Hang": 10,
}
ERR_OTHER = 11
ERR_NAMES = {v: k for k, v in ERR_CODES.items()}
ERR_NAMES[ERR_OTHER] = "OtherError"
COQ_ERR = {1: "ValueErr", 2: "KeyErr", 3: "IndexErr", 4: "AssertErr", 5: "AttrErr",
           6: "TypeErr", 7: "ParsingErr", 8: "LexicalErr", 9: "GrammarRec",
           10: "Hang", 11: "OtherErr"}


def dumps(x):
    if isinstance(x, bool):
        return "1" if x else "0"
    if isinstance(x, int):
        return str(x)
    if isinstance(x, str):
        return "(" + " ".join(str(ord(c)) for c in x) + ")"
    if isinstance(x, (list, tuple)):
        return "(" + " ".join(dumps(e) for e in x) + ")"
    raise TypeError(f"not an sx value: {x!r}")


def s(text):
    """str -> list of code points"""
    return [ord(c) for c in text]


def unstr(codes):
    return "".join(chr(c) for c in codes)


def opt(x):
    return [] if x is None else [x]


def ok(x):
    return [0, x]


def err(name_or_exc):
    """exception (or its type name) -> (1 code)"""
    if isinstance(name_or_exc, BaseException):
        name = exc_name(name_or_exc)
    else:
        name = name_or_exc
    return [1, ERR_CODES.get(name, ERR_OTHER)]


def exc_name(exc):
    """Canonical name: the most specific class in the mro we know about."""
    for cls in type(exc).__mro__:
        if cls.__name__ in ERR_CODES:
            return cls.__name__
    return type(exc).__name__


def parse(text):
    """canonical text -> nested lists of ints (for diagnostics)"""
    toks = text.replace("(", " ( ").replace(")", " ) ").split()
    pos = 0

    def rd():
        nonlocal pos
        t = toks[pos]
        pos += 1
        if t == "(":
            out = []
            while toks[pos] != ")":
                out.append(rd())
            pos += 1
            return out
        return int(t)
    v = rd()
    if pos != len(toks):
        raise ValueError("trailing sx text")
    return v


# ---------------- Coq literal writers ----------------

def cZ(n):
    n = int(n)
    return f"({n})" if n < 0 else str(n)


def cnat(n):
    n = int(n)
    if n < 0 or n > 5000:
        raise ValueError(f"nat literal out of the safe range: {n}")
    return f"{n}%nat"


def cbool(b):
    return "true" if b else "false"


def clist(items):
    """items: iterable of Coq term strings"""
    return "[" + "; ".join(items) + "]"


def cstr(text):
    """python str -> Coq `list Z` literal of code points"""
    if not text:
        return "(@nil Z)"
    return "[" + ";".join(str(ord(c)) for c in text) + "]%Z"


def cZlist(ints):
    ints = list(ints)
    if not ints:
        return "(@nil Z)"
    return "[" + ";".join(cZ(i) for i in ints) + "]%Z"


def copt(x, f=lambda t: t):
    return "None" if x is None else f"(Some {f(x)})"


def cpair(a, b):
    return f"({a}, {b})"
