(* C06/Props.v -- the property theorems, nothing else.
   History report attributes every matching commit to the right build per branch
   (model of ak/ghist.py for a single repository, coq/C06/Model.v; statement in coq/C06/Spec.v). *)
From Coq Require Import ZArith List Bool Sorting.Sorted Sorting.Permutation.
From AK Require Import Common.Err gen.C06_Consts C06.Model C06.Lemmas C06.Inv C06.Spec C06.Inv2.
Import ListNotations.

(* ------------------------------------------------------------------ *)
(* constants and clause shapes read from the current ak/ghist.py        *)
Theorem consts_ok :
  (int_vs_str < 0 /\ 0 < str_vs_int)%Z /\
  (nm_requires_explicit = true /\ nm_excludes_this_branch = true) /\
  (fake_not_built <> fake_not_merged /\ 0 < fake_iid_base)%Z /\ (0 <= obsolete_cutoff)%Z.
Proof. exact (conj consts_cmp (conj consts_nm (conj consts_fake consts_cutoff))). Qed.
Print Assumptions consts_ok.

(* the search predicate is "the text occurs in the message" *)
Theorem search_predicate_spec : forall h c,
  matches h c = true <-> exists pre post, c_msg (get_commit h c) = pre ++ h_text h ++ post.
Proof. intros h c. apply containsb_spec. Qed.
Print Assumptions search_predicate_spec.

(* ------------------------------------------------------------------ *)
(* branch order                                                         *)

(* the comparator is a strict total order on sort keys, i.e. a strict weak order on branch
   names whose incomparable names are exactly those with equal keys *)
Theorem branch_order : forall a b c : list item,
  items_lt a a = false /\
  (items_lt a b = true -> items_lt b c = true -> items_lt a c = true) /\
  (items_lt a b = true -> items_lt b a = false) /\
  (items_lt a b = false -> items_lt b a = false -> a = b) /\
  (items_lt b a = false -> items_lt c b = false -> items_lt c a = false).
Proof.
  intros a b c. exact (conj (items_lt_irrefl a) (conj (items_lt_trans a b c) (conj (items_lt_asym a b)
         (conj (items_lt_total a b) (items_le_trans a b c))))).
Qed.
Print Assumptions branch_order.

(* numeric-aware: integers compare as numbers, sort before text, a proper prefix sorts first *)
Theorem branch_order_numeric : forall p n m s r1 r2 x,
  ((n < m)%Z -> items_lt (p ++ IInt n :: r1) (p ++ IInt m :: r2) = true) /\
  items_lt (p ++ IInt n :: r1) (p ++ IStr s :: r2) = true /\
  items_lt p (p ++ x :: r1) = true.
Proof.
  intros. unfold items_lt. rewrite !Z.ltb_lt.
  exact (conj (cmp_items_numeric p n m r1 r2) (conj (cmp_items_int_before_text p n s r1 r2) (cmp_items_prefix p x r1))).
Qed.
Print Assumptions branch_order_numeric.

(* the branches are processed in an order that is a sorted permutation of the release/master
   branches of the remote; the report shows (a subsequence of) them in that order *)
Theorem branches_sorted : forall h,
  StronglySorted (fun a b => branch_lt b a = false) (sorted_branches (h_remote h) (h_refs h)) /\
  Permutation (release_branches (h_remote h) (h_refs h)) (sorted_branches (h_remote h) (h_refs h)) /\
  subseq (map (fun b => (obr_name b, obr_head b)) (all_branches h))
         (map branch_id (sorted_branches (h_remote h) (h_refs h))).
Proof.
  intros h. exact (conj (sorted_branches_sorted _ _) (conj (sorted_branches_perm _ _) (all_branches_subseq h))).
Qed.
Print Assumptions branches_sorted.

(* master / main last, for every remote name that is one chunk below the 'zzzzzzzzzzzzzz' prefix *)
Theorem master_last : forall remote refs l1 b l2,
  remote_ok remote -> sorted_branches remote refs = l1 ++ b :: l2 -> is_master_key (b_key b) ->
  forall b', In b' l2 -> is_master_key (b_key b').
Proof. exact master_last_l. Qed.
Print Assumptions master_last.

Example order_examples :
  let k := fun s => mk_sort_items s in
  (* origin/release/9 < origin/release/10 < origin/release/10.1 < origin/release/abc < origin/master *)
  items_lt (k [111;114;105;103;105;110;47;114;101;108;101;97;115;101;47;57]%Z)
           (k [111;114;105;103;105;110;47;114;101;108;101;97;115;101;47;49;48]%Z) = true /\
  items_lt (k [111;114;105;103;105;110;47;114;101;108;101;97;115;101;47;49;48]%Z)
           (k [111;114;105;103;105;110;47;114;101;108;101;97;115;101;47;49;48;46;49]%Z) = true /\
  items_lt (k [111;114;105;103;105;110;47;114;101;108;101;97;115;101;47;49;48;46;49]%Z)
           (k [111;114;105;103;105;110;47;114;101;108;101;97;115;101;47;97;98;99]%Z) = true /\
  items_lt (k [111;114;105;103;105;110;47;114;101;108;101;97;115;101;47;97;98;99]%Z)
           (IStr master_prefix :: k [111;114;105;103;105;110;47;109;97;115;116;101;114]%Z) = true /\
  remote_ok [111;114;105;103;105;110]%Z.
Proof. vm_compute. repeat split; try reflexivity; discriminate. Qed.
Print Assumptions order_examples.

(* ------------------------------------------------------------------ *)
(* no commit that does not match is listed                              *)
Theorem only_matching : forall h l br b c,
  report h = Ok l -> In br l -> In b (obr_builds br) -> In c (ob_listed b) ->
  exists pre post, c_msg (get_commit h c) = pre ++ h_text h ++ post.
Proof.
  intros h l br b c Hr Hbr Hb Hc. apply containsb_spec.
  exact (only_matching_l h br b c (report_in_all h l br Hr Hbr) Hb Hc).
Qed.
Print Assumptions only_matching.

(* ------------------------------------------------------------------ *)
(* within one branch every commit is listed at most once: never under two builds, never twice
   under one, never both under a build and under 'not merged' *)
Theorem at_most_once : forall h l br,
  acyclic h -> report h = Ok l -> In br l -> NoDup (flat_map ob_listed (obr_builds br)).
Proof. intros h l br Ha Hr Hbr. exact (at_most_once_l h br Ha (report_in_all h l br Hr Hbr)). Qed.
Print Assumptions at_most_once.

(* the same for every branch that was read, and at the level of RCommit ids without the
   acyclicity hypothesis *)
Theorem at_most_once_ids : forall h br,
  In br (g_branches (run_graph h)) -> NoDup (concat (map rb_rcommits (br_rbuilds br))).
Proof. exact at_most_once_iids. Qed.
Print Assumptions at_most_once_ids.

(* ------------------------------------------------------------------ *)
(* the executable checker (evaluated on every correspondence case by Run.v) decides
   exactly the statement: clauses (A)-(D) of Spec.branch_ok for every branch, the
   lower-sorted branches being those processed before it *)
Theorem report_ok_spec : forall h brs, acyclic h -> (report_okb h brs = true <-> report_ok h brs).
Proof. exact report_okb_spec. Qed.
Print Assumptions report_ok_spec.

Theorem reachability_spec : forall h, acyclic h -> forall a b, reachb h a b = true <-> reach h a b.
Proof. exact reachb_spec. Qed.
Print Assumptions reachability_spec.

(* ------------------------------------------------------------------ *)
(* the open finding: release/1 = 0 <- 1(match) <- 2 <- 3(tag 1.0.7), release/2 head = 2 *)
Definition witness : history :=
  mkHistory
    [mkCommit [] [105;110;105;116]%Z 1700000000%Z [];
     mkCommit [0] [66;85;71;45;49]%Z 1700000001%Z [];
     mkCommit [1] [120]%Z 1700000002%Z [];
     mkCommit [2] [121]%Z 1700000003%Z [(1, 0, 7, 7)%Z]]
    [111;114;105;103;105;110]%Z
    [([111;114;105;103;105;110;47;114;101;108;101;97;115;101;47;49]%Z, 3);
     ([111;114;105;103;105;110;47;114;101;108;101;97;115;101;47;50]%Z, 2)]
    [66;85;71]%Z.

(* commit 1 is reachable from the head of release/2 and yet is listed under its 'not merged' *)
Theorem not_merged_char_refuted :
  exists h, acyclic h /\ (exists l, report h = Ok l) /\ ~ report_ok h (all_branches h) /\
    exists br ob c, In br (all_branches h) /\ In ob (obr_builds br) /\ ob_type ob = FAKE_NOT_MERGED /\
                    In c (ob_listed ob) /\ reach h (obr_head br) c.
Proof.
  exists witness.
  assert (acyclic witness) as Ha by (apply acyclicb_spec; vm_compute; reflexivity).
  split; [exact Ha|]. split; [eexists; vm_compute; reflexivity|]. split.
  - intros H. apply (report_okb_spec witness _ Ha) in H. vm_compute in H. discriminate.
  - eexists. eexists. exists 1. split; [vm_compute; right; left; reflexivity|].
    split; [left; reflexivity|]. split; [reflexivity|]. split; [left; reflexivity|].
    apply (reachb_spec witness Ha). vm_compute. reflexivity.
Qed.
Print Assumptions not_merged_char_refuted.

(* ------------------------------------------------------------------ *)
(* the full attribution statement (NOT proved for general DAG histories; see c06.notes.md):
   on an acyclic history inside the window in which no branch head lies in the history of a
   lower-sorted branch (the trigger of the open finding), the report satisfies the statement *)
Definition heads_apart (h : history) : Prop :=
  forall l1 br l2, all_branches h = l1 ++ br :: l2 ->
    ~ in_lower h (map obr_head l1) (obr_head br).

Definition attribution_statement : Prop :=
  forall h, acyclic h -> heads_exist h -> in_window h -> heads_apart h -> property_holds h.

