(* C02/PropsTok.v -- the property theorems of C02 for parsers that are built WITH A TOKENIZER
   CONFIGURATION and used on TEXTS; nothing else.  (C02/Props.v has the theorems about the
   table and about parse() on a given token list.)

   "a text is accepted iff its TOKEN SEQUENCE is a sentence of the grammar": the token sequence of
   a text is what the tokenizer delivers minus the tokens whose name is in skip_tokens, and
   skip_tokens is an argument of the constructor:
     None            SPACE and COMMENT, as far as they are token names of the configuration;
     a collection    exactly its members -- also when it is EMPTY (skip nothing: white space and
                     comments are then ordinary terminals of the grammar).

   Vocabulary (C02/SessionTok.v; the definitions are C01's end-to-end model C01/RunTok.v over the
   tokenizer model C04/Model.v, used read-only):
     lexcfg                    tokenizer configuration (pattern alternatives, span_matchers, synonyms, keywords)
     t_skipset cfg skip        self.skip_tokens
     t_build cfg skip ug start w     LLParser(tokenizer, productions=ug, skip_tokens=skip, start_symbol_name=start,
                               smart_factorization=w)  (= C01.RunTok.build_cfg)
     t_tokens cfg skip text    the token sequence of the text, $END$ last (= C01.RunTok.text_tokens)
     t_parse cfg skip p k text s     p.parse(text, do_cleanup=False, start_symbol_name=s), budget 2^k (= parse_text)
     session_t                 the programs of C02/Session.v (constructor / is_ambiguous() / parse() calls on two
                               objects built from one productions dict) with these constructors and texts
   lexicon_ok (C04): no literal / end-of-line pattern is empty. *)
From Coq Require Import ZArith List Bool Lia.
From AK Require Import Common.Err LLP.Base LLP.Factor LLP.Table LLP.Parse LLP.Build.
From AK Require C01.RunTok gen.C04_Consts C04.Model C04.LemmasConc.
From AK Require Import C02.Lemmas.
Import ListNotations.

(* ------------------------------------------------------------------ *)
(* 1. what the skip_tokens argument means                               *)
Theorem skip_tokens_explicit : forall cfg l, t_skipset cfg (Some l) = l.
Proof. exact skipset_explicit. Qed.
Print Assumptions skip_tokens_explicit.

Theorem skip_tokens_default : forall cfg,
  t_skipset cfg None = filter (fun s => mem s (C04.Model.cfg_terminals cfg)) gen.C04_Consts.default_skip.
Proof. exact skipset_default. Qed.
Print Assumptions skip_tokens_default.

(* an explicitly EMPTY collection skips nothing: the token sequence of a text is everything the
   tokenizer delivers (the default applies to None only) *)
Theorem empty_skip_tokens_skips_nothing : forall cfg text,
  t_tokens cfg (Some []) text =
  match C04.Model.cfg_tokenize cfg (C04.Model.tok_lines (C04.Model.IStr text)) with
  | C04.Model.LOk toks => Ok toks
  | C04.Model.LErr _ _ _ => Err LexicalErr
  | C04.Model.LHang => Err Hang
  end.
Proof. exact tokens_skip_nothing. Qed.
Print Assumptions empty_skip_tokens_skips_nothing.

Theorem token_sequence_is_filtered : forall cfg skip text toks,
  t_tokens cfg skip text = Ok toks ->
  exists all, C04.Model.cfg_tokenize cfg (C04.Model.tok_lines (C04.Model.IStr text)) = C04.Model.LOk all /\
    toks = filter (fun t => negb (mem (tname t) (t_skipset cfg skip))) all.
Proof. exact tokens_filtered. Qed.
Print Assumptions token_sequence_is_filtered.

(* parse(text) is the main loop on the token sequence of the text *)
Theorem parse_text_is_parse_of_tokens : forall cfg skip p k text,
  t_parse cfg skip p k text None = bind (t_tokens cfg skip text) (fun toks => p_parse p k toks).
Proof. exact t_parse_tokens. Qed.
Print Assumptions parse_text_is_parse_of_tokens.

(* ------------------------------------------------------------------ *)
(* 2. the language clause over the token sequence of the text: any configuration, any skip_tokens
      argument, any table, both smart values, any budget (by C01.PropsTok.parse_text_sound, imported) *)
Theorem parse_text_returns_derivation : forall cfg skip ug start w p k text t,
  C04.LemmasConc.lexicon_ok (C04.Model.c_lex cfg) ->
  mem END_TOKEN (C04.Model.cfg_terminals cfg) = false ->
  t_build cfg skip ug start w = Ok p ->
  t_parse cfg skip p k text None = Ok t ->
  exists body e,
    t_tokens cfg skip text = Ok (body ++ [e]) /\ tname e = END_TOKEN /\
    (forall b, In b body -> mem (tname b) (t_skipset cfg skip) = false) /\
    Deriv (ugram ug) (p_terminals p) start (erase t) (map tok_pair body).
Proof. exact parse_text_deriv_l. Qed.
Print Assumptions parse_text_returns_derivation.

Theorem ll1_reject_text : forall cfg skip ug start w p k text body e t,
  C04.LemmasConc.lexicon_ok (C04.Model.c_lex cfg) ->
  mem END_TOKEN (C04.Model.cfg_terminals cfg) = false ->
  t_build cfg skip ug start w = Ok p ->
  t_tokens cfg skip text = Ok (body ++ [e]) ->
  ~ in_language (ugram ug) (p_terminals p) start (map tok_pair body) ->
  t_parse cfg skip p k text None <> Ok t.
Proof. exact ll1_reject_text_l. Qed.
Print Assumptions ll1_reject_text.

(* partial, with the hypotheses of ll1_complete_partial (no suffix symbols, conflict-free table): a text whose
   token sequence is a sentence is accepted with any large enough budget and its derivation returned *)
Theorem ll1_complete_text_partial : forall cfg skip ug start w p text body e d,
  t_build cfg skip ug start w = Ok p ->
  p_sfxs p = [] ->
  wf_grammar (p_grammar p) (p_terminals p) (p_start p) = true ->
  is_ambiguous (p_tables p) = false ->
  t_tokens cfg skip text = Ok (body ++ [e]) -> tname e = END_TOKEN ->
  Deriv (p_grammar p) (p_terminals p) start d (map tok_pair body) ->
  exists k0, forall k, (k0 <= k)%nat ->
    exists t, t_parse cfg skip p k text None = Ok t /\ erase t = d.
Proof. exact ll1_complete_text_l. Qed.
Print Assumptions ll1_complete_text_partial.

(* the constructor with a configuration is the constructor on the configuration's token names; the table and
   is_ambiguous() do not depend on skip_tokens (every theorem of C02/Props.v about [build] applies) *)
Theorem build_with_tokenizer : forall cfg skip ug start w p,
  t_build cfg skip ug start w = Ok p ->
  build ug (C04.Model.cfg_terminals cfg) w start = Ok p /\
  subset (t_skipset cfg skip) (C04.Model.cfg_terminals cfg) = true.
Proof. exact t_build_inv. Qed.
Print Assumptions build_with_tokenizer.

(* ------------------------------------------------------------------ *)
(* 3. at any moment of an object's life (programs)                      *)
Theorem parse_text_does_not_change_parser : forall cfg skip p k text s,
  fst (mt_parse cfg skip p k text s) = p /\ snd (mt_parse cfg skip p k text s) = t_parse cfg skip p k text s.
Proof. intros. split; reflexivity. Qed.
Print Assumptions parse_text_does_not_change_parser.

Theorem session_text_history_independent : forall cfg skip ug start fuel texts ops,
  Forall2 (fun o b => b = BNone \/ b = fresh_obs_t cfg skip ug start fuel texts o)
          ops (session_t cfg skip ug start fuel texts no_objects ops).
Proof. exact session_t_history_independent_l. Qed.
Print Assumptions session_text_history_independent.

Theorem is_ambiguous_any_moment_text : forall cfg skip ug start fuel texts ops n w b p,
  t_build cfg skip ug start w = Ok p ->
  nth_error ops n = Some (OAmb w) ->
  nth_error (session_t cfg skip ug start fuel texts no_objects ops) n = Some (BAmb b) ->
  b = is_ambiguous (p_tables p).
Proof. exact is_ambiguous_any_moment_t_l. Qed.
Print Assumptions is_ambiguous_any_moment_text.

Theorem parse_text_any_moment : forall cfg skip ug start fuel texts ops n w i tx r p,
  t_build cfg skip ug start w = Ok p ->
  nth_error texts i = Some tx ->
  nth_error ops n = Some (OParse w i) ->
  nth_error (session_t cfg skip ug start fuel texts no_objects ops) n = Some (BParse r) ->
  r = t_parse cfg skip p fuel tx None.
Proof. exact parse_text_any_moment_l. Qed.
Print Assumptions parse_text_any_moment.

Theorem parse_text_from_any_moment : forall cfg skip ug start fuel texts ops n w i s tx r p,
  t_build cfg skip ug start w = Ok p ->
  nth_error texts i = Some tx ->
  nth_error ops n = Some (OParseFrom w i s) ->
  nth_error (session_t cfg skip ug start fuel texts no_objects ops) n = Some (BParse r) ->
  r = t_parse cfg skip p fuel tx (Some s).
Proof. exact parse_text_from_any_moment_l. Qed.
Print Assumptions parse_text_from_any_moment.

Theorem objects_stay_as_constructed_text : forall cfg skip ug start fuel texts ops w p,
  get_obj (final_world_t cfg skip ug start fuel texts no_objects ops) w = Some p ->
  t_build cfg skip ug start w = Ok p.
Proof. exact final_world_t_fresh_l. Qed.
Print Assumptions objects_stay_as_constructed_text.

(* the language clause at any moment: whatever the program did before, an answer Ok t of parse(text) is a
   derivation of the token sequence of the text *)
Theorem parse_text_returns_derivation_any_moment : forall cfg skip ug start fuel texts ops n w i tx t p,
  C04.LemmasConc.lexicon_ok (C04.Model.c_lex cfg) ->
  mem END_TOKEN (C04.Model.cfg_terminals cfg) = false ->
  t_build cfg skip ug start w = Ok p ->
  nth_error texts i = Some tx ->
  nth_error ops n = Some (OParse w i) ->
  nth_error (session_t cfg skip ug start fuel texts no_objects ops) n = Some (BParse (Ok t)) ->
  exists body e,
    t_tokens cfg skip tx = Ok (body ++ [e]) /\ tname e = END_TOKEN /\
    (forall b, In b body -> mem (tname b) (t_skipset cfg skip) = false) /\
    Deriv (ugram ug) (p_terminals p) start (erase t) (map tok_pair body).
Proof.
  intros cfg skip ug start fuel texts ops n w i tx t p Hlex Hend HB Hi Ho Hb.
  pose proof (parse_text_any_moment_l cfg skip ug start fuel texts ops n w i tx (Ok t) p HB Hi Ho Hb) as E.
  symmetry in E. exact (parse_text_deriv_l cfg skip ug start w p fuel tx t Hlex Hend HB E).
Qed.
Print Assumptions parse_text_returns_derivation_any_moment.

(* ------------------------------------------------------------------ *)
(* 4. the hypotheses are satisfiable, and the skip_tokens argument matters: a blank-significant LL(1) grammar
        E -> WORD TAIL ;  TAIL -> SPACE WORD TAIL | <empty>
      over a tokenizer with the groups SPACE (white space), WORD, COMMA -- resp. WS renamed to SPACE by synonyms *)
Definition bE : sym := [69]%Z.
Definition bTAIL : sym := [84;65;73;76]%Z.
Definition bSPACE : sym := [83;80;65;67;69]%Z.
Definition bWS : sym := [87;83]%Z.
Definition bWORD : sym := [87;79;82;68]%Z.
Definition bCOMMA : sym := [67;79;77;77;65]%Z.
Definition b_ug : list (sym * list (list sym)) :=
  [(bE, [[bWORD; bTAIL]]); (bTAIL, [[bSPACE; bWORD; bTAIL]; []])].
Definition b_cfg : lexcfg :=
  tk_cfg [(bSPACE, TSpace); (bWORD, TRange 97 122); (bCOMMA, TLit [44]%Z)] [] [] [].
Definition b_cfg_syn : lexcfg :=
  tk_cfg [(bWORD, TRange 97 122); (bWS, TSpace); (bCOMMA, TLit [44]%Z)] [] [(bWS, bSPACE)] [].
Definition b_text1 : list Z := [97;32;98;99]%Z.     (* "a bc" *)
Definition b_text2 : list Z := [32;97]%Z.           (* " a"   *)
Definition b_text3 : list Z := [97;32;32;98;32;10;32;99]%Z.     (* "a  b \n c": the blank at the end of a line is stripped *)

Definition rmap {A B : Type} (f : A -> B) (r : res A) : res B := match r with Ok a => Ok (f a) | Err e => Err e end.

Lemma b_lexicon_ok : C04.LemmasConc.lexicon_ok (C04.Model.c_lex b_cfg) /\ C04.LemmasConc.lexicon_ok (C04.Model.c_lex b_cfg_syn).
Proof. split; unfold C04.LemmasConc.lexicon_ok; repeat constructor; cbn; discriminate. Qed.
Print Assumptions b_lexicon_ok.

(* skip nothing (explicitly empty collection), or skip another class only: blanks are tokens of the grammar *)
Example ex_blank_significant : forall cfg skip w,
  In cfg [b_cfg; b_cfg_syn] -> In skip [Some []; Some [bCOMMA]] ->
  mem END_TOKEN (C04.Model.cfg_terminals cfg) = false /\
  match t_build cfg skip b_ug bE w with
  | Err _ => False
  | Ok p =>
      is_ambiguous (p_tables p) = false /\ p_sfxs p = [] /\
      wf_grammar (p_grammar p) (p_terminals p) (p_start p) = true /\
      rmap leaves (t_parse cfg skip p 8 b_text1 None) = Ok [(bWORD, [97]%Z); (bSPACE, [32]%Z); (bWORD, [98;99]%Z)] /\
      t_parse cfg skip p 8 b_text2 None = Err ParsingErr /\
      rmap leaves (t_parse cfg skip p 8 b_text3 None) =
        Ok [(bWORD, [97]%Z); (bSPACE, [32;32]%Z); (bWORD, [98]%Z); (bSPACE, [32]%Z); (bWORD, [99]%Z)]
  end.
Proof.
  intros cfg skip w [<-|[<-|[]]] [<-|[<-|[]]]; destruct w; vm_compute; repeat split; reflexivity.
Qed.
Print Assumptions ex_blank_significant.

(* the default (None), or SPACE named explicitly: blanks are dropped -- the same texts have other token sequences *)
Example ex_blank_skipped : forall cfg skip w,
  In cfg [b_cfg; b_cfg_syn] -> In skip [None; Some [bSPACE]] ->
  match t_build cfg skip b_ug bE w with
  | Err _ => False
  | Ok p =>
      is_ambiguous (p_tables p) = false /\
      t_parse cfg skip p 8 b_text1 None = Err ParsingErr /\
      rmap leaves (t_parse cfg skip p 8 b_text2 None) = Ok [(bWORD, [97]%Z)]
  end.
Proof.
  intros cfg skip w [<-|[<-|[]]] [<-|[<-|[]]]; destruct w; vm_compute; repeat split; reflexivity.
Qed.
Print Assumptions ex_blank_skipped.

(* a group name that is renamed by synonyms is no token name: naming it in skip_tokens is a GrammarError *)
Example ex_skip_unknown_name : forall w, t_build b_cfg_syn (Some [bWS]) b_ug bE w = Err OtherErr.
Proof. intros [|]; vm_compute; reflexivity. Qed.
Print Assumptions ex_skip_unknown_name.
