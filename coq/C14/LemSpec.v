(* C14/LemSpec.v -- the specification of colour resolution (what the property
   statement demands of a set of descriptions) and the facts about a single
   description: the parser only yields well-formed colours, ColorFmt accepts every
   resolved description, resolve() computes one inheritance step. *)
From Coq Require Import ZArith List Bool Lia.
From AK Require Import Common.Err C14.Model C14.LemBase.
Import ListNotations.
Open Scope Z_scope.

(* ------------------------------------------------------------------ specification *)
(* a resolved description: None = terminal default *)
Record rdescr := mk_r { r_fg : option pcolor; r_bg : option pcolor; r_mods : mods }.

Definition empty_s : str := [].
Definition dash_s : str := [45].

(* own colour over the inherited one: "" inherits, "-" is the terminal default *)
Definition inherit (own : pcolor) (par : option pcolor) : option pcolor :=
  if pcolor_is (Some own) empty_s then par
  else if pcolor_is (Some own) dash_s then None
  else Some own.

Definition root_res (d : descr) : rdescr :=
  mk_r (inherit (d_fg d) None) (inherit (d_bg d) None) (d_mods d).
Definition child_res (d : descr) (p : rdescr) : rdescr :=
  mk_r (inherit (d_fg d) (r_fg p)) (inherit (d_bg d) (r_bg p)) (merge_mods (d_mods d) (r_mods p)).

Notation dset := (list (str * descr)).

(* [resolves S id r]: the reference chain of id is complete in S and yields r *)
Inductive resolves (S : dset) : str -> rdescr -> Prop :=
| R_root id d :
    lookup id S = Some d -> d_parent d = None -> resolves S id (root_res d)
| R_child id d p rp :
    lookup id S = Some d -> d_parent d = Some p -> resolves S p rp ->
    resolves S id (child_res d rp).

(* the SGR parameters of a resolved description *)
Definition elem (c : pcolor) (is_bg : bool) : str :=
  match seq_element c is_bg with Ok s => s | Err _ => [] end.
Definition codes (r : rdescr) : fmt :=
  (match r_fg r with None => [] | Some c => [elem c false] end)
  ++ (match r_bg r with None => [] | Some c => [elem c true] end)
  ++ mod_params (r_mods r) mod_codes.
Definition spec_fmt (nc : bool) (r : rdescr) : fmt := if nc then [] else codes r.

(* ------------------------------------------------------------------ well-formed colours *)
Definition color_okb (c : pcolor) : bool :=
  match seq_element c false, seq_element c true with Ok _, Ok _ => true | _, _ => false end.
Definition color_ok (c : pcolor) : Prop := color_okb c = true.
Definition ocolor_ok (o : option pcolor) : Prop := match o with None => True | Some c => color_ok c end.
Definition wf_color (c : pcolor) : Prop := c = CStr empty_s \/ c = CStr dash_s \/ color_ok c.
Definition wf_descr (d : descr) : Prop := wf_color (d_fg d) /\ wf_color (d_bg d).
Definition rwf (r : rdescr) : Prop := ocolor_ok (r_fg r) /\ ocolor_ok (r_bg r).

Lemma color_ok_elem c b : color_ok c -> seq_element c b = Ok (elem c b).
Proof.
  unfold color_ok, color_okb, elem. intros H.
  destruct b; destruct (seq_element c false), (seq_element c true); try discriminate; reflexivity.
Qed.

Lemma pcolor_is_eq c v : pcolor_is (Some c) v = true <-> c = CStr v.
Proof.
  destruct c as [s| |]; cbn [pcolor_is]; split; intros H; try discriminate.
  - apply str_eqb_eq in H. congruence.
  - injection H as ->. apply str_eqb_refl.
Qed.

Lemma color_ok_not_empty c : color_ok c -> pcolor_is (Some c) empty_s = false.
Proof.
  intros H. destruct (pcolor_is (Some c) empty_s) eqn:E; [|reflexivity].
  apply pcolor_is_eq in E. subst. vm_compute in H. discriminate.
Qed.

Lemma color_ok_not_dash c : color_ok c -> pcolor_is (Some c) dash_s = false.
Proof.
  intros H. destruct (pcolor_is (Some c) dash_s) eqn:E; [|reflexivity].
  apply pcolor_is_eq in E. subst. vm_compute in H. discriminate.
Qed.

Lemma ocolor_ok_not_dash o : ocolor_ok o -> pcolor_is o dash_s = false.
Proof. destruct o as [c|]; [apply color_ok_not_dash|reflexivity]. Qed.

Lemma inherit_ok own par : wf_color own -> ocolor_ok par -> ocolor_ok (inherit own par).
Proof.
  intros [->|[->|H]] Hp; unfold inherit.
  - cbn. exact Hp.
  - cbn. exact I.
  - rewrite color_ok_not_empty, color_ok_not_dash by exact H. exact H.
Qed.

Lemma root_res_wf d : wf_descr d -> rwf (root_res d).
Proof. intros [H1 H2]. split; cbn; apply inherit_ok; auto; exact I. Qed.

Lemma child_res_wf d r : wf_descr d -> rwf r -> rwf (child_res d r).
Proof. intros [H1 H2] [H3 H4]. split; cbn; apply inherit_ok; auto. Qed.

(* ColorFmt never rejects a resolved description *)
Lemma make_fmt_ok r : rwf r -> make_fmt (r_fg r) (r_bg r) (r_mods r) = Ok (codes r).
Proof.
  intros [H1 H2]. unfold make_fmt, codes.
  destruct (r_fg r) as [c1|]; destruct (r_bg r) as [c2|]; cbn [ocolor_ok] in *;
    repeat (rewrite color_ok_elem by assumption); cbn [bind]; reflexivity.
Qed.

(* ------------------------------------------------------------------ the parser yields well-formed colours *)
Lemma names_wf : forallb (fun s => str_eqb s empty_s || str_eqb s dash_s || color_okb (CStr s)) color_names = true.
Proof. vm_compute. reflexivity. Qed.

Lemma small_rgb_ok r g b :
  existsb (fun x => (x <? 0) || (5 <? x)) [r; g; b] = false -> color_ok (CRgb r g b).
Proof.
  intros H. unfold color_ok, color_okb, seq_element. rewrite H.
  cbn [existsb] in H. rewrite !orb_false_r in H.
  apply orb_false_elim in H as [Hr H]. apply orb_false_elim in H as [Hg Hb].
  apply orb_false_elim in Hr as [Hr1 Hr2]. apply orb_false_elim in Hg as [Hg1 Hg2].
  apply orb_false_elim in Hb as [Hb1 Hb2].
  assert ((16 + r * 36 + g * 6 + b <? 0) || (255 <? 16 + r * 36 + g * 6 + b) = false) as ->; [|reflexivity].
  apply orb_false_intro; apply Z.ltb_ge; apply Z.ltb_ge in Hr1, Hr2, Hg1, Hg2, Hb1, Hb2; lia.
Qed.

Lemma small_int_ok n : (n <? 0) || (255 <? n) = false -> color_ok (CInt n).
Proof. intros H. unfold color_ok, color_okb, seq_element. rewrite H. reflexivity. Qed.

Lemma parse_color_wf s c : parse_color s = Some c -> wf_color c.
Proof.
  unfold parse_color. set (t := strip s).
  destruct (mem_str t color_names) eqn:Hn.
  - intros [= <-]. apply mem_str_In in Hn.
    pose proof names_wf as W. rewrite forallb_forall in W. specialize (W _ Hn).
    apply orb_prop in W as [W|W]; [apply orb_prop in W as [W|W]|].
    + left. apply str_eqb_eq in W. congruence.
    + right. left. apply str_eqb_eq in W. congruence.
    + right. right. exact W.
  - destruct (starts_with 40 t).
    + destruct (negb (ends_with 41 t)); [discriminate|].
      destruct (map strip (split_on 44 (removelast (tl t)))) as [|a [|b [|d [|? ?]]]]; try discriminate.
      destruct (py_int a) as [r|]; [|discriminate].
      destruct (py_int b) as [g|]; [|discriminate].
      destruct (py_int d) as [b'|]; [|discriminate].
      destruct (existsb _ _) eqn:E; [discriminate|].
      intros [= <-]. right. right. apply small_rgb_ok. exact E.
    + destruct (py_int t) as [n|]; [|discriminate].
      destruct ((n <? 0) || (255 <? n)) eqn:E; [discriminate|].
      intros [= <-]. right. right. apply small_int_ok. exact E.
Qed.

Lemma parse_colors_part_wf part f g : parse_colors_part part = Ok (CPColors f g) -> wf_color f /\ wf_color g.
Proof.
  unfold parse_colors_part.
  destruct (split_on 47 part) as [|a [|b [|? ?]]]; try discriminate.
  - destruct (parse_color part) as [c|] eqn:E.
    + intros [= <- <-]. split; [eapply parse_color_wf; eauto|left; reflexivity].
    + destruct (_ || _); discriminate.
  - destruct (parse_color a) as [c1|] eqn:E1; [|discriminate].
    destruct (parse_color b) as [c2|] eqn:E2; [|discriminate].
    intros [= <- <-]. split; eapply parse_color_wf; eauto.
Qed.

Lemma descr_of_wf p0 second m :
  (forall f g, p0 = CPColors f g -> wf_color f /\ wf_color g) ->
  (forall f g, second = Some (f, g) -> wf_color f /\ wf_color g) ->
  wf_descr (descr_of p0 second m).
Proof.
  intros H0 H1. unfold descr_of. destruct p0 as [p|f g].
  - destruct second as [[f g]|]; [apply (H1 f g); reflexivity|]. split; left; reflexivity.
  - apply (H0 f g). reflexivity.
Qed.

Lemma parse_init_str_wf s d : parse_init_str s = Ok d -> wf_descr d.
Proof.
  unfold parse_init_str.
  destruct (split_on 58 s) as [|c0 rest]; [discriminate|].
  destruct (3 <? length (c0 :: rest))%nat; [discriminate|].
  destruct (parse_colors_part c0) as [p0|] eqn:E0; cbn [bind]; [|discriminate].
  assert (forall f g, p0 = CPColors f g -> wf_color f /\ wf_color g) as W0.
  { intros f g ->. eapply parse_colors_part_wf; eauto. }
  destruct rest as [|c1 rest2].
  - intros [= <-]. apply descr_of_wf; [exact W0|discriminate].
  - destruct (parse_colors_part c1) as [[p1|f1 g1]|] eqn:E1.
    + discriminate.
    + destruct p0 as [p|? ?]; [|discriminate].
      assert (forall f g, Some (f1, g1) = Some (f, g) -> wf_color f /\ wf_color g) as W1.
      { intros f g [= <- <-]. eapply parse_colors_part_wf; eauto. }
      destruct rest2 as [|c2 ?].
      * intros [= <-]. apply (descr_of_wf (CPParent p) (Some (f1, g1)) no_mods); assumption.
      * destruct (parse_modifiers c2) as [m2|]; cbn [bind]; [|discriminate].
        intros [= <-]. apply (descr_of_wf (CPParent p) (Some (f1, g1)) m2); assumption.
    + destruct rest2; [|discriminate].
      destruct (parse_modifiers c1); cbn [bind]; [|discriminate].
      intros [= <-]. apply descr_of_wf; [exact W0|discriminate].
Qed.

(* ------------------------------------------------------------------ resolve() on the current source *)
(* what the with-parent branch does to one colour attribute *)
Definition post_parent (own par : option pcolor) : option pcolor :=
  let v := if pcolor_is own empty_s then par else own in
  if pcolor_is v dash_s then None else v.
Definition post_root (own : option pcolor) : option pcolor :=
  if pcolor_is own dash_s || pcolor_is own empty_s then None else own.

(* a statement of resolve() acts on the three mutable attributes only *)
Definition act_fields (parent : option entry) (x : option pcolor * option pcolor * mods) (a : ract)
  : option pcolor * option pcolor * mods :=
  match x with
  | (fg, bg, mo) =>
      match a, parent with
      | ANoneIfIn FFg vs, _ => (if existsb (pcolor_is fg) vs then None else fg, bg, mo)
      | ANoneIfIn FBg vs, _ => (fg, if existsb (pcolor_is bg) vs then None else bg, mo)
      | AInheritIfIn FFg vs, Some p => (if existsb (pcolor_is fg) vs then e_fg p else fg, bg, mo)
      | AInheritIfIn FBg vs, Some p => (fg, if existsb (pcolor_is bg) vs then e_bg p else bg, mo)
      | AMergeMods, Some p => (fg, bg, merge_mods mo (e_mods p))
      | _, None => x
      end
  end.
Definition needs_parent (a : ract) : bool := match a with ANoneIfIn _ _ => false | _ => true end.

Lemma run_acts_fields parent acts : forall i pa fg bg mo fm,
  (parent = None -> existsb needs_parent acts = false) ->
  run_acts parent acts (mk_entry i pa fg bg mo fm) =
  Ok (match fold_left (act_fields parent) acts (fg, bg, mo) with
      | (fg', bg', mo') => mk_entry i pa fg' bg' mo' fm end).
Proof.
  induction acts as [|a r IH]; intros i pa fg bg mo fm Hp; cbn [run_acts fold_left]; [reflexivity|].
  assert (parent = None -> existsb needs_parent r = false) as Hr.
  { intros E. specialize (Hp E). cbn [existsb] in Hp. apply orb_false_elim in Hp. apply Hp. }
  destruct a as [[|] vs|[|] vs|]; destruct parent as [p|];
    cbn [run_act get_fld set_fld set_mods e_init e_parent e_fg e_bg e_mods e_fmt act_fields bind];
    try (specialize (Hp eq_refl); cbn in Hp; discriminate);
    try (destruct (existsb _ vs); cbn [bind]; apply IH; exact Hr);
    apply IH; exact Hr.
Qed.

(* these two lemmas are where the proofs depend on the statements of resolve()
   as read from the source (gen/C14_Consts.v: acts_parent, acts_root) *)
Lemma acts_parent_spec e p :
  run_acts (Some p) acts_parent e =
  Ok (mk_entry (e_init e) (e_parent e) (post_parent (e_fg e) (e_fg p)) (post_parent (e_bg e) (e_bg p))
               (merge_mods (e_mods e) (e_mods p)) (e_fmt e)).
Proof.
  destruct e as [i pa fg bg mo fm]. rewrite run_acts_fields by discriminate.
  unfold acts_parent, post_parent.
  cbn [fold_left act_fields existsb e_init e_parent e_fg e_bg e_mods e_fmt].
  rewrite !orb_false_r. reflexivity.
Qed.

Lemma acts_root_spec e :
  run_acts None acts_root e =
  Ok (mk_entry (e_init e) (e_parent e) (post_root (e_fg e)) (post_root (e_bg e)) (e_mods e) (e_fmt e)).
Proof.
  destruct e as [i pa fg bg mo fm]. rewrite run_acts_fields by (intros _; vm_compute; reflexivity).
  unfold acts_root, post_root.
  cbn [fold_left act_fields existsb e_init e_parent e_fg e_bg e_mods e_fmt].
  rewrite !orb_false_r. reflexivity.
Qed.

Lemma post_parent_inherit own par : ocolor_ok par -> post_parent (Some own) par = inherit own par.
Proof.
  intros Hp. unfold post_parent, inherit.
  destruct (pcolor_is (Some own) empty_s).
  - rewrite ocolor_ok_not_dash by exact Hp. reflexivity.
  - destruct (pcolor_is (Some own) dash_s); reflexivity.
Qed.

Lemma post_root_inherit own : post_root (Some own) = inherit own None.
Proof.
  unfold post_root, inherit.
  destruct (pcolor_is (Some own) empty_s) eqn:E1; [rewrite orb_true_r; reflexivity|].
  rewrite orb_false_r. destruct (pcolor_is (Some own) dash_s); reflexivity.
Qed.

(* ------------------------------------------------------------------ entries *)
Definition pristine (d : descr) (e : entry) : Prop :=
  e_fg e = Some (d_fg d) /\ e_bg e = Some (d_bg d) /\ e_mods e = d_mods d /\ e_fmt e = None.
Definition resolved_as (nc : bool) (r : rdescr) (e : entry) : Prop :=
  e_fg e = r_fg r /\ e_bg e = r_bg r /\ e_mods e = r_mods r /\ e_fmt e = Some (spec_fmt nc r).

Lemma finish_ok (nc : bool) r i pa fm :
  rwf r ->
  (if nc then Ok (set_fmt (@nil str) (mk_entry i pa (r_fg r) (r_bg r) (r_mods r) fm))
   else bind (make_fmt (r_fg r) (r_bg r) (r_mods r))
             (fun f => Ok (set_fmt f (mk_entry i pa (r_fg r) (r_bg r) (r_mods r) fm))))
  = Ok (mk_entry i pa (r_fg r) (r_bg r) (r_mods r) (Some (spec_fmt nc r))).
Proof.
  intros W. unfold spec_fmt. destruct nc; [reflexivity|].
  rewrite make_fmt_ok by exact W. reflexivity.
Qed.

Lemma resolve_entry_child nc d e pe rp p :
  wf_descr d -> rwf rp -> pristine d e -> e_parent e = Some p -> resolved_as nc rp pe ->
  exists e', resolve_entry nc (Some pe) e = Ok e' /\ resolved_as nc (child_res d rp) e' /\
             e_parent e' = e_parent e /\ e_init e' = e_init e.
Proof.
  intros Wd Wr (Hfg & Hbg & Hm & Hf) Hp (Pfg & Pbg & Pm & Pf).
  unfold resolve_entry. rewrite Hf, Hp, Pf, acts_parent_spec. cbn [bind e_fg e_bg e_mods].
  rewrite Hfg, Hbg, Hm, Pfg, Pbg, Pm.
  destruct Wr as [W1 W2].
  rewrite !post_parent_inherit by assumption.
  change (inherit (d_fg d) (r_fg rp)) with (r_fg (child_res d rp)).
  change (inherit (d_bg d) (r_bg rp)) with (r_bg (child_res d rp)).
  change (merge_mods (d_mods d) (r_mods rp)) with (r_mods (child_res d rp)).
  rewrite finish_ok by (apply child_res_wf; [exact Wd|split; assumption]).
  eexists. split; [reflexivity|]. unfold resolved_as. cbn [e_fg e_bg e_mods e_fmt e_parent e_init].
  repeat split; auto.
Qed.

Lemma resolve_entry_root nc d e :
  wf_descr d -> pristine d e -> e_parent e = None ->
  exists e', resolve_entry nc None e = Ok e' /\ resolved_as nc (root_res d) e' /\
             e_parent e' = e_parent e /\ e_init e' = e_init e.
Proof.
  intros Wd (Hfg & Hbg & Hm & Hf) Hp.
  unfold resolve_entry. rewrite Hf, Hp, acts_root_spec. cbn [bind e_fg e_bg e_mods].
  rewrite Hfg, Hbg, Hm, !post_root_inherit.
  change (inherit (d_fg d) None) with (r_fg (root_res d)).
  change (inherit (d_bg d) None) with (r_bg (root_res d)).
  change (d_mods d) with (r_mods (root_res d)) at 1.
  rewrite finish_ok by (apply root_res_wf; exact Wd).
  eexists. split; [reflexivity|]. unfold resolved_as. cbn [e_fg e_bg e_mods e_fmt e_parent e_init].
  repeat split; auto.
Qed.

(* ------------------------------------------------------------------ facts about [resolves] *)
Lemma resolves_fun S id r1 : resolves S id r1 -> forall r2, resolves S id r2 -> r1 = r2.
Proof.
  induction 1 as [id d H1 H2|id d p rp H1 H2 H3 IH]; intros r2 R2; inversion R2 as [? d0 L0 P0|? d0 p0 rp0 L0 P0 R0]; subst.
  - assert (d0 = d) by congruence. subst. reflexivity.
  - assert (d0 = d) by congruence. subst. congruence.
  - assert (d0 = d) by congruence. subst. congruence.
  - assert (d0 = d) by congruence. subst. assert (p0 = p) by congruence. subst.
    rewrite (IH _ R0). reflexivity.
Qed.

Definition wfS (S : dset) : Prop := forall id d, lookup id S = Some d -> wf_descr d.

Lemma resolves_wf S id r : wfS S -> resolves S id r -> rwf r.
Proof.
  intros W. induction 1 as [id d H1 H2|id d p rp H1 H2 H3 IH].
  - apply root_res_wf. eapply W; eauto.
  - apply child_res_wf; [eapply W; eauto|exact IH].
Qed.

(* S2 extends S1 (first registration wins: existing ids keep their description) *)
Definition extends (S1 S2 : dset) : Prop := forall id d, lookup id S1 = Some d -> lookup id S2 = Some d.

Lemma resolves_mono S1 S2 id r : extends S1 S2 -> resolves S1 id r -> resolves S2 id r.
Proof.
  intros E. induction 1 as [id d H1 H2|id d p rp H1 H2 H3 IH].
  - apply R_root; auto.
  - eapply R_child; eauto.
Qed.
