"""C11  Pretty-printed JSON-like data reads back as the same data  (ak/ppobj.py PrettyPrinter)"""
import ast
import json
import os

from harness.lib import sx as SX

ID = "C11"
COQ_DIR = "C11"
RUN_MOD = "C11.Run"
MODEL_TARGETS = ["C11/Run.vo"]
PROOF_TARGETS = ["C11/Lemmas.vo", "C11/LemmasWrap.vo"]
PROPS = ["C11/Props.v"]
ALLOWED_AXIOMS = []
IMPL_TIMEOUT = 10.0
COQ_SHARD = 120
RULE = ("values built AT the layout thresholds: all-simple dicts and lists whose one-line length makes "
        "offset+len land on every value from limit-6 to limit+6 at nesting offsets 0,2,..,12 (the limits are re-read "
        "from the source); wrapped lists whose running line length lands on wrap_limit-2..wrap_limit+2 for the 2nd, "
        "3rd.. item of a line, items longer than the limit, items of length 1-40; random nestings up to depth 6 with "
        "empty containers, int/str/True/False/None keys (mixed), floats, big and negative ints, non-ASCII strings; "
        "both modes.  Non-trivial = distinct value whose top level is a non-empty container.")
TRUSTED_BASE = [
    "json.loads / ast.literal_eval interpret the atoms the reader of the theorems leaves opaque: str(int)/str(float) "
    "of a finite number reads back as that number, the JSON/Python literals read back as True/False/None; both lex "
    "punctuation, blanks, newlines and quoted strings (no quote, backslash, control character) as the reader "
    "C11.Reader does -- validated by the oracle on every generated case",
    "gen/C11_Consts.v: _CONSTANTS_LITERALS, the table index chosen by fmt_json, the one-line limits of the dict and "
    "list branches, the wrap limit (with their comparison operators) and the ranks of _mk_type_sort_value are read "
    "from ak/ppobj.py by harness/props/c11.py:gen_consts (ast, fail-closed)",
    "ak.color CHText / palette with no_color=True: a chunk contributes exactly its text (covered by the "
    "correspondence check only, through plain_text())",
]
ASSUMPTIONS = [
    "values are nestings of dict, list, str, int, finite float, bool, None; strings and str keys contain no "
    "quote (the theorems need nothing more; the oracle additionally avoids backslash and control characters as the "
    "property does); dict keys are str, int, True/False/None (JSON mode is parsed back only when all keys are str)",
    "number lexemes (Python's str()) are non-empty and contain none of  space newline { } [ ] , : \"",
]
MODELLED = ("ak/ppobj.py PrettyPrinter._gen_ch_lines, _gen_ch_chunks_for_obj, _all_values_are_simple, "
            "_value_is_simple, _simple_val_to_ch_chunk, _dict_key_to_sc_chunk, _mk_type_sort_value, "
            "_PrettyPrinterTextGen.make_ch_text (as '\\n'.join of the line texts); colours, tuples, float keys and "
            "non-JSON objects (the str(obj) fallback) are not modelled")


class ExtractError(Exception):
    pass


# ------------------------------------------------------------------ constants
def _find(body, cls, name):
    for n in body:
        if isinstance(n, cls) and getattr(n, "name", None) == name:
            return n
    raise ExtractError(f"{name} not found")


def _is_name(n, ident):
    return isinstance(n, ast.Name) and n.id == ident


def _int_const(n):
    if isinstance(n, ast.Constant) and type(n.value) is int:
        return n.value
    raise ExtractError("expected an int literal, got " + ast.dump(n)[:80])


def _isinstance_test(test, typename):
    """test is `isinstance(<name>, typename)`"""
    return (isinstance(test, ast.Call) and _is_name(test.func, "isinstance") and len(test.args) == 2
            and isinstance(test.args[0], ast.Name) and _is_name(test.args[1], typename))


def _if_chain(stmt):
    """If / elif chain -> [(test, body)], else-body"""
    out = []
    while True:
        out.append((stmt.test, stmt.body))
        if len(stmt.orelse) == 1 and isinstance(stmt.orelse[0], ast.If):
            stmt = stmt.orelse[0]
        else:
            return out, stmt.orelse


def _compares(nodes, left_a, left_b, strict, loose):
    """all `left_a + left_b <op> INT` comparisons below nodes -> [int], normalised to the strict operator
    (`a < K` == `a <= K-1`, `a > K` == `a >= K+1` on integers)"""
    found = []
    for top in nodes:
        for n in ast.walk(top):
            if (isinstance(n, ast.Compare) and isinstance(n.left, ast.BinOp) and isinstance(n.left.op, ast.Add)
                    and _is_name(n.left.left, left_a) and _is_name(n.left.right, left_b)):
                if len(n.ops) != 1 or len(n.comparators) != 1:
                    raise ExtractError(f"comparison of {left_a}+{left_b} has an unrecognised shape")
                k = _int_const(n.comparators[0])
                if isinstance(n.ops[0], strict):
                    found.append(k)
                elif isinstance(n.ops[0], loose):
                    found.append(k + 1 if loose is ast.LtE else k - 1)
                else:
                    raise ExtractError(f"comparison of {left_a}+{left_b} uses an unexpected operator")
    return found


def gen_consts(repo):
    src = open(os.path.join(repo, "ak", "ppobj.py")).read()
    tree = ast.parse(src)
    cls = _find(tree.body, ast.ClassDef, "PrettyPrinter")
    # --- _CONSTANTS_LITERALS
    tables = None
    for n in cls.body:
        if isinstance(n, ast.Assign) and len(n.targets) == 1 and _is_name(n.targets[0], "_CONSTANTS_LITERALS"):
            try:
                tables = ast.literal_eval(n.value)
            except Exception as e:
                raise ExtractError(f"_CONSTANTS_LITERALS is not a literal: {e}")
    if not (isinstance(tables, tuple) and len(tables) == 2 and all(isinstance(t, dict) for t in tables)):
        raise ExtractError("_CONSTANTS_LITERALS is not a pair of dicts")
    lits = []
    for t in tables:
        row = []
        for k in (True, False, None):
            hit = [v for kk, v in t.items() if kk is k]
            if len(hit) != 1 or not isinstance(hit[0], str):
                raise ExtractError(f"_CONSTANTS_LITERALS: no str literal for {k}")
            row.append(hit[0])
        if len(t) != 3:
            raise ExtractError("_CONSTANTS_LITERALS: unexpected extra entries")
        lits.append(row)
    # --- which table fmt_json selects:  self._consts = self._CONSTANTS_LITERALS[1 if fmt_json else 0]
    init = _find(cls.body, ast.FunctionDef, "__init__")
    sel = None
    for n in ast.walk(init):
        if (isinstance(n, ast.Assign) and len(n.targets) == 1 and isinstance(n.targets[0], ast.Attribute)
                and n.targets[0].attr == "_consts"):
            v = n.value
            if not (isinstance(v, ast.Subscript) and isinstance(v.value, ast.Attribute)
                    and v.value.attr == "_CONSTANTS_LITERALS" and isinstance(v.slice, ast.IfExp)
                    and _is_name(v.slice.test, "fmt_json")):
                raise ExtractError("__init__: unrecognised selection of the constants table")
            sel = (_int_const(v.slice.body), _int_const(v.slice.orelse))
    if sel is None or set(sel) != {0, 1}:
        raise ExtractError("__init__: selection of the constants table not found")
    lit_json, lit_py = lits[sel[0]], lits[sel[1]]
    # --- thresholds in _gen_ch_chunks_for_obj
    fn = _find(cls.body, ast.FunctionDef, "_gen_ch_chunks_for_obj")
    ifs = [s for s in fn.body if isinstance(s, ast.If)]
    if len(ifs) != 1:
        raise ExtractError("_gen_ch_chunks_for_obj: expected one if/elif chain")
    chain, _else = _if_chain(ifs[0])
    dict_body = [b for t, b in chain if _isinstance_test(t, "dict")]
    list_body = [b for t, b in chain if _isinstance_test(t, "list")]
    if len(chain) != 3 or len(dict_body) != 1 or len(list_body) != 1:
        raise ExtractError("_gen_ch_chunks_for_obj: expected the branches simple / dict / list / else")
    d_lim = _compares(dict_body[0], "offset", "scr_len", ast.Lt, ast.LtE)
    l_lim = _compares(list_body[0], "offset", "scr_len", ast.Lt, ast.LtE)
    w_lim = _compares(list_body[0], "len_yielded", "cur_chunk_len", ast.Gt, ast.GtE)
    if len(d_lim) != 1 or len(l_lim) != 1 or len(w_lim) != 1:
        raise ExtractError(f"thresholds not found exactly once: dict {d_lim} list {l_lim} wrap {w_lim}")
    if _compares(dict_body[0], "len_yielded", "cur_chunk_len", ast.Gt, ast.GtE):
        raise ExtractError("unexpected wrap comparison in the dict branch")
    # --- ranks in _mk_type_sort_value
    sv = _find(cls.body, ast.FunctionDef, "_mk_type_sort_value")
    ifs = [s for s in sv.body if isinstance(s, ast.If)]
    if len(ifs) != 1:
        raise ExtractError("_mk_type_sort_value: expected one if/elif chain")
    chain, _else = _if_chain(ifs[0])

    def ret_rank(body, payload):
        if not (len(body) == 1 and isinstance(body[0], ast.Return) and isinstance(body[0].value, ast.Tuple)
                and len(body[0].value.elts) == 2):
            raise ExtractError("_mk_type_sort_value: branch does not return a pair")
        r, p = body[0].value.elts
        if payload == "value" and not _is_name(p, "value"):
            raise ExtractError("_mk_type_sort_value: payload is not the value itself")
        if payload == "str" and not (isinstance(p, ast.Call) and _is_name(p.func, "str") and len(p.args) == 1
                                     and _is_name(p.args[0], "value")):
            raise ExtractError("_mk_type_sort_value: payload is not str(value)")
        return _int_const(r)
    if len(chain) < 3:
        raise ExtractError("_mk_type_sort_value: too few branches")
    t0, t1, t2 = chain[0][0], chain[1][0], chain[2][0]
    if not (isinstance(t0, ast.Call) and isinstance(t0.func, ast.Attribute) and t0.func.attr == "is_keyword_value"):
        raise ExtractError("_mk_type_sort_value: first test is not is_keyword_value")
    if not _isinstance_test(t1, "Number") or not _isinstance_test(t2, "str"):
        raise ExtractError("_mk_type_sort_value: expected the tests keyword / Number / str in this order")
    rank_kw = ret_rank(chain[0][1], "str")
    rank_num = ret_rank(chain[1][1], "value")
    rank_str = ret_rank(chain[2][1], "value")

    def zl(s):
        return SX.cZlist(ord(c) for c in s)
    text = ("(* generated from ak/ppobj.py by harness/props/c11.py -- do not edit *)\n"
            "From Coq Require Import ZArith List.\nImport ListNotations.\n"
            "(* literals for True, False, None *)\n"
            f"Definition lit_py : list (list Z) := [{'; '.join(zl(s) for s in lit_py)}].\n"
            f"Definition lit_json : list (list Z) := [{'; '.join(zl(s) for s in lit_json)}].\n"
            "(* offset + scr_len < limit ;  len_yielded + cur_chunk_len > wrap_limit *)\n"
            f"Definition dict_oneline_limit : Z := {SX.cZ(d_lim[0])}%Z.\n"
            f"Definition list_oneline_limit : Z := {SX.cZ(l_lim[0])}%Z.\n"
            f"Definition wrap_limit : Z := {SX.cZ(w_lim[0])}%Z.\n"
            "(* first components of _mk_type_sort_value *)\n"
            f"Definition rank_num : Z := {SX.cZ(rank_num)}%Z.\n"
            f"Definition rank_str : Z := {SX.cZ(rank_str)}%Z.\n"
            f"Definition rank_kw : Z := {SX.cZ(rank_kw)}%Z.\n")
    global _LIMITS
    _LIMITS = (d_lim[0], l_lim[0], w_lim[0])
    return {"C11_Consts": text}


_LIMITS = None


def _limits():
    """(dict one-line limit, list one-line limit, wrap limit) of the checked source, for targeting only"""
    global _LIMITS
    if _LIMITS is None:
        try:
            gen_consts(os.environ.get("VERIF_REPO", "/repo"))
        except Exception:
            _LIMITS = (200, 200, 150)
    d, l, w = _LIMITS
    ok = lambda x: x if 20 <= x <= 2000 else None  # noqa: E731
    return ok(d) or 200, ok(l) or 200, ok(w) or 150


# ------------------------------------------------------------------ value encoding (JSON-serialisable)
def enc(v):
    if v is None or v is True or v is False:
        return ["k", str(v)]
    if isinstance(v, int):
        return ["i", v]
    if isinstance(v, float):
        return ["f", repr(v)]
    if isinstance(v, str):
        return ["s", v]
    if isinstance(v, list):
        return ["l", [enc(x) for x in v]]
    if isinstance(v, dict):
        return ["d", [[enc(k), enc(x)] for k, x in v.items()]]
    raise TypeError(v)


KW = {"True": True, "False": False, "None": None}


def dec(e):
    t, a = e
    if t == "k":
        return KW[a]
    if t == "i":
        return int(a)
    if t == "f":
        return float(a)
    if t == "s":
        return a
    if t == "l":
        return [dec(x) for x in a]
    if t == "d":
        return {dec(k): dec(x) for k, x in a}
    raise ValueError(t)


# ------------------------------------------------------------------ generators
ASCII = "abcdefghijklmnopqrstuvwxyzABCDEFGHIJKLMNOPQRSTUVWXYZ0123456789 _-+.,:;{}[]()/'!?#%&*<>=@^|~`$"
WIDE = "é中ßπж\U0001f600ü€"


def rstr(rng, n, wide=False):
    alpha = ASCII + (WIDE if wide else "")
    return "".join(rng.choice(alpha) for _ in range(n))


def rnum(rng):
    c = rng.randrange(10)
    if c < 4:
        return rng.randrange(-50, 1000)
    if c < 6:
        return rng.choice([0, -1, 10 ** 18, -10 ** 25, 2 ** 64, 7, 99, 100, 12345678901234567890])
    if c < 8:
        return rng.choice([0.0, -0.0, 1.5, -2.25, 1e16, 1e-7, 3.141592653589793, 1e300, 5e-324, 123456.789, 1e22, 0.1])
    return round(rng.uniform(-1000, 1000), rng.randrange(0, 6))


def rsimple(rng, maxlen=12, wide=True):
    c = rng.randrange(12)
    if c < 4:
        return rstr(rng, rng.randrange(0, maxlen + 1), wide and rng.random() < 0.3)
    if c < 8:
        return rnum(rng)
    if c < 9:
        return rng.choice([True, False, None])
    if c < 10:
        return rng.choice([[], {}])
    return rng.choice([True, False, None, "", 0])


def rkey(rng, style):
    """style: 'str' | 'int' | 'mixed' | 'kw'"""
    if style == "mixed":
        style = rng.choice(["str", "str", "int", "kw"])
    if style == "int":
        return rng.choice([rng.randrange(-20, 200), rng.randrange(2, 10 ** 6), -rng.randrange(2, 10 ** 12), 10 ** 20 + rng.randrange(9)])
    if style == "kw":
        return rng.choice([True, False, None])
    n = rng.choice([0, 1, 1, 2, 2, 3, 3, 4, 6, 9])
    return rstr(rng, n, rng.random() < 0.2)


def rdict_keys(rng, n, json_ok):
    style = "str" if json_ok else rng.choice(["str", "int", "mixed", "mixed"])
    keys = []
    seen = set()
    tries = 0
    while len(keys) < n and tries < 10 * n + 10:
        tries += 1
        k = rkey(rng, style)
        # True == 1, False == 0 as dict keys: keep them apart
        norm = ("n", int(k)) if isinstance(k, (bool, int)) else ("o", k)
        if norm in seen:
            continue
        seen.add(norm)
        keys.append(k)
    return keys


def rvalue(rng, depth, json_ok):
    """random nesting; json_ok -> str keys only"""
    if depth <= 0 or rng.random() < 0.3:
        return rsimple(rng)
    n = rng.choice([0, 1, 1, 2, 2, 3, 4, 5])
    if rng.random() < 0.5:
        return [rvalue(rng, depth - 1, json_ok) for _ in range(n)]
    return {k: rvalue(rng, depth - 1, json_ok) for k in rdict_keys(rng, n, json_ok)}


def chunk_len(v, mode):
    """length of the one-token rendering of a simple value (harness-side, used for targeting only)"""
    if isinstance(v, str):
        return len(v) + 2
    if v is True or v is False or v is None:
        return len({"py": str(v), "json": {True: "true", False: "false", None: "null"}[v]}[mode])
    if isinstance(v, (int, float)):
        return len(str(v))
    return 2


def key_len(k):
    return len(k) + 2 if isinstance(k, str) else len(str(k))


def simple_list_of_len(rng, total, mode, maxitem=40):
    """all-simple list with sum(len)+2n == total (n >= 1, total >= 4)"""
    items = []
    left = max(total, 4)
    while left > maxitem + 6:
        v = rsimple(rng, maxlen=maxitem - 2, wide=False)
        ln = chunk_len(v, mode) + 2
        if left - ln < 4:
            continue
        items.append(v)
        left -= ln
    items.insert(rng.randrange(len(items) + 1), rstr(rng, left - 4))
    return items


def list_scr_len(items, mode):
    return sum(chunk_len(v, mode) for v in items) + 2 * len(items)


def simple_dict_of_len(rng, total, mode, json_ok):
    """all-simple dict whose one-line text has exactly `total` characters"""
    n = rng.randrange(1, 9)
    keys = rdict_keys(rng, n, json_ok)
    d = {k: rsimple(rng, maxlen=10, wide=False) for k in keys}
    pad_key = "pad"
    while pad_key in d:
        pad_key += "_"
    d[pad_key] = ""

    def ln(dd):
        return 2 + sum(key_len(k) + 2 + chunk_len(v, mode) for k, v in dd.items()) + 2 * (len(dd) - 1)
    cur = ln(d)
    while cur > total and len(d) > 1:
        k = next(k for k in d if k != pad_key)
        del d[k]
        cur = ln(d)
    if cur > total:
        return None
    d[pad_key] = rstr(rng, total - cur)
    assert ln(d) == total
    # shuffle insertion order
    ks = list(d)
    rng.shuffle(ks)
    return {k: d[k] for k in ks}


def nest(rng, v, depth, json_ok):
    """put v at nesting offset 2*depth below alternating non-simple containers"""
    for _ in range(depth):
        c = rng.randrange(4)
        if c == 0:
            v = [v]
        elif c == 1:
            v = [rsimple(rng), v, rsimple(rng)]
        elif c == 2:
            v = {rkey(rng, "str"): v}
        else:
            ks = rdict_keys(rng, 3, json_ok)
            d = {k: rsimple(rng) for k in ks}
            d[ks[rng.randrange(len(ks))]] = v
            v = d
    return v


def wrapped_list(rng, mode, off, wlim, llim):
    """all-simple list that is wrapped (too long for one line); line fills aimed at the wrap limit"""
    items = []
    style = rng.randrange(6)
    nlines = rng.randrange(2, 6)
    for _ in range(nlines):
        if style == 0:
            # fill a line so that len_yielded + cur lands on wlim-2 .. wlim+2 for its last item
            target = wlim + rng.randrange(-2, 3)
            cur = off + 2
            first = True
            while True:
                room = target - cur - (0 if first else 2)
                if room < 1:
                    break
                if room <= 42 and not first:
                    if room >= 2:
                        items.append(rstr(rng, room - 2))
                    else:
                        items.append(rng.randrange(0, 10))
                    break
                v = rsimple(rng, maxlen=38, wide=False)
                ln = chunk_len(v, mode)
                if ln > room - 3:
                    continue
                items.append(v)
                cur += ln + (0 if first else 2)
                first = False
        elif style == 1:
            items += [rsimple(rng, maxlen=rng.choice([1, 5, 38]), wide=True) for _ in range(rng.randrange(5, 40))]
        elif style == 2:
            # an item longer than the limit, alone or after/before short ones
            items += [rsimple(rng) for _ in range(rng.randrange(0, 3))]
            items.append(rstr(rng, wlim + rng.randrange(-6, 30)))
            items += [rsimple(rng) for _ in range(rng.randrange(0, 3))]
        elif style == 3:
            items += [rng.randrange(0, 10 ** rng.randrange(1, 6)) for _ in range(rng.randrange(20, 70))]
        elif style == 4:
            k = rng.choice([1, 2, 3, 5, 8, 13, 38])
            items += [rstr(rng, k) for _ in range(rng.randrange(10, 50))]
        else:
            items += [rng.choice([[], {}, None, True, "", 0.5]) for _ in range(rng.randrange(20, 60))]
    # make sure it is too long for one line
    while off + list_scr_len(items, mode) < llim + rng.randrange(0, 3):
        items.append(rsimple(rng, maxlen=20, wide=False))
    return items


def gen_cases(rng, tier):
    big = tier == "thorough"
    dlim, llim, wlim = _limits()
    cases = []

    def add(kind, v, mode=None):
        for m in ([mode] if mode else ["json", "py"]):
            cases.append({"kind": kind, "mode": m, "v": enc(v)})

    # top-level simple values and tiny containers
    for v in [None, True, False, 0, -1, 10 ** 30, 1.5, -0.0, 1e16, "", "abc", "é中", [], {}, [[]], [{}], {"a": []},
              {"": ""}, [1], {"a": 1}, [1, 2, 3], {"b": 1, "a": 2}, [[1]], {"a": {"b": {"c": [1, [2, [3]]]}}},
              [None, True, False], {"t": True, "f": False, "n": None}]:
        add("small", v)
    for v in [{1: "a", "1": "b", -1: "c", 10: "d", 9: "e"}, {True: 1, None: 2, "x": 3, False: 4},
              {2: [1, 2], "a": {"b": 1}, 1: [3, [4]], "B": 0}, {10 ** 20: 1, -10 ** 20: 2, 0: 3},
              {"b": 1, "a": 2, "B": 3, "": 4, "ab": 5, "a ": 6, "é": 7, "z": 8}]:
        add("keys", v, "py")
        add("keys-json", v, "json")

    # outside the property's domain, inside the model (fidelity only: the oracle checks the lines, not the parse)
    for v in ['a"b', "back\\slash", "two\nlines", ["x\ty", {"k\"": "\n"}], {"a\nb": [1, [2]]}]:
        add("odd-strings", v)
    # float keys: outside the model (their order needs float comparison), oracle only
    for v in [{1.5: "a", 2: "b", -0.5: "c", 10: "d"}, {2.5: [1, [2]], 1: {}, "s": 0.5}]:
        add("float-keys", v, "py")

    # one-line thresholds for dicts and lists at nesting offsets 0..12
    deltas = range(-6, 7) if big else range(-4, 5)
    reps = 10 if big else 1
    for depth in range(0, 7):
        off = 2 * depth
        for dl in deltas:
            for _ in range(reps):
                for m in ("json", "py"):
                    json_ok = m == "json" or rng.random() < 0.5
                    d = simple_dict_of_len(rng, dlim + dl - off, m, json_ok)
                    if d is not None:
                        add("dict-threshold", nest(rng, d, depth, json_ok), m)
                    items = simple_list_of_len(rng, llim + dl - off, m)
                    add("list-threshold", nest(rng, items, depth, True), m)
    # wrapped lists
    for _ in range(3500 if big else 180):
        depth = rng.randrange(0, 7)
        m = rng.choice(["json", "py"])
        items = wrapped_list(rng, m, 2 * depth, wlim, llim)
        add("wrapped-list", nest(rng, items, depth, True), m)
    # long dicts (multi-line because too long, or because of one non-simple value)
    for _ in range(1000 if big else 50):
        m = rng.choice(["json", "py"])
        json_ok = m == "json"
        n = rng.randrange(8, 30)
        d = {k: rsimple(rng, maxlen=30) for k in rdict_keys(rng, n, json_ok)}
        if rng.random() < 0.4 and d:
            d[next(iter(d))] = [1, [2]]
        add("long-dict", nest(rng, d, rng.randrange(0, 4), json_ok), m)
    # random nestings
    for _ in range(12000 if big else 420):
        m = rng.choice(["json", "py"])
        json_ok = m == "json" and rng.random() < 0.9
        add("random", rvalue(rng, rng.randrange(1, 7), json_ok), m)
    return cases


def search_cases(rng, tier):
    out = gen_cases(rng, "quick")
    out += gen_cases(rng, "quick")
    return out


def kind(case):
    return case["kind"] + "/" + case["mode"]


# ------------------------------------------------------------------ implementation
_PRINTERS = {}


def impl_run(case):
    from ak.ppobj import PrettyPrinter
    v = dec(case["v"])
    try:
        # one printer object per mode for the whole worker process, and a coloured rendering of
        # the same value consumed first: what the no-colour output is must not depend on what the
        # printer rendered before (a memory of earlier, coloured renderings is how caches go wrong)
        pp = _PRINTERS.get(case["mode"])
        if pp is None:
            pp = _PRINTERS[case["mode"]] = PrettyPrinter(fmt_json=(case["mode"] == "json"))
        coloured = pp(v)
        str(coloured)
        for _ in coloured:
            pass
        r = pp(v, no_color=True)
        # what a user gets from the no-colour result is str(): the text as printed (plain_text()
        # would hide an escape sequence that leaked into the no-colour output)
        text = str(r)
        lines = [str(ln) for ln in r]
    except Exception as e:
        return {"exc": SX.exc_name(e)}
    if not isinstance(text, str) or not all(isinstance(x, str) for x in lines):
        return {"exc": "NotAString"}
    return {"text": text, "lines": lines}


# ------------------------------------------------------------------ model side
KW_COQ = {"True": "KwTrue", "False": "KwFalse", "None": "KwNone"}


def coq_key(e):
    t, a = e
    if t == "i":
        return f"KInt {SX.cZ(a)}"
    if t == "s":
        return f"KStr {SX.cstr(a)}"
    if t == "k":
        return f"KKw {KW_COQ[a]}"
    raise ValueError("key outside the model: " + t)


def coq_value(e):
    t, a = e
    if t == "k":
        return f"VKw {KW_COQ[a]}"
    if t == "i":
        return f"VNum {SX.cstr(str(int(a)))}"
    if t == "f":
        return f"VNum {SX.cstr(str(float(a)))}"
    if t == "s":
        return f"VStr {SX.cstr(a)}"
    if t == "l":
        return "VList [" + "; ".join("(" + coq_value(x) + ")" for x in a) + "]"
    if t == "d":
        return "VDict [" + "; ".join("(" + coq_key(k) + ", " + coq_value(x) + ")" for k, x in a) + "]"
    raise ValueError(t)


def coq_case(case, obs):
    lines = obs.get("lines") or []
    impl = "[" + "; ".join(SX.cstr(ln) for ln in lines) + "]" if lines else "(@nil (list Z))"
    return f"PP {'Json' if case['mode'] == 'json' else 'Py'} ({coq_value(case['v'])}) {impl}"


def in_model(case, obs):
    def ok(e):
        t, a = e
        if t == "l":
            return all(ok(x) for x in a)
        if t == "d":
            return all(k[0] in "isk" and ok(x) for k, x in a)
        return True
    return ok(case["v"])


def expected_sx(case, obs):
    if "exc" in obs:
        return SX.dumps(SX.err(obs["exc"]))
    if "__hang__" in obs:
        return SX.dumps(SX.err("Hang"))
    return SX.dumps([1])   # the model's lines equal obs["lines"] (compared inside Coq, see C11/Run.v)


# ------------------------------------------------------------------ oracle (statement, independently)
def same(a, b):
    """equal values of equal types (True != 1, 1 != 1.0, -0.0 != 0.0)"""
    if type(a) is not type(b):
        return False
    if isinstance(a, float):
        return repr(a) == repr(b)
    if isinstance(a, list):
        return len(a) == len(b) and all(same(x, y) for x, y in zip(a, b))
    if isinstance(a, dict):
        if len(a) != len(b):
            return False
        tk = {(type(k).__name__, repr(k)): k for k in b}
        for k, x in a.items():
            kb = tk.get((type(k).__name__, repr(k)))
            if (type(k).__name__, repr(k)) not in tk or not same(x, b[kb]):
                return False
        return True
    return a == b


def _walk(v):
    yield v
    if isinstance(v, list):
        for x in v:
            yield from _walk(x)
    elif isinstance(v, dict):
        for k, x in v.items():
            yield from _walk(x)


def readable(v, mode):
    """is v in the domain where the text must parse back (see ASSUMPTIONS)"""
    for x in _walk(v):
        if isinstance(x, float) and (x != x or x in (float("inf"), float("-inf"))):
            return False
        strs = [x] if isinstance(x, str) else [k for k in x if isinstance(k, str)] if isinstance(x, dict) else []
        for s in strs:
            if any(c in '"\\' or ord(c) < 32 or 0x7f <= ord(c) < 0xa0 or ord(c) in (0x2028, 0x2029) or 0xd800 <= ord(c) < 0xe000 for c in s):
                return False
        if isinstance(x, dict) and mode == "json" and not all(isinstance(k, str) for k in x):
            return False
    return True


def keys_unsorted(parsed):
    """first dict (anywhere in parsed) whose keys of one type are not in ascending order, else None"""
    for x in _walk(parsed):
        if isinstance(x, dict):
            ks = list(x)
            groups = {}
            for k in ks:
                if k is None or isinstance(k, bool):
                    continue  # True/False/None have no order of their own: nothing demanded
                g = "num" if isinstance(k, (int, float)) else "str"
                groups.setdefault(g, []).append(k)
            for g, seq in groups.items():
                if any(seq[i] > seq[i + 1] for i in range(len(seq) - 1)):
                    return ks
    return None


def oracle(case, obs):
    if "__hang__" in obs:
        return [("hang", "pretty printing did not return")]
    v = dec(case["v"])
    mode = case["mode"]
    if "exc" in obs:
        return [("raises", f"PrettyPrinter raised {obs['exc']} on {v!r:.300}")]
    out = []
    text = obs["text"]
    if "\n".join(obs["lines"]) != text:
        out.append(("lines-differ", f"line iteration does not give the whole text for {v!r:.300}"))
    if not readable(v, mode):
        return out
    try:
        parsed = json.loads(text) if mode == "json" else ast.literal_eval(text)
    except Exception as e:
        out.append(("unparsable-" + mode, f"{mode} text of {v!r:.300} does not parse: {type(e).__name__}: {e!s:.120}; text {text!r:.400}"))
        return out
    if not same(parsed, v):
        out.append(("value-differs-" + mode, f"{mode} text of {v!r:.300} reads back as {parsed!r:.300}"))
    else:
        bad = keys_unsorted(parsed)
        if bad is not None:
            out.append(("keys-unsorted", f"dict keys appear as {bad!r:.200} in the text of {v!r:.300}"))
    return out


def nontrivial(case, obs):
    return case["v"][0] in "ld" and len(case["v"][1]) > 0


def outcome(case, obs):
    if "__hang__" in obs:
        return "hang"
    if "exc" in obs:
        return obs["exc"]
    n = len(obs["lines"])
    return "1 line" if n == 1 else "2-5 lines" if n <= 5 else "6-20 lines" if n <= 20 else ">20 lines"


def shrink_candidates(case):
    """structurally smaller values: a child instead of the value, one element dropped, strings halved"""
    def variants(e):
        t, a = e
        if t == "l":
            for i in range(len(a)):
                yield ["l", a[:i] + a[i + 1:]]
            for i in range(len(a)):
                for s in variants(a[i]):
                    yield ["l", a[:i] + [s] + a[i + 1:]]
        elif t == "d":
            for i in range(len(a)):
                yield ["d", a[:i] + a[i + 1:]]
            for i in range(len(a)):
                for s in variants(a[i][1]):
                    yield ["d", a[:i] + [[a[i][0], s]] + a[i + 1:]]
        elif t == "s" and len(a) > 1:
            yield ["s", a[: len(a) // 2]]
            yield ["s", a[:-1]]

    t, a = case["v"]
    if t == "l":
        for x in a:
            if x[0] in "ld":
                yield dict(case, v=x)
    elif t == "d":
        for k, x in a:
            if x[0] in "ld":
                yield dict(case, v=x)
    n = 0
    for s in variants(case["v"]):
        yield dict(case, v=s)
        n += 1
        if n > 60:
            return


TECHNIQUE = ("Coq proof (nested structural induction over values, one case per layout branch; character-level "
             "lexer + token parser as the reader) on a hand-written Gallina model + per-run correspondence check "
             "(vm_compute vs implementation) + constants regenerated from the source")
LEVEL_TEXT = ("Full (about the model, unbounded values / offsets / both modes): roundtrip and roundtrip_any_offset "
              "(a character-level lexer + recursive-descent parser reads the generated text back as tree_of m v = the "
              "value with every dict in sorted key order; proved by nested induction on the value with one case per "
              "layout branch: simple, one-line dict, multi-line dict, one-line list, several-items-per-line list with "
              "its len_yielded/is_first_in_line state machine, one-item-per-line list), lines_lossless, keys_sorted "
              "(permutation + StronglySorted for _mk_type_sort_value's order) with key_order (total, transitive, "
              "antisymmetric) and key_order_spec, no_drop_dup, long_containers_wrapped and wrapped_lines_bounded "
              "(the two layout limits are respected), consts_ok (JSON literals true/false/null, Python literals, "
              "distinct sort ranks) re-proved against the constants re-read from the source on every run. "
              "Partial / tested only: atoms are opaque in the reader, so 'str(number) and the literals are read back "
              "as the same number / constant' and the injectivity of tree_of are trusted to json.loads / "
              "ast.literal_eval and checked by the oracle on every generated case (~980 quick, ~26000 thorough); "
              "float dict keys and non-JSON objects are outside the model (oracle only).")
LEVEL_NOTE = ("Trusted: Coq kernel + vm_compute; the hand model's fidelity (checked by correspondence on every case, not "
              "proved); json.loads/ast.literal_eval agreeing with the reader C11.Reader on punctuation/strings and "
              "interpreting atoms; the ast extractor and harness. Print Assumptions: closed under the global context "
              "for every theorem.")
DESIGN_REF = "DESIGN.md section 8, C11"
