"""C18  Objects read from a sheet match their source cells  (ak/xlsread.py)"""
import ast
import os

from harness.lib import sx as SX

ID = "C18"
COQ_DIR = "C18"
RUN_MOD = "C18.Run"
MODEL_TARGETS = ["C18/Run.vo"]
PROOF_TARGETS = ["C18/Lemmas.vo", "C18/LemmasLadder.vo", "C18/LemmasCoord.vo", "C18/LemmasRange.vo"]
PROPS = ["C18/Props.v"]
ALLOWED_AXIOMS = []
IMPL_TIMEOUT = 10.0
COQ_SHARD = 100

RULE = ("generated worksheets (harness-side mock of an openpyxl worksheet): 1-5 attributes of every rule kind "
        "(plain with each converter and custom none/true/false sets, optional present/missing, external, ranged dict/set "
        "with and without default), known columns permuted, unknown and blank-titled columns before/between/after, "
        "duplicate titles, 0-3 leading blank rows (None or whitespace-only), blank/invalid cells, both end-of-table rules "
        "with an end row and trailing content, ladder sheets with 1-3 levels and runs of blanks over several rows, "
        "sheets wider than 26 columns (range groups across the Z/AA boundary; corpus: ZZ/AAA boundary, duplicate titles inside "
        "the range group, ladder range cells of different rows, row 9/10).  Non-trivial = distinct case that yields at least "
        "one object.")
TRUSTED_BASE = [
    "gen/C18_Consts.v: CellBool/_CellReader value sets, origin markers, the 'blank first' and '*' literals are read from "
    "ak/xlsread.py by harness/props/c18.py:gen_consts (ast, fail-closed); the same extractor insists that get_attr_origin's "
    "range text is sorted(origins.values(), key=_coord_sort_key) and that _coord_sort_key is statement for statement the "
    "function modelled as Model.coord_sort_key (rstrip of the ASCII digits, (len(col), col, int(row)))",
    "python semantics used by the model: str.strip()/str.isspace() code points, str.rstrip(chars), int() of an ASCII digit "
    "string, str(int)/str(bool), == and hash across int/bool/str/None, str and tuple ordering, stability of sorted(), dict "
    "insertion order (compared on every run by the correspondence check)",
    "the harness-side mock worksheet yields rectangular rows from A1 with openpyxl coordinates (column letters + 1-based row)",
]
ASSUMPTIONS = [
    "cell values are None, str, int or bool (no float/datetime cells)",
    "worksheet rows are rectangular and start at A1 (as openpyxl's iter_rows() yields them); ragged rows are modelled "
    "(IndexError) but not claimed",
    "default values are plain values (or callables returning them); one object class per table (iter_table/read_table)",
]
MODELLED = ("ak/xlsread.py: _CellReader/CellStr/CellInt/CellBool/CellList/CellSet, CellRangeDict/CellRangeSet, "
            "XlsObject.__init__/construct/get_attr_origin, XlsRecordAttrReadRules/XlsObjReadRules (rule shapes), "
            "_ObjScrCellsMap.bind_titles_row/cells_from_row, XlsTableReader.iter_table; not modelled: incl_ws prefix, "
            "make_objects_map/ensure_equal, TableReader mixin, several object classes per table")


class ExtractError(Exception):
    pass


# ------------------------------------------------------------------ constants
def _cval(v):
    if v is None:
        return "CNone"
    if isinstance(v, bool):
        return f"(CBool {SX.cbool(v)})"
    if isinstance(v, int):
        return f"(CInt {SX.cZ(v)})"
    if isinstance(v, str):
        return f"(CStr {SX.cstr(v)})"
    raise ExtractError(f"value {v!r} is outside the modelled cell values")


def _cvals(vals):
    vals = list(vals)
    if not vals:
        return "(@nil cval)"
    return "[" + "; ".join(_cval(v) for v in vals) + "]"


def _lit_collection(node, what):
    """literal set/list/tuple (possibly wrapped in set()/list()/frozenset()) -> list of values"""
    if isinstance(node, ast.Call) and isinstance(node.func, ast.Name) and node.func.id in ("set", "list", "frozenset", "tuple") \
            and len(node.args) <= 1 and not node.keywords:
        if not node.args:
            return []
        node = node.args[0]
    try:
        val = ast.literal_eval(node)
    except Exception as e:
        raise ExtractError(f"{what} is not a literal collection: {e}")
    if not isinstance(val, (set, list, tuple, frozenset)):
        raise ExtractError(f"{what} is not a collection")
    out = []
    for v in val:
        if not (v is None or isinstance(v, (bool, int, str))):
            raise ExtractError(f"{what}: element {v!r} outside None/bool/int/str")
        out.append(v)
    out.sort(key=lambda v: (type(v).__name__, repr(v)))
    return out


def _class(tree, name):
    for n in tree.body:
        if isinstance(n, ast.ClassDef) and n.name == name:
            return n
    raise ExtractError(f"class {name} not found")


def _class_attr(cls, name):
    for n in cls.body:
        if isinstance(n, ast.Assign) and len(n.targets) == 1 and isinstance(n.targets[0], ast.Name) and n.targets[0].id == name:
            return n.value
    raise ExtractError(f"{cls.name}.{name} not found")


def _method(cls, name):
    for n in cls.body:
        if isinstance(n, ast.FunctionDef) and n.name == name:
            return n
    raise ExtractError(f"{cls.name}.{name} not found")


def _is_name(node, name):
    return isinstance(node, ast.Name) and node.id == name


def _cmp(node, left_pred, op, right_pred):
    return (isinstance(node, ast.Compare) and len(node.ops) == 1 and isinstance(node.ops[0], op)
            and left_pred(node.left) and right_pred(node.comparators[0]))


def _const_str_assigns(body, target):
    """string constants assigned to `target` directly in this statement list"""
    out = []
    for st in body:
        if isinstance(st, ast.Assign) and len(st.targets) == 1 and _is_name(st.targets[0], target) \
                and isinstance(st.value, ast.Constant) and isinstance(st.value.value, str):
            out.append(st.value.value)
    return out


_KEY_FN_NAME = "_coord_sort_key"
_KEY_FN_REF = ("def _coord_sort_key(coord):\n"
               "    col = coord.rstrip('0123456789')\n"
               "    return len(col), col, int(coord[len(col):])\n")
_SORTED_REF = "cells_coords = sorted(origins.values(), key=_coord_sort_key)"


def gen_consts(repo):
    src = open(os.path.join(repo, "ak", "xlsread.py")).read()
    tree = ast.parse(src)
    reader = _class(tree, "_CellReader")
    cbool = _class(tree, "CellBool")
    reader_none = _lit_collection(_class_attr(reader, "_NONE_VALUES"), "_CellReader._NONE_VALUES")
    bool_true = _lit_collection(_class_attr(cbool, "_TRUE_VALUES"), "CellBool._TRUE_VALUES")
    bool_false = _lit_collection(_class_attr(cbool, "_FALSE_VALUES"), "CellBool._FALSE_VALUES")
    bool_none = _lit_collection(_class_attr(cbool, "_NONE_VALUES"), "CellBool._NONE_VALUES")

    # XlsObject.__init__: the if/elif chain that records origins
    xo = _class(tree, "XlsObject")
    init = _method(xo, "__init__")
    marker_na = marker_skipped = None
    coord_ok = False
    for node in ast.walk(init):
        if isinstance(node, ast.If):
            t = node.test
            isnone = lambda n: isinstance(n, ast.Constant) and n.value is None  # noqa: E731
            if _cmp(t, lambda n: _is_name(n, "cell_type"), ast.Is, isnone):
                got = _const_str_assigns(node.body, "attr_origins")
                if len(got) != 1:
                    raise ExtractError("XlsObject.__init__: 'cell_type is None' branch does not set one origin marker")
                marker_na = got[0]
            elif _cmp(t, lambda n: _is_name(n, "cell"), ast.Is, isnone):
                got = _const_str_assigns(node.body, "attr_origins")
                if len(got) != 1:
                    raise ExtractError("XlsObject.__init__: 'cell is None' branch does not set one origin marker")
                marker_skipped = got[0]
                # the else branch must record cell.coordinate
                for st in node.orelse:
                    if isinstance(st, ast.Assign) and _is_name(st.targets[0], "attr_origins") \
                            and isinstance(st.value, ast.Attribute) and st.value.attr == "coordinate" \
                            and _is_name(st.value.value, "cell"):
                        coord_ok = True
    if marker_na is None or marker_skipped is None or not coord_ok:
        raise ExtractError("XlsObject.__init__: origin recording chain not recognised")

    # get_attr_origin: cells_coords = sorted(origins.values(), key=_coord_sort_key), the two markers;
    # _coord_sort_key: exactly the function modelled as Model.coord_sort_key
    key_fn = None
    for n in tree.body:
        if isinstance(n, ast.FunctionDef) and n.name == _KEY_FN_NAME:
            key_fn = n
    if key_fn is None:
        raise ExtractError(f"module function {_KEY_FN_NAME} not found: get_attr_origin's range text is not sorted by "
                           "(column, row) keys; the model of the range text (Model.range_text) must be revised")
    body = [st for st in key_fn.body
            if not (isinstance(st, ast.Expr) and isinstance(st.value, ast.Constant) and isinstance(st.value.value, str))]
    ref = ast.parse(_KEY_FN_REF).body[0]
    if ast.dump(key_fn.args) != ast.dump(ref.args) or key_fn.decorator_list \
            or [ast.dump(st) for st in body] != [ast.dump(st) for st in ref.body]:
        raise ExtractError(f"{_KEY_FN_NAME} is not the modelled key function; Model.coord_sort_key must be revised")
    gao = _method(xo, "get_attr_origin")
    sorted_plain = False
    marker_range_empty = marker_key_na = None
    ref_sorted = ast.dump(ast.parse(_SORTED_REF).body[0].value)
    for node in ast.walk(gao):
        if isinstance(node, ast.Assign) and len(node.targets) == 1 and _is_name(node.targets[0], "cells_coords"):
            if ast.dump(node.value) == ref_sorted:
                sorted_plain = True
            else:
                raise ExtractError(f"get_attr_origin: cells_coords is not {_SORTED_REF.split(' = ')[1]}; "
                                   "the model of the range text must be revised")
        if isinstance(node, ast.Assign) and len(node.targets) == 1 and _is_name(node.targets[0], "cells_range_descr") \
                and isinstance(node.value, ast.Constant) and isinstance(node.value.value, str):
            marker_range_empty = node.value.value
        if isinstance(node, ast.Assign) and len(node.targets) == 1 and _is_name(node.targets[0], "val_cell_origin") \
                and isinstance(node.value, ast.Constant) and isinstance(node.value.value, str):
            marker_key_na = node.value.value
    if not sorted_plain or marker_range_empty is None or marker_key_na is None:
        raise ExtractError("get_attr_origin: range text computation not recognised")

    # iter_table: stop_on == '<literal>' guarding the first-cell test
    tr = _class(tree, "XlsTableReader")
    it = _method(tr, "iter_table")
    blank_first = None
    for node in ast.walk(it):
        if isinstance(node, ast.If) and _cmp(node.test, lambda n: _is_name(n, "stop_on"), ast.Eq,
                                             lambda n: isinstance(n, ast.Constant) and isinstance(n.value, str)):
            inner = [n for n in node.body if isinstance(n, ast.If)]
            ok = False
            for i in inner:
                c = i.test
                if isinstance(c, ast.Call) and isinstance(c.func, ast.Attribute) and c.func.attr == "_cell_is_empty" \
                        and len(c.args) == 1 and isinstance(c.args[0], ast.Subscript) and _is_name(c.args[0].value, "row") \
                        and isinstance(c.args[0].slice, ast.Constant) and c.args[0].slice.value == 0 \
                        and any(isinstance(b, ast.Break) for b in i.body):
                    ok = True
            if not ok:
                raise ExtractError("iter_table: the 'blank first' branch is not `if _cell_is_empty(row[0]): break`")
            # the else branch: _row_is_empty(row) -> break
            ok2 = False
            for i in node.orelse:
                if isinstance(i, ast.If) and isinstance(i.test, ast.Call) and isinstance(i.test.func, ast.Attribute) \
                        and i.test.func.attr == "_row_is_empty" and any(isinstance(b, ast.Break) for b in i.body):
                    ok2 = True
            if not ok2:
                raise ExtractError("iter_table: the default end-of-table branch is not `if _row_is_empty(row): break`")
            blank_first = node.test.comparators[0].value
    if blank_first is None:
        raise ExtractError("iter_table: stop_on comparison not found")

    # bind_titles_row: column_name == "*"
    cm = _class(tree, "_ObjScrCellsMap")
    star = None
    for node in ast.walk(_method(cm, "bind_titles_row")):
        if isinstance(node, ast.If) and _cmp(node.test, lambda n: isinstance(n, ast.Attribute) and n.attr == "column_name",
                                             ast.Eq, lambda n: isinstance(n, ast.Constant) and isinstance(n.value, str)):
            star = node.test.comparators[0].value
            break
    if star is None:
        raise ExtractError("bind_titles_row: range marker comparison not found")

    text = ("(* generated from ak/xlsread.py by harness/props/c18.py -- do not edit *)\n"
            "From Coq Require Import ZArith List.\nFrom AK Require Import C18.Base.\nImport ListNotations.\n"
            f"Definition reader_none : list cval := {_cvals(reader_none)}.\n"
            f"Definition bool_true : list cval := {_cvals(bool_true)}.\n"
            f"Definition bool_false : list cval := {_cvals(bool_false)}.\n"
            f"Definition bool_none : list cval := {_cvals(bool_none)}.\n"
            f"Definition marker_na : str := {SX.cstr(marker_na)}.\n"
            f"Definition marker_skipped : str := {SX.cstr(marker_skipped)}.\n"
            f"Definition marker_range_empty : str := {SX.cstr(marker_range_empty)}.\n"
            f"Definition marker_key_na : str := {SX.cstr(marker_key_na)}.\n"
            f"Definition blank_first : str := {SX.cstr(blank_first)}.\n"
            f"Definition star : str := {SX.cstr(star)}.\n")
    return {"C18_Consts": text}


# ------------------------------------------------------------------ mock worksheet (harness side)
def col_letters(c):
    """0 -> A, 25 -> Z, 26 -> AA (openpyxl get_column_letter(c+1))"""
    out = ""
    c += 1
    while c > 0:
        c, rem = divmod(c - 1, 26)
        out = chr(65 + rem) + out
    return out


def coord(r, c):
    return f"{col_letters(c)}{r + 1}"


def parse_coord(text):
    """'AB12' -> (11, 27) or None"""
    if not isinstance(text, str):
        return None
    i = 0
    while i < len(text) and "A" <= text[i] <= "Z":
        i += 1
    letters, digits = text[:i], text[i:]
    if not letters or not digits or not all("0" <= d <= "9" for d in digits) or digits[0] == "0":
        return None
    c = 0
    for ch in letters:
        c = c * 26 + (ord(ch) - 64)
    return int(digits) - 1, c - 1


class _Cell:
    __slots__ = ("parent", "coordinate", "value", "row", "column")

    def __init__(self, parent, r, c, value):
        self.parent = parent
        self.coordinate = coord(r, c)
        self.value = value
        self.row = r + 1
        self.column = c + 1

    def __repr__(self):
        return f"<Cell {self.parent.title!r}.{self.coordinate}>"


class _Worksheet:
    def __init__(self, title, rows):
        self.title = title
        self._rows = [tuple(_Cell(self, r, c, v) for c, v in enumerate(row)) for r, row in enumerate(rows)]

    def iter_rows(self):
        for row in self._rows:
            yield row


# ------------------------------------------------------------------ cases
CONV_KINDS = ["str", "int", "bool", "list", "set"]
SPACES = [" ", "\t", "\n", "\u00a0", "\u2003", "\x1f", "\u3000", "\x85"]


def _cv(kind, **kw):
    d = {"k": kind}
    d.update(kw)
    return d


def _blank(rng):
    r = rng.random()
    if r < 0.7:
        return None
    if r < 0.85:
        return ""
    return "".join(rng.choice(SPACES) for _ in range(rng.randint(1, 2)))


def _word(rng):
    return rng.choice(["a", "bb", "Zed", "x y", "7", "k-1", "é", "True", "None", "v", "0", "-"])


def _pad(rng, s):
    if rng.random() < 0.25:
        s = rng.choice(SPACES) + s
    if rng.random() < 0.25:
        s = s + rng.choice(SPACES)
    return s


def _cell_for(rng, cv, p_blank=0.12, p_bad=0.03):
    """a cell value for a column read with converter cv"""
    k = cv["k"]
    r = rng.random()
    if r < p_blank:
        return _blank(rng)
    bad = r < p_blank + p_bad
    if k == "int":
        if bad:
            return rng.choice(["12", "x", " 5"])
        return rng.choice([0, 1, 2, 7, 10, -3, 2019, 2020, 123456789012, True, False]) if rng.random() < 0.3 else rng.randint(-50, 3000)
    if k == "bool":
        if bad:
            return rng.choice(["yes", 2, "true", " v"])
        tv = cv["true"] if "true" in cv else ["v", 1, "1", True, "True"]
        fv = cv["false"] if "false" in cv else [None, "", False, "False", 0]
        pool = tv if (rng.random() < 0.5 and tv) or not fv else fv
        return rng.choice(pool) if pool else "yes"
    if k in ("list", "set"):
        if bad:
            return rng.choice([5, True])
        n = rng.randint(0, 4)
        items = [_pad(rng, _word(rng)) if rng.random() < 0.85 else "" for _ in range(n)]
        out = ""
        for i, it in enumerate(items):
            if i:
                out += rng.choice([",", "\n", ", ", ",\n"])
            out += it
        return out
    # str
    if rng.random() < 0.2:
        return rng.choice([5, -12, True, False, 0, 10 ** 15])
    return _pad(rng, _word(rng))


def _conv(rng, kinds=CONV_KINDS):
    k = rng.choice(kinds)
    cv = _cv(k)
    if rng.random() < 0.15:
        cv["none"] = rng.choice([[], [None, ""], ["-", None], [None, 0], ["None", None]])
    if k == "bool" and rng.random() < 0.25:
        cv["true"] = rng.choice([["y", "Y", 1], ["x"], [True]])
        cv["false"] = rng.choice([["n", None], [None, "", 0], []])
    return cv


def _default(rng):
    return {"v": rng.choice([None, None, 0, 17, "dflt", "", True, -1])}


TITLE_POOL = ["Id", "Name", "Status", "Year", "Month", "Day", "Person's name", "Event Id", "kind", "2020", "x y", "Ünï", "N°"]
UNKNOWN_POOL = ["math", "science", "history", "cs", "art", "pe", "bio", "u1", "u2", "q 1", "42", "zz"]


def gen_sheet_case(rng, wide=False, force=None):
    """one worksheet + rule set.  force: dict of options to pin (ladder, stop, ...)"""
    force = force or {}
    n_attrs = rng.randint(1, 5)
    titles_pool = rng.sample(TITLE_POOL, len(TITLE_POOL))
    rules = []
    known_cols = []     # (title, conv) of columns present in the sheet for plain attrs
    n_range = 0
    misuse = rng.random() < 0.04
    for i in range(n_attrs):
        r = rng.random()
        if i == 0 and not misuse:
            r = 0.0     # the first attribute must come from a cell (anchor)
        if r < 0.55:
            cv = _conv(rng)
            title = titles_pool.pop()
            ru = {"t": "plain", "col": title, "cv": cv}
            present = True
            if rng.random() < 0.35:
                ru["def"] = _default(rng)
                present = rng.random() < 0.5 or i == 0 and not misuse
            elif misuse and rng.random() < 0.3:
                present = False            # required column missing -> ValueError
            if present:
                known_cols.append((title, cv))
            if rng.random() < 0.08 and known_cols:
                # two attributes reading the same column
                ru["col"] = rng.choice(known_cols)[0]
            rules.append(ru)
        elif r < 0.72:
            form = rng.choice(["none", "tuple", "callable"])
            d = {"v": None} if form == "none" else _default(rng)
            rules.append({"t": "ext", "def": d, "form": form})
        else:
            prev_range = next((x for x in rules if x["t"] == "range"), None)
            ru = {"t": "range", "dict": rng.random() < 0.5,
                  "cv": dict(prev_range["cv"]) if prev_range is not None and rng.random() < 0.85 else
                  _conv(rng, ["bool", "int", "str", "bool", "list"] if rng.random() < 0.8 else CONV_KINDS)}
            if rng.random() < 0.4:
                ru["def"] = _default(rng)
            rules.append(ru)
            n_range += 1
    nid = rng.choice([0, 1, 1, 1, 2, min(3, n_attrs)]) if not misuse else rng.choice([0, 1, 2, n_attrs, n_attrs + 1])
    nid = min(nid, n_attrs) if not misuse else nid

    # ---- columns
    cols = []   # (title_cell_value, conv for data)
    for title, cv in known_cols:
        if any(t == title for t, _ in cols):
            continue
        cols.append((title, cv))
    rng.shuffle(cols)
    range_cv = next((ru["cv"] for ru in rules if ru["t"] == "range"), None)
    unknown = rng.sample(UNKNOWN_POOL, len(UNKNOWN_POOL))
    run_len = 0
    if n_range:
        run_len = rng.choice([1, 2, 2, 3, 3, 4, 5]) if rng.random() < 0.9 else 0
        if run_len == 0:
            for ru in rules:
                if ru["t"] == "range" and rng.random() < 0.75:
                    ru.setdefault("def", _default(rng))
        if wide:
            run_len = rng.randint(2, 6)
    elif rng.random() < 0.4:
        run_len = rng.randint(1, 3)    # unknown columns without a ranged attribute
    run = [(unknown.pop(), range_cv or _cv("str")) for _ in range(run_len)]
    if run and rng.random() < 0.06 and len(run) >= 2:
        run[-1] = (run[0][0], run[-1][1])        # duplicate title inside the run
    pos = rng.randint(0, len(cols))
    cols[pos:pos] = run
    # blank-titled columns anywhere, further unknown columns behind a separator
    for _ in range(rng.choice([0, 0, 1, 1, 2, 3])):
        cols.insert(rng.randint(0, len(cols)), (_blank(rng), _cv("str")))
    if n_range and run and rng.random() < 0.35:
        # unknown columns that are NOT part of the run (separated by a known/blank column)
        idx_run_end = max(i for i, c in enumerate(cols) if c in run) + 1
        sep_after = [i for i in range(idx_run_end, len(cols))
                     if cols[i][0] is None or not isinstance(cols[i][0], str) or not cols[i][0].strip()
                     or any(cols[i][0] == t for t, _ in known_cols)]
        if sep_after:
            at = rng.randint(sep_after[0] + 1, len(cols))
            cols.insert(at, (unknown.pop(), _cv("str")))
    if rng.random() < 0.05 and cols:
        # duplicate known title (the later column wins in col_names_ids)
        c = rng.choice(cols)
        cols.insert(rng.randint(0, len(cols)), c)
    if wide:
        # push the run (or everything) across the Z/AA boundary
        first_run = next((i for i, c in enumerate(cols) if c in run), len(cols))
        target = rng.choice([22, 23, 24, 25, 26, 27, 50])
        filler = max(0, target - first_run)
        fill_cols = [(None if rng.random() < 0.8 else "", _cv("str")) for _ in range(filler)]
        at = rng.randint(0, first_run)
        # fillers must not split the run: insert before it
        cols[at:at] = fill_cols
    if not cols:
        cols.append((_blank(rng), _cv("str")))
    width = len(cols)

    ladder = force.get("ladder", rng.random() < 0.4)
    stop = force.get("stop", rng.choice(["blank all", "blank all", "blank first", "blank first", "other"]))
    if stop == "other":
        stop = rng.choice(["blank all", "blank  first", "", "BLANK FIRST"])

    def title_cell(t):
        if t is None or not isinstance(t, str) or not t.strip():
            return t
        if t.isdigit() and rng.random() < 0.5:
            return int(t)
        return _pad(rng, t)
    title_row = [title_cell(t) for t, _ in cols]

    # ---- data rows
    n_rows = rng.choice([0, 1, 2, 2, 3, 3, 4, 4, 5, 6, 8])
    p_bad = 0.0 if rng.random() < 0.75 else 0.03
    data = []
    for _ in range(n_rows):
        row = []
        for t, cv in cols:
            if t is None or (isinstance(t, str) and not t.strip()):
                row.append(_blank(rng) if rng.random() < 0.8 else _word(rng))    # content outside the table
            else:
                row.append(_cell_for(rng, cv, p_bad=p_bad))
        data.append(row)
    first_titled = next((i for i, t in enumerate(title_row) if t is not None and str(t).strip() != ""), None)
    if stop == "blank first" and rng.random() < 0.85:
        for row in data:
            if row[0] is None or str(row[0]).strip() == "":
                row[0] = rng.choice([1, "x", 5, "r"])
    if ladder and first_titled is not None and data:
        levels = rng.randint(1, 3)
        for i in range(1, len(data)):
            depth = rng.choice([0, 0, 1, 1, 2, 3, width])
            depth = min(depth, levels if depth != width else width)
            if stop == "blank first" and first_titled == 0 and rng.random() < 0.6:
                depth = 0       # keep many such tables free of the known ladder/blank-first conflict
            for c in range(first_titled, min(width, first_titled + depth)):
                data[i][c] = _blank(rng)
    # a data row must not be wholly blank unless it is meant to end the table (it may happen: fine)
    rows = []
    for _ in range(rng.choice([0, 0, 1, 2, 3])):
        rows.append([_blank(rng) for _ in range(width)])
    rows.append(title_row)
    rows += data
    if rng.random() < 0.6:
        # explicit end row + trailing content
        if stop == "blank first":
            end = [_blank(rng)] + [(_word(rng) if rng.random() < 0.6 else _blank(rng)) for _ in range(width - 1)]
        else:
            end = [_blank(rng) for _ in range(width)]
        rows.append(end)
        for _ in range(rng.choice([0, 1, 2])):
            rows.append([rng.choice([_word(rng), 3, None, "tail"]) for _ in range(width)])
    stripped_titles = []
    for t in title_row:
        s = "" if t is None else str(t).strip()
        if s and s not in stripped_titles:
            stripped_titles.append(s)
    qkeys = stripped_titles[:12] + ["no such key"]
    if len(stripped_titles) > 12:
        qkeys += rng.sample(stripped_titles[12:], min(4, len(stripped_titles) - 12))
    return {"k": "read", "rows": rows, "rules": rules, "nid": nid, "stop": stop, "ladder": bool(ladder),
            "qkeys": qkeys, "misuse": bool(misuse)}


def gen_cases(rng, tier):
    big = tier == "thorough"
    cases = []
    n = 6000 if big else 700
    for i in range(n):
        cases.append(gen_sheet_case(rng, wide=(i % 12 == 0)))
    for i in range(1200 if big else 120):
        cases.append(gen_sheet_case(rng, force={"ladder": True, "stop": rng.choice(["blank all", "blank all", "blank first"])}))
    for i in range(400 if big else 40):
        cases.append(gen_sheet_case(rng, wide=True, force={"ladder": rng.random() < 0.3}))
    # ragged rows (the mock can produce them, openpyxl cannot): correspondence only
    for i in range(100 if big else 12):
        c = gen_sheet_case(rng)
        if len(c["rows"]) >= 2:
            j = rng.randrange(len(c["rows"]))
            cut = rng.randint(0, max(0, len(c["rows"][j]) - 1))
            c["rows"][j] = c["rows"][j][:cut]
            c["ragged"] = True
            cases.append(c)
    return cases


def search_cases(rng, tier):
    out = []
    for i in range(4000):
        out.append(gen_sheet_case(rng, wide=(i % 6 == 0), force={"ladder": True} if i % 3 == 0 else None))
    return out


def kind(case):
    parts = ["ladder" if case["ladder"] else "plain",
             "first" if case["stop"] == "blank first" else "all"]
    if any(r["t"] == "range" for r in case["rules"]):
        parts.append("range")
    if len(case["rows"]) and max(len(r) for r in case["rows"]) > 26:
        parts.append("wide")
    if case.get("ragged"):
        parts.append("ragged")
    if case.get("misuse"):
        parts.append("misuse")
    return "-".join(parts)


# ------------------------------------------------------------------ implementation
def _is_rect(case):
    rows = case["rows"]
    return len({len(r) for r in rows}) <= 1


def _canon_simple(v):
    if v is None:
        return ["n"]
    if isinstance(v, bool):
        return ["b", v]
    if isinstance(v, int):
        return ["i", v]
    if isinstance(v, str):
        return ["s", v]
    if isinstance(v, list) and all(isinstance(x, str) for x in v):
        return ["l", list(v)]
    if isinstance(v, (set, frozenset)) and all(isinstance(x, str) for x in v):
        return ["S", sorted(v)]
    return ["?", repr(v)]


def _canon_value(v):
    if isinstance(v, dict):
        return ["d", sorted([[k, _canon_simple(x)] for k, x in v.items()], key=lambda kv: kv[0])]
    return _canon_simple(v)


def _mk_conv(xl, cv):
    kw = {}
    if "none" in cv:
        kw["none_values"] = list(cv["none"])
    k = cv["k"]
    if k == "bool":
        if "true" in cv:
            kw["true_values"] = list(cv["true"])
        if "false" in cv:
            kw["false_values"] = list(cv["false"])
        return xl.CellBool(**kw) if kw else xl.cell_bool
    cls = {"str": xl.CellStr, "int": xl.CellInt, "list": xl.CellList, "set": xl.CellSet}[k]
    dflt = {"str": xl.cell_str, "int": xl.cell_int, "list": xl.cell_list, "set": xl.cell_set}[k]
    return cls(**kw) if kw else dflt


def _mk_rules(xl, case):
    rules = {}
    for i, ru in enumerate(case["rules"]):
        name = f"a{i}"
        if ru["t"] == "plain":
            cv = _mk_conv(xl, ru["cv"])
            rules[name] = (ru["col"], cv, {"default_val": ru["def"]["v"]}) if "def" in ru else (ru["col"], cv)
        elif ru["t"] == "ext":
            form = ru.get("form", "tuple")
            if form == "none":
                rules[name] = None
            elif form == "callable":
                dv = ru["def"]["v"]
                rules[name] = (None, None, {"default_val": (lambda dv=dv: dv)})
            else:
                rules[name] = (None, None, {"default_val": ru["def"]["v"]})
        else:
            rc = (xl.CellRangeDict if ru["dict"] else xl.CellRangeSet)(_mk_conv(xl, ru["cv"]))
            rules[name] = ("*", rc, {"default_val": ru["def"]["v"]}) if "def" in ru else ("*", rc)
    return rules


def _res(f, *a, **kw):
    try:
        return ["ok", f(*a, **kw)]
    except BaseException as e:  # noqa
        if type(e).__name__ == "Hang":
            raise
        return ["err", SX.exc_name(e)]


def _read(xl, case, rows, ladder, with_origins=True):
    n = len(case["rules"])
    cls = type("XlGen", (xl.XlsObject,), {"_ATTRS": [f"a{i}" for i in range(n)], "_NUM_ID_ATTRS": case["nid"]})
    ws = _Worksheet("sheet1", rows)
    items = []
    err = None
    try:
        rules = _mk_rules(xl, case)
        for o in xl.iter_table(ws, cls, rules, stop_on=case["stop"], ladder_format=ladder):
            if o is None:
                items.append(None)
                continue
            attrs = []
            for i in range(n):
                a = {"v": _canon_value(getattr(o, f"a{i}"))}
                if with_origins:
                    a["o"] = _res(o.get_attr_origin, f"a{i}")
                    a["ko"] = [_res(o.get_attr_origin, f"a{i}", k) for k in case["qkeys"]]
                    a["kn"] = [_res(o.get_attr_origin, f"a{i}", k, strict=False) for k in case["qkeys"]]
                attrs.append(a)
            it = {"attrs": attrs}
            if with_origins:
                it["unk"] = _res(o.get_attr_origin, "no_such_attribute")
            items.append(it)
    except BaseException as e:  # noqa
        if type(e).__name__ == "Hang":
            raise
        err = SX.exc_name(e)
    return {"items": items, "err": err}


def impl_run(case):
    from ak import xlsread as xl
    obs = _read(xl, case, case["rows"], case["ladder"])
    if case["ladder"] and _is_rect(case):
        # the property's second sentence: the same table with the "same as above" cells filled in, read plainly
        obs["filled"] = _read(xl, case, ref_fill(case["rows"]), False, with_origins=False)
    return obs


# ------------------------------------------------------------------ model side
def _c_cval(v):
    if v is None:
        return "CNone"
    if isinstance(v, bool):
        return f"(CBool {SX.cbool(v)})"
    if isinstance(v, int):
        return f"(CInt {SX.cZ(v)})"
    return f"(CStr {SX.cstr(v)})"


def _c_cvals(vs):
    return "(@nil cval)" if not vs else "[" + "; ".join(_c_cval(v) for v in vs) + "]"


def _c_sval(v):
    if v is None:
        return "VNone"
    if isinstance(v, bool):
        return f"(VBool {SX.cbool(v)})"
    if isinstance(v, int):
        return f"(VInt {SX.cZ(v)})"
    return f"(VStr {SX.cstr(v)})"


def _c_conv(cv):
    kind_ = {"str": "KStr", "int": "KInt", "bool": "KBool", "list": "KList", "set": "KSet"}[cv["k"]]

    def o(key):
        return f"(Some {_c_cvals(cv[key])})" if key in cv else "None"
    return f"(mkConv {kind_} {o('none')} {o('true')} {o('false')})"


def _c_rule(ru):
    if ru["t"] == "plain":
        d = f"(Some {_c_sval(ru['def']['v'])})" if "def" in ru else "None"
        return f"RPlain {SX.cstr(ru['col'])} {_c_conv(ru['cv'])} {d}"
    if ru["t"] == "ext":
        return f"RExt {_c_sval(ru['def']['v'])}"
    return f"RRange {SX.cbool(ru['dict'])} {_c_conv(ru['cv'])} {SX.cbool('def' in ru)}"


def _c_strs(l):
    return "(@nil (list Z))" if not l else "[" + "; ".join(SX.cstr(s) for s in l) + "]"


def coq_case(case, obs):
    rows = "[" + "; ".join(_c_cvals(r) for r in case["rows"]) + "]" if case["rows"] else "(@nil (list cval))"
    rules = "[" + "; ".join(_c_rule(r) for r in case["rules"]) + "]" if case["rules"] else "(@nil rule)"
    return (f"Read {rows} {rules} {SX.cnat(case['nid'])} {SX.cstr(case['stop'])} "
            f"{SX.cbool(case['ladder'])} {_c_strs(case['qkeys'])}")


def _sx_simple(v):
    t = v[0]
    if t == "n":
        return [0]
    if t == "i":
        return [1, v[1]]
    if t == "b":
        return [2, 1 if v[1] else 0]
    if t == "s":
        return [3, SX.s(v[1])]
    if t == "l":
        return [4, [SX.s(x) for x in v[1]]]
    if t == "S":
        return [5, [SX.s(x) for x in v[1]]]
    return [99, SX.s(str(v[1]))]


def _sx_value(v, ru):
    if v[0] == "d":
        return [6, [[SX.s(k), _sx_simple(x)] for k, x in v[1]]]
    if v[0] == "S" and ru["t"] == "range":
        return [7, [SX.s(x) for x in v[1]]]
    return _sx_simple(v)


def _sx_res(r):
    return SX.ok(SX.s(r[1])) if r[0] == "ok" else SX.err(r[1])


H_P = 2305843009213693951
H_B = 1000003


def hash_sx(x, h=1):
    """mirror of C18/Run.v hash_sx on a nested list of ints"""
    if isinstance(x, bool):
        x = 1 if x else 0
    if isinstance(x, int):
        return (h * H_B + (x % H_P) + 7) % H_P
    h = (h * H_B + 3) % H_P
    for e in x:
        h = hash_sx(e, h)
    return (h * H_B + 5) % H_P


def full_sx(case, obs):
    """the full observation, as C18/Run.v run_full encodes it"""
    items = []
    for it in obs["items"]:
        if it is None:
            items.append([])
            continue
        attrs = []
        for a, ru in zip(it["attrs"], case["rules"]):
            attrs.append([_sx_value(a["v"], ru), _sx_res(a["o"]), [_sx_res(r) for r in a["ko"]], [_sx_res(r) for r in a["kn"]]])
        attrs.append(_sx_res(it["unk"]))
        items.append([attrs])
    e = [] if obs["err"] is None else [SX.ERR_CODES.get(obs["err"], SX.ERR_OTHER)]
    return [items, e]


def expected_sx(case, obs):
    items, e = full_sx(case, obs)
    return SX.dumps([[[0] if not it else hash_sx(it[0]) for it in items], e])


# ------------------------------------------------------------------ oracle: the statement, independently


def _is_blank(v):
    return v is None or str(v).strip() == ""


def _title(v):
    return "" if v is None else str(v).strip()


def ref_fill(rows):
    """the table with the 'same as above' cells filled in: after the title row (first non-blank row), up to the
    first wholly blank row, a run of blank cells starting at the first titled column takes the values of the
    (filled) row above; the first data row and everything else is unchanged"""
    rows = [list(r) for r in rows]
    t = next((i for i, r in enumerate(rows) if not all(_is_blank(v) for v in r)), None)
    if t is None:
        return rows
    fcp = next((i for i, v in enumerate(rows[t]) if _title(v)), None)
    if fcp is None:
        return rows
    prev = None
    for i in range(t + 1, len(rows)):
        row = rows[i]
        if all(_is_blank(v) for v in row):
            break
        if prev is not None:
            for c in range(fcp, len(row)):
                if _is_blank(row[c]) and c < len(prev):
                    row[c] = prev[c]
                else:
                    break
        prev = row
    return rows


class _Bad(Exception):
    pass


def _py_in(v, vals):
    return any(v == x for x in vals)     # python ==: 1 == True, 0 == False


def ref_convert(cv, v, consts=None):
    """what 'converting a cell' means for each declared converter -> canonical value, or raises _Bad"""
    k = cv["k"]
    none_vals = cv["none"] if "none" in cv else ([] if k == "bool" else [None])
    if _py_in(v, none_vals):
        return ["n"]
    if k == "str":
        return ["s", "" if v is None else str(v).strip()]
    if k == "int":
        if isinstance(v, bool):
            return ["b", v]
        if isinstance(v, int):
            return ["i", v]
        raise _Bad()
    if k == "bool":
        tv = cv["true"] if "true" in cv else ["v", 1, "1", True, "True"]
        fv = cv["false"] if "false" in cv else [None, "", False, "False"]
        if _py_in(v, tv):
            return ["b", True]
        if _py_in(v, fv):
            return ["b", False]
        raise _Bad()
    if k in ("list", "set"):
        if v is None:
            items = []
        elif isinstance(v, str):
            items = [x.strip() for x in v.replace("\n", ",").split(",")]
            items = [x for x in items if x]
        else:
            raise _Bad()
        return ["l", items] if k == "list" else ["S", sorted(set(items))]
    raise AssertionError(k)


def _truthy(cv_val):
    t = cv_val[0]
    if t == "n":
        return False
    return bool(cv_val[1])


def _table_rows(rows, stop):
    """(index of the title row, indices of the data rows up to the end-of-table rule)"""
    t = next((i for i, r in enumerate(rows) if not all(_is_blank(v) for v in r)), None)
    if t is None:
        return None, []
    out = []
    for i in range(t + 1, len(rows)):
        r = rows[i]
        if stop == "blank first":
            if _is_blank(r[0]):
                break
        elif all(_is_blank(v) for v in r):
            break
        out.append(i)
    return t, out


def _expected_run(titles, rules):
    known = {ru["col"] for ru in rules if ru["t"] == "plain" and ru["col"] != "*"}
    run = []
    started = False
    for i, t in enumerate(titles):
        is_range = bool(t) and t not in known
        if is_range:
            started = True
            run.append(i)
        elif started:
            break
    return run


def oracle(case, obs):
    if "__hang__" in obs:
        return [("hang", "read_table did not return")]
    if case.get("ragged") or not _is_rect(case):
        return []       # outside the property's quantifier (openpyxl rows are rectangular)
    out = []
    rows = case["rows"]
    rules = case["rules"]
    stop = case["stop"]
    ladder = case["ladder"]
    items = obs["items"]
    err = obs["err"]
    filled = ref_fill(rows) if ladder else rows
    t, data_idx = _table_rows(filled, stop)
    titles = [_title(v) for v in rows[t]] if t is not None else []
    plain_star = any(ru["t"] == "plain" and ru["col"] == "*" for ru in rules)
    if plain_star:
        return []
    misuse = _is_misuse(case, titles)

    def add(sig, msg):
        out.append((sig, msg))

    # ---- (1) one item per data row, in sheet order, up to the end-of-table rule
    if err is None:
        if len(items) != len(data_idx):
            sig = "row-count"
            if ladder and stop == "blank first" and len(items) < len(data_idx):
                # the open finding, and nothing else: the reading ended (without exception) at the first data row of the
                # filled-in table it did not yield, the ladder starts in the first sheet column, and that row's own first
                # cell is blank although it is not blank once filled in ('same as above')  [Props.ladder_prefix]
                r_stop = data_idx[len(items)]
                fcp = next((i for i, x in enumerate(titles) if x), None)
                if fcp == 0 and _is_blank(rows[r_stop][0]) and not _is_blank(filled[r_stop][0]):
                    sig = "ladder-blank-first"
            add(sig, f"{len(items)} items for {len(data_idx)} data rows (title row {t}, stop_on={stop!r}, ladder={ladder}); "
                     f"rows={rows!r}")
    else:
        if len(items) > len(data_idx):
            add("row-count", f"{len(items)} items yielded before {err} but only {len(data_idx)} data rows")
        elif not misuse:
            # an exception is acceptable only where the declared rules cannot be applied
            why = _legit_error(case, filled, t, titles, data_idx, len(items))
            if why is None:
                add("unexpected-error", f"{err} after {len(items)} items although every cell of the next row converts "
                                        f"and all required columns exist; rows={rows!r} rules={rules!r}")
    if t is None:
        return out
    run_cols = _expected_run(titles, rules)
    run_keys = {titles[c] for c in run_cols}

    # ---- (2) per object / attribute: value == convert(cell(s) at the reported origin), or the default
    for j, it in enumerate(items):
        if j >= len(data_idx):
            break
        R = data_idx[j]
        if it is None:
            # no object for this row: acceptable only when every id attribute is None
            k = min(case["nid"], len(rules))
            if k == 0:
                add("spurious-none", f"row {R} gave None although _NUM_ID_ATTRS is 0")
            elif not misuse:
                vals = []
                raw_none = True
                for ru in rules[:k]:
                    vals.append(_ref_attr_value(ru, filled[R], titles, run_cols))
                    raw_none = raw_none and all(filled[R][c] is None for c, tt in enumerate(titles) if tt == ru["col"])
                # XlsObject.construct: no object when the id cells are empty or the id values are all None
                if not raw_none and any(v is not _UNKNOWN and v != ["n"] for v in vals):
                    add("spurious-none", f"row {R} gave None although its id attributes read {vals!r}")
            continue
        for i, (a, ru) in enumerate(zip(it["attrs"], rules)):
            where = f"object {j} (row {R}) attribute {i} {ru!r}"
            v = a["v"]
            o = a["o"]
            if o[0] != "ok":
                add("origin-raises", f"{where}: get_attr_origin raised {o[1]}")
                continue
            text = o[1]
            if ru["t"] == "ext":
                if text != "<n/a>":
                    add("origin-marker", f"{where}: external attribute reports origin {text!r}")
                if v != _canon_simple(ru["def"]["v"]):
                    add("default-value", f"{where}: value {v!r} is not the declared default")
                continue
            if ru["t"] == "plain":
                rc = parse_coord(text)
                if rc is None:
                    # not a coordinate: must be the missing optional column
                    if ru["col"] in titles:
                        add("origin-marker", f"{where}: origin {text!r} although column {ru['col']!r} exists")
                    elif "def" not in ru:
                        add("origin-marker", f"{where}: origin {text!r} for a required column")
                    elif v != _canon_simple(ru["def"]["v"]):
                        add("default-value", f"{where}: value {v!r} is not the declared default {ru['def']['v']!r}")
                    continue
                r_, c_ = rc
                if not (0 <= r_ < len(rows) and 0 <= c_ < len(rows[r_])):
                    add("origin-outside", f"{where}: origin {text} is outside the sheet")
                    continue
                if titles[c_] != ru["col"]:
                    add("origin-column", f"{where}: origin {text} is in column titled {titles[c_]!r}, not {ru['col']!r}")
                try:
                    want = ref_convert(ru["cv"], rows[r_][c_])
                except _Bad:
                    want = ["<conversion error>"]
                if want != v:
                    add("origin-value", f"{where}: value {v!r} but the cell at {text} holds {rows[r_][c_]!r} -> {want!r}")
                _check_position(add, where, ladder, rows, filled, R, r_, c_, text)
                continue
            # ---- ranged attribute
            keys_ok = {}
            for k, ko in zip(case["qkeys"], a["ko"]):
                if k in run_keys:
                    if ko[0] != "ok" or parse_coord(ko[1]) is None:
                        add("range-detect", f"{where}: column {k!r} belongs to the range group but get_attr_origin(attr, {k!r}) = {ko!r}")
                    else:
                        keys_ok[k] = parse_coord(ko[1])
                elif ko[0] == "ok":
                    add("range-detect", f"{where}: {k!r} is not a column of the range group but has origin {ko[1]!r}")
            if v[0] == "d":
                got_keys = {k for k, _ in v[1]}
                if got_keys != run_keys:
                    add("range-detect", f"{where}: keys {sorted(got_keys)!r}, the range group is {sorted(run_keys)!r} (titles {titles!r})")
            elif v[0] == "S":
                if not set(v[1]) <= run_keys:
                    add("range-detect", f"{where}: members {v[1]!r} outside the range group {sorted(run_keys)!r}")
            else:
                add("range-value", f"{where}: value {v!r} is neither dict nor set")
                continue
            cells = []
            for k, (r_, c_) in keys_ok.items():
                if not (0 <= r_ < len(rows) and 0 <= c_ < len(rows[r_])):
                    add("origin-outside", f"{where}: origin of key {k!r} is outside the sheet")
                    continue
                cells.append((r_, c_))
                if titles[c_] != k:
                    add("origin-column", f"{where}: origin of key {k!r} is in column titled {titles[c_]!r}")
                try:
                    want = ref_convert(ru["cv"], rows[r_][c_])
                except _Bad:
                    want = ["<conversion error>"]
                if v[0] == "d":
                    got = dict((kk, vv) for kk, vv in v[1]).get(k)
                    if got != want:
                        add("origin-value", f"{where}: value[{k!r}] = {got!r} but the cell at {coord(r_, c_)} holds {rows[r_][c_]!r} -> {want!r}")
                else:
                    if want != ["<conversion error>"] and (k in v[1]) != _truthy(want):
                        add("origin-value", f"{where}: membership of {k!r} is {k in v[1]} but the cell at {coord(r_, c_)} holds {rows[r_][c_]!r}")
                _check_position(add, where + f" key {k!r}", ladder, rows, filled, R, r_, c_, coord(r_, c_))
            # the range text: "<first>:<last>" must name the leftmost and the rightmost source cell
            if len(keys_ok) == len(run_keys) and len(case["qkeys"]) > len(titles) - titles.count(""):
                pass
            all_keys_queried = run_keys <= set(case["qkeys"])
            if all_keys_queried:
                cs = sorted(set(cells), key=lambda rc: (rc[1], rc[0]))
                if not cs:
                    want_text = None
                    if parse_coord(text) is not None or ":" in text:
                        add("origin-range-text", f"{where}: no source cells but origin {text!r}")
                elif len(cs) == 1:
                    want_text = coord(*cs[0])
                else:
                    want_text = coord(*cs[0]) + ":" + coord(*cs[-1])
                if want_text is not None and text != want_text:
                    letters = {len(col_letters(c)) for _, c in cs}
                    sig = "origin-range-string-sort" if len(letters) > 1 and _string_sorted_text(cs) == text else "origin-range-text"
                    add(sig, f"{where}: get_attr_origin reports {text!r}, the source cells are "
                             f"{[coord(*x) for x in cs]!r} (expected {want_text!r})")

    # ---- (3) ladder: same objects as the filled-in table read plainly
    if ladder and "filled" in obs and not misuse:
        f = obs["filled"]
        mine = [None if it is None else [a["v"] for a in it["attrs"]] for it in items]
        theirs = [None if it is None else [a["v"] for a in it["attrs"]] for it in f["items"]]
        if mine != theirs or err != f["err"]:
            sig = "ladder-equiv"
            if stop == "blank first" and err is None and len(mine) <= len(theirs) and mine == theirs[:len(mine)]:
                t2, d2 = _table_rows(filled, stop)
                fcp = next((i for i, x in enumerate(titles) if x), None)
                # exactly the open finding: ladder, stop_on='blank first', the ladder starts in the first sheet column,
                # the readings agree up to a row whose own first cell is blank ('same as above': non-blank once filled in),
                # where the ladder reading ended without an exception
                if len(mine) < len(d2) and fcp == 0 and _is_blank(rows[d2[len(mine)]][0]) \
                        and not _is_blank(filled[d2[len(mine)]][0]):
                    sig = "ladder-blank-first"
            add(sig, f"ladder reading gives {len(mine)} items (err {err}), the filled-in table read plainly gives "
                     f"{len(theirs)} (err {f['err']}); rows={rows!r} stop_on={stop!r}; first difference at "
                     f"{next((i for i, (x, y) in enumerate(zip(mine, theirs)) if x != y), min(len(mine), len(theirs)))}")
    # de-duplicate signatures, keep the first message of each
    seen = set()
    uniq = []
    for sig, msg in out:
        if sig not in seen:
            seen.add(sig)
            uniq.append((sig, msg[:1500]))
    return uniq


def _string_sorted_text(cs):
    texts = sorted(coord(*x) for x in cs)
    return texts[0] + ":" + texts[-1]


def _check_position(add, where, ladder, rows, filled, R, r_, c_, text):
    if not ladder:
        if r_ != R:
            add("origin-row", f"{where}: origin {text} is not in the object's row {R + 1}")
        return
    # ladder: the origin is the cell that actually holds the value of the filled-in table
    if r_ > R:
        add("ladder-origin", f"{where}: origin {text} lies below the object's row {R + 1}")
    elif r_ != R and not _is_blank(rows[R][c_]):
        add("ladder-origin", f"{where}: own cell {coord(R, c_)} is not blank but the origin is {text}")
    elif filled[R][c_] != rows[r_][c_] or type(filled[R][c_]) is not type(rows[r_][c_]):
        add("ladder-origin", f"{where}: origin {text} holds {rows[r_][c_]!r}, the filled-in table has {filled[R][c_]!r}")
    elif r_ != R and any(not _is_blank(rows[x][c_]) for x in range(r_ + 1, R)):
        add("ladder-origin", f"{where}: origin {text} is not the nearest filled cell above {coord(R, c_)}")


_UNKNOWN = object()


def _is_misuse(case, titles):
    """rule sets the class cannot be used with (AttributeError/AssertionError/IndexError by construction):
    the first attribute and the id attributes must be read from single cells of present columns"""
    rules = case["rules"]
    if not rules or case["nid"] > len(rules):
        return True
    for ru in rules[:max(1, case["nid"])]:
        if ru["t"] != "plain" or ru["col"] not in titles:
            return True
    return False


def _ref_attr_value(ru, row, titles, run_cols):
    """value the rule gives on a (filled) row, _UNKNOWN when it cannot be computed simply"""
    if ru["t"] == "ext":
        return _canon_simple(ru["def"]["v"])
    if ru["t"] == "range":
        return ["d"]      # never None
    cols = [i for i, t in enumerate(titles) if t == ru["col"]]
    if not cols:
        return _canon_simple(ru["def"]["v"]) if "def" in ru else _UNKNOWN
    if len(cols) > 1:
        return _UNKNOWN
    try:
        return ref_convert(ru["cv"], row[cols[0]])
    except _Bad:
        return _UNKNOWN


def _legit_error(case, filled, t, titles, data_idx, n_items):
    """reason why the reading may raise after n_items items, or None"""
    rules = case["rules"]
    if t is None:
        return None
    run_cols = _expected_run(titles, rules)
    for ru in rules:
        if ru["t"] == "plain" and ru["col"] not in titles and "def" not in ru:
            return "required column missing"
        if ru["t"] == "range" and not run_cols and "def" not in ru:
            return "no columns for a ranged attribute"
    if n_items >= len(data_idx):
        return None
    row = filled[data_idx[n_items]]
    for ru in rules:
        if ru["t"] == "plain":
            for c, tt in enumerate(titles):
                if tt == ru["col"]:
                    try:
                        ref_convert(ru["cv"], row[c])
                    except _Bad:
                        return "cell does not convert"
        elif ru["t"] == "range":
            for c in range(len(titles)):
                if titles[c] in {titles[x] for x in run_cols}:
                    try:
                        ref_convert(ru["cv"], row[c])
                    except _Bad:
                        return "range cell does not convert"
    return None


def nontrivial(case, obs):
    return isinstance(obs, dict) and any(it is not None for it in obs.get("items", []))


def outcome(case, obs):
    if "__hang__" in obs:
        return "hang"
    return f"{'err:' + obs['err'] if obs['err'] else 'ok'}:{min(len(obs['items']), 4)}{'+' if len(obs['items']) > 4 else ''}"


def shrink_candidates(case):
    rows = case["rows"]
    # drop a row
    for i in range(len(rows) - 1, -1, -1):
        c = dict(case)
        c["rows"] = rows[:i] + rows[i + 1:]
        yield c
    # drop a column
    if rows:
        w = max(len(r) for r in rows)
        for j in range(w - 1, -1, -1):
            c = dict(case)
            c["rows"] = [r[:j] + r[j + 1:] for r in rows]
            yield c
    # drop the last attribute
    if len(case["rules"]) > 1:
        c = dict(case)
        c["rules"] = case["rules"][:-1]
        c["nid"] = min(case["nid"], len(c["rules"]))
        yield c


TECHNIQUE = ("Coq proofs (structural induction over rows / columns, invariants of the row loop, refinement of the ladder "
             "loop to a fill-down specification) on a hand-written Gallina model + per-run correspondence check "
             "(vm_compute vs implementation on generated worksheets) + constants regenerated from the source")
LEVEL_TEXT = ("Full (model level, all sheets / rule sets, unbounded rows and columns): origin_consistent (every attribute of every "
              "produced object is the conversion of the sheet cell(s) at its recorded origin, in a column with the declared / "
              "detected title, or the declared default with the marker origin), origin_reported + range_key_consistent "
              "(get_attr_origin renders exactly the recorded origin, per key too), rows_in_order (one item per data row, in order, "
              "up to the end row of the chosen rule; origins lie in the object's row, ladder: between the first data row and the "
              "object's row), range_detect + range_columns (the range group is the first maximal run of titled unknown columns), "
              "range_text_extremes + range_text (the text of a whole ranged attribute is '<leftmost source cell>:<rightmost source "
              "cell>' for any number of columns -- A..Z, AA.. are proved to be ordered by the sort key -- and for source cells of "
              "different rows as in a ladder reading), ladder_origins (ladder: every origin, single-cell or per key of a ranged "
              "attribute, is the cell that holds what the filled-in table has, the object's own cell unless that is blank), "
              "ladder_equiv (ladder reading = plain reading of the filled-in table, default end rule) and ladder_equiv_guarded "
              "('blank first' when the first sheet column is not part of the ladder).  Refuted: ladder_equiv_statement (both end "
              "rules) by ladder_blank_first_refuted -- open finding ladder-blank-first; what does hold there is ladder_prefix (the "
              "ladder reading is a prefix of the filled-in reading and ends, without exception, at a row whose first cell is blank).  "
              "Tested only (correspondence + oracle, no theorem): that a reading raises only where a declared rule cannot be applied "
              "(oracle signature unexpected-error), that a row yields None only when its id values are all None (spurious-none), the "
              "incl_ws prefix (not modelled).  Theorems are about the Gallina model; its agreement with ak/xlsread.py is checked per "
              "run, not proved.")
LEVEL_NOTE = ("Trusted: Coq kernel + vm_compute; fidelity of the hand model (checked by correspondence, not proved); "
              "python str/==/sorting semantics mirrored in the model; the ast extractor and harness.")
DESIGN_REF = "DESIGN.md section 8, C18"
