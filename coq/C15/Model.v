(* C15/Model.v -- executable model of ak/mtd_sql.py: SqlFilterCondition.make,
   SqlFieldValCondition (operator normalisation + make_text_update_values),
   SqlOrCondition, SqlMethod._execute / list / all / one / one_or_none and the
   thin SqlMethodT wrappers of ak/mcaller_sql.py.

   Strings are lists of code points.  Every literal of the anchored code that
   matters (clause tables, operator groups of the two if-chains, "0"/"1"/"FALSE",
   separators, WHERE/AND/GROUP BY/ORDER BY) comes from gen/C15_Consts.v, which is
   regenerated from the source on every run.

   The second half is a small *specification of the SQL fragment* the code emits:
   a lexer for the literal pieces, a precedence-respecting evaluator of WHERE
   expressions over tokens in three-valued logic (atom comparison and LIKE are
   parameters), and a concrete instance of SQLite's comparison / LIKE for
   NULL / INTEGER / TEXT values in columns without affinity, used by Run.v for
   the row correspondence against the real sqlite3.  No proofs in this file. *)
From Coq Require Import ZArith List Bool.
From AK Require Import Common.Sx Common.Err gen.C15_Consts.
Import ListNotations.
Open Scope Z_scope.

Notation str := (list Z).

Fixpoint str_eqb (a b : str) : bool :=
  match a, b with
  | [], [] => true
  | x :: a', y :: b' => (x =? y) && str_eqb a' b'
  | _, _ => false
  end.

(* ------------------------------------------------------------------ *)
(* python values that reach the conditions                              *)

Inductive scalar := SNone | SInt (z : Z) | SStr (s : str).
(* a list / tuple / set of scalars (for a set [l] is the iteration order of the
   python object) *)
Inductive ckind := KList | KTuple | KSet.
Definition kind_code (k : ckind) : Z := match k with KList => 0 | KTuple => 1 | KSet => 2 end.
Inductive pyval := VS (a : scalar) | VSeq (k : ckind) (l : list scalar).

(* what can be passed as a filter argument *)
Inductive arg :=
| ANone                                              (* None *)
| AText (s : str)                                    (* "static condition" *)
| ATup3 (f : option str) (op : option (str * str)) (v : pyval)
        (* (field, op, value); op = Some (op, op.upper()) for a str, None otherwise *)
| ATup2 (f : option str) (v : pyval)                 (* (field, value) *)
| ATupN                                              (* list/tuple of another length *)
| AOr (l : list arg) (kw : list (str * pyval))       (* SqlMethod._or(l..., kw...) *)
| ABad.                                              (* any other object *)

(* SqlFilterCondition objects *)
Inductive cond :=
| CStatic (text : str)                     (* field_name None; op = " " + op + " " *)
| CField (f : str) (op : str) (v : pyval)  (* op after normalisation *)
| COr (l : list cond).

(* ------------------------------------------------------------------ *)
(* operator groups of the if-chains                                     *)

Definition in_group (op : str) (g : list str) : bool := existsb (str_eqb op) g.

Fixpoint classify (op : str) (gs : list (list str)) (i : nat) : option nat :=
  match gs with
  | [] => None
  | g :: r => if in_group op g then Some i else classify op r (S i)
  end.

Definition is_kind (kinds : list Z) (v : pyval) : bool :=
  match v with VSeq k _ => existsb (Z.eqb (kind_code k)) kinds | VS _ => false end.

(* `A if self.op == L else B` *)
Definition pick (t : str * str * str) (op : str) : str :=
  let '(l, a, b) := t in if str_eqb op l then a else b.

(* SqlFieldValCondition.__init__(field_name, op, value); [up] = op.upper() *)
Definition mk_field (f : option str) (raw up : str) (v : pyval) : res cond :=
  match f with
  | None =>
      match v with
      | VS SNone => Ok (CStatic (fst static_pad ++ raw ++ snd static_pad))
      | _ => Err AssertErr
      end
  | Some fn =>
      match classify up init_groups 0 with
      | Some 0%nat =>
          match v with
          | VS SNone => Ok (CField fn (pick null_test up) v)
          | _ => if is_kind seq_kinds_eq v then Ok (CField fn (pick seq_test up) v)
                 else Ok (CField fn up v)
          end
      | Some 1%nat => if is_kind seq_kinds_in v then Ok (CField fn up v) else Err ValueErr
      | Some 2%nat => match v with VS SNone => Ok (CField fn up v) | _ => Err ValueErr end
      | Some 3%nat => match v with VS (SStr _) => Ok (CField fn up v) | _ => Err ValueErr end
      | Some 4%nat => Ok (CField fn up v)
      | _ => Err ValueErr
      end
  end.

Definition op_eq : str := [61].   (* the '=' of a 2-tuple / keyword filter *)

(* sorted(kwargs.items()): keys are distinct, so only keys are compared *)
Fixpoint str_leb (a b : str) : bool :=
  match a, b with
  | [], _ => true
  | _ :: _, [] => false
  | x :: a', y :: b' => if x <? y then true else if y <? x then false else str_leb a' b'
  end.

Fixpoint kw_insert (e : str * pyval) (l : list (str * pyval)) : list (str * pyval) :=
  match l with
  | [] => [e]
  | x :: r => if str_leb (fst e) (fst x) then e :: l else x :: kw_insert e r
  end.

Definition sort_kw (l : list (str * pyval)) : list (str * pyval) := fold_right kw_insert [] l.

Definition kw_results (l : list (str * pyval)) : list (bool * res cond) :=
  map (fun e => (false, mk_field (Some (fst e)) op_eq op_eq (snd e))) l.

Definition is_or (a : arg) : bool := match a with AOr _ _ => true | _ => false end.

(* Order in which python raises: SqlMethod._or(...) objects are built while the
   arguments of the enclosing call are evaluated, i.e. before the enclosing
   constructor / _execute looks at any operand.  [rs] = (is it an _or object,
   result of make) per operand, in order. *)
Fixpoint first_err (rs : list (bool * res cond)) : option err :=
  match rs with
  | [] => None
  | (_, Err e) :: _ => Some e
  | (_, Ok _) :: r => first_err r
  end.

Fixpoint all_ok (rs : list (bool * res cond)) : list cond :=
  match rs with
  | [] => []
  | (_, Ok c) :: r => c :: all_ok r
  | (_, Err _) :: r => all_ok r
  end.

Definition collect (rs : list (bool * res cond)) : res (list cond) :=
  match first_err (filter fst rs) with
  | Some e => Err e
  | None => match first_err rs with
            | Some e => Err e
            | None => Ok (all_ok rs)
            end
  end.

(* SqlFilterCondition.make (and SqlOrCondition.__init__) *)
Fixpoint make (a : arg) : res cond :=
  match a with
  | ANone => Err ValueErr
  | ABad => Err ValueErr
  | ATupN => Err ValueErr
  | AText s => mk_field None s s (VS SNone)
  | ATup3 f None v => Err AttrErr
  | ATup3 f (Some (raw, up)) v => mk_field f raw up v
  | ATup2 f v => mk_field f op_eq op_eq v
  | AOr l kw =>
      let fix go (l : list arg) : list (bool * res cond) :=
        match l with
        | [] => []
        | x :: r => (is_or x, make x) :: go r
        end in
      bind (collect (go l ++ kw_results (sort_kw kw))) (fun cs => Ok (COr cs))
  end.

(* ------------------------------------------------------------------ *)
(* make_text_update_values                                              *)

(* the text is kept as the pieces the code concatenates *)
Inductive piece := PField (s : str) | PStatic (s : str) | PLit (s : str).

Definition piece_text (p : piece) : str :=
  match p with PField s => s | PStatic s => s | PLit s => s end.

Definition pieces_text (l : list piece) : str := concat (map piece_text l).

Fixpoint assoc_Z {A} (k : Z) (l : list (Z * A)) : option A :=
  match l with
  | [] => None
  | (k', v) :: r => if k =? k' then Some v else assoc_Z k r
  end.

Fixpoint assoc_str {A} (k : str) (l : list (str * A)) : option A :=
  match l with
  | [] => None
  | (k', v) :: r => if str_eqb k k' then Some v else assoc_str k r
  end.

(* self._SQL_CLAUSES[placeholders_type][key] *)
Definition lookup_clause (pt : Z) (key : str) : res str :=
  match assoc_Z pt clause_tables with
  | None => Err KeyErr
  | Some tab => match assoc_str key tab with None => Err KeyErr | Some t => Ok t end
  end.

(* sep.join(l) on piece lists *)
Fixpoint join_pieces (sep : list piece) (l : list (list piece)) : list piece :=
  match l with
  | [] => []
  | [x] => x
  | x :: r => x ++ sep ++ join_pieces sep r
  end.

Definition nonempty {A} (l : list A) : bool := match l with [] => false | _ => true end.

Fixpoint cond_text (pt : Z) (c : cond) : res (list piece * list pyval) :=
  match c with
  | CStatic t => Ok ([PStatic t], [])
  | CField f op v =>
      match classify op text_groups 0 with
      | Some 0%nat | Some 2%nat =>
          bind (lookup_clause pt op) (fun cl => Ok ([PField f; PLit cl], [v]))
      | Some 1%nat =>
          match v with
          | VSeq _ l =>
              if nonempty l then
                bind (lookup_clause pt op) (fun cl =>
                bind (lookup_clause pt ph_key) (fun ph =>
                  Ok ([PField f; PLit cl; PLit in_open]
                        ++ join_pieces [PLit in_sep] (map (fun _ => [PLit ph]) l)
                        ++ [PLit in_close],
                      map VS l)))
              else Ok ([PLit (pick empty_in op)], [])
          | VS _ => Err AssertErr
          end
      | _ =>
          if in_group op (nth 3 text_groups []) then
            bind (lookup_clause pt op) (fun cl => Ok ([PField f; PLit cl], []))
          else Err AssertErr
      end
  | COr l =>
      let fix go (l : list cond) : res (list (list piece) * list pyval) :=
        match l with
        | [] => Ok ([], [])
        | x :: r =>
            bind (cond_text pt x) (fun pv =>
            bind (go r) (fun pvs => Ok (fst pv :: fst pvs, snd pv ++ snd pvs)))
        end in
      match l with
      | [] => Ok ([PLit or_empty], [])
      | _ => bind (go l) (fun pvs =>
               Ok ([PLit or_open] ++ join_pieces [PLit or_sep] (fst pvs) ++ [PLit or_close], snd pvs))
      end
  end.

(* ------------------------------------------------------------------ *)
(* SqlMethod._execute: statement assembly                               *)

Definition is_none (a : arg) : bool := match a with ANone => true | _ => false end.

(* filters = [make(x) for x in args if x is not None] *)
Definition make_all (l : list arg) : res (list cond) :=
  collect (map (fun x => (is_or x, make x)) (filter (fun x => negb (is_none x)) l)).

Fixpoint texts_all (pt : Z) (l : list cond) : res (list (list piece) * list pyval) :=
  match l with
  | [] => Ok ([], [])
  | x :: r =>
      bind (cond_text pt x) (fun pv =>
      bind (texts_all pt r) (fun pvs => Ok (fst pv :: fst pvs, snd pv ++ snd pvs)))
  end.

Record method := { m_select : str; m_group : option str; m_order : option str }.

Record query := {
  q_sql : str;
  q_params : list pyval;
  q_where : list piece      (* the expression after WHERE; [] when there is no WHERE *)
}.

Definition kw_args (kw : list (str * pyval)) : list arg :=
  map (fun e => ATup2 (Some (fst e)) (snd e)) (sort_kw kw).

(* [kw_order]: the `_order_by` keyword: None = not given, Some o = given (o may be None) *)
Definition build (mysql : bool) (m : method) (kw_ord : option (option str))
                 (args : list arg) (kw : list (str * pyval)) : res query :=
  let pt := if mysql then ph_percent else ph_question in
  let order := match kw_ord with Some o => o | None => m_order m end in
  bind (make_all (args ++ kw_args kw)) (fun filters =>
  bind (texts_all pt filters) (fun pvs =>
    let wh := join_pieces [PLit kw_and] (fst pvs) in
    Ok {| q_sql := m_select m
                   ++ (if nonempty filters then kw_where ++ pieces_text wh else [])
                   ++ (match m_group m with
                       | Some g => if nonempty g then kw_group ++ g else []
                       | None => [] end)
                   ++ (match order with Some o => kw_order ++ o | None => [] end);
          q_params := snd pvs;
          q_where := wh |})).

(* ================================================================== *)
(* SQL side: tokens of the emitted fragment                             *)

Inductive cop := CEq | CNe | CLt | CGt | CLe | CGe.

Inductive tok :=
| TId (s : str)        (* a column reference: the field_name, taken as one operand *)
| TStatic (s : str)    (* a static condition text, taken as one boolean operand *)
| TQ                   (* a placeholder *)
| TLP | TRP | TComma
| TAnd | TOr | TNot | TIn | TIs | TNull | TLike
| TOp (c : cop)
| TNum (z : Z) | TFalse | TTrue
| TBad.

Definition is_digit (c : Z) : bool := (48 <=? c) && (c <=? 57).
Definition is_word (c : Z) : bool :=
  is_digit c || ((65 <=? c) && (c <=? 90)) || ((97 <=? c) && (c <=? 122)) || (c =? 95).
Definition up_ascii (c : Z) : Z := if (97 <=? c) && (c <=? 122) then c - 32 else c.

Fixpoint num_of (w : str) (acc : Z) : Z :=
  match w with [] => acc | c :: r => num_of r (acc * 10 + (c - 48)) end.

(* a maximal run of word characters *)
Definition word_tok (w : str) : tok :=
  if forallb is_digit w then TNum (num_of w 0) else
  let u := map up_ascii w in
  if str_eqb u [65;78;68] then TAnd else
  if str_eqb u [79;82] then TOr else
  if str_eqb u [78;79;84] then TNot else
  if str_eqb u [73;78] then TIn else
  if str_eqb u [73;83] then TIs else
  if str_eqb u [78;85;76;76] then TNull else
  if str_eqb u [76;73;75;69] then TLike else
  if str_eqb u [70;65;76;83;69] then TFalse else
  if str_eqb u [84;82;85;69] then TTrue else TBad.

Definition flush (w : str) : list tok :=
  match w with [] => [] | _ => [word_tok (rev w)] end.

(* lexer for the literal pieces; [w] is the current word, reversed *)
Fixpoint lex_go (s : str) (w : str) : list tok :=
  match s with
  | [] => flush w
  | c :: r =>
      if is_word c then lex_go r (c :: w) else
      flush w ++
      (if c =? 32 then lex_go r [] else
       if c =? 63 then TQ :: lex_go r [] else
       if c =? 40 then TLP :: lex_go r [] else
       if c =? 41 then TRP :: lex_go r [] else
       if c =? 44 then TComma :: lex_go r [] else
       if c =? 61 then TOp CEq :: lex_go r [] else
       if c =? 37 then                                  (* %s *)
         match r with
         | 115 :: r' => TQ :: lex_go r' []
         | _ => TBad :: lex_go r []
         end else
       if c =? 33 then                                  (* != *)
         match r with
         | 61 :: r' => TOp CNe :: lex_go r' []
         | _ => TBad :: lex_go r []
         end else
       if c =? 60 then                                  (* < <= <> *)
         match r with
         | 61 :: r' => TOp CLe :: lex_go r' []
         | 62 :: r' => TOp CNe :: lex_go r' []
         | _ => TOp CLt :: lex_go r []
         end else
       if c =? 62 then                                  (* > >= *)
         match r with
         | 61 :: r' => TOp CGe :: lex_go r' []
         | _ => TOp CGt :: lex_go r []
         end else
       TBad :: lex_go r [])
  end.

Definition lex (s : str) : list tok := lex_go s [].

Definition piece_toks (p : piece) : list tok :=
  match p with
  | PField s => [TId s]
  | PStatic s => [TStatic s]
  | PLit s => lex s
  end.

Definition pieces_toks (l : list piece) : list tok := flat_map piece_toks l.

(* ------------------------------------------------------------------ *)
(* three-valued logic                                                   *)

Inductive tv := T | F | U.

Definition and3 (a b : tv) : tv :=
  match a, b with
  | F, _ => F | _, F => F
  | T, T => T
  | _, _ => U
  end.
Definition or3 (a b : tv) : tv :=
  match a, b with
  | T, _ => T | _, T => T
  | F, F => F
  | _, _ => U
  end.
Definition not3 (a : tv) : tv := match a with T => F | F => T | U => U end.
Definition tv_of_bool (b : bool) : tv := if b then T else F.
Definition is_null (a : scalar) : bool := match a with SNone => true | _ => false end.

(* ------------------------------------------------------------------ *)
(* evaluation of a WHERE expression given as tokens, for one row.
   Grammar (SQLite precedence: OR < AND < predicates):
     expr := conj [OR expr]      conj := atom [AND conj]
     atom := ( expr ) | number | FALSE | TRUE | static
           | col op ? | col [NOT] LIKE ? | col IS [NOT] NULL | col [NOT] IN ( [? {, ?}] )
   Placeholders take the parameters from left to right.  None = the statement
   is not a sentence of the fragment / wrong number or kind of parameters /
   unknown column (the real engine raises). *)
Section Eval.
  Variable cmpf : cop -> scalar -> scalar -> tv.     (* x op y on two values *)
  Variable likef : scalar -> scalar -> tv.           (* x LIKE y *)
  Variable staticf : str -> option tv.               (* truth of a static text on this row *)
  Variable col : str -> option scalar.               (* column values of this row *)

  Definition pop (ps : list pyval) : option (scalar * list pyval) :=
    match ps with
    | VS a :: r => Some (a, r)
    | _ => None             (* nothing left, or a container (cannot be bound) *)
    end.

  (* x IN (v1, ..., vn) = x = v1 OR ... OR x = vn ; the empty list gives false *)
  Definition in3 (x : scalar) (vs : list scalar) : tv :=
    fold_right (fun v acc => or3 (cmpf CEq x v) acc) F vs.

  (* `? , ? , ... )` *)
  Fixpoint eval_inlist (ts : list tok) (ps : list pyval)
    : option (list scalar * list tok * list pyval) :=
    match ts with
    | TRP :: r => Some ([], r, ps)
    | TQ :: TRP :: r =>
        match pop ps with Some (a, ps') => Some ([a], r, ps') | None => None end
    | TQ :: TComma :: r =>
        match pop ps with
        | Some (a, ps') =>
            match eval_inlist r ps' with
            | Some (vs, r', ps'') => Some (a :: vs, r', ps'')
            | None => None
            end
        | None => None
        end
    | _ => None
    end.

  Definition eval_pred (x : scalar) (ts : list tok) (ps : list pyval)
    : option (tv * list tok * list pyval) :=
    match ts with
    | TOp c :: TQ :: r =>
        match pop ps with Some (a, ps') => Some (cmpf c x a, r, ps') | None => None end
    | TLike :: TQ :: r =>
        match pop ps with Some (a, ps') => Some (likef x a, r, ps') | None => None end
    | TNot :: TLike :: TQ :: r =>
        match pop ps with Some (a, ps') => Some (not3 (likef x a), r, ps') | None => None end
    | TIs :: TNull :: r => Some (tv_of_bool (is_null x), r, ps)
    | TIs :: TNot :: TNull :: r => Some (tv_of_bool (negb (is_null x)), r, ps)
    | TIn :: TLP :: r =>
        match eval_inlist r ps with
        | Some (vs, r', ps') => Some (in3 x vs, r', ps')
        | None => None
        end
    | TNot :: TIn :: TLP :: r =>
        match eval_inlist r ps with
        | Some (vs, r', ps') => Some (not3 (in3 x vs), r', ps')
        | None => None
        end
    | _ => None
    end.

  Fixpoint eval_or (fuel : nat) (ts : list tok) (ps : list pyval)
    : option (tv * list tok * list pyval) :=
    match fuel with
    | O => None
    | S n =>
        match eval_and n ts ps with
        | Some (v, TOr :: r, ps') =>
            match eval_or n r ps' with
            | Some (v', r', ps'') => Some (or3 v v', r', ps'')
            | None => None
            end
        | x => x
        end
    end
  with eval_and (fuel : nat) (ts : list tok) (ps : list pyval)
    : option (tv * list tok * list pyval) :=
    match fuel with
    | O => None
    | S n =>
        match eval_atom n ts ps with
        | Some (v, TAnd :: r, ps') =>
            match eval_and n r ps' with
            | Some (v', r', ps'') => Some (and3 v v', r', ps'')
            | None => None
            end
        | x => x
        end
    end
  with eval_atom (fuel : nat) (ts : list tok) (ps : list pyval)
    : option (tv * list tok * list pyval) :=
    match fuel with
    | O => None
    | S n =>
        match ts with
        | TLP :: r =>
            match eval_or n r ps with
            | Some (v, TRP :: r', ps') => Some (v, r', ps')
            | _ => None
            end
        | TNum z :: r => Some (tv_of_bool (negb (z =? 0)), r, ps)
        | TFalse :: r => Some (F, r, ps)
        | TTrue :: r => Some (T, r, ps)
        | TStatic s :: r =>
            match staticf s with Some v => Some (v, r, ps) | None => None end
        | TId f :: r =>
            match col f with Some x => eval_pred x r ps | None => None end
        | _ => None
        end
    end.

  Definition fuel_for (ts : list tok) : nat := 3 * length ts + 3.

  (* the whole WHERE expression: all tokens and all parameters are used up *)
  Definition eval_where (ts : list tok) (ps : list pyval) : option tv :=
    match eval_or (fuel_for ts) ts ps with
    | Some (v, [], []) => Some v
    | _ => None
    end.
End Eval.

(* ------------------------------------------------------------------ *)
(* SQLite's comparison and LIKE on NULL / INTEGER / TEXT values, columns
   without affinity (no conversion before comparing)                      *)

Fixpoint str_compare (a b : str) : comparison :=
  match a, b with
  | [], [] => Eq
  | [], _ => Lt
  | _, [] => Gt
  | x :: a', y :: b' => match x ?= y with Eq => str_compare a' b' | c => c end
  end.

Definition scalar_compare (a b : scalar) : option comparison :=
  match a, b with
  | SNone, _ | _, SNone => None
  | SInt x, SInt y => Some (x ?= y)
  | SInt _, SStr _ => Some Lt            (* INTEGER sorts before TEXT *)
  | SStr _, SInt _ => Some Gt
  | SStr x, SStr y => Some (str_compare x y)
  end.

Definition sqlite_cmp (c : cop) (a b : scalar) : tv :=
  match scalar_compare a b with
  | None => U
  | Some r =>
      tv_of_bool
        match c, r with
        | CEq, Eq => true | CEq, _ => false
        | CNe, Eq => false | CNe, _ => true
        | CLt, Lt => true | CLt, _ => false
        | CGt, Gt => true | CGt, _ => false
        | CLe, Gt => false | CLe, _ => true
        | CGe, Lt => false | CGe, _ => true
        end
  end.

Fixpoint pos_digits (fuel : nat) (n : Z) (acc : str) : str :=
  match fuel with
  | O => acc
  | S f => if n <? 10 then (48 + n) :: acc else pos_digits f (n / 10) ((48 + n mod 10) :: acc)
  end.
Definition dec (z : Z) : str :=
  if z <? 0 then 45 :: pos_digits (S (Z.to_nat (Z.log2 (- z)))) (- z) []
  else pos_digits (S (Z.to_nat (Z.log2 z))) z [].

Definition lower_ascii (c : Z) : Z := if (65 <=? c) && (c <=? 90) then c + 32 else c.

(* LIKE: % = any sequence, _ = one character, ASCII case-insensitive, no escape *)
Fixpoint like_match (p s : str) : bool :=
  match p with
  | [] => match s with [] => true | _ => false end
  | c :: p' =>
      if c =? 37 then
        (fix try (s : str) : bool :=
           like_match p' s || match s with [] => false | _ :: s' => try s' end) s
      else
        match s with
        | [] => false
        | d :: s' => ((c =? 95) || (lower_ascii c =? lower_ascii d)) && like_match p' s'
        end
  end.

Definition text_of (a : scalar) : option str :=
  match a with SNone => None | SInt z => Some (dec z) | SStr s => Some s end.

Definition sqlite_like (x pat : scalar) : tv :=
  match text_of x, text_of pat with
  | Some s, Some p => tv_of_bool (like_match p s)
  | _, _ => U
  end.

(* ------------------------------------------------------------------ *)
(* running a query on a table                                           *)

Record row := { r_id : Z; r_cols : list (str * scalar) }.

(* truth of the static texts per row, measured on the real engine by the harness:
   text -> row id -> 1 / 0 / 2 (NULL) *)
Notation statics := (list (str * list (Z * Z))).

Fixpoint trim_l (s : str) : str :=
  match s with 32 :: r => trim_l r | _ => s end.
Definition trim (s : str) : str := rev (trim_l (rev (trim_l s))).

Definition static_of (st : statics) (r : row) (text : str) : option tv :=
  match assoc_str (trim text) st with
  | None => None
  | Some per_row =>
      match assoc_Z (r_id r) per_row with
      | Some 1 => Some T | Some 0 => Some F | Some 2 => Some U
      | _ => None
      end
  end.

Section Exec.
  Variable cmpf : cop -> scalar -> scalar -> tv.
  Variable likef : scalar -> scalar -> tv.

  Definition row_truth (st : statics) (q : query) (r : row) : option tv :=
    match q_where q with
    | [] => match q_params q with [] => Some T | _ => None end
    | wh => eval_where cmpf likef (static_of st r)
                       (fun f => assoc_str f (r_cols r)) (pieces_toks wh) (q_params q)
    end.

  (* ids of the rows whose WHERE expression is true, in table order *)
  Fixpoint select_rows (st : statics) (q : query) (rows : list row) : option (list Z) :=
    match rows with
    | [] => Some []
    | r :: rest =>
        match row_truth st q r, select_rows st q rest with
        | Some v, Some ids => Some (match v with T => r_id r :: ids | _ => ids end)
        | _, _ => None
        end
    end.
End Exec.

Fixpoint insert_Z (x : Z) (l : list Z) : list Z :=
  match l with
  | [] => [x]
  | y :: r => if x <=? y then x :: l else y :: insert_Z x r
  end.
Definition sort_Z (l : list Z) : list Z := fold_right insert_Z [] l.

(* what the caller gets *)
Inductive outcome := ORows (ids : list Z) | ONothing | OOne (id : Z).

(* 0 list, 1 all, 2 one, 3 one_or_none, 4-6 SqlMethodT.list / one / one_or_none *)
Definition finish (mtd : Z) (ids : list Z) : res outcome :=
  if (mtd =? 0) || (mtd =? 1) || (mtd =? 4) then Ok (ORows ids) else
  if mtd =? 3 then
    match ids with
    | [] => Ok ONothing
    | [x] => Ok (OOne x)
    | _ => Err ValueErr
    end else
  if mtd =? 2 then
    match ids with
    | [x] => Ok (OOne x)
    | _ => Err ValueErr
    end else
  if mtd =? 5 then
    match ids with [_] => Ok (ORows ids) | _ => Err ValueErr end else
  if mtd =? 6 then
    match ids with [] | [_] => Ok (ORows ids) | _ => Err ValueErr end
  else Err OtherErr.

(* ids ascending (also the canonical form when no order was requested) or descending *)
Definition run_query (cmpf : cop -> scalar -> scalar -> tv) (likef : scalar -> scalar -> tv)
    (st : statics) (q : query) (rows : list row) (desc : bool) (mtd : Z) : res outcome :=
  if existsb (fun p => match p with VSeq _ _ => true | VS _ => false end) (q_params q)
  then Err OtherErr                           (* a container cannot be bound *)
  else
  match select_rows cmpf likef st q rows with
  | None => Err OtherErr                      (* the engine rejects the statement *)
  | Some ids => finish mtd (if desc then rev (sort_Z ids) else sort_Z ids)
  end.
