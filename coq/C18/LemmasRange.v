(* C18/LemmasRange.v -- detection of the columns of a ranged attribute
   (range_detect) and the text get_attr_origin gives for the whole range
   (guarded theorem + refutation beyond column Z). *)
From Coq Require Import ZArith List Bool Lia.
From AK Require Import Common.Sx Common.Err C18.Base gen.C18_Consts C18.Model C18.Lemmas.
Import ListNotations.

(* ------------------------------------------------------------------ *)
(* range_scan finds the first maximal run of titled, unknown columns   *)

Lemma range_scan_in known : forall names,
  exists post,
    names = range_scan known names true ++ post /\
    Forall (fun n => not_range known n = false) (range_scan known names true) /\
    (post = [] \/ exists n post', post = n :: post' /\ not_range known n = true).
Proof.
  induction names as [|n names IH]; cbn [range_scan].
  - exists []. repeat split; auto.
  - destruct (not_range known n) eqn:E.
    + exists (n :: names). repeat split; auto. right. eauto.
    + destruct IH as [post [H1 [H2 H3]]]. exists post. cbn [app]. rewrite <- H1.
      repeat split; auto.
Qed.

Lemma range_scan_spec known : forall names,
  exists pre post,
    names = pre ++ range_scan known names false ++ post /\
    Forall (fun n => not_range known n = true) pre /\
    Forall (fun n => not_range known n = false) (range_scan known names false) /\
    (post = [] \/ exists n post', post = n :: post' /\ not_range known n = true).
Proof.
  induction names as [|n names IH]; cbn [range_scan].
  - exists [], []. repeat split; auto.
  - destruct (not_range known n) eqn:E.
    + destruct IH as [pre [post [H1 [H2 [H3 H4]]]]]. exists (n :: pre), post.
      cbn [app]. rewrite <- H1. repeat split; auto.
    + destruct (range_scan_in known names) as [post [H1 [H2 H3]]]. exists [], post.
      cbn [app]. rewrite <- H1. repeat split; auto.
Qed.

(* with distinct titles the bound column of a title is its position *)
Lemma col_id_nodup names i n :
  NoDup names -> nth_error names i = Some n -> col_id names n = Some i.
Proof.
  intros Hnd Hi. destruct (col_id names n) as [i'|] eqn:E.
  - apply col_id_some in E. f_equal.
    assert (Hlt : (i' < length names)%nat) by (apply nth_error_Some; congruence).
    apply (proj1 (NoDup_nth_error names) Hnd i' i Hlt). congruence.
  - apply col_id_none in E. exfalso. apply E. eapply nth_error_In. exact Hi.
Qed.

(* ... so the cells of the range group stand in consecutive columns *)
Lemma range_cols_nodup (post : list str) : forall (run : list str) (cells : list cell) (pre : list str),
  NoDup (pre ++ run ++ post) ->
  Forall2 (fun n (x : cell) => nth_error (pre ++ run ++ post) (c_col x) = Some n) run cells ->
  map c_col cells = seq (length pre) (length run).
Proof.
  induction run as [|n run IH]; intros cells pre Hnd H; inversion H as [|? x ? cells' Hx Hrest]; subst.
  - reflexivity.
  - cbn [map length seq].
    assert (Hpos : nth_error (pre ++ (n :: run) ++ post) (length pre) = Some n).
    { rewrite nth_error_app2 by lia. rewrite Nat.sub_diag. reflexivity. }
    assert (Hc : c_col x = length pre).
    { assert (Hlt : (c_col x < length (pre ++ (n :: run) ++ post))%nat)
        by (apply nth_error_Some; congruence).
      apply (proj1 (NoDup_nth_error _) Hnd _ _ Hlt). congruence. }
    rewrite Hc. f_equal.
    assert (Heq : pre ++ (n :: run) ++ post = (pre ++ [n]) ++ run ++ post)
      by (rewrite <- app_assoc; reflexivity).
    rewrite Heq in Hnd, Hrest.
    rewrite (IH cells' (pre ++ [n]) Hnd Hrest). rewrite app_length. cbn. f_equal. lia.
Qed.

(* ------------------------------------------------------------------ *)
(* the range text                                                      *)

Lemma assoc_set_fresh {A} k (v : A) : forall d,
  ~ In k (map fst d) -> assoc_set k v d = d ++ [(k, v)].
Proof.
  induction d as [|[k' v'] d IH]; intros H; cbn [assoc_set app]; [reflexivity|].
  destruct (str_eqb k k') eqn:E.
  - apply str_eqb_eq in E. subst. exfalso. apply H. left. reflexivity.
  - rewrite IH; [reflexivity|]. intros Hin. apply H. right. exact Hin.
Qed.

Lemma dict_of_nodup {A} (l : list (str * A)) : NoDup (map fst l) -> dict_of l = l.
Proof.
  unfold dict_of.
  assert (G : forall (l d : list (str * A)), NoDup (map fst (d ++ l)) ->
                          fold_left (fun d kv => assoc_set (fst kv) (snd kv) d) l d = d ++ l).
  { clear. induction l as [|[k v] l IH]; intros d H; cbn [fold_left fst snd].
    - rewrite app_nil_r. reflexivity.
    - rewrite assoc_set_fresh.
      + rewrite IH; rewrite <- app_assoc; [reflexivity|exact H].
      + rewrite map_app in H. apply NoDup_remove_2 in H. intros Hin. apply H.
        apply in_or_app. left. exact Hin. }
  intros H. apply (G l []). exact H.
Qed.

(* adjacent elements in order: insertion sort leaves the list alone *)
Fixpoint adj_sorted {A} (leb : A -> A -> bool) (l : list A) : Prop :=
  match l with
  | x :: ((y :: _) as r) => leb x y = true /\ adj_sorted leb r
  | _ => True
  end.

Lemma sort_by_sorted {A} (leb : A -> A -> bool) : forall l, adj_sorted leb l -> sort_by leb l = l.
Proof.
  induction l as [|x l IH]; intros H; [reflexivity|].
  unfold sort_by in *. cbn [fold_right]. destruct l as [|y r].
  - reflexivity.
  - destruct H as [H1 H2]. rewrite (IH H2). cbn [insert_by]. rewrite H1. reflexivity.
Qed.

Lemma col_name_small c : (c < 26)%nat -> col_name c = [(65 + Z.of_nat c)%Z].
Proof.
  intros H. unfold col_name. cbn [col_name_aux].
  assert (E : (Z.of_nat c <? 26)%Z = true) by (apply Z.ltb_lt; lia). rewrite E.
  rewrite Z.mod_small by lia. reflexivity.
Qed.

Lemma coord_leb_small r c r' c' :
  (c < c')%nat -> (c' < 26)%nat -> str_leb (coord_text r c) (coord_text r' c') = true.
Proof.
  intros H1 H2. unfold str_leb, coord_text. rewrite !col_name_small by lia. cbn [app str_ltb].
  assert (E1 : (65 + Z.of_nat c' <? 65 + Z.of_nat c)%Z = false) by (apply Z.ltb_ge; lia).
  assert (E2 : (65 + Z.of_nat c <? 65 + Z.of_nat c')%Z = true) by (apply Z.ltb_lt; lia).
  rewrite E1, E2. reflexivity.
Qed.

(* strictly increasing one-letter columns *)
Fixpoint cols_small_inc (ps : list (nat * nat)) : Prop :=
  match ps with
  | p :: ((q :: _) as r) => (snd p < snd q)%nat /\ (snd q < 26)%nat /\ cols_small_inc r
  | _ => True
  end.

Lemma coords_sorted : forall ps,
  cols_small_inc ps -> adj_sorted str_leb (map (fun p => coord_text (fst p) (snd p)) ps).
Proof.
  induction ps as [|p ps IH]; intros H; [exact I|].
  destruct ps as [|q r]; [exact I|]. destruct H as [H1 [H2 H3]].
  cbn [map adj_sorted]. split; [apply coord_leb_small; assumption|]. apply IH. exact H3.
Qed.

Definition range_text_spec (ps : list (nat * nat)) : str :=
  match ps with
  | [] => marker_range_empty
  | [p] => coord_text (fst p) (snd p)
  | p :: _ => coord_text (fst p) (snd p) ++ [58%Z] ++
              coord_text (fst (last ps p)) (snd (last ps p))
  end.

Lemma last_indep {A} : forall (l : list A) x d d', last (x :: l) d = last (x :: l) d'.
Proof.
  induction l as [|y l IH]; intros x d d'; [reflexivity|].
  change (last (x :: y :: l) d) with (last (y :: l) d).
  change (last (x :: y :: l) d') with (last (y :: l) d'). apply IH.
Qed.

Lemma last_map {A B} (f : A -> B) : forall l d, last (map f l) (f d) = f (last l d).
Proof.
  induction l as [|x l IH]; intros d; [reflexivity|].
  destruct l as [|y l]; [reflexivity|].
  change (last (map f (x :: y :: l)) (f d)) with (last (map f (y :: l)) (f d)).
  change (last (x :: y :: l) d) with (last (y :: l) d). apply IH.
Qed.

(* get_attr_origin(attr) of a ranged attribute whose source cells stand in strictly increasing
   one-letter columns (A..Z): "<leftmost cell>:<rightmost cell>" *)
Lemma range_text_small (d : list (str * (nat * nat))) :
  cols_small_inc (map snd d) -> range_text d = range_text_spec (map snd d).
Proof.
  intros H. unfold range_text.
  assert (E : map (fun kv : str * (nat * nat) => coord_text (fst (snd kv)) (snd (snd kv))) d =
              map (fun p => coord_text (fst p) (snd p)) (map snd d)) by (rewrite map_map; reflexivity).
  rewrite E. unfold sort_strs. rewrite (sort_by_sorted str_leb _ (coords_sorted _ H)).
  destruct (map snd d) as [|p [|q r]]; try reflexivity.
  unfold range_text_spec. cbn [map]. f_equal. f_equal.
  set (f := fun p0 : nat * nat => coord_text (fst p0) (snd p0)).
  change (last (map f (p :: q :: r)) [] = f (last (p :: q :: r) p)).
  cbn [map]. rewrite (last_indep (f q :: map f r) (f p) [] (f p)).
  change (f p :: f q :: map f r) with (map f (p :: q :: r)).
  apply last_map.
Qed.

(* object level: distinct titles, cells in increasing one-letter columns *)
Lemma range_text_guarded_l names cells :
  NoDup names -> length names = length cells ->
  cols_small_inc (map cpos cells) ->
  range_text (dict_of (combine names (map cpos cells))) = range_text_spec (map cpos cells).
Proof.
  intros Hnd Hl Hc.
  assert (Hfst : map fst (combine names (map cpos cells)) = names).
  { clear - Hl. revert cells Hl. induction names as [|n names IH]; intros [|x cells] Hl; cbn in *;
      try reflexivity; try discriminate. rewrite IH; [reflexivity|lia]. }
  assert (Hsnd : map snd (combine names (map cpos cells)) = map cpos cells).
  { clear - Hl. revert cells Hl. induction names as [|n names IH]; intros [|x cells] Hl; cbn in *;
      try reflexivity; try discriminate. rewrite IH; [reflexivity|lia]. }
  rewrite dict_of_nodup by (rewrite Hfst; exact Hnd).
  rewrite range_text_small; rewrite Hsnd; [reflexivity|exact Hc].
Qed.

(* beyond column Z the faithful model gives a text that does not start at the leftmost cell *)
Definition wide_sheet : list (list cval) :=
  [ CStr [105] :: repeat CNone 23 ++ [CStr [121]; CStr [122]; CStr [97;97]; CStr [97;98]];
    CInt 1 :: repeat CNone 23 ++ [CInt 10; CInt 20; CInt 30; CInt 40] ].
Definition wide_cf : config :=
  mkConfig [RPlain [105] (mkConv KInt None None None) None;
            RRange true (mkConv KInt None None None) false] 1 [] false.

Definition wide_origins : list (str * (nat * nat)) :=
  [ ([121%Z], (1%nat, 24%nat)); ([122%Z], (1%nat, 25%nat));
    ([97%Z; 97%Z], (1%nat, 26%nat)); ([97%Z; 98%Z], (1%nat, 27%nat)) ].
Definition wide_text : str := [65%Z; 65%Z; 50%Z; 58%Z; 90%Z; 50%Z].     (* "AA2:Z2" *)

Lemma range_text_refuted_l :
  exists cf sh o,
    read_table cf sh = ([Some o], None) /\
    (* the source cells are Y2 Z2 AA2 AB2 ... *)
    (exists v, nth_error (o_attrs o) 1 = Some (v, ORange wide_origins)) /\
    (* ... and the reported range is "AA2:Z2" *)
    get_attr_origin o (Some 1%nat) None true = Ok wide_text.
Proof.
  exists wide_cf, wide_sheet.
  destruct (read_table wide_cf wide_sheet) as [items e] eqn:E.
  vm_compute in E. injection E as <- <-.
  eexists. split; [reflexivity|]. split; [eexists; reflexivity|]. vm_compute. reflexivity.
Qed.
