(* C08/Props.v -- Colored text behaves exactly like the underlying string.

   Vocabulary (C08/Spec.v): cchars t = the visible characters of a CHText with
   their colours (colour = (c_prefix, c_suffix)); inv = canonical form; wfc sfx c =
   the chunk's suffix is sfx(prefix) (what ColorFmt produces); sexec = the same
   program run on plain lists of coloured characters with Python's list
   operations (PyStr.v); stmt_ok = operands are ColorFmt-made chunks, CHText.make
   gets non-empty chunks and resize_chunks_list does not truncate. *)
From Coq Require Import ZArith List.
From AK Require Import Common.Sx Common.Err gen.C08_Consts C08.PyStr C08.Model C08.Spec
  C08.Lemmas C08.LemmasFmt C08.LemmasProg.
Import ListNotations.
Open Scope Z_scope.

(* facts read from ak/color.py on this run that the proofs rest on *)
Theorem consts_ok :
  iadd_copies = true /\ append_skips_empty = true /\ align_chars = [62; 60; 94].
Proof. exact (conj iadd_copies_true (conj append_skips_empty_true align_chars_ok)). Qed.
Print Assumptions consts_ok.

(* every object reachable by any program is canonical: no empty chunk, neighbours
   differ in colour, scrlen = number of visible characters *)
Theorem inv_reachable : forall sfx prog, sfx [] = [] -> Forall (stmt_ok sfx) prog ->
  Forall (fun t => inv t /\ wf_l sfx (chunks t)) (heap (fst (exec init_state prog))).
Proof. exact inv_reachable_l. Qed.
Print Assumptions inv_reachable.

(* refinement: after any program the heap of CHText objects is, object by object,
   what the same program gives on plain lists (same variables and aliasing), and
   every observation (which object a result is, IndexError, results of == in both
   orders, chunk[i] / chunk[a:b]) is reproduced; format results are related by
   format_visible below *)
Theorem program_refines : forall sfx prog, sfx [] = [] -> Forall (stmt_ok sfx) prog ->
  vars (fst (exec init_state prog)) = svars (fst (sexec init_sstate prog)) /\
  map cchars (heap (fst (exec init_state prog))) = sheap (fst (sexec init_sstate prog)) /\
  erase_all prog (snd (exec init_state prog)) = snd (sexec init_sstate prog).
Proof. exact program_refines_l. Qed.
Print Assumptions program_refines.

(* the single operations behind it *)
Theorem append_refines : forall sfx t c, good sfx t -> wfc sfx c ->
  good sfx (append_chunk t c) /\ cchars (append_chunk t c) = cchars t ++ ccs c.
Proof. exact append_chunk_good. Qed.
Print Assumptions append_refines.

Theorem slice_refines : forall sfx t a b, good sfx t ->
  good sfx (text_slice t a b) /\ cchars (text_slice t a b) = py_slice (cchars t) a b.
Proof. exact text_slice_refines. Qed.
Print Assumptions slice_refines.

Theorem index_refines : forall sfx t i, good sfx t ->
  match py_index (cchars t) i with
  | Ok x => exists t', text_index t i = Ok t' /\ good sfx t' /\ cchars t' = [x]
  | Err e => text_index t i = Err IndexErr /\ e = IndexErr
  end.
Proof. exact text_index_refines. Qed.
Print Assumptions index_refines.

(* plain_text() is the visible text and len() its length *)
Theorem plain_text_visible : forall t, visible (cchars t) = plain_text t.
Proof. exact visible_cchars. Qed.
Print Assumptions plain_text_visible.

Theorem len_visible : forall t, inv t -> scrlen t = zlen (plain_text t).
Proof. exact len_visible_l. Qed.
Print Assumptions len_visible.

(* equality: canonical texts are equal iff they show the same characters in the
   same colours; the canonical form of a list of coloured characters is unique *)
Theorem eq_canonical : forall a b, inv a -> inv b ->
  (text_eq_text a b = true <-> cchars a = cchars b).
Proof. exact text_eq_text_iff. Qed.
Print Assumptions eq_canonical.

Theorem canonical_unique : forall a b, canon_l a -> canon_l b -> cchars_l a = cchars_l b -> a = b.
Proof. exact canon_unique. Qed.
Print Assumptions canonical_unique.

Theorem eq_str : forall sfx t s, sfx [] = [] -> good sfx t ->
  (text_eq_str t s = true <-> cchars t = plain_cc s).
Proof. exact text_eq_str_iff. Qed.
Print Assumptions eq_str.

Theorem eq_chunk : forall t c, inv t -> (text_eq_chunk t c = true <-> cchars t = ccs c).
Proof. exact text_eq_chunk_iff. Qed.
Print Assumptions eq_chunk.

Theorem str_of_default_coloured : forall sfx t s, sfx [] = [] -> good sfx t ->
  cchars t = plain_cc s -> text_str t = s.
Proof. exact str_plain_l. Qed.
Print Assumptions str_of_default_coloured.

(* format: for every spec [[fill]align][width]['s'] (width without leading 0) the
   result is str(t) between exactly the padding that format(plain_text(t), spec) has *)
Theorem format_visible : forall t fs, inv t -> fspec_ok fs ->
  text_format t (spec_str fs) =
    Ok (fst (pad_lr (zlen (plain_text t)) fs) ++ text_str t ++ snd (pad_lr (zlen (plain_text t)) fs)) /\
  py_format_str (plain_text t) fs =
    fst (pad_lr (zlen (plain_text t)) fs) ++ plain_text t ++ snd (pad_lr (zlen (plain_text t)) fs).
Proof. exact format_visible_l. Qed.
Print Assumptions format_visible.

Theorem format_rejects_other_types : forall body blen x c,
  is_digit c = false -> is_align c = false -> c <> ch_s ->
  format_gen body blen (x ++ [c]) = Err ValueErr.
Proof. exact format_bad_type. Qed.
Print Assumptions format_rejects_other_types.

(* t += t terminates and doubles the text (holds because __iadd__ iterates over a copy) *)
Theorem iadd_self_terminates : forall sfx t, good sfx t ->
  exists t', iadd_text true t t = Ok t' /\ good sfx t' /\ cchars t' = cchars t ++ cchars t.
Proof. exact iadd_self_l. Qed.
Print Assumptions iadd_self_terminates.

(* CHText.make: right characters, colours and length for ANY chunk list ... *)
Theorem make_refines : forall sfx cs, wf_l sfx cs ->
  cchars (text_make cs) = cchars_l cs /\ scrlen (text_make cs) = zlen (cchars_l cs) /\
  wf_l sfx (chunks (text_make cs)).
Proof. exact text_make_refines. Qed.
Print Assumptions make_refines.

(* ... canonical only when no chunk is empty: the full statement fails *)
Definition make_canonical_statement : Prop := forall sfx cs, wf_l sfx cs -> inv (text_make cs).
Theorem make_canonical_partial : forall sfx cs, wf_l sfx cs -> nonempty_l cs ->
  good sfx (text_make cs) /\ cchars (text_make cs) = cchars_l cs.
Proof. exact text_make_good. Qed.
Print Assumptions make_canonical_partial.

Theorem make_empty_chunk_refuted :
  exists cs, cchars (text_make cs) = cchars empty_text /\ text_eq_text (text_make cs) empty_text = false.
Proof. exact make_empty_chunk_refuted_l. Qed.
Print Assumptions make_empty_chunk_refuted.

Theorem resize_truncate_refuted :
  exists cs n l, nonempty_l cs /\ 0 <= n /\ resize_chunks_list cs n = Ok l /\
    cchars (text_make l) = cchars (append_all empty_text (chunk_fixed_parts (hd (make_plain []) cs) n)) /\
    text_eq_text (text_make l) (append_all empty_text (chunk_fixed_parts (hd (make_plain []) cs) n)) = false.
Proof. exact resize_truncate_refuted_l. Qed.
Print Assumptions resize_truncate_refuted.

(* ---- non-vacuity: a concrete suffix function and program meet the hypotheses *)
Definition sfx0 (p : list Z) : list Z := if is_nil p then [] else [27; 91; 48; 109].
Definition red (s : list Z) : chunk := Chunk [27; 91; 51; 49; 109] s [27; 91; 48; 109].
Definition prog0 : list stmt :=
  [SNew (PCons (PC (red [97; 98])) (PCons (PS [99; 100]) PNil));     (* v0 = CHText(red('ab'), 'cd') *)
   SIadd 0 (PV 0);                                                   (* v0 += v0 *)
   SSlice 0 (Some 1) (Some (-2));                                    (* v1 = v0[1:-2] *)
   SFixed 1 5;                                                       (* v2 = v1.fixed_len(5): same content as v1 *)
   SJoin 0 [PV 1; PC (red [])];                                      (* v3 = v0.join([v1, red('')]) *)
   OEq 1 (PV 2)].

Example prog0_ok : sfx0 [] = [] /\ Forall (stmt_ok sfx0) prog0.
Proof. split; [reflexivity|]. repeat constructor. Qed.
Print Assumptions prog0_ok.

(* fixed_len of a text that already has the wanted length: the source decides (generated constant
   fixed_len_aliases) whether v2 is v1 itself or a new object with the same content *)
Example prog0_runs :
  map plain_text (heap (fst (exec init_state prog0))) =
    (if fixed_len_aliases
     then [[97; 98; 99; 100; 97; 98; 99; 100]; [98; 99; 100; 97; 98];
           [98; 99; 100; 97; 98; 97; 98; 99; 100; 97; 98; 99; 100]]
     else [[97; 98; 99; 100; 97; 98; 99; 100]; [98; 99; 100; 97; 98]; [98; 99; 100; 97; 98];
           [98; 99; 100; 97; 98; 97; 98; 99; 100; 97; 98; 99; 100]]) /\
  vars (fst (exec init_state prog0)) = (if fixed_len_aliases then [0; 1; 1; 2] else [0; 1; 2; 3])%nat.
Proof. vm_compute. split; reflexivity. Qed.
Print Assumptions prog0_runs.

Example format_example :
  fspec_ok (FSpec (Some 42) (Some 94) [55] true) /\                 (* "*^7s" *)
  text_format (append_chunk empty_text (red [97; 98])) (spec_str (FSpec (Some 42) (Some 94) [55] true)) =
    Ok ([42; 42] ++ chunk_str (red [97; 98]) ++ [42; 42; 42]).
Proof.
  split; [|vm_compute; reflexivity].
  repeat split; cbn; try congruence; try discriminate.
  - intros a [= <-]. auto.
  - repeat constructor.
Qed.
Print Assumptions format_example.

(* ---- a text used as an ITERABLE (for x in t, list(t), tuple(t), *t, sep.join(t), reversed(t)):
   neither class defines __iter__ / __reversed__, Python walks t[0], t[1], ...: exactly len(t) items,
   item k = the k-th visible character as a text of one character in its own colour -- what iterating
   the underlying str gives.  program_refines covers the statements built on it: SJoinIt / SChunkJoinIt
   (sep.join(X), X a text / chunk / str = the join over X's characters), OIter, ORevIter, OIn. *)
Theorem iter_refines : forall sfx t, good sfx t ->
  text_items t = Ok (map cc_text (cchars t)) /\
  text_rev_items t = Ok (map cc_text (rev (cchars t))) /\
  Forall (fun x => good sfx x /\ scrlen x = 1) (map cc_text (cchars t)).
Proof.
  intros sfx t Hg. split; [|split].
  - eapply text_items_ok. split; [exact Hg|reflexivity].
  - eapply text_rev_items_ok. split; [exact Hg|reflexivity].
  - destruct Hg as [_ Hw]. pose proof (cc_chunk_wf sfx _ Hw) as HF.
    apply Forall_forall. intros x Hx. apply in_map_iff in Hx. destruct Hx as (y & <- & Hy).
    rewrite Forall_forall in HF. split; [apply cc_text_good; apply HF; exact Hy|reflexivity].
Qed.
Print Assumptions iter_refines.

Definition prog1 : list stmt :=
  [SNew (PCons (PC (red [97; 98])) (PCons (PS [99]) PNil));          (* v0 = CHText(red('ab'), 'c') *)
   SNew (PCons (PS [45]) PNil);                                      (* v1 = CHText('-') *)
   SJoinIt 1 (ItText 0);                                             (* v2 = v1.join(v0) *)
   SChunkJoinIt (red [45]) (ItStr [120; 121]);                       (* v3 = red('-').join('xy') *)
   OIter 0; ORevIter 0; OIn 0 (PC (red [98])); OIn 0 (PS [98])].
Example prog1_runs :
  (sfx0 [] = [] /\ Forall (stmt_ok sfx0) prog1) /\
  map text_str (skipn 2 (heap (fst (exec init_state prog1)))) =
    [chunk_str (red [97]) ++ [45] ++ chunk_str (red [98]) ++ [45; 99];     (* a-b-c *)
     [120] ++ chunk_str (red [45]) ++ [121]] /\
  skipn 4 (snd (exec init_state prog1)) =
    [sx_res (sx_list sx_text) (Ok (map cc_text (ccs (red [97; 98]) ++ plain_cc [99])));
     sx_res (sx_list sx_text) (Ok (map cc_text (plain_cc [99] ++ ccs (red [98; 97]))));
     sx_res sx_bool (Ok true); sx_res sx_bool (Ok false)].
Proof. split; [split; [reflexivity|repeat constructor]|]. vm_compute. split; reflexivity. Qed.
Print Assumptions prog1_runs.
