(* C01/LemmasTable.v -- the only fact about the parse table that soundness
   needs: every production the table offers for a symbol is a production of
   that symbol in the grammar the table was built from (LLP/Table.v). *)
From Coq Require Import ZArith List Bool Lia.
From AK Require Import Common.Err LLP.Base LLP.Table C01.Basics.
Import ListNotations.

Lemma insert_rule_In : forall r l x, In x (insert_rule r l) <-> x = r \/ In x l.
Proof.
  intros r l x. induction l as [|y l IH]; cbn [insert_rule].
  - cbn. intuition.
  - destruct (rsort r <? rsort y)%Z; cbn [In]; [intuition|]. rewrite IH. intuition.
Qed.

Lemma sort_rules_acc_In : forall l acc x,
  In x (fold_left (fun acc r => insert_rule r acc) l acc) <-> In x l \/ In x acc.
Proof.
  induction l as [|r l IH]; intros acc x; cbn [fold_left].
  - cbn. intuition.
  - rewrite IH, insert_rule_In. cbn [In]. intuition.
Qed.

Lemma sort_rules_In : forall l x, In x (sort_rules l) <-> In x l.
Proof. intros. unfold sort_rules. rewrite sort_rules_acc_In. cbn. intuition. Qed.

Lemma table_get_sub : forall T nt tok r,
  In r (table_get T nt tok) -> In r (grules (t_grammar T) nt).
Proof.
  intros T nt tok r H. unfold table_get in H. rewrite sort_rules_In, filter_In in H. tauto.
Qed.

Lemma table_sub : forall g terms start nt tok r,
  In r (table_get (make_tables g terms start) nt tok) -> In r (grules g nt).
Proof. intros g terms start nt tok r H. apply table_get_sub in H. exact H. Qed.

(* the offered productions are moreover exactly those whose PREDICT set has the token *)
Lemma table_get_spec : forall T nt tok r,
  In r (table_get T nt tok) <->
  In r (grules (t_grammar T) nt) /\
  mem tok (predict (t_terminals T) (t_nulls T) (t_first T) (t_follow T) r) = true.
Proof. intros. unfold table_get. rewrite sort_rules_In, filter_In. tauto. Qed.
