(* C02/LemParse.v -- the language part: with a complete conflict-free table the
   stack machine of LLP/Parse.v (no suffix symbols) accepts every sentence and
   returns its derivation tree; a valid tree is a derivation (for ll1_reject). *)
From Coq Require Import ZArith List Bool Lia.
From AK Require Import Common.Err LLP.Base LLP.Table LLP.Parse C02.Model C02.Spec C02.LemBase C02.LemNull
  C02.LemFirst C02.LemFollow C02.LemTable.
Import ListNotations.

(* ---------- derivations, FIRST and nullability ---------- *)
Section DerivFacts.
  Variable g : grammar.
  Variable terms : list sym.

  Lemma DerivSeq_length : forall p ds w, DerivSeq g terms p ds w -> length ds = length p.
  Proof.
    intros p ds w H.
    induction H using DerivSeq_mind with
      (P := fun _ _ _ => True)
      (P0 := fun p ds _ => length ds = length p); simpl; auto.
  Qed.

  Lemma Deriv_first :
    forall s d w, Deriv g terms s d w ->
      (w = [] -> Nullable g s) /\ (forall t v w', w = (t, v) :: w' -> FirstSym g terms s t).
  Proof.
    apply (Deriv_mind g terms
      (fun s d w => (w = [] -> Nullable g s) /\ (forall t v w', w = (t, v) :: w' -> FirstSym g terms s t))
      (fun p ds w => (w = [] -> NullSeq g p) /\ (forall t v w', w = (t, v) :: w' -> FirstSeq g terms p t))).
    - intros s v Hs. split; [discriminate|]. intros t v' w' E. inversion E; subst. left. auto.
    - intros nt r ds w Hnt Hr _ [A B]. split.
      + intro E. apply Nullable_intro with (r := r); auto.
      + intros t v w' E. right. split; auto. apply First_of_FirstSeq with (r := r); auto. apply (B t v w' E).
    - split; [intros; constructor|discriminate].
    - intros s p d ds w1 w2 _ [A1 B1] _ [A2 B2]. split.
      + intro E. apply app_eq_nil in E. destruct E as [E1 E2]. constructor; auto.
      + intros t v w' E. destruct w1 as [|[t1 v1] w1].
        * simpl in E. destruct (B2 t v w' E) as [pre [s0 [post [E0 [Hn Hs]]]]].
          exists (s :: pre), s0, post. subst p. split; auto. split; auto. constructor; auto.
        * simpl in E. inversion E; subst. exists [], s, p. split; auto. split; [constructor|].
          apply (B1 t v w1 eq_refl).
  Qed.

  Lemma DerivSeq_first :
    forall p ds w, DerivSeq g terms p ds w ->
      (w = [] -> NullSeq g p) /\ (forall t v w', w = (t, v) :: w' -> FirstSeq g terms p t).
  Proof.
    intros p ds w H. induction H as [|s p d ds w1 w2 H1 H2 [A2 B2]].
    - split; [intros; constructor|discriminate].
    - destruct (Deriv_first s d w1 H1) as [A1 B1]. split.
      + intro E. apply app_eq_nil in E. destruct E as [E1 E2]. constructor; auto.
      + intros t v w' E. destruct w1 as [|[t1 v1] w1].
        * simpl in E. destruct (B2 t v w' E) as [pre [s0 [post [E0 [Hn Hs]]]]].
          exists (s :: pre), s0, post. subst p. split; auto. split; auto. constructor; auto.
        * simpl in E. inversion E; subst. exists [], s, p. split; auto. split; [constructor|].
          apply (B1 t v w1 eq_refl).
  Qed.
End DerivFacts.

(* ---------- the stack machine, step by step ---------- *)
Definition tok_pair (tk : token) : sym * list Z := (tname tk, tvalue tk).

Section Machine.
  Variable is_term : sym -> bool.
  Variable table : sym -> sym -> list rule.
  Variable toks : list token.

  Notation step := (step is_term table [] toks).

  Fixpoint steps (n : nat) (st : list frame) : outcome :=
    match n with
    | O => Running st
    | S n' => match step st with Running st' => steps n' st' | o => o end
    end.

  Lemma steps_add : forall a b st,
    steps (a + b) st = match steps a st with Running st' => steps b st' | o => o end.
  Proof.
    induction a as [|a IH]; simpl; intros b st; auto.
    destruct (step st); auto.
  Qed.

  Lemma steps_running : forall a b st st', steps a st = Running st' -> steps (a + b) st = steps b st'.
  Proof. intros a b st st' H. rewrite steps_add, H. reflexivity. Qed.

  Lemma steps_done_mono : forall a b st t, steps a st = Done t -> (a <= b)%nat -> steps b st = Done t.
  Proof.
    intros a b st t H L. replace b with (a + (b - a))%nat by lia. rewrite steps_add, H. reflexivity.
  Qed.

  Lemma run_pow_steps : forall k st, run_pow is_term table [] toks k st = steps (2 ^ k) st.
  Proof.
    induction k as [|k IH]; intro st.
    - simpl. destruct (step st); reflexivity.
    - simpl run_pow. rewrite IH.
      replace (2 ^ S k)%nat with (2 ^ k + 2 ^ k)%nat by (simpl; lia).
      rewrite steps_add. destruct (steps (2 ^ k) st); auto.
  Qed.

  Lemma splice_nil : forall prod t, splice [] prod t = t.
  Proof. intros prod t. destruct t; simpl; auto. destruct prod; reflexivity. Qed.

  Lemma erase_mk_node : forall f, erase (mk_node toks f) = DNode (fsym f) (map erase (fvals f)).
  Proof.
    intro f. unfold mk_node. destruct (fvals f) as [|v0 l] eqn:E; [reflexivity|].
    destruct (Nat.ltb (fstart f) (fcur f)); reflexivity.
  Qed.

  Lemma step_complete_inner : forall top par rest cur more,
    falts top = cur :: more -> length (fvals top) = length (rprod cur) ->
    step (top :: par :: rest) = Running (next_matched par (mk_node toks top) (fcur top) :: rest).
  Proof.
    intros top par rest cur more Hf Hl. unfold Parse.step. rewrite Hf.
    rewrite (proj2 (Nat.eqb_eq _ _) Hl). rewrite splice_nil. reflexivity.
  Qed.

  Lemma step_complete_root : forall top cur more root x,
    falts top = cur :: more -> length (fvals top) = length (rprod cur) ->
    fvals top = [root; x] ->
    step [top] = Done root.
  Proof.
    intros top cur more root x Hf Hl Hv. unfold Parse.step. rewrite Hf.
    rewrite (proj2 (Nat.eqb_eq _ _) Hl). rewrite splice_nil.
    unfold mk_node. rewrite Hv. destruct (Nat.ltb (fstart top) (fcur top)); reflexivity.
  Qed.

  Lemma step_term : forall top rest cur more tk cs,
    falts top = cur :: more ->
    nth_error (rprod cur) (length (fvals top)) = Some cs ->
    nth_error toks (fcur top) = Some tk ->
    is_term cs = true -> tname tk = cs ->
    step (top :: rest) =
    Running (next_matched top (Leaf cs (tvalue tk) (tstart tk, tend tk)) (S (fcur top)) :: rest).
  Proof.
    intros top rest cur more tk cs Hf Hn Ht Hi He. unfold Parse.step. rewrite Hf.
    assert (L : (length (fvals top) < length (rprod cur))%nat).
    { apply nth_error_Some. rewrite Hn. discriminate. }
    rewrite (proj2 (Nat.eqb_neq _ _)); [|lia].
    rewrite Ht, Hn, Hi. rewrite He. rewrite sym_eqb_refl. reflexivity.
  Qed.

  Lemma step_expand : forall top rest cur more tk cs r rs,
    falts top = cur :: more ->
    nth_error (rprod cur) (length (fvals top)) = Some cs ->
    nth_error toks (fcur top) = Some tk ->
    is_term cs = false -> table cs (tname tk) = r :: rs ->
    step (top :: rest) = Running (mkFrame cs (fcur top) (fcur top) (r :: rs) [] :: top :: rest).
  Proof.
    intros top rest cur more tk cs r rs Hf Hn Ht Hi He. unfold Parse.step. rewrite Hf.
    assert (L : (length (fvals top) < length (rprod cur))%nat).
    { apply nth_error_Some. rewrite Hn. discriminate. }
    rewrite (proj2 (Nat.eqb_neq _ _)); [|lia].
    rewrite Ht, Hn, Hi. rewrite He. reflexivity.
  Qed.
End Machine.

Lemma skipn_cons_nth : forall {A} (l : list A) i x r, skipn i l = x :: r -> nth_error l i = Some x.
Proof.
  intros A l. induction l as [|y l IH]; intros i x r H.
  - destruct i; discriminate.
  - destruct i as [|i]; simpl in *.
    + inversion H. reflexivity.
    + apply (IH i x r H).
Qed.

Lemma skipn_app_shift : forall {A} (l : list A) i a b, skipn i l = a ++ b -> skipn (i + length a) l = b.
Proof.
  intros A l i. revert l. induction i as [|i IH]; intros l a b H.
  - simpl in *. subst l. induction a as [|x a IHa]; simpl; auto.
  - destruct l as [|y l].
    + simpl in H. symmetry in H. apply app_eq_nil in H. destruct H as [-> ->]. apply skipn_nil.
    + simpl in *. apply IH. exact H.
Qed.

(* ---------- big-step simulation ---------- *)
Section Complete.
  Variable g : grammar.
  Variable terms : list sym.
  Variable start : sym.
  Hypothesis Hwf : wf g terms start.

  Let T := make_tables g terms start.
  Hypothesis Hfree : is_ambiguous T = false.

  Variable toks : list token.

  Notation is_term := (fun s => mem s terms).
  Notation table := (table_get T).
  Notation stepsM := (steps is_term table toks).

  Definition sym_goal (s : sym) (d : dtree) (w : list (sym * list Z)) : Prop :=
    forall top rest cur more wt la rem,
      falts top = cur :: more ->
      nth_error (rprod cur) (length (fvals top)) = Some s ->
      skipn (fcur top) toks = wt ++ la :: rem ->
      map tok_pair wt = w ->
      (mem s terms = false -> Follow g terms start s (tname la)) ->
      exists n t, erase t = d /\
        stepsM n (top :: rest) = Running (next_matched top t (fcur top + length wt) :: rest).

  Definition seq_goal (p : list sym) (ds : list dtree) (w : list (sym * list Z)) : Prop :=
    forall f rest r pre wt la rem,
      falts f = [r] -> In r (grules g (fsym f)) -> mem (fsym f) terms = false ->
      rprod r = pre ++ p -> length (fvals f) = length pre ->
      skipn (fcur f) toks = wt ++ la :: rem ->
      map tok_pair wt = w ->
      Follow g terms start (fsym f) (tname la) ->
      exists n ts, map erase ts = ds /\
        stepsM n (f :: rest) =
        Running (mkFrame (fsym f) (fstart f) (fcur f + length wt) (falts f) (fvals f ++ ts) :: rest).

  Lemma head_predict : forall nt r ds w wt la rem,
    In r (grules g nt) -> DerivSeq g terms (rprod r) ds w -> map tok_pair wt = w ->
    Follow g terms start nt (tname la) ->
    exists tk0 rem0, wt ++ la :: rem = tk0 :: rem0 /\ Predict g terms start r (tname tk0).
  Proof.
    intros nt r ds w wt la rem Hr HD Hw HF. destruct (DerivSeq_first g terms _ _ _ HD) as [A B].
    destruct wt as [|tk0 wt].
    - exists la, rem. split; auto. right. simpl in Hw. subst w. split; auto.
      rewrite (wf_rsym _ _ _ Hwf nt r Hr). exact HF.
    - exists tk0, (wt ++ la :: rem). split; auto. left. simpl in Hw.
      apply (B (tname tk0) (tvalue tk0) (map tok_pair wt)). subst w. reflexivity.
  Qed.

  Lemma simulation :
    (forall s d w, Deriv g terms s d w -> sym_goal s d w).
  Proof.
    apply (Deriv_mind g terms sym_goal seq_goal).
    - (* terminal *)
      intros s v Hs top rest cur more wt la rem Hf Hn Hsk Hw _.
      destruct wt as [|tk [|tk2 wt]]; simpl in Hw; try discriminate. inversion Hw as [[E1 E2]].
      exists 1%nat, (Leaf s (tvalue tk) (tstart tk, tend tk)). split; [simpl; subst; reflexivity|].
      cbn [steps]. rewrite (step_term is_term table toks top rest cur more tk s); auto.
      + rewrite Nat.add_1_r. reflexivity.
      + apply (skipn_cons_nth toks (fcur top) tk (la :: rem)). exact Hsk.
    - (* non-terminal *)
      intros nt r ds w Hnt Hr HD IH top rest cur more wt la rem Hf Hn Hsk Hw HF.
      destruct (head_predict nt r ds w wt la rem Hr HD Hw (HF Hnt)) as [tk0 [rem0 [E0 HP]]].
      assert (CELL : table nt (tname tk0) = [r]).
      { apply (cell_single g terms start Hwf nt (tname tk0) r Hfree Hr HP). }
      set (F0 := mkFrame nt (fcur top) (fcur top) [r] []).
      destruct (IH F0 (top :: rest) r [] wt la rem) as [n2 [ts [Ets Hrun]]]; auto.
      exists (1 + (n2 + 1))%nat, (mk_node toks (mkFrame nt (fcur top) (fcur top + length wt) [r] ts)).
      split.
      + rewrite erase_mk_node. simpl. rewrite Ets. reflexivity.
      + rewrite (steps_running is_term table toks 1 (n2 + 1) (top :: rest) (F0 :: top :: rest)).
        * rewrite (steps_running is_term table toks n2 1 _ _ Hrun). cbn [steps].
          rewrite (step_complete_inner is_term table toks _ top rest r []); simpl; auto.
          rewrite <- (map_length erase ts), Ets. apply (DerivSeq_length g terms _ _ _ HD).
        * cbn [steps]. rewrite (step_expand is_term table toks top rest cur more tk0 nt r []); auto.
          apply (skipn_cons_nth toks (fcur top) tk0 rem0). rewrite Hsk. exact E0.
    - (* empty sequence *)
      intros f rest r pre wt la rem Hf Hr Hnt Hp Hl Hsk Hw HF.
      destruct wt; [|discriminate]. exists 0%nat, []. split; auto. simpl.
      rewrite Nat.add_0_r, app_nil_r. destruct f; reflexivity.
    - (* s :: p *)
      intros s p d ds w1 w2 HD1 IH1 HD2 IH2 f rest r pre wt la rem Hf Hr Hnt Hp Hl Hsk Hw HF.
      apply map_eq_app in Hw. destruct Hw as [wt1 [wt2 [Ewt [Hw1 Hw2]]]]. subst wt.
      (* look-ahead of s *)
      assert (LA : exists la1 rem1, wt2 ++ la :: rem = la1 :: rem1 /\
                 (mem s terms = false -> Follow g terms start s (tname la1))).
      { destruct (DerivSeq_first g terms _ _ _ HD2) as [A B]. destruct wt2 as [|x wt2].
        - exists la, rem. split; auto. intro Hs. simpl in Hw2. subst w2.
          apply (Follow_last g terms start (fsym f) r pre s p (tname la)); auto.
        - exists x, (wt2 ++ la :: rem). split; auto. intro Hs. simpl in Hw2.
          apply (Follow_next g terms start (fsym f) r pre s p (tname x)); auto.
          apply (B (tname x) (tvalue x) (map tok_pair wt2)). subst w2. reflexivity. }
      destruct LA as [la1 [rem1 [ELA HLA]]].
      destruct (IH1 f rest r [] wt1 la1 rem1) as [n1 [t1 [Et1 Hrun1]]]; auto.
      { rewrite Hp, Hl. rewrite nth_error_app2; [|lia]. rewrite Nat.sub_diag. reflexivity. }
      { rewrite Hsk. rewrite <- app_assoc. rewrite ELA. reflexivity. }
      set (f1 := next_matched f t1 (fcur f + length wt1)).
      destruct (IH2 f1 rest r (pre ++ [s]) wt2 la rem) as [n2 [ts [Ets Hrun2]]]; auto.
      { rewrite <- app_assoc. exact Hp. }
      { unfold f1. simpl. rewrite !app_length. simpl. lia. }
      { unfold f1. simpl. apply skipn_app_shift. rewrite Hsk. rewrite <- app_assoc. reflexivity. }
      exists (n1 + n2)%nat, (t1 :: ts). split; [simpl; rewrite Et1, Ets; reflexivity|].
      rewrite (steps_running is_term table toks n1 n2 _ _ Hrun1). fold f1. rewrite Hrun2.
      unfold f1. simpl. rewrite app_length. rewrite Nat.add_assoc. rewrite <- app_assoc. reflexivity.
  Qed.

  (* the whole input: tokens of the sentence followed by $END$ *)
  Theorem ll1_complete_l : forall w d wt endtok,
    Deriv g terms start d w ->
    toks = wt ++ [endtok] -> map tok_pair wt = w -> tname endtok = END_TOKEN ->
    exists k0, forall k, (k0 <= k)%nat ->
      exists t, parse is_term table [] toks k start = Ok t /\ erase t = d.
  Proof.
    intros w d wt endtok HD Htoks Hw Hend.
    set (R0 := mkRule INIT_SYM [start; END_TOKEN] (-1)).
    set (top := mkFrame INIT_SYM 0 0 [R0] []).
    destruct (simulation start d w HD top [] R0 [] wt endtok []) as [n [t [Et Hrun]]]; auto.
    { intros _. rewrite Hend. apply Follow_start. }
    set (f1 := next_matched top t (fcur top + length wt)).
    assert (Hnth : nth_error toks (length wt) = Some endtok).
    { rewrite Htoks. rewrite nth_error_app2; [|lia]. rewrite Nat.sub_diag. reflexivity. }
    assert (S1 : step is_term table [] toks [f1] =
                 Running [next_matched f1 (Leaf END_TOKEN (tvalue endtok) (tstart endtok, tend endtok)) (S (fcur f1))]).
    { apply (step_term is_term table toks f1 [] R0 [] endtok END_TOKEN); auto.
      apply mem_In. apply (wf_end _ _ _ Hwf). }
    set (f2 := next_matched f1 (Leaf END_TOKEN (tvalue endtok) (tstart endtok, tend endtok)) (S (fcur f1))).
    assert (S2 : step is_term table [] toks [f2] = Done t).
    { apply (step_complete_root is_term table toks f2 R0 [] t
               (Leaf END_TOKEN (tvalue endtok) (tstart endtok, tend endtok))); auto. }
    assert (DONE : stepsM (n + 2) (init_stack start) = Done t).
    { unfold init_stack. fold R0. fold top.
      rewrite (steps_running is_term table toks n 2 [top] [f1] Hrun). cbn [steps].
      rewrite S1. fold f2. rewrite S2. reflexivity. }
    exists (n + 2)%nat. intros k Hk. exists t. split; auto.
    unfold parse. rewrite run_pow_steps.
    rewrite (steps_done_mono is_term table toks (n + 2) (2 ^ k) _ t DONE); [reflexivity|].
    pose proof (Nat.pow_gt_lin_r 2 k). lia.
  Qed.
End Complete.

(* ---------- a valid tree is a derivation (for ll1_reject) ---------- *)
Fixpoint tree_ind' (P : tree -> Prop)
    (HL : forall n v sp, P (Leaf n v sp))
    (HN : forall n ch sp, Forall P ch -> P (Node n ch sp)) (t : tree) : P t :=
  match t with
  | Leaf n v sp => HL n v sp
  | Node n ch sp =>
      HN n ch sp ((fix go (l : list tree) : Forall P l :=
                     match l with
                     | [] => Forall_nil P
                     | x :: r => Forall_cons x (tree_ind' P HL HN x) (go r)
                     end) ch)
  end.

Section Reject.
  Variable g : grammar.
  Variable terms : list sym.

  Lemma vtree_all_Forall : forall ch,
    (fix all (l : list tree) : Prop := match l with [] => True | c :: r => vtree g terms c /\ all r end) ch <->
    Forall (vtree g terms) ch.
  Proof.
    induction ch as [|c ch IH]; split; intro H; auto.
    - destruct H as [H1 H2]. constructor; auto. apply IH. exact H2.
    - inversion H; subst. split; auto. apply IH. auto.
  Qed.

  Lemma vtree_deriv : forall t, vtree g terms t -> Deriv g terms (tree_name t) (erase t) (leaves t).
  Proof.
    apply (tree_ind' (fun t => vtree g terms t -> Deriv g terms (tree_name t) (erase t) (leaves t))).
    - intros n v sp H. simpl in *. apply Deriv_term. exact H.
    - intros n ch sp IH H. simpl in H. destruct H as [Hn [[r [Hr Hp]] Hall]].
      apply vtree_all_Forall in Hall. simpl.
      apply (Deriv_nt g terms n r); auto. rewrite Hp. clear Hp Hr r Hn.
      induction ch as [|c ch IHc]; simpl; [constructor|].
      inversion IH; subst. inversion Hall; subst. constructor; auto.
  Qed.
End Reject.
