(* C13/Props.v -- the property theorems, nothing else.
   "A table's reported format string reproduces the table."

   Model (C13/Model.v): columns (field name, modifier, break-by, min, max,
   negotiated width or None), limits, any_lines_skipped, with to_fmt_str /
   the fmt parser / the fmt setter / the constructor / remove_columns and the
   part of a rendering that reads and updates the format ([print]: visible
   lines, skipped count, column widths = the [view]).  Cell rendering is not
   modelled: "same rendering" is proved as "same view", i.e. the renderer is
   handed identical widths, visible lines and skipped count.

   Definitions used in the statements (C13/Lem*.v):
     col_okb c     name inside the stated character set (no , : ; ! / and no
                   "<-", no leading/trailing white space), modifier without
                   white space and , : ; ! <, width bounds >= 0
     pcol_of c     the parser result that describes c without its negotiated width
     wf t          no duplicated field names; every column is col_okb, shows an
                   existing field and carries a modifier its field type accepts
     reformatted t = t with the negotiated widths and any_lines_skipped unset
                   (limits with one bound missing become "no limits")
     rebuilt t     the same, limits dropped when nothing was skipped at the last rendering
     cleared t     t with the negotiated widths and any_lines_skipped unset
     coherent rows t   the stored widths / flag are the ones negotiated from [rows]
     reachable fs rows t   t is a format state of a table over the records [rows]: it
                   arises from the constructor (fmt string) or from the constructor with
                   fmt_obj=<any reachable state of a table over ANY records, or a
                   PPTableFormat made from a fmt string> (+ limits=, skip_columns=) by any
                   sequence of fmt assignments, renderings, remove_columns (any columns, at any
                   moment) and PPTableFormat.set_limits (at any moment)
     sessions (C13/Run.v, what the correspondence check runs): shared PPTableFormat
                   objects + tables appended by MNew (fmt string) / MNewObj (fmt_obj= a
                   shared object or tables[j].fmt), MOp j o = operation o on tables[j];
                   mrun = the state after a list of operations *)
From Coq Require Import ZArith List Bool.
From AK Require Import Common.Err gen.C13_Consts C13.Model C13.Run C13.Lemmas.
Import ListNotations.
Open Scope Z_scope.

(* what is read from ak/ppobj.py on every run is what the model was written from *)
Theorem consts_ok :
  lits_ReprColumn_to_fmt_str =
    [LStr [47]; LStr [123;125]; LStr [33]; LStr [58]; LStr [123;125];
     LStr [58]; LStr [123;125]; LStr [45]; LStr [123;125]; LStr [40]; LStr [123;125]; LStr [41]] /\
  lits_ColumnsParsedFmt_parse_cols_fmt = [LStr []; LStr [42]; LStr [44]] /\
  lits_ColumnsParsedFmt_parse_col_fmt =
    [LStr [58]; LInt 2; LInt 2; LInt 0; LStr []; LStr [60;45]; LInt (-1); LInt 2; LStr [33]; LInt (-1);
     LStr [47]; LInt 0; LInt 1; LStr [45;49]; LInt (-1); LInt (-1); LStr [41]; LStr [40]; LStr [40];
     LStr [45]; LInt 2; LInt 2; LInt 0] /\
  lits_ReprStructure_get_fmt_str = [LStr [44]] /\
  lits_PPTableParsedFmt_fmt_str_split = [LStr [59;59]; LStr [59]; LInt 3; LInt 3; LStr []] /\
  lits_PPTableParsedFmt_parse_vis_lines_fmt = [LStr []; LStr [42]; LStr [58]; LInt 2] /\
  lits_PPTableFormat_get_fmt_str =
    [LStr [42]; LStr [123;125]; LStr [58]; LStr [123;125]; LStr []; LInt (-1); LStr []; LStr [59]] /\
  forallb modstr_okb enum_mods = true /\ 0 <= ft_min /\ 0 <= ft_max.
Proof.
  exact (conj lits_to_fmt_str_ok (conj lits_parse_cols_ok (conj lits_parse_col_ok (conj lits_cols_str_ok
        (conj lits_fmt_split_ok (conj lits_parse_vis_ok (conj lits_fmt_str_ok (conj enum_mods_ok ft_bounds_ok)))))))).
Qed.
Print Assumptions consts_ok.

(* int(str(n)) == n for every integer *)
Theorem int_roundtrip : forall n, int_of_str (str_of_int n) = Ok n.
Proof. exact int_of_str_of_int. Qed.
Print Assumptions int_roundtrip.

(* the column description is parsed back, whatever the negotiated width is *)
Theorem col_roundtrip : forall c, col_okb c = true -> parse_col (col_to_str c) = Ok (pcol_of c).
Proof. exact parse_col_roundtrip. Qed.
Print Assumptions col_roundtrip.

(* the whole format string: columns and limits *)
Theorem fmt_parse_roundtrip : forall t, forallb col_okb (t_cols t) = true ->
  parse_fmt (fmt_to_str t) = Ok (pcols_of (t_cols t), vis_of t).
Proof. exact parse_fmt_roundtrip. Qed.
Print Assumptions fmt_parse_roundtrip.

(* t.fmt = str(t.fmt) is accepted in every state - fresh, printed (widths
   negotiated, any_lines_skipped false or true), re-formatted - and gives the
   same columns, modifiers, break-by marks, width bounds and limits *)
Theorem fmt_setter_roundtrip : forall t, wf t = true ->
  set_fmt t (fmt_to_str t) = Ok (reformatted t).
Proof. exact set_fmt_roundtrip. Qed.
Print Assumptions fmt_setter_roundtrip.

(* PPTable(records, fmt=str(t.fmt), fields=<the same>) likewise *)
Theorem fmt_ctor_roundtrip : forall t, wf t = true -> t_cols t <> [] ->
  ctor (t_fields t) (Some (fmt_to_str t)) None None = Ok (rebuilt t).
Proof. exact ctor_roundtrip. Qed.
Print Assumptions fmt_ctor_roundtrip.

(* "", ";" and ";;" change nothing (in any state whatsoever) *)
Theorem empty_fmt_noop : forall t,
  set_fmt t [] = Ok (cleared t) /\ set_fmt t [ch_semi] = Ok (cleared t) /\
  set_fmt t [ch_semi; ch_semi] = Ok (cleared t).
Proof. exact empty_fmt. Qed.
Print Assumptions empty_fmt_noop.

(* a rendering of a coherent table shows the widths negotiated from the visible
   records, leaves the table coherent, and a second rendering shows the same *)
Theorem print_stable : forall rows t, t_cols t <> [] -> coherent rows t ->
  snd (print rows t) = expected_view rows t /\
  coherent rows (fst (print rows t)) /\
  snd (print rows (fst (print rows t))) = snd (print rows t).
Proof.
  exact (fun rows t Hne Hc => conj (print_view rows t Hne Hc)
           (conj (or_intror (print_coherent rows t Hne Hc)) (print_idempotent rows t Hne Hc))).
Qed.
Print Assumptions print_stable.

(* the renderer is handed the same widths, visible lines and skipped count
   after the round trip through the setter ... *)
Theorem setter_same_view : forall rows t, t_cols t <> [] -> coherent rows t ->
  snd (print rows (reformatted t)) = snd (print rows t).
Proof. exact view_setter. Qed.
Print Assumptions setter_same_view.

(* ... through the constructor (negotiate_idempotent + limits_irrelevant_when_not_exceeded) ... *)
Theorem ctor_same_view : forall rows t, t_cols t <> [] -> coherent rows t -> nonneg_limits t ->
  snd (print rows (rebuilt t)) = snd (print rows t).
Proof. exact view_ctor. Qed.
Print Assumptions ctor_same_view.

(* ... and after an empty / separators-only format *)
Theorem empty_same_view : forall rows t, t_cols t <> [] -> coherent rows t ->
  snd (print rows (cleared t)) = snd (print rows t).
Proof. exact view_cleared. Qed.
Print Assumptions empty_same_view.

(* every state of every history meets the hypotheses above *)
Theorem reachable_wf_coherent : forall fs rows t, fields_okb fs = true -> reachable fs rows t ->
  (t_fields t = fs /\ wf t = true) /\ coherent rows t.
Proof. exact reachable_inv. Qed.
Print Assumptions reachable_wf_coherent.

(* the property, at any moment of any history *)
Theorem roundtrip_at_any_moment : forall fs rows t,
  fields_okb fs = true -> reachable fs rows t -> t_cols t <> [] ->
  (set_fmt t (fmt_to_str t) = Ok (reformatted t) /\
   snd (print rows (reformatted t)) = snd (print rows t)) /\
  (nonneg_limits t ->
   ctor fs (Some (fmt_to_str t)) None None = Ok (rebuilt t) /\
   snd (print rows (rebuilt t)) = snd (print rows t)) /\
  (forall s, In s [[]; [ch_semi]; [ch_semi; ch_semi]] ->
   set_fmt t s = Ok (cleared t) /\ snd (print rows (cleared t)) = snd (print rows t)).
Proof. exact any_moment. Qed.
Print Assumptions roundtrip_at_any_moment.

(* ---- tables made from format OBJECTS (PPTable(records, fmt_obj=X)) ---- *)

(* the format state handed over with fmt_obj= is a deep copy without negotiated
   widths and without any_lines_skipped: well formed and fresh, whatever the
   records, widths and flag of the table X belongs to *)
Theorem fmt_obj_state_fresh : forall fs x lim skip, t_fields x = fs /\ wf x = true ->
  (t_fields (ctor_obj x lim skip) = fs /\ wf (ctor_obj x lim skip) = true) /\
  (fresh (ctor_obj x lim skip) = true /\ t_skipped (ctor_obj x lim skip) = None).
Proof. exact ctor_obj_inv. Qed.
Print Assumptions fmt_obj_state_fresh.

(* PPTable(records of t, fmt_obj=t.fmt) is handed the view of t *)
Theorem fmt_obj_same_view : forall rows t, t_cols t <> [] -> coherent rows t ->
  snd (print rows (ctor_obj t None None)) = snd (print rows t).
Proof. exact view_fmt_obj. Qed.
Print Assumptions fmt_obj_same_view.

(* a table made from the format object of a table over OTHER records shows the
   widths negotiated from its own records (not the ones the other table stored) *)
Theorem fmt_obj_own_widths : forall fs rows rows' x lim skip,
  fields_okb fs = true -> reachable fs rows' x -> t_cols (ctor_obj x lim skip) <> [] ->
  snd (print rows (ctor_obj x lim skip)) = expected_view rows (ctor_obj x lim skip).
Proof. exact view_fmt_obj_own. Qed.
Print Assumptions fmt_obj_own_widths.

(* every table of every session is reachable with respect to its own records ... *)
Theorem session_tables_reachable : forall fs rowsets shared ops j tb,
  fields_okb fs = true ->
  nth j (ss_tabs (mrun fs rowsets (init_sess fs shared) ops)) None = Some tb ->
  reachable fs (nth (tb_k tb) rowsets []) (tb_st tb).
Proof. exact session_tables. Qed.
Print Assumptions session_tables_reachable.

(* ... hence the property holds for each of them after any prefix of any session
   (ops is arbitrary), whatever was done to the other tables in between *)
Theorem session_roundtrip_at_any_moment : forall fs rowsets shared ops j tb,
  fields_okb fs = true ->
  nth j (ss_tabs (mrun fs rowsets (init_sess fs shared) ops)) None = Some tb ->
  t_cols (tb_st tb) <> [] ->
  let rows := nth (tb_k tb) rowsets [] in let t := tb_st tb in
  (set_fmt t (fmt_to_str t) = Ok (reformatted t) /\
   snd (print rows (reformatted t)) = snd (print rows t)) /\
  (nonneg_limits t ->
   ctor fs (Some (fmt_to_str t)) None None = Ok (rebuilt t) /\
   snd (print rows (rebuilt t)) = snd (print rows t)) /\
  (forall s, In s [[]; [ch_semi]; [ch_semi; ch_semi]] ->
   set_fmt t s = Ok (cleared t) /\ snd (print rows (cleared t)) = snd (print rows t)).
Proof.
  exact (fun fs rowsets shared ops j tb Hfs E Hne =>
           any_moment fs _ _ Hfs (session_tables fs rowsets shared ops j tb Hfs E) Hne).
Qed.
Print Assumptions session_roundtrip_at_any_moment.

(* the list of states [mrun] is the one the compared observations come from *)
Theorem session_observations_follow_mrun : forall fs rowsets a b ss,
  msteps fs rowsets ss (a ++ b) = msteps fs rowsets ss a ++ msteps fs rowsets (mrun fs rowsets ss a) b.
Proof. exact msteps_app. Qed.
Print Assumptions session_observations_follow_mrun.

(* no operation touches another table or a shared format object *)
Theorem session_siblings_untouched : forall fs rowsets ss m j',
  match m with MOp j _ => j' <> j | _ => (j' < length (ss_tabs ss))%nat end ->
  nth j' (ss_tabs (fst (mstep fs rowsets ss m))) None = nth j' (ss_tabs ss) None /\
  ss_shared (fst (mstep fs rowsets ss m)) = ss_shared ss.
Proof. exact siblings_untouched. Qed.
Print Assumptions session_siblings_untouched.

(* non-vacuity: one PPTableFormat 'id:2-8,name:1-20;1:1' shared by a table with short and
   a table with long values, a third table made from the printed first table's format
   object over the long records; then a column is removed from the first (printed) table
   and the limits of the second (printed) one are changed: both forget their widths *)
Example witness_session :
  fields_okb sw_fields = true /\
  map (fun o => match o with Some tb => fmt_to_str (tb_st tb) | None => [] end) (ss_tabs sw_final) =
    [[110;97;109;101;58;49;45;50;48;59;49;58;49]; [105;100;58;50;45;56;44;110;97;109;101;58;49;45;50;48;59;48;58;50];
     [105;100;58;50;45;56;40;53;41;44;110;97;109;101;58;49;45;50;48;40;50;48;41]] /\
  map (fun o => match o with Some t => fmt_to_str t | None => [] end) (ss_shared sw_final) =
    [[105;100;58;50;45;56;44;110;97;109;101;58;49;45;50;48;59;49;58;49]].
Proof. exact sw_witness. Qed.
Print Assumptions witness_session.

(* remove_columns / set_limits at any moment: nothing changes (names that match no
   column; limits = None), or the negotiated widths and any_lines_skipped are
   forgotten - so the state stays coherent whatever was rendered before *)
Theorem remove_columns_resets : forall t names,
  remove_columns t names = t \/
  (fresh (remove_columns t names) = true /\ t_skipped (remove_columns t names) = None).
Proof.
  intros t names. destruct (remove_cases t names) as [E|E]; [left; exact E|right].
  rewrite E. split; [apply fresh_map_clone|reflexivity].
Qed.
Print Assumptions remove_columns_resets.

Theorem remove_and_limits_keep_coherent : forall rows t names lim, coherent rows t ->
  coherent rows (remove_columns t names) /\ coherent rows (set_limits t lim).
Proof. exact (fun rows t names lim H => conj (remove_coherent rows t names H) (set_limits_coherent rows t lim H)). Qed.
Print Assumptions remove_and_limits_keep_coherent.

(* the witness of the former finding stale-width-after-remove-columns (refuted the
   round trip before the repair 38581d5 of ak/ppobj.py): 'g!:2,k:1,name:1-10;2:2' on seven
   records, print, remove the break-by column g - and print, set_limits((1, 1)) *)
Example remove_break_column_repaired : exists t0 t1 t2,
  fields_okb st_fields = true /\ ctor st_fields (Some st_fmt) None None = Ok t0 /\
  t1 = remove_columns (fst (print st_rows t0)) [[103]] /\ t_cols t1 <> t_cols (fst (print st_rows t0)) /\
  snd (print st_rows (reformatted t1)) = snd (print st_rows t1) /\
  snd (print st_rows (rebuilt t1)) = snd (print st_rows t1) /\
  t2 = set_limits (fst (print st_rows t0)) (Some (Some 1, Some 1)) /\
  snd (print st_rows (reformatted t2)) = snd (print st_rows t2) /\
  snd (print st_rows (rebuilt t2)) = snd (print st_rows t2) /\
  snd (print st_rows t2) <> snd (print st_rows (fst (print st_rows t0))).
Proof. exact repaired_after_remove. Qed.
Print Assumptions remove_break_column_repaired.

(* non-vacuity: a printed table with a ranged column, a modifier, a break-by
   column, a repeated field and exceeded limits; names with blanks, '<', '-' *)
Example witness_state :
  fields_okb ex_fields = true /\ reachable ex_fields ex_rows ex_printed /\
  t_cols ex_printed <> [] /\ nonneg_limits ex_printed /\
  t_skipped ex_printed = Some true /\
  fmt_to_str ex_printed = ex_printed_str /\
  col_okb (mkCol [97;32;60;98;45] (Some [102;117;108;108]) true 2 10 (Some (-7))) = true.
Proof. exact ex_witness. Qed.
Print Assumptions witness_state.

(* ---- round 4: field names are resolved exactly ----
   A name written in a fmt string / given to remove_columns denotes the field with literally
   that name (code point by code point) and nothing else: no letter-case folding, no Unicode
   normalisation, no squeezing of blanks, no prefix or numeric matching.  With pairwise
   different names - however similar - every name resolves to its own field. *)
Theorem field_lookup_exact : forall fs n,
  (forall f, get_field fs n = Some f -> In f fs /\ f_name f = n) /\
  (get_field fs n = None <-> ~ In n (map f_name fs)) /\
  (has_dup (map f_name fs) = false -> forall f, In f fs -> get_field fs (f_name f) = Some f).
Proof.
  intros fs n. split; [intros f; apply get_field_exact|]. split; [apply get_field_none|].
  intros H f. apply get_field_own, H.
Qed.
Print Assumptions field_lookup_exact.

(* the columns built by the fmt setter and by the constructor carry literally the names
   written in the fmt string (the hidden ones dropped), all of them names of fields *)
Theorem columns_named_as_written : forall fs l cs,
  (setter_cols fs l = Ok cs ->
   map c_name cs = map p_name (filter shown_by_setter l) /\ incl (map p_name l) (map f_name fs)) /\
  (ctor_cols fs l = Ok cs ->
   map c_name cs = map p_name (filter shown_by_ctor l) /\
   incl (map p_name (filter shown_by_ctor l)) (map f_name fs)).
Proof. intros fs l cs. split; [apply setter_cols_names|apply ctor_cols_names]. Qed.
Print Assumptions columns_named_as_written.

(* hence both routes of the round trip keep every column on its field *)
Theorem roundtrip_keeps_fields : forall t, wf t = true ->
  (exists t', set_fmt t (fmt_to_str t) = Ok t' /\ t_fields t' = t_fields t /\
              map c_name (t_cols t') = map c_name (t_cols t)) /\
  (t_cols t <> [] ->
   exists t', ctor (t_fields t) (Some (fmt_to_str t)) None None = Ok t' /\ t_fields t' = t_fields t /\
              map c_name (t_cols t') = map c_name (t_cols t)).
Proof. exact roundtrip_names. Qed.
Print Assumptions roundtrip_keeps_fields.

(* non-vacuity: fields n / N / e-acute in NFC and in NFD / 'a b' / 'a  b' / 'ab' / 'a', every field
   with values of its own length (a column bound to a neighbour would be handed another width):
   fmt "N:3-12,a  b!,n:1-9,e+U0301,ab,a,U00E9,a b", printed, re-applied through both routes; near-miss
   spellings ('A B', 'E'+U0301, 'abc', 'A', 'a<TAB>b', U00C9) are refused / ignored *)
Example witness_near_names :
  fields_okb nn_fields = true /\ wf nn_printed = true /\
  map c_name (t_cols nn_printed) = nn_names /\
  snd (print nn_rows nn_printed) = Ok (mkView [6; 10; 5; 8; 11; 13; 7; 9] [LRec 0; LBreak; LRec 1] 0) /\
  set_fmt nn_printed (fmt_to_str nn_printed) = Ok (reformatted nn_printed) /\
  map c_name (t_cols (reformatted nn_printed)) = nn_names /\
  snd (print nn_rows (reformatted nn_printed)) = snd (print nn_rows nn_printed) /\
  snd (print nn_rows (rebuilt nn_printed)) = snd (print nn_rows nn_printed) /\
  set_fmt nn_printed [65;32;66] = Err ValueErr /\ set_fmt nn_printed [69;769] = Err ValueErr /\
  set_fmt nn_printed [97;98;99] = Err ValueErr /\ ctor nn_fields (Some [65]) None None = Err AttrErr /\
  remove_columns nn_printed [[65]; [97;9;98]; [201]] = nn_printed /\
  map c_name (t_cols (remove_columns nn_printed [[110]; [97]])) = [[78]; [97;32;32;98]; [101;769]; [97;98]; [233]; [97;32;98]].
Proof. exact nn_witness. Qed.
Print Assumptions witness_near_names.
