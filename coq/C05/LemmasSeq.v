(* C05/LemmasSeq.v -- ProdSequence: the in-parse flattening of a derivation
   of the generated productions yields the matched elements, in order. *)
From Coq Require Import ZArith List Bool Lia.
From AK Require Import Common.Err LLP.Base gen.C05_Consts C05.Model C05.Lemmas.
Import ListNotations.

Lemma flatten_node : forall seqs n ch,
  flatten seqs (RNode n ch) =
  match all_ok (map (flatten seqs) ch) with
  | Err e => Err e
  | Ok ch' => if mem n seqs then process_seq n (RNode n ch') else Ok (RNode n ch')
  end.
Proof. reflexivity. Qed.

Section SeqTemplate.
  Variable result : sym.
  Variables syms seqs : list sym.
  Let elem := seq_elem_name result.
  Let P := seq_gen result syms.

  Hypothesis Hres : mem result seqs = true.          (* the sequence symbol is registered in _seq_symbols *)
  Hypothesis Helem : mem elem seqs = false.          (* its element symbol is not (names with '__' are reserved) *)
  Hypothesis Hs1 : ~ In result syms.                 (* the sequence is not its own element *)
  Hypothesis Hs2 : ~ In elem syms.

  Lemma elem_not_result : elem <> result.
  Proof. apply app_neq_self. apply sfx_nonempty. Qed.

  Lemma P_result : plookup P result = Some [[elem; result]; []].
  Proof. unfold P, seq_gen. cbn [plookup]. now rewrite sym_eqb_refl. Qed.

  Lemma P_elem : plookup P elem = Some (map (fun s => [s]) syms).
  Proof.
    unfold P, seq_gen. cbn [plookup]. fold elem.
    assert (E : sym_eqb result elem = false) by (apply sym_eqb_neq; intro H; symmetry in H; now apply elem_not_result).
    now rewrite E, sym_eqb_refl.
  Qed.

  Lemma P_sym : forall s, In s syms -> plookup P s = None.
  Proof.
    intros s H. unfold P, seq_gen. cbn [plookup]. fold elem.
    assert (E1 : sym_eqb result s = false) by (apply sym_eqb_neq; intro; subst; contradiction).
    assert (E2 : sym_eqb elem s = false) by (apply sym_eqb_neq; intro; subst; contradiction).
    now rewrite E1, E2.
  Qed.

  (* the element wrapper: exactly one child, of one of the listed symbols *)
  Lemma elem_shape : forall ce, rname ce = elem -> valid P ce = true ->
    exists x, ce = RNode elem [x] /\ In (rname x) syms.
  Proof.
    intros ce Hn V. destruct ce as [n v|n|n ch|n ch]; cbn [rname] in Hn; subst n.
    - rewrite (valid_tok _ _ _ _ P_elem) in V. discriminate.
    - rewrite (valid_null _ _ _ P_elem) in V. apply existsb_syms in V.
      apply in_map_iff in V as [s [Es _]]. discriminate.
    - rewrite (valid_node _ _ _ _ P_elem) in V.
      apply andb_true_iff in V as [V _]. apply andb_true_iff in V as [_ V]. apply existsb_syms in V.
      apply in_map_iff in V as [s [Es Hs]].
      destruct ch as [|x [|y ch]]; try discriminate. injection Es as Es.
      exists x. split; [reflexivity|]. now rewrite <- Es.
    - rewrite (valid_seq _ _ _ _ P_elem) in V. discriminate.
  Qed.

  Lemma seq_denote_l : forall t,
    rname t = result -> valid P t = true ->
    flatten seqs t =
    match all_ok (map (flatten seqs) (frontier P t)) with
    | Ok els => Ok (RSeq result els)
    | Err e => Err e
    end.
  Proof.
    intros t. induction t as [n v|n|n ch IH|n ch IH] using rt_ind'; intros Hn V; cbn [rname] in Hn; subst n.
    - rewrite (valid_tok _ _ _ _ P_result) in V. discriminate.
    - rewrite (frontier_null _ _ _ P_result). simpl. now rewrite Hres.
    - rewrite (valid_node _ _ _ _ P_result) in V.
      apply andb_true_iff in V as [V Vch]. apply andb_true_iff in V as [Hne V]. apply existsb_syms in V.
      destruct V as [V|[V|[]]]; [|destruct ch; [discriminate Hne|discriminate V]].
      destruct ch as [|ce [|ct [|w ch]]]; try discriminate V. injection V as He Ht.
      simpl in Vch. apply andb_true_iff in Vch as [Ve Vch]. apply andb_true_iff in Vch as [Vt _].
      destruct (elem_shape ce (eq_sym He) Ve) as (x & -> & Hx).
      rewrite (frontier_node _ _ _ _ P_result). cbn [flat_map]. rewrite app_nil_r.
      rewrite (frontier_node _ _ _ _ P_elem). cbn [flat_map]. rewrite app_nil_r.
      rewrite (frontier_ext P x) by (apply P_sym; exact Hx).
      rewrite flatten_node. cbn [map]. rewrite flatten_node. cbn [map all_ok].
      fold elem. rewrite Helem, Hres.
      pose proof (Forall_inv (Forall_inv_tail IH)) as IHt. cbn beta in IHt.
      rewrite (IHt (eq_sym Ht) Vt).
      simpl app. cbn [map all_ok].
      destruct (flatten seqs x) as [x'|e]; [|reflexivity].
      destruct (all_ok (map (flatten seqs) (frontier P ct))) as [els|e]; [|reflexivity].
      simpl. now rewrite sym_eqb_refl.
    - rewrite (valid_seq _ _ _ _ P_result) in V. discriminate.
  Qed.
End SeqTemplate.

(* a tree without sequence symbols is not changed *)
Lemma flatten_tokens : forall seqs l, Forall (fun x => is_tok x = true) l -> all_ok (map (flatten seqs) l) = Ok l.
Proof.
  intros seqs l H. induction H as [|x l Hx _ IH]; [reflexivity|].
  destruct x; try discriminate. simpl. simpl in IH. now rewrite IH.
Qed.
