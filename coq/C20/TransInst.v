(* C20/TransInst.v -- the functions of gen/C20_Translated.v (ak/short_uuid.py translated by
   harness/props/c20_translate.py) applied to the contracts of the standard library that the hand
   model assumes too.  Used by Run.v (correspondence) and TransEq.v (proofs).  No proofs here. *)
From Coq Require Import ZArith List Bool.
From AK Require Import Common.Sx Common.Err gen.C20_Consts C20.Model C20.PyLib gen.C20_Translated.
Import ListNotations.
Open Scope Z_scope.

(* uuid.UUID(int=n): ValueError unless 0 <= n < 1<<128 (CPython Lib/uuid.py); a UUID object is its integer *)
Definition std_of_int (n : Z) : res Z :=
  if (0 <=? n) && (n <? uuid_bound) then Ok n else Err ValueErr.

Definition mk_lib (of_str : list Z -> res Z) : uuid_lib :=
  {| UUID := Z; UUID_of_int := std_of_int; UUID_of_str := of_str; UUID_int := fun u => u |}.

(* uuid.UUID(s) is an oracle: its answer is known for the string of the current call only
   ([std] = Some n: it returned the UUID n; None: it raised ValueError) *)
Definition of_str_oracle (s : list Z) (std : option Z) : list Z -> res Z :=
  fun s' => if py_str_eqb s' s then match std with Some n => Ok n | None => Err ValueErr end
            else Err OtherErr.

Definition lib0 : uuid_lib := mk_lib (fun _ => Err OtherErr).

(* enough for every 128-bit value (TransEq.fuel_128: 130 suffice) *)
Definition run_fuel : nat := 200.

Definition obj_of (a : pyarg) : pyobj :=
  match a with PStr s => PyStr s | PNotStr => PyOther end.

Definition tr_to_short (u : Z) : res (list Z) := T_uuid_to_short_str lib0 run_fuel u.
Definition tr_from_short (a : pyarg) : res Z := T_uuid_from_short_str lib0 run_fuel (obj_of a).
Definition tr_from_str (std : option Z) (s : list Z) : res Z :=
  T_uuid_from_str (mk_lib (of_str_oracle s std)) run_fuel s.

Definition tr_eval_call (c : call) : outcome :=
  match c with
  | CToShort u => match tr_to_short u with Ok s => OStr s | Err e => ORes (Err e) end
  | CFromShort a => ORes (tr_from_short a)
  | CFromStr std s => ORes (tr_from_str std s)
  end.

Definition tr_eval_seq (l : list call) : list outcome := map tr_eval_call l.
