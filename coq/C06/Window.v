(* C06/Window.v -- inside the 30-day window no branch is skipped as obsolete: the branches
   that are read (Model.all_branches) are all release / master branches of the remote, in
   sorted order; hence the "lower-sorted branches" of Spec.report_ok are all of them. *)
From Coq Require Import ZArith List Bool Lia Arith Sorting.Permutation.
From AK Require Import Common.Sx Common.Err gen.C06_Consts C06.Model C06.Lemmas C06.Inv C06.Spec C06.Inv2 C06.Inv3 C06.Inv4 C06.Attr.
Import ListNotations.
Open Scope nat_scope.

Definition ts_ok (h : history) (m : option Z) : Prop :=
  match m with None => True | Some t => exists c, c < length (h_commits h) /\ t = c_time (get_commit h c) end.

Record TW (h : history) (g : gstate) : Prop := mkTW {
  tw_heads : Forall (fun br => br_head br < length (h_commits h)) (g_branches g);
  tw_ts : ts_ok h (g_min_ts g)
}.

Lemma fold_ts_ok h (f : (bnum * nat) -> Z) l : forall m,
  (forall kv, In kv l -> exists c, c < length (h_commits h) /\ f kv = c_time (get_commit h c)) ->
  ts_ok h m ->
  ts_ok h (fold_left (fun m kv => let ts := f kv in match m with None => Some ts | Some x => Some (Z.min ts x) end) l m).
Proof.
  induction l as [|kv l IH]; intros m Hl Hm; cbn [fold_left]; [exact Hm|].
  apply IH; [intros kv' H; apply Hl; right; exact H|].
  destruct (Hl kv (or_introl eq_refl)) as (c & Hc & E). cbn zeta. destruct m as [x|]; cbn [ts_ok].
  - destruct Hm as (c' & Hc' & E'). destruct (Z.min_spec (f kv) x) as [(_ & ->)|(_ & ->)]; eauto.
  - eauto.
Qed.

Lemma cid_bound h lower prev s i :
  acyclic h -> BB h lower prev s -> Forall (fun hd => hd < length (h_commits h)) lower -> 0 < length (h_commits h) ->
  cid s i < length (h_commits h).
Proof.
  intros Ha HB Hl H0. destruct (lt_dec i (len s)) as [Li|Li].
  - pose proof (GI_cid_cached h s i (bb_gi h lower prev s HB) Li) as Hc.
    apply (bb_cached h lower prev s HB) in Hc as (hd & Hin & R). rewrite Forall_forall in Hl. specialize (Hl hd Hin).
    pose proof (reach_le h Ha _ _ R). lia.
  - unfold cid, rc_get, len in *. rewrite nth_overflow by lia. exact H0.
Qed.

Lemma TW_step h g b :
  acyclic h -> in_window h -> b_head b < length (h_commits h) -> TI h g -> TW h g ->
  TW h (step_branch h g b) /\
  map rbranch_id (g_branches (step_branch h g b)) = map rbranch_id (g_branches g) ++ [branch_id b].
Proof.
  intros Ha Hw Hlt T [Hh Hts].
  assert (TI h (step_branch h g b)) as T' by (apply TI_step; [exact Ha|lia|exact T]).
  revert T'. unfold step_branch.
  assert (match g_min_ts g with
          | Some m => (c_time (get_commit h (b_head b)) + obsolete_cutoff <? m)%Z
          | None => false end = false) as Eo.
  { destruct (g_min_ts g) as [m|]; [|reflexivity]. destruct Hts as (c & Hc & ->).
    apply Z.ltb_ge. apply Hw; assumption. }
  rewrite Eo.
  destruct (read_branch h (g_state g) (b_head b) _ (g_fake g)) as [[s rbs] fake]. cbn [g_branches g_state g_min_ts].
  intros T'. split; [|rewrite map_app; reflexivity].
  constructor; cbn [g_branches g_min_ts].
  - apply Forall_app. split; [exact Hh|constructor; [exact Hlt|constructor]].
  - apply fold_ts_ok; [|exact Hts]. intros kv _. exists (cid s (snd kv)). split; [|reflexivity].
    destruct T' as [HB _ _]. cbn [g_branches g_state] in HB.
    apply (cid_bound h _ _ s (snd kv) Ha HB); [|lia].
    rewrite map_app. apply Forall_app. split; [|constructor; [exact Hlt|constructor]].
    apply Forall_forall. intros hd Hin. apply in_map_iff in Hin as (br & <- & Hbr). rewrite Forall_forall in Hh. apply Hh, Hbr.
Qed.

Lemma TW_run h : acyclic h -> in_window h -> forall bs g,
  Forall (fun b => b_head b < length (h_commits h)) bs -> TI h g -> TW h g ->
  map rbranch_id (g_branches (fold_left (step_branch h) bs g)) = map rbranch_id (g_branches g) ++ map branch_id bs.
Proof.
  intros Ha Hw. induction bs as [|b bs IH]; intros g F T W; cbn [fold_left map]; [rewrite app_nil_r; reflexivity|].
  inversion F; subst. destruct (TW_step h g b Ha Hw H1 T W) as (W' & E).
  rewrite IH; [|assumption|apply TI_step; [exact Ha|lia|exact T]|exact W']. rewrite E, <- app_assoc. reflexivity.
Qed.

(* inside the window every release / master branch of the remote is read, in sorted order *)
Lemma window_reads_all h :
  acyclic h -> heads_exist h -> in_window h ->
  map (fun b => (obr_name b, obr_head b)) (all_branches h) = map branch_id (sorted_branches (h_remote h) (h_refs h)).
Proof.
  intros Ha He Hw. unfold all_branches. rewrite map_map. cbn [obr_name obr_head].
  change (fun x : rbranch => (br_name x, br_head x)) with rbranch_id. unfold run_graph.
  rewrite (TW_run h Ha Hw); [reflexivity| |apply TI_init|].
  - apply Forall_forall. intros b Hb.
    assert (In b (release_branches (h_remote h) (h_refs h))) as Hin
      by (eapply Permutation_in; [apply Permutation_sym, sorted_branches_perm|exact Hb]).
    destruct (release_branches_head _ _ b Hin) as (n & Hn). apply (He n (b_head b) Hn).
  - constructor; cbn; [constructor|exact I].
Qed.

(* ------------------------------------------------------------------ *)
(* executable forms of the hypotheses (used for the examples)           *)

Definition heads_existb (h : history) : bool :=
  forallb (fun r : list Z * nat => snd r <? length (h_commits h)) (h_refs h).

Lemma heads_existb_spec h : heads_existb h = true -> heads_exist h.
Proof.
  unfold heads_existb, heads_exist. rewrite forallb_forall. intros H n hd Hin.
  specialize (H (n, hd) Hin). cbn [snd] in H. apply Nat.ltb_lt. exact H.
Qed.

Definition in_windowb (h : history) : bool :=
  let n := length (h_commits h) in
  forallb (fun a => forallb (fun b => (c_time (get_commit h a) <=? c_time (get_commit h b) + obsolete_cutoff)%Z) (seq 0 n)) (seq 0 n).

Lemma in_windowb_spec h : in_windowb h = true -> in_window h.
Proof.
  unfold in_windowb, in_window. rewrite forallb_forall. intros H a b Ha Hb.
  specialize (H a). rewrite forallb_forall in H. apply Z.leb_le. apply H; apply in_seq; lia.
Qed.

Fixpoint apartb (h : history) (lower : list nat) (brs : list obranch) : bool :=
  match brs with
  | [] => true
  | br :: r => negb (in_lowerb h lower (obr_head br)) && apartb h (lower ++ [obr_head br]) r
  end.

Lemma apartb_spec h : acyclic h -> forall brs lower, apartb h lower brs = true ->
  forall l1 br l2, brs = l1 ++ br :: l2 -> ~ in_lower h (lower ++ map obr_head l1) (obr_head br).
Proof.
  intros Ha. induction brs as [|b0 r IH]; intros lower H l1 br l2 E; [destruct l1; discriminate|].
  cbn [apartb] in H. apply andb_true_iff in H as [H1 H2]. destruct l1 as [|x l1]; cbn [app map] in *; injection E as E1 E2.
  - subst br l2. rewrite app_nil_r. apply negb_true_iff in H1. intros Hl. apply (in_lowerb_spec h lower Ha) in Hl. congruence.
  - subst x r. replace (lower ++ obr_head b0 :: map obr_head l1) with ((lower ++ [obr_head b0]) ++ map obr_head l1)
      by (rewrite <- app_assoc; reflexivity).
    apply (IH _ H2 l1 br l2 eq_refl).
Qed.
