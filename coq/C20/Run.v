(* C20/Run.v -- entry point of the correspondence check. *)
From Coq Require Import ZArith List.
From AK Require Export Common.Sx Common.Err C20.Model.
Import ListNotations.

Inductive case :=
| ToShort (u : Z)
| FromShort (a : pyarg)
| FromStr (std : option Z) (s : list Z)
| Seq (l : list call)           (* several calls, in this order, in one process *)
| SeqCmp (l : list call) (seen : list outcome).
  (* a long history: what the implementation returned is passed in and compared
     here (printing thousands of numbers overflows coqc's stack) *)

Definition sx_outcome (o : outcome) : sx :=
  match o with
  | OStr s => sx_str s
  | ORes r => sx_res SZ r
  end.

Fixpoint zlist_eqb (a b : list Z) : bool :=
  match a, b with
  | [], [] => true
  | x :: a', y :: b' => Z.eqb x y && zlist_eqb a' b'
  | _, _ => false
  end.

Definition outcome_eqb (a b : outcome) : bool :=
  match a, b with
  | OStr s, OStr s' => zlist_eqb s s'
  | ORes (Ok n), ORes (Ok m) => Z.eqb n m
  | ORes (Err e), ORes (Err e') => err_eqb e e'
  | _, _ => false
  end.

(* (1) when the lists agree, else (0 index model's-outcome-there) *)
Fixpoint first_diff (i : Z) (model seen : list outcome) : sx :=
  match model, seen with
  | [], [] => SL [SZ 1]
  | m :: model', s :: seen' =>
      if outcome_eqb m s then first_diff (i + 1) model' seen' else SL [SZ 0; SZ i; sx_outcome m]
  | m :: _, [] => SL [SZ 0; SZ i; sx_outcome m]
  | [], _ :: _ => SL [SZ 0; SZ i]
  end.

Definition run (c : case) : sx :=
  match c with
  | ToShort u => sx_str (uuid_to_short_str u)
  | FromShort a => sx_res SZ (uuid_from_short_str a)
  | FromStr std s => sx_res SZ (uuid_from_str std s)
  | Seq l => sx_list sx_outcome (eval_seq l)
  | SeqCmp l seen => first_diff 0 (eval_seq l) seen
  end.
