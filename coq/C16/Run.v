(* C16/Run.v -- entry point of the correspondence check.
   The harness runs real threads under a chosen schedule, logs every shared
   access in execution order and hands the thread ids of that log to the model
   as its schedule; the model must reproduce the kind of every access, the
   header value the opener saw for every request and the final counter. *)
From Coq Require Import ZArith List.
From AK Require Export Common.Sx Common.Err C16.Instr gen.C16_Consts C16.Model.
Import ListNotations.
Open Scope Z_scope.

Record case : Type := mkCase {
  c_cp : str;                       (* _reqid_connection_part of the connection under test *)
  c_ctr0 : option Z;                (* counter when the threads start; None = ids disabled *)
  c_reqs : list (list headers);     (* per thread: the caller's headers of each request *)
  c_sched : list tid                (* thread id of every logged access, in execution order *)
}.

Definition sx_event (e : event) : sx :=
  match e with
  | Sent _ v => sx_option sx_str v
  | Died => SZ (-1)
  end.

Definition run (c : case) : sx :=
  let st0 := init (c_ctr0 c) (c_reqs c) in
  let st := exec (c_cp c) impl_prog (c_sched c) st0 in
  SL [ sx_list (fun th => sx_list sx_event (rev (out th))) (threads st);
       sx_option SZ (ctr st);
       sx_list SZ (exec_kinds (c_cp c) impl_prog (c_sched c) st0);
       sx_bool (match lock st with None => true | Some _ => false end) ].
