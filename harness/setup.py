"""bin/setup: regenerate constants from /repo, then build every .vo (full build)."""
import importlib
import os
import pkgutil
import sys
import traceback

from harness.lib import coqrun, implrun
import harness.props as props_pkg


def main():
    rc = 0
    skip_dirs = []
    for m in pkgutil.iter_modules(props_pkg.__path__):
        mod = importlib.import_module("harness.props." + m.name)
        if not hasattr(mod, "MODEL_TARGETS"):
            continue  # a helper module, not a property
        if getattr(mod, "DISABLED", None) and getattr(mod, "SETUP_SKIP", False):
            # unfinished development (not claimed in MANIFEST.json): not part of the setup build
            skip_dirs.append(mod.COQ_DIR + "/")
            continue
        if hasattr(mod, "gen_consts"):
            try:
                for name, text in mod.gen_consts(implrun.REPO).items():
                    coqrun.write_gen(name, text)
            except Exception:
                traceback.print_exc()
                print(f"setup: constant extraction for {m.name} failed", file=sys.stderr)
                rc = 1
    with coqrun.Lock():
        coqrun.ensure_makefile()
    targets = [f[:-2] + ".vo" for f in coqrun.all_v_files()
               if not any(f.startswith(d) for d in skip_dirs)]
    ok, log = coqrun.make(targets, timeout=3000, jobs=16)
    print(log[-3000:])
    if not ok:
        # something does not build: it only fails the setup when a claimed property needs it
        needed = []
        for m in pkgutil.iter_modules(props_pkg.__path__):
            mod = importlib.import_module("harness.props." + m.name)
            if hasattr(mod, "MODEL_TARGETS") and not getattr(mod, "DISABLED", None):
                needed += list(mod.MODEL_TARGETS) + list(getattr(mod, "PROOF_TARGETS", []))
        ok2, log2 = coqrun.make(sorted(set(needed)), timeout=3000, jobs=16)
        print(log2[-3000:])
        if not ok2:
            rc = 1
        else:
            print("setup: only unclaimed (work in progress) files failed to build", file=sys.stderr)
    return rc


if __name__ == "__main__":
    sys.exit(main())
