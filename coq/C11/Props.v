(* C11/Props.v -- the property theorems, nothing else.
   Pretty-printed JSON-like data reads back as the same data.

   value  = nesting of dicts (keys str / int / True,False,None), lists, strings,
            numbers (opaque lexemes of Python's str()), True/False/None
   wf v   = every string and str key is free of the quote character, every
            number lexeme is a non-empty run of characters other than blank,
            newline, quote, { } [ ] , :
   read   = character-level lexer + recursive-descent parser (C11/Reader.v) for
            the common syntax of JSON and Python literals, atoms left opaque
   tree_of m v = the parse tree of v with every dict in sorted key order and the
            literal of mode m for True/False/None. *)
From Coq Require Import ZArith List Bool Sorting.Sorted Sorting.Permutation.
From AK Require Import gen.C11_Consts C11.Model C11.Reader C11.LemmasBase C11.LemmasLex C11.LemmasWrap C11.Lemmas.
From AK Require Import C11.Palette C11.LemmasPalette.
Import ListNotations.

(* the constants read from ak/ppobj.py: JSON mode emits true/false/null, Python
   mode True/False/None; the ranks of _mk_type_sort_value are pairwise distinct
   (equal ranks would make sorted() compare an int with a str) *)
Theorem consts_ok :
  (lit Json KwTrue = [116; 114; 117; 101]%Z /\ lit Json KwFalse = [102; 97; 108; 115; 101]%Z /\
   lit Json KwNone = [110; 117; 108; 108]%Z) /\
  (lit Py KwTrue = [84; 114; 117; 101]%Z /\ lit Py KwFalse = [70; 97; 108; 115; 101]%Z /\
   lit Py KwNone = [78; 111; 110; 101]%Z) /\
  (rank_num <> rank_str /\ rank_num <> rank_kw /\ rank_str <> rank_kw).
Proof. exact (conj lit_json_spec (conj lit_py_spec ranks_distinct)). Qed.
Print Assumptions consts_ok.

(* the text of PrettyPrinter(fmt_json=m)(v, no_color=True) reads back as v (keys
   sorted), in both modes, for every value -- whatever layout each container got *)
Theorem roundtrip : forall m v, wf v = true ->
  read (plain_text m v) = Some (tree_of m v).
Proof. exact roundtrip_l. Qed.
Print Assumptions roundtrip.

(* ... and so does the text generated for a value at any nesting offset (the
   offset drives the one-line / wrapped decisions) *)
Theorem roundtrip_any_offset : forall m v off, wf v = true ->
  read (flat (gen m v off)) = Some (tree_of m v).
Proof. exact read_flat. Qed.
Print Assumptions roundtrip_any_offset.

(* the lines obtained by iterating the result, joined with "\n", are exactly the
   generated chunks in order, one "\n" per line break: nothing is lost or
   repeated at a line boundary *)
Theorem lines_lossless : forall m v,
  join_nl (gen_lines m v) = flat (gen m v 0) /\ plain_text m v = join_nl (gen_lines m v).
Proof. exact (fun m v => conj (lines_lossless_l m v) eq_refl). Qed.
Print Assumptions lines_lossless.

(* dict entries appear in sorted key order: the entries read back are a
   permutation of the dict's entries, ascending for _mk_type_sort_value's order
   (at every nesting level, since tree_of is applied to the entries again) *)
Theorem keys_sorted : forall m d,
  exists sd, tree_of m (VDict d) = PDict (map (fun kv => (pkey_of (fst kv), tree_of m (snd kv))) sd)
             /\ Permutation sd d
             /\ StronglySorted (fun a b => key_leb (fst a) (fst b) = true) sd.
Proof. exact keys_sorted_l. Qed.
Print Assumptions keys_sorted.

(* the order (Python's comparison of the (rank, payload) tuples) is total,
   transitive and antisymmetric on keys, so "sorted" fixes the sequence of keys *)
Theorem key_order :
  (forall a b, key_leb a b = true \/ key_leb b a = true) /\
  (forall a b c, key_leb a b = true -> key_leb b c = true -> key_leb a c = true) /\
  (forall a b, key_leb a b = true -> key_leb b a = true -> a = b).
Proof. exact key_order_l. Qed.
Print Assumptions key_order.

(* it is numeric order on int keys, code point order on str keys, and all keys
   of one type come before all keys of the other, as the ranks say *)
Theorem key_order_spec :
  (forall x y, key_leb (KInt x) (KInt y) = (x <=? y)%Z) /\
  (forall x y, key_leb (KStr x) (KStr y) = str_leb x y) /\
  (forall x y, key_leb (KInt x) (KStr y) = (rank_num <? rank_str)%Z) /\
  (forall x y, key_leb (KStr x) (KInt y) = (rank_str <? rank_num)%Z).
Proof. exact key_order_spec_l. Qed.
Print Assumptions key_order_spec.

(* long containers are wrapped without dropping, duplicating or reordering
   elements: a list reads back as the list of its elements' trees, in order,
   for every offset (one line, several items per line, one item per line) *)
Theorem no_drop_dup : forall m l off, wf (VList l) = true ->
  read (flat (gen m (VList l) off)) = Some (PList (map (tree_of m) l)).
Proof. exact list_items_l. Qed.
Print Assumptions no_drop_dup.

(* long containers are wrapped over several lines: a non-empty list / dict whose
   chunk sequence has no line break is shorter (offset included) than the limit
   read from the source -- for every value and offset, well-formed or not *)
Theorem long_containers_wrapped : forall m off,
  (forall l, l <> [] ->
     In NL (gen m (VList l) off) \/
     (Z.of_nat (off + length (flat (gen m (VList l) off))) < list_oneline_limit)%Z) /\
  (forall d, d <> [] ->
     In NL (gen m (VDict d) off) \/
     (Z.of_nat (off + length (flat (gen m (VDict d) off))) < dict_oneline_limit)%Z).
Proof. exact (fun m off => conj (fun l => long_list_wrapped m l off) (fun d => long_dict_wrapped m d off)). Qed.
Print Assumptions long_containers_wrapped.

(* ... and the several-items-per-line layout respects its limit: every line
   (indentation included) of the rendering of a list of simple values is at most
   max(one-line limit, wrap limit + 3, offset + 3 + longest item) characters --
   the 3 are the ", " joined before the limit test plus the trailing "," *)
Theorem wrapped_lines_bounded : forall m off l M, l <> [] -> forallb is_simple l = true ->
  Forall (fun x => length (simple_chunk m x) <= M) l ->
  Forall (fun ln => (Z.of_nat (length ln)
                     <= Z.max list_oneline_limit (Z.max (wrap_limit + 3) (Z.of_nat (off + 3 + M))))%Z)
         (map (@concat Z) (group (gen m (VList l) off) [])).
Proof. exact list_lines_bounded. Qed.
Print Assumptions wrapped_lines_bounded.

(* non-vacuity: a well-formed value with mixed keys, nested containers and a list
   of 80 numbers that is wrapped over several lines *)
Definition ex_value : value :=
  VDict [ (KStr [98]%Z, VList [VNum [49]%Z; VList [VNum [50]%Z]; VKw KwNone]);
          (KInt 12, VStr [104; 105]%Z);
          (KKw KwTrue, VDict []);
          (KStr [97]%Z, VList (repeat (VNum [49; 50; 51]%Z) 80)) ].

Example ex_wf : wf ex_value = true.
Proof. vm_compute. reflexivity. Qed.
Print Assumptions ex_wf.

Example ex_wrapped_and_read :
  (10 <=? length (gen_lines Json ex_value))%nat = true /\
  read (plain_text Json ex_value) = Some (tree_of Json ex_value) /\
  read (plain_text Py ex_value) = Some (tree_of Py ex_value).
Proof. vm_compute. repeat split. Qed.
Print Assumptions ex_wrapped_and_read.

(* ---- "the no-colour output" does not depend on how it was asked for (C11/Palette.v:
   PaletteUser._mk_palette + the construction of a palette) ----
   no_color=True wins over every other public argument: whether palette= is omitted,
   a class or a ready (coloured) object, whatever colors_conf= and the global colours
   configuration are, the palette the printer works with is plain whenever the call is
   accepted at all.  (That a plain palette makes str() of a line its plain text is the
   trusted CHText part, checked by the correspondence on every configuration.) *)
Theorem no_color_wins : forall c p,
  c_nc c = true -> mk_palette_plain c = Some p -> p = true.
Proof. exact no_color_wins_l. Qed.
Print Assumptions no_color_wins.

(* ... the call is rejected exactly for a ready object together with colors_conf= *)
Theorem rejected_iff : forall c,
  mk_palette_plain c = None <->
  (exists onc oconf p, c_pal c = PalObj onc oconf /\ c_conf c = ConfGiven p).
Proof. exact rejected_iff_l. Qed.
Print Assumptions rejected_iff.

(* ... and a no_color configuration (colors_conf=, or the global one when none is
   given) gives the plain palette for a palette class / the default class, with or
   without no_color=True *)
Theorem no_color_conf_plain : forall c,
  (c_pal c = PalNone \/ c_pal c = PalClass) ->
  (c_conf c = ConfGiven true \/ (c_conf c = ConfNone /\ c_glob_plain c = true)) ->
  mk_palette_plain c = Some true.
Proof. exact no_color_conf_plain_l. Qed.
Print Assumptions no_color_conf_plain.

(* non-vacuity: a coloured ready object is used as it is without no_color (colours),
   and is replaced by the plain palette with no_color=True; class + coloured
   colors_conf + no_color=True is accepted and plain *)
Example ex_no_color_wins :
  mk_palette_plain (Cfg (PalObj false ConfNone) false ConfNone false) = Some false /\
  mk_palette_plain (Cfg (PalObj false (ConfGiven false)) true ConfNone false) = Some true /\
  mk_palette_plain (Cfg PalClass true (ConfGiven false) false) = Some true /\
  mk_palette_plain (Cfg PalClass false (ConfGiven false) true) = Some false.
Proof. vm_compute. repeat split. Qed.
Print Assumptions ex_no_color_wins.
