(* C18/PropsText.v -- what "converting a cell" means at the level of code points (round 4), nothing else.
   Strings are lists of code points.  [make_value cv v] is _CellReader._make_value of the converter cv. *)
From Coq Require Import ZArith List Bool.
From AK Require Import Common.Err C18.Base gen.C18_Consts C18.Model C18.LemmasText.
Import ListNotations.
Open Scope Z_scope.

(* list_cell_split_spec.  The value of a list cell with the text s (a set cell: the same items as a set) is
   [list_items s] = the pieces of s, each stripped, the empty ones dropped, where "the pieces" are characterised
   without reference to the code: pieces contain neither ',' (44) nor '\n' (10) ([is_sep]), there is one more piece
   than separators in s, and the pieces with the separators of s put back between them are s.  So a piece ends at
   ',' and at '\n' and NOWHERE else: not at VT, FF, FS, GS, RS, NEL, LS, PS, nor at a CR (the further boundaries of
   str.splitlines()), nor at ';' or a fullwidth comma. *)
Theorem list_cell_split_spec : forall s,
  make_value (mkConv KList None None None) (CStr s) = Ok (VList (list_items s)) /\
  make_value (mkConv KSet None None None) (CStr s) = Ok (VSet (sort_strs (dedupe (list_items s) []))) /\
  list_items s = filter (fun x => negb (is_nil x)) (map strip (split_commas s [])) /\
  (forall pieces,
     pieces = split_commas s [] <->
     (Forall (fun p => forallb (fun c => negb (is_sep c)) p = true) pieces /\
      length pieces = S (length (filter is_sep s)) /\
      join_with pieces (filter is_sep s) = s)).
Proof.
  intros s. split; [reflexivity|]. split; [reflexivity|]. apply LemmasText.list_cell_split_spec.
Qed.
Print Assumptions list_cell_split_spec.

(* a text without ',' and '\n' is one element, whatever else it contains: the element is the stripped text *)
Theorem list_cell_one_element : forall s,
  forallb (fun c => negb (is_sep c)) s = true ->
  list_items s = (if is_nil (strip s) then [] else [strip s]).
Proof.
  intros s H. unfold list_items. rewrite (no_sep_one_piece s H). simpl.
  destruct (is_nil (strip s)); reflexivity.
Qed.
Print Assumptions list_cell_one_element.

(* str_strip_spec.  CellStr (and every element of a list cell, every column title) is [strip s]: s without a prefix
   and a suffix of str.isspace code points ([Model.spaces], compared with the running python by the generated cases),
   and what is left neither starts nor ends with such a code point.  Nothing inside is touched. *)
Theorem str_strip_spec : forall s, exists pre post,
  s = pre ++ strip s ++ post /\ forallb is_space pre = true /\ forallb is_space post = true /\
  match strip s with [] => True | c :: _ => is_space c = false end /\
  match rev (strip s) with [] => True | c :: _ => is_space c = false end.
Proof. exact strip_spec. Qed.
Print Assumptions str_strip_spec.

(* CellInt takes int cells only: no text is converted, whatever int() would make of it *)
Theorem int_cell_no_text : forall s n, make_value (mkConv KInt None None None) (CStr s) = Err ValueErr /\
  make_value (mkConv KInt None None None) (COther s n) = Err ValueErr.
Proof. intros; split; reflexivity. Qed.
Print Assumptions int_cell_no_text.

(* non-vacuity, the texts of the seeded change:  "to be<NEL>continued, draft" -> 2 elements;
   "Terms<VT>Conditions, legal"; "one\r\ntwo,  three " -> the CR of CR LF is stripped; "a\rb" stays one element;
   "x;y，z" is one element *)
Example ex_list_texts :
  list_items [116;111;32;98;101;133;99;111;110;116;105;110;117;101;100;44;32;100;114;97;102;116] =
    [[116;111;32;98;101;133;99;111;110;116;105;110;117;101;100]; [100;114;97;102;116]] /\
  list_items [84;11;67;44;32;108] = [[84;11;67]; [108]] /\
  list_items [111;110;101;13;10;116;119;111;44;32;32;116;104;114;101;101;32] = [[111;110;101]; [116;119;111]; [116;104;114;101;101]] /\
  list_items [97;13;98] = [[97;13;98]] /\
  list_items [120;59;121;65292;122] = [[120;59;121;65292;122]] /\
  list_items [8232;97;8232;98;8233;44;12;10;133] = [[97;8232;98]].
Proof. vm_compute. repeat split. Qed.
Print Assumptions ex_list_texts.
