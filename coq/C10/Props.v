(* C10/Props.v -- the property theorems, nothing else.
   Rendering is pure: colours never change layout and output has no memory.

   Vocabulary (C10/Model.v, Lemmas*.v):
     world                 configurations (syntax map, registered classes, palette cache), a heap of
                           palette objects with identities, the per-class no_color slots, the global
                           configuration, the enum cell caches, the HCommand objects
     op / step / run_ops   a history: NewConf, Drop, Register (add_new_items), SetGlobal, Render, and the
                           lazy-result operations Make / Next / WholeH; every Render / Make carries the
                           identities the allocator will hand out (ANY list: an identity of a live object
                           is refused).  Console help h(obj) is a Render of the help program with
                           colors_conf=None (the global configuration), consumed by line: since the repair
                           of hdoc-captured-palette HCommand looks its palette up when it prints
                           (source_facts), and HCommand() itself does nothing to the world
     objspec               what an object prints: lines of items naming the palette accessor that
                           colours each text (taken from the implementation by the harness)
     reach fts w           w is reached from the initial world by a history whose operations meet
                           op_ok: user syntax items in the modelled colour language, no palette requested
                           with synced=True.  (No guard on the objects: since the repair of
                           enum-cache-equal-keys Python-equal enum values -- 1, True, 1.0 -- have a cache
                           entry each, source_facts)
     inv                   the four cache-coherence invariants (LemmasInv.v)
     plain_lines / pure_lines   the rendering as a pure function of colours (LemmasPure.v)
     eko                   = enum_key_is_object, read from ak/ppobj.py on every run
     jv / pp_lines / pp_obj   (Layout.v) a json-like value and the chunk program the pretty-printer's layout
                           code gives for it: one line below 200 visible characters, long lists of simple
                           values wrapped at 150, measured on visible text only
     titem / title_lines / table_obj   (Titles.v) the title block of a table: as many rows as the tallest title
                           among the VISIBLE columns, "" below a shorter title; table_obj = a table program whose
                           title block is the model's
     tstate / tsop / ts_run   (Titles.v) tables sharing one record structure (fmt_obj=, set_fmt, remove_columns):
                           renderings, new column sets, removed columns *)
From Coq Require Import ZArith List Bool.
From AK Require Import Common.Sx Common.Err C10.Sgr C10.SgrLemmas C10.Base gen.C10_Consts C10.Model
  C10.Lemmas C10.LemmasInv C10.LemmasRun C10.LemmasPure C10.LemmasTop C10.LemmasSub C10.LemmasWit
  C10.Layout C10.LemmasLayout C10.LemmasHandle C10.Titles C10.LemmasTitles.
Import ListNotations.
Open Scope Z_scope.

Notation eko := enum_key_is_object.

Definition reach (fts : list (Z * ftdef)) (w : world) : Prop :=
  exists ops outs, Forall op_ok ops /\ run_ops eko fts w0 ops = Ok (w, outs).

(* ---- what the proofs need from the source (regenerated on every run) ---- *)
(* the enum cell cache is keyed by the palette object (not by id(palette)); a new
   syntax id empties the palette cache of the configuration; below the palette the enum
   caches are indexed with (type(value), str(value), value) -- one entry per literal, not per
   class of Python-equal values; HCommand / LLImpl look their palette up when they print *)
Theorem source_facts :
  enum_key_is_object = true /\ reset_cache_on_new = true /\ enum_val_key_literal = true /\ help_palette_at_call = true.
Proof. exact (conj enum_key_object (conj reset_on_new (conj val_key_literal help_at_call))). Qed.
Print Assumptions source_facts.

(* ---- the caches stay coherent along every history ---- *)
(* inv = no stale enum cell, every cached palette carries the colours of its
   configuration's current map, no_color palettes have no colours, every colour
   prefix is a well-formed SGR sequence -- for every operation sequence and
   every allocation oracle *)
Theorem caches_coherent : forall fts w, reach fts w -> inv fts w.
Proof. exact inv_reachable. Qed.
Print Assumptions caches_coherent.

(* the enum cell cache is transparent: what it returns for a literal is what the palette
   would produce for it now (the repaired defects enum-cache-id-reuse and
   enum-cache-equal-keys: render_item looks the cell up by the literal) *)
Theorem enum_cache_transparent : forall fts w ft e v modi,
  reach fts w ->
  snd (enum_cell fts w ft e v v modi) = pure_cell fts (p_colors (pal_of w e)) ft v modi.
Proof.
  intros fts w ft e v modi H. destruct (inv_reachable fts w H) as (_ & _ & He & _).
  exact (proj1 (enum_cell_pure fts w ft e v modi He)).
Qed.
Print Assumptions enum_cache_transparent.

(* ---- cache_reset ---- *)
(* one configuration: register_in_colors_conf / add_new_items either leave map and
   cache alone or leave an empty cache *)
Theorem cache_reset_conf : forall fuel cf K items,
  ((c_smap (fst (register_raw fuel cf K)) = c_smap cf /\ c_cache (fst (register_raw fuel cf K)) = c_cache cf)
   \/ c_cache (fst (register_raw fuel cf K)) = []) /\
  ((c_smap (fst (add_raw cf items)) = c_smap cf /\ c_cache (fst (add_raw cf items)) = c_cache cf)
   \/ c_cache (fst (add_raw cf items)) = []).
Proof. intros. split; [apply register_raw_reset|apply add_raw_reset]. Qed.
Print Assumptions cache_reset_conf.

(* a palette obtained from a configuration after any history (registrations
   included) reflects the configuration's current map *)
Theorem cache_reset : forall fts w c K w' p,
  reach fts w -> class_call eko w (Some c) false K false = Ok (w', p) ->
  p_colors (pal_of w' p) = local_colors (conf_of w' c) K false /\ p_conf (pal_of w' p) = c.
Proof. intros fts w c K w' p H. exact (cache_reset_world fts w c K w' p (inv_reachable fts w H)). Qed.
Print Assumptions cache_reset.

(* ---- whole_eq_lines ---- *)
(* CHText("\n").join(lines) printed = the printed lines joined with "\n" *)
Theorem whole_eq_lines_chunks : forall ls, str_of (join_chunks ls) = join_lines (map str_of ls).
Proof. exact whole_eq_lines_l. Qed.
Print Assumptions whole_eq_lines_chunks.

(* a result consumed whole, by line, or both in either order: one text *)
Theorem whole_eq_lines : forall fts w obj copt nc pa mode ids w' outs t1 t2,
  reach fts w -> pa <> PSynced ->
  step eko fts w (ORender obj copt nc pa mode ids) = Ok (w', outs) ->
  In t1 outs -> In t2 outs -> t1 = t2.
Proof. intros fts w obj copt nc pa mode ids w' outs t1 t2 H. exact (render_texts_equal fts _ _ _ _ _ _ _ _ _ _ _ (inv_reachable fts w H) (obj_ok_all obj)). Qed.
Print Assumptions whole_eq_lines.

(* ---- strip_layout ---- *)
(* any two chunk lists with the same texts, one with well-formed colour prefixes and
   ESC-free texts, the other uncoloured *)
Theorem strip_layout_chunks : forall col plain,
  Forall chunk_ok col -> all_plain plain -> same_texts col plain ->
  strip (str_of col) = str_of plain /\ no_esc (str_of plain).
Proof. exact strip_layout_l. Qed.
Print Assumptions strip_layout_chunks.

(* every rendering of an object (any history, configuration, way of passing the
   palette and of consuming the result) with the escape sequences removed is
   the no_color rendering (of any other history), which has no ESC *)
Theorem strip_layout : forall fts w1 w2 obj copt1 copt2 nc pa1 pa2 mode1 mode2 ids1 ids2 w1' w2' outs1 outs2 t1 t2,
  reach fts w1 -> reach fts w2 -> obj_noesc fts obj -> pa1 <> PSynced -> pa2 <> PSynced ->
  step eko fts w1 (ORender obj copt1 nc pa1 mode1 ids1) = Ok (w1', outs1) ->
  step eko fts w2 (ORender obj copt2 true pa2 mode2 ids2) = Ok (w2', outs2) ->
  In t1 outs1 -> In t2 outs2 -> strip t1 = t2 /\ no_esc t2.
Proof.
  intros fts w1 w2 obj copt1 copt2 nc pa1 pa2 mode1 mode2 ids1 ids2 w1' w2' outs1 outs2 t1 t2 H1 H2.
  exact (render_strip_pair fts _ _ _ _ _ _ _ _ _ _ _ _ _ _ _ _ _ _ (inv_reachable fts w1 H1) (inv_reachable fts w2 H2) (obj_ok_all obj)).
Qed.
Print Assumptions strip_layout.

(* ---- history_independent ---- *)
(* the full statement: a rendering in any reachable world equals the rendering of
   the same object under a fresh configuration with the same user content in a
   fresh process *)
Definition history_independent_statement : Prop :=
  forall fts ops w outs obj c ct nc mode ids w' t ids' wf outsf,
    run_ops eko fts w0 ops = Ok (w, outs) ->
    zfind c (content ops) = Some ct ->
    step eko fts w (ORender obj (Some c) nc PNone mode ids) = Ok (w', t) ->
    run_ops eko fts w0 (fresh_ops c ct ++ [ORender obj (Some c) nc PNone mode ids']) = Ok (wf, outsf) ->
    last outsf [] = t.

(* proved, no_color: for every history, every object, every way of passing the
   palette, every allocation oracle -- closed form and history form *)
Theorem no_color_closed_form : forall fts w obj copt pa mode ids w' outs,
  reach fts w -> pa <> PSynced ->
  step eko fts w (ORender obj copt true pa mode ids) = Ok (w', outs) ->
  outs = texts_of mode (plain_lines fts (o_lines obj)).
Proof. intros fts w obj copt pa mode ids w' outs H. exact (render_no_color fts _ _ _ _ _ _ _ _ (inv_reachable fts w H) (obj_ok_all obj)). Qed.
Print Assumptions no_color_closed_form.

Theorem history_independent_no_color : forall fts ops w outs obj copt pa mode ids w' t ops' pa' copt' ids' wf outsf,
  Forall op_ok ops -> run_ops eko fts w0 ops = Ok (w, outs) ->
  pa <> PSynced -> pa' <> PSynced ->
  step eko fts w (ORender obj copt true pa mode ids) = Ok (w', t) ->
  Forall op_ok ops' ->
  run_ops eko fts w0 (ops' ++ [ORender obj copt' true pa' mode ids']) = Ok (wf, outsf) ->
  last outsf [] = t.
Proof.
  intros fts ops w outs obj copt pa mode ids w' t ops' pa' copt' ids' wf outsf Hok E.
  exact (hist_no_color fts ops w outs obj copt pa mode ids w' t ops' pa' copt' ids' wf outsf Hok E (obj_ok_all obj)).
Qed.
Print Assumptions history_independent_no_color.

(* proved, colour, objects printed through ONE palette (pretty-printer, git history
   report lines): the text is a closed formula of the object and of the state
   (no_color flag, syntax map, registered classes) of the configuration in
   force -- palette caches, identities, other configurations, earlier
   renderings do not enter *)
Theorem single_palette_closed_form : forall fts w obj copt pa mode ids w' outs,
  reach fts w -> simple_obj obj -> pa <> PSynced ->
  step eko fts w (ORender obj copt false pa mode ids) = Ok (w', outs) ->
  outs = texts_of mode (pure_lines fts
           (top_colors (match pa with PObj c => conf_of w c | _ => conf_in_force w copt end) (o_cls obj))
           (fun _ => []) (o_lines obj)).
Proof. intros fts w obj copt pa mode ids w' outs H. exact (render_simple_colour fts _ _ _ _ _ _ _ _ (inv_reachable fts w H) (obj_ok_all obj)). Qed.
Print Assumptions single_palette_closed_form.

Theorem history_independent_single_palette : forall fts ops1 w1 o1 ops2 w2 o2 obj copt mode ids1 ids2 w1' t1 w2' t2,
  Forall op_ok ops1 -> run_ops eko fts w0 ops1 = Ok (w1, o1) ->
  Forall op_ok ops2 -> run_ops eko fts w0 ops2 = Ok (w2, o2) ->
  simple_obj obj ->
  core (conf_in_force w1 copt) = core (conf_in_force w2 copt) ->
  step eko fts w1 (ORender obj copt false PNone mode ids1) = Ok (w1', t1) ->
  step eko fts w2 (ORender obj copt false PNone mode ids2) = Ok (w2', t2) ->
  t1 = t2.
Proof.
  intros fts ops1 w1 o1 ops2 w2 o2 obj copt mode ids1 ids2 w1' t1 w2' t2 H1 E1 H2 E2.
  exact (hist_single_palette fts ops1 w1 o1 ops2 w2 o2 obj copt mode ids1 ids2 w1' t1 w2' t2 H1 E1 H2 E2 (obj_ok_all obj)).
Qed.
Print Assumptions history_independent_single_palette.

(* PARTIAL, colour, compound objects (tables, record formatters): the palette of the
   object has the colours of the configuration in force, every enum cell is
   coloured by its current palette (enum_cache_transparent), and every
   sub-palette the object uses has the colours of SOME registration-extension
   cf' of the configuration in force (conf_grows: same no_color flag, syntax map
   extended, more classes registered) -- the state of the configuration when
   that sub-palette was first requested, possibly by an earlier rendering.
   Which extension is not determined by the configuration alone: that is the
   channel of the open finding late-registered-parent *)
Theorem history_independent_compound_partial : forall fts w obj copt mode ids w' outs,
  reach fts w ->
  step eko fts w (ORender obj copt false PNone mode ids) = Ok (w', outs) ->
  exists subc,
    outs = texts_of mode (pure_lines fts (top_colors (conf_in_force w copt) (o_cls obj)) subc (o_lines obj)) /\
    forall K, In K (lines_subs (o_lines obj)) ->
      exists cf', conf_grows (conf_in_force w copt) cf' /\ subc K = local_colors cf' K false.
Proof. intros fts w obj copt mode ids w' outs H. exact (render_colour_subs fts _ _ _ _ _ _ _ (inv_reachable fts w H) (obj_ok_all obj)). Qed.
Print Assumptions history_independent_compound_partial.

(* GUARDED closed form for compound objects: once every syntax id used by the object's
   palette classes is present and resolved in the configuration in force (warm_cls:
   e.g. after the classes have registered -- from the second rendering on), the
   coloured text is a closed formula of the object and of the configuration's
   (no_color flag, syntax map); history does not enter.  The refuted case is
   exactly the cold one. *)
Theorem history_independent_compound_warm : forall fts w obj copt mode ids w' outs,
  reach fts w ->
  warm_cls (conf_in_force w copt) (o_cls obj) = true ->
  (forall K, In K (lines_subs (o_lines obj)) -> warm_cls (conf_in_force w copt) K = true) ->
  step eko fts w (ORender obj copt false PNone mode ids) = Ok (w', outs) ->
  outs = texts_of mode (pure_lines fts (local_colors (conf_in_force w copt) (o_cls obj) false)
                                   (fun K => local_colors (conf_in_force w copt) K false) (o_lines obj)).
Proof. intros fts w obj copt mode ids w' outs H. exact (render_colour_warm fts _ _ _ _ _ _ _ (inv_reachable fts w H) (obj_ok_all obj)). Qed.
Print Assumptions history_independent_compound_warm.

(* the guard is satisfiable and not vacuous: a fresh default configuration is cold for
   the title palette, after one rendering of a table with a number column it is
   warm for the three classes the table uses *)
Example warm_satisfiable :
  let tbl := mkObj table_cls [record_cls; title_cls]
               [[IChunk None 1 [43]; IChunk (Some title_cls) 4 [105]; IChunk (Some record_cls) 16 [49]]] in
  exists w0' o0 w1 o1,
    run_ops eko [] w0 [ONewConf 0 false []] = Ok (w0', o0) /\
    warm_cls (conf_in_force w0' (Some 0)) title_cls = false /\
    run_ops eko [] w0 [ONewConf 0 false []; ORender tbl (Some 0) false PNone 0 [1; 2; 3]] = Ok (w1, o1) /\
    warm_cls (conf_in_force w1 (Some 0)) table_cls = true /\
    warm_cls (conf_in_force w1 (Some 0)) title_cls = true /\ warm_cls (conf_in_force w1 (Some 0)) record_cls = true /\
    lines_subs (o_lines tbl) = [title_cls; record_cls].
Proof.
  cbv zeta. eexists. eexists. eexists. eexists. split; [vm_compute; reflexivity|]. split; [vm_compute; reflexivity|].
  split; [vm_compute; reflexivity|]. split; [vm_compute; reflexivity|]. split; [vm_compute; reflexivity|].
  split; [vm_compute; reflexivity|]. reflexivity.
Qed.
Print Assumptions warm_satisfiable.

(* REFUTED on the faithful model (open finding late-registered-parent): a
   configuration entry whose parent id is registered later by a sub-palette
   class; the first rendering of a table uses a palette built before that *)
Theorem history_independent_refuted :
  exists fts ops w outs obj c ct nc mode ids w' t ids' wf outsf,
    Forall op_ok ops /\
    run_ops eko fts w0 ops = Ok (w, outs) /\
    zfind c (content ops) = Some ct /\
    step eko fts w (ORender obj (Some c) nc PNone mode ids) = Ok (w', t) /\
    run_ops eko fts w0 (fresh_ops c ct ++ [ORender obj (Some c) nc PNone mode ids']) = Ok (wf, outsf) /\
    last outsf [] <> t.
Proof.
  exists [], wit_late_ops. eexists. eexists. exists wit_tbl, 0. eexists. exists false, 0, [3; 4]. eexists. eexists.
  exists [1; 2]. eexists. eexists.
  split; [repeat constructor; discriminate|].
  split; [vm_compute; reflexivity|]. split; [vm_compute; reflexivity|].
  split; [vm_compute; reflexivity|]. split; [vm_compute; reflexivity|].
  vm_compute. discriminate.
Qed.
Print Assumptions history_independent_refuted.

Theorem history_independent_statement_false : ~ history_independent_statement.
Proof.
  intros H.
  destruct history_independent_refuted as (fts & ops & w & outs & obj & c & ct & nc & mode & ids & w' & t & ids' & wf & outsf & _ & A & B & C & D & E).
  exact (E (H _ _ _ _ _ _ _ _ _ _ _ _ _ _ _ A B C D)).
Qed.
Print Assumptions history_independent_statement_false.

(* ---- repaired: enum-cache-equal-keys ---- *)
(* The enum cell / length caches are indexed with (type(value), str(value), value): one entry per
   literal (source_facts).  Which literals are equal under Python's == -- the vkey field of an enum
   item, the key of the caches before the repair -- does not enter ANY operation: changing it
   arbitrarily (rekey f) changes neither the texts nor the world.  No theorem of this file carries
   the former guard "no two Python-equal enum values in one field type" any more. *)
Theorem enum_equality_irrelevant : forall fts w f o copt nc pa mode ids h,
  step eko fts w (ORender (rekey f o) copt nc pa mode ids) = step eko fts w (ORender o copt nc pa mode ids) /\
  step eko fts w (ONext h (rekey f o) ids) = step eko fts w (ONext h o ids) /\
  step eko fts w (OWholeH h (rekey f o) mode ids) = step eko fts w (OWholeH h o mode ids).
Proof. intros. apply step_rekey. Qed.
Print Assumptions enum_equality_irrelevant.

(* the former witness (enum_alias_refuted): literal True after literal 1 through one field type with
   key 1 -- the text now is the text of a fresh start ("True one", not the cached "1 one") *)
Example enum_alias_repaired :
  exists w outs ct w' t wf outsf,
    run_ops eko wit_ft w0 wit_alias_ops = Ok (w, outs) /\
    zfind 0 (content wit_alias_ops) = Some ct /\
    step eko wit_ft w (ORender (wit_etbl 1) (Some 0) false PNone 0 [3; 4]) = Ok (w', t) /\
    run_ops eko wit_ft w0 (fresh_ops 0 ct ++ [ORender (wit_etbl 1) (Some 0) false PNone 0 [1; 2]]) = Ok (wf, outsf) /\
    last outsf [] = t /\ t = [[27; 91; 51; 52; 59; 49; 109; 84; 27; 91; 48; 109]] /\
    nth 1 outs [] = [[27; 91; 51; 51; 109; 49; 27; 91; 48; 109]].
Proof.
  eexists. eexists. eexists. eexists. eexists. eexists. eexists.
  split; [vm_compute; reflexivity|]. split; [vm_compute; reflexivity|].
  split; [vm_compute; reflexivity|]. split; [vm_compute; reflexivity|].
  split; [vm_compute; reflexivity|]. split; vm_compute; reflexivity.
Qed.
Print Assumptions enum_alias_repaired.

(* ---- repaired: hdoc-captured-palette ---- *)
(* HCommand / LLImpl look their palette up when they print (source_facts), so h(obj) is
   ORender <help program> None false PNone 1: the palette of the GLOBAL configuration in force at
   the call.  Closed form: a formula of the help program and of the state (no_color flag, syntax
   map, registered classes) of that configuration -- when the HCommand object was created, what it
   printed before, which configuration was global then, do not enter *)
Theorem help_closed_form : forall fts w hobj ids w' outs,
  reach fts w -> simple_obj hobj ->
  step eko fts w (ORender hobj None false PNone 1 ids) = Ok (w', outs) ->
  outs = [text_lines (pure_lines fts (top_colors (conf_in_force w None) (o_cls hobj)) (fun _ => []) (o_lines hobj))].
Proof.
  intros fts w hobj ids w' outs H Hs E.
  assert (PNone <> PSynced) as Hpa by discriminate.
  exact (single_palette_closed_form fts w hobj None PNone 1 ids w' outs H Hs Hpa E).
Qed.
Print Assumptions help_closed_form.

(* history form: two histories that leave the global configuration in the same state print the
   same help *)
Theorem help_history_independent : forall fts ops1 w1 o1 ops2 w2 o2 hobj ids1 ids2 w1' t1 w2' t2,
  Forall op_ok ops1 -> run_ops eko fts w0 ops1 = Ok (w1, o1) ->
  Forall op_ok ops2 -> run_ops eko fts w0 ops2 = Ok (w2, o2) ->
  simple_obj hobj ->
  core (conf_in_force w1 None) = core (conf_in_force w2 None) ->
  step eko fts w1 (ORender hobj None false PNone 1 ids1) = Ok (w1', t1) ->
  step eko fts w2 (ORender hobj None false PNone 1 ids2) = Ok (w2', t2) ->
  t1 = t2.
Proof. intros fts ops1 w1 o1 ops2 w2 o2 hobj. exact (history_independent_single_palette fts ops1 w1 o1 ops2 w2 o2 hobj None 1). Qed.
Print Assumptions help_history_independent.

(* under a no_color global configuration help is plain text, whatever happened before *)
Theorem help_no_color_global : forall fts w hobj ids w' outs,
  reach fts w -> simple_obj hobj -> c_nocolor (conf_in_force w None) = true ->
  step eko fts w (ORender hobj None false PNone 1 ids) = Ok (w', outs) ->
  outs = [text_lines (plain_lines fts (o_lines hobj))].
Proof.
  intros fts w hobj ids w' outs H Hs Hnc E. rewrite (help_closed_form fts w hobj ids w' outs H Hs E).
  f_equal. f_equal. apply pure_lines_nocolor_conf. exact Hnc.
Qed.
Print Assumptions help_no_color_global.

(* the former witness (help_captured_refuted): help is printed in colour under the default global
   configuration; set_global_colors_config(ColorsConfig(no_color=True)); the same h prints no ESC *)
Example help_follows_global :
  outs_of (run_ops eko [] w0 [ORender wit_hobj None false PNone 1 [1]; ONewConf 0 true []; OSetGlobal (Some 0);
                              ORender wit_hobj None false PNone 1 [2]])
    = Some [[[27; 91; 51; 52; 109; 102; 27; 91; 48; 109]]; []; []; [[102]]] /\
  outs_of (run_ops eko [] w0 [ONewConf 0 true []; OSetGlobal (Some 0); ORender wit_hobj None false PNone 1 [1]])
    = Some [[]; []; [[102]]] /\
  simple_obj wit_hobj.
Proof. split; [vm_compute; reflexivity|]. split; [vm_compute; reflexivity|reflexivity]. Qed.
Print Assumptions help_follows_global.

(* the repaired defect: in the model with the cache keyed by id(palette) the text
   depends on the identities the allocator hands out (render under A, drop A,
   create B, render with A's identities) *)
Theorem id_keyed_cache_refuted :
  exists outs1 outs2,
    outs_of (run_ops false wit_ft1 w0 (wit_id_ops ++ [ORender (wit_etbl 0) (Some 1) false PNone 0 [1; 2]])) = Some outs1 /\
    outs_of (run_ops false wit_ft1 w0 (wit_id_ops ++ [ORender (wit_etbl 0) (Some 1) false PNone 0 [3; 4]])) = Some outs2 /\
    last outs1 [] <> last outs2 [].
Proof. eexists. eexists. split; [vm_compute; reflexivity|]. split; [vm_compute; reflexivity|]. vm_compute. discriminate. Qed.
Print Assumptions id_keyed_cache_refuted.

(* ---- the hypotheses are satisfiable on non-trivial values ---- *)
(* a guarded history with an enum table rendered under two configurations, one
   dropped in between, identities re-used where CPython allows it; it produces
   coloured text, and its object satisfies obj_noesc *)
Example guards_satisfiable :
  let ops := wit_id_ops ++ [ORender (wit_etbl 0) (Some 1) false PNone 2 [1; 4]; ORender (wit_etbl 0) (Some 1) true PNone 3 [5; 6]] in
  Forall op_ok ops /\ obj_noesc wit_ft1 (wit_etbl 0) /\
  exists w outs, run_ops eko wit_ft1 w0 ops = Ok (w, outs) /\
    nth 4 outs [] = [[27; 91; 51; 52; 109; 65; 27; 91; 48; 109]; [27; 91; 51; 52; 109; 65; 27; 91; 48; 109]] /\
    nth 5 outs [] = [[65]; [65]].
Proof.
  cbv zeta. split; [repeat constructor; discriminate|].
  split; [repeat constructor; vm_compute; intros [H|[]]; discriminate|].
  eexists. eexists. split; [vm_compute; reflexivity|]. split; reflexivity.
Qed.
Print Assumptions guards_satisfiable.

(* two different histories that bring a configuration into the same state: the
   hypothesis of history_independent_single_palette *)
Example same_core_satisfiable :
  let j := mkObj pp_cls [] [[IChunk None 16 [55]; IPlain [44]]] in
  let ops1 := [ONewConf 0 false [(19, mkDescr None (FCol 5) (Some true))]] in
  let ops2 := [ONewConf 0 false [(19, mkDescr None (FCol 5) (Some true))]; ONewConf 1 false [];
               ORender j (Some 0) false PNone 0 [1]; ORender j (Some 1) true PNone 1 [2]; ODrop 1] in
  simple_obj j /\
  exists w1 o1 w2 o2, run_ops eko [] w0 ops1 = Ok (w1, o1) /\ run_ops eko [] w0 ops2 = Ok (w2, o2) /\
    core (conf_in_force w1 (Some 0)) = core (conf_in_force w2 (Some 0)).
Proof.
  cbv zeta. split; [reflexivity|].
  eexists. eexists. eexists. eexists. split; [vm_compute; reflexivity|]. split; [vm_compute; reflexivity|].
  vm_compute. reflexivity.
Qed.
Print Assumptions same_core_satisfiable.

(* ---- the pretty-printer with its layout code modelled (Layout.v) ---- *)
(* the chunk program the layout model computes for ANY json-like value (any nesting,
   any offsets, one-line / wrapped / one-per-line forms) is printed through the
   top palette only and meets the guards of the theorems above; its texts are
   ESC-free when the texts of the value (string contents, str() of numbers and
   of keys) are *)
Theorem pp_layout_guards : forall fj v,
  simple_obj (pp_obj fj v) /\ (forall fts, jv_noesc v -> obj_noesc fts (pp_obj fj v)).
Proof. intros fj v. split; [apply pp_obj_simple_l|]. intros fts. apply pp_obj_noesc_l. Qed.
Print Assumptions pp_layout_guards.

(* first clause of the property for pretty-printer results, layout included: any
   rendering of a value (any history, configuration, way of passing the palette,
   way of consuming) with the escape sequences removed is the no_color rendering
   of the value after any other history; the layout -- pp_lines, a function of
   the value and the format alone -- is the same in both *)
Theorem pp_strip_layout : forall fts w1 w2 fj v copt1 copt2 nc pa1 pa2 mode1 mode2 ids1 ids2 w1' w2' outs1 outs2 t1 t2,
  reach fts w1 -> reach fts w2 -> jv_noesc v -> pa1 <> PSynced -> pa2 <> PSynced ->
  step eko fts w1 (ORender (pp_obj fj v) copt1 nc pa1 mode1 ids1) = Ok (w1', outs1) ->
  step eko fts w2 (ORender (pp_obj fj v) copt2 true pa2 mode2 ids2) = Ok (w2', outs2) ->
  In t1 outs1 -> In t2 outs2 -> strip t1 = t2 /\ no_esc t2.
Proof.
  intros fts w1 w2 fj v copt1 copt2 nc pa1 pa2 mode1 mode2 ids1 ids2 w1' w2' outs1 outs2 t1 t2 H1 H2 Hv.
  exact (strip_layout fts w1 w2 (pp_obj fj v) copt1 copt2 nc pa1 pa2 mode1 mode2 ids1 ids2 w1' w2' outs1 outs2 t1 t2
           H1 H2 (pp_obj_noesc_l fts fj v Hv)).
Qed.
Print Assumptions pp_strip_layout.

(* closed forms: the text of a pretty-printed value is a formula of the value, the
   format and -- in colour -- the state of the configuration in force; nothing else *)
Theorem pp_closed_form : forall fts w fj v copt nc pa mode ids w' outs,
  reach fts w -> pa <> PSynced ->
  step eko fts w (ORender (pp_obj fj v) copt nc pa mode ids) = Ok (w', outs) ->
  outs = texts_of mode
           (if nc then plain_lines fts (pp_lines fj v)
            else pure_lines fts (top_colors (match pa with PObj c => conf_of w c | _ => conf_in_force w copt end) pp_cls)
                            (fun _ => []) (pp_lines fj v)).
Proof.
  intros fts w fj v copt nc pa mode ids w' outs H Hpa Hs. destruct nc.
  - exact (no_color_closed_form fts w (pp_obj fj v) copt pa mode ids w' outs H Hpa Hs).
  - exact (single_palette_closed_form fts w (pp_obj fj v) copt pa mode ids w' outs H (pp_obj_simple_l fj v) Hpa Hs).
Qed.
Print Assumptions pp_closed_form.

(* the layout model at its thresholds: 16 ten-digit numbers measure 192 < 200 and stay on
   one line, 17 measure 204 and are wrapped -- 12 numbers fill a line (2 + 120 + 22 = 144,
   the next one would give 156 > 150); nested: the wrapped list sits at offset 2 *)
Example pp_layout_thresholds :
  let n := JNum [49; 50; 51; 52; 53; 54; 55; 56; 57; 48] in
  let v := JD [KStr [97]; KRaw [55]] [JL (repeat n 20); JL [JKw 0; JStr [120]; JEmptyD]] in
  jv_noesc v /\
  map items_len (pp_lines false (JL (repeat n 16))) = [192%nat] /\
  map items_len (pp_lines false (JL (repeat n 17))) = [1%nat; 145%nat; 60%nat; 1%nat] /\
  map items_len (pp_lines true v) = [1%nat; 8%nat; 147%nat; 98%nat; 4%nat; 20%nat; 1%nat].
Proof.
  cbv zeta. split.
  - vm_compute. repeat split; try (intros H; repeat (destruct H as [H|H]; [discriminate|]); exact H).
    repeat constructor; intros H; repeat (destruct H as [H|H]; [discriminate|]); exact H.
  - split; [vm_compute; reflexivity|]. split; vm_compute; reflexivity.
Qed.
Print Assumptions pp_layout_thresholds.

(* ---- lazy results: created first, consumed later, line by line, interleaved ---- *)
(* histories may contain OMake (r = obj.ch_text(...): the palette is selected and held),
   ONext (one step of a generator over r: the sub-palettes first requested and the
   line yielded) and OWholeH (str(r) / a full iteration); reach, caches_coherent and
   the theorems above hold for such histories too (op_ok covers the new operations) *)
Theorem handle_created : forall fts w h K copt nc pa ids w' outs,
  reach fts w -> pa <> PSynced -> step eko fts w (OMake h K copt nc pa ids) = Ok (w', outs) ->
  exists cp, zfind h (w_hcmds w') = Some cp /\ outs = [] /\
    (nc = true -> In (K, cp) (w_slots w')) /\
    (nc = false -> pa = PNone -> p_colors (pal_of w' cp) = top_colors (conf_in_force w copt) K).
Proof. intros fts w h K copt nc pa ids w' outs H. exact (make_handle fts _ _ _ _ _ _ _ _ _ (inv_reachable fts w H)). Qed.
Print Assumptions handle_created.

(* what one step of a generator / a whole consumption prints, in ANY reachable world
   (i.e. whatever was created, consumed or rendered since the result was created):
   objects printed through one palette -- a formula of the line and of the colours
   of the palette the handle holds, nothing else *)
Theorem handle_closed_forms : forall fts w h cp o ids,
  reach fts w -> zfind h (w_hcmds w) = Some cp -> simple_obj o ->
  (forall w' outs, step eko fts w (ONext h o ids) = Ok (w', outs) ->
     outs = [text_lines (pure_lines fts (p_colors (pal_of w cp)) (fun _ => []) (o_lines o))]) /\
  (forall mode w' outs, step eko fts w (OWholeH h o mode ids) = Ok (w', outs) ->
     outs = texts_of mode (pure_lines fts (p_colors (pal_of w cp)) (fun _ => []) (o_lines o))).
Proof.
  intros fts w h cp o ids H Eh Hs. pose proof (inv_reachable fts w H) as Hi. pose proof (obj_ok_all o) as Hok. split.
  - intros w' outs E. exact (next_simple fts _ _ _ _ _ _ _ Hi Eh Hok Hs E).
  - intros mode w' outs E. exact (whole_simple fts _ _ _ _ _ _ _ _ Hi Eh Hok Hs E).
Qed.
Print Assumptions handle_closed_forms.

(* a no_color result prints the plain text of every line, and of the whole, whatever
   guarded operations (other results created and consumed -- of the same object, in
   colour --, renderings, registrations, drops) happen between its creation and its
   consumption, for every object (tables with enum cells and sub-palettes included) *)
Theorem interleaved_no_color : forall fts w h K copt pa ids w1 o1 ops w2 o2 obj ids',
  reach fts w -> pa <> PSynced ->
  step eko fts w (OMake h K copt true pa ids) = Ok (w1, o1) ->
  Forall op_ok ops -> Forall (keeps h) ops -> run_ops eko fts w1 ops = Ok (w2, o2) ->
  (forall w3 outs, step eko fts w2 (ONext h obj ids') = Ok (w3, outs) -> outs = [text_lines (plain_lines fts (o_lines obj))]) /\
  (forall mode w3 outs, step eko fts w2 (OWholeH h obj mode ids') = Ok (w3, outs) -> outs = texts_of mode (plain_lines fts (o_lines obj))).
Proof.
  intros fts w h K copt pa ids w1 o1 ops w2 o2 obj ids' H Hpa E1 Hok Hk E2.
  exact (interleaved_no_color_l fts w h K copt pa ids w1 o1 ops w2 o2 obj ids' (inv_reachable fts w H) Hpa E1 Hok Hk E2 (obj_ok_all obj)).
Qed.
Print Assumptions interleaved_no_color.

(* the hypotheses are satisfiable: a coloured and a no_color result of one object, consumed
   alternately, with a whole consumption of the no_color one in between *)
Example interleave_example :
  let l1 := mkObj pp_cls [] [[IChunk None acc_number [55]]] in
  let l2 := mkObj pp_cls [] [[IChunk None acc_keyword [84]]] in
  let both := mkObj pp_cls [] [[IChunk None acc_number [55]]; [IChunk None acc_keyword [84]]] in
  let ops := [ONext 1 l1 []; ONext 2 l1 []; OWholeH 2 both 0 []; ONext 1 l2 []; ONext 2 l2 []] in
  Forall op_ok ops /\ Forall (keeps 2) (OMake 1 pp_cls (Some 0) false PNone [1] :: ops) /\
  exists w outs,
    run_ops eko [] w0 (ONewConf 0 false [] :: OMake 1 pp_cls (Some 0) false PNone [1] :: OMake 2 pp_cls (Some 0) true PNone [2] :: ops) = Ok (w, outs) /\
    outs = [[]; []; []; [[27; 91; 51; 51; 109; 55; 27; 91; 48; 109]]; [[55]]; [[55; 10; 84]];
            [[27; 91; 51; 52; 59; 49; 109; 84; 27; 91; 48; 109]]; [[84]]].
Proof.
  cbv zeta. split; [repeat constructor|]. split; [repeat constructor; discriminate|].
  eexists. eexists. split; [vm_compute; reflexivity|reflexivity].
Qed.
Print Assumptions interleave_example.

(* ---- the title block of a table; the record structure the tables of a family share ---- *)
(* the block has exactly as many rows as the tallest title among the columns the table SHOWS
   (columns of the record structure that are not shown are not an argument of title_lines) *)
Theorem title_block_height : forall cols,
  (List.length (title_lines cols) = title_height cols)%nat /\
  (forall c, In c cols -> (List.length (snd c) <= title_height cols)%nat) /\
  (cols <> [] -> exists c, In c cols /\ (List.length (snd c) = title_height cols)%nat).
Proof.
  intros cols. split; [apply title_lines_length|]. split; [intros c; apply title_height_ge|apply title_height_attained].
Qed.
Print Assumptions title_block_height.

(* a table program with the model's title block meets the guard of strip_layout: with the escape
   sequences removed every rendering of it is its no_color rendering, title rows included *)
Theorem title_block_strip_layout : forall fts w1 w2 K subs pre cols post copt1 copt2 nc pa1 pa2 mode1 mode2 ids1 ids2 w1' w2' outs1 outs2 t1 t2,
  reach fts w1 -> reach fts w2 ->
  Forall (Forall (item_noesc fts)) pre -> cols_noesc cols -> Forall (Forall (item_noesc fts)) post ->
  pa1 <> PSynced -> pa2 <> PSynced ->
  step eko fts w1 (ORender (table_obj K subs pre cols post) copt1 nc pa1 mode1 ids1) = Ok (w1', outs1) ->
  step eko fts w2 (ORender (table_obj K subs pre cols post) copt2 true pa2 mode2 ids2) = Ok (w2', outs2) ->
  In t1 outs1 -> In t2 outs2 -> strip t1 = t2 /\ no_esc t2.
Proof.
  intros fts w1 w2 K subs pre cols post copt1 copt2 nc pa1 pa2 mode1 mode2 ids1 ids2 w1' w2' outs1 outs2 t1 t2 H1 H2 Hpre Hc Hpost.
  exact (strip_layout fts w1 w2 (table_obj K subs pre cols post) copt1 copt2 nc pa1 pa2 mode1 mode2 ids1 ids2 w1' w2' outs1 outs2 t1 t2
           H1 H2 (table_obj_noesc fts K subs pre cols post Hpre Hc Hpost)).
Qed.
Print Assumptions title_block_strip_layout.

(* no memory in the shared record structure: after ANY history of renderings and re-formattings of
   the tables of a family (1) the fields are what they were when they were made, (2) a table prints
   the block of the columns it shows now over those fields, (3) the same block as after the history
   with every rendering left out *)
Theorem title_block_no_memory : forall ops st tb,
  ts_fields (fst (ts_run st ops)) = ts_fields st /\
  snd (ts_step (fst (ts_run st ops)) (TSRender tb)) = title_lines (cols_of (ts_fields st) (vis_of (fst (ts_run st ops)) tb)) /\
  snd (ts_step (fst (ts_run st ops)) (TSRender tb)) =
    snd (ts_step (fst (ts_run st (filter (fun o => negb (is_render o)) ops))) (TSRender tb)).
Proof.
  intros ops st tb. split; [apply ts_run_fields|]. split; [apply ts_render_after|apply ts_no_memory].
Qed.
Print Assumptions title_block_no_memory.

(* the shape of seeded change C10-m5: fields id (one title line), nm (two), amt (three); table 0 shows all,
   table 1 only id and nm.  After table 0 was rendered (three rows) and lost its tall column, table 1 still
   prints two rows and table 0 prints two *)
Example title_block_example :
  let fields := [(0, [TStr [73; 100]]); (1, [TStr [78]; TObj acc_number true [55]]); (2, [TStr [97]; TStr []; TStr [98]])] in
  let st := mkTState fields [(0, [(0, 2%nat); (1, 3%nat); (2, 1%nat)]); (1, [(0, 2%nat); (1, 3%nat)])] in
  let outs := snd (ts_run st [TSRender 1; TSRender 0; TSRender 1; TSRemove 0 [2]; TSRender 0]) in
  map (@List.length _) outs = [2; 3; 2; 0; 2]%nat /\
  nth 0 outs [] = nth 2 outs [] /\ nth 4 outs [] = nth 0 outs [] /\
  title_fits (cols_of fields [(0, 2%nat); (1, 3%nat); (2, 1%nat)]) = true /\
  nth 1 (nth 1 outs []) [] =
    [sep_item; IChunk None acc_text [32; 32]; sep_item; IChunk None acc_text [32; 32]; IChunk (Some title_cls) acc_number [55]; sep_item;
     IChunk None acc_text [32]; sep_item].
Proof. cbv zeta. repeat split; vm_compute; reflexivity. Qed.
Print Assumptions title_block_example.
