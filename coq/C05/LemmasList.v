(* C05/LemmasList.v -- ListProds: the conversion of a valid derivation tree
   returns the items of the template frontier, in source order. *)
From Coq Require Import ZArith List Bool Lia.
From AK Require Import Common.Err LLP.Base gen.C05_Consts C05.Model C05.Lemmas.
Import ListNotations.

(* brackets and delimiter *)
Definition lpunct (o : lopts) : list sym := opt_cat [lo_open o; lo_delim o; lo_close o].

(* [o] is what an accepted constructor call stores, and the item symbol is
   neither a bracket/delimiter symbol nor one of the template's own symbols *)
Record lopts_ok (result : sym) (o : lopts) : Prop := mkLok {
  lok_br : is_some (lo_open o) = is_some (lo_close o);
  lok_afd : lo_afd o = true -> is_some (lo_delim o) = true /\ is_some (lo_open o) = true;
  lok_opt : lo_opt o = true -> is_some (lo_open o) = true;
  lok_item_punct : ~ In (lo_item o) (lpunct o);
  lok_item_res : lo_item o <> result;
  lok_item_tail : lo_item o <> result ++ sfx_tail;
  lok_punct_res : ~ In result (lpunct o);
  lok_punct_tail : ~ In (result ++ sfx_tail) (lpunct o) }.

Lemma list_ctor_ok : forall op item d c afd opt o,
  list_ctor op item d c afd opt = Ok o ->
  lo_open o = op /\ lo_item o = item /\ lo_delim o = d /\ lo_close o = c /\
  is_some (lo_open o) = is_some (lo_close o) /\
  (lo_afd o = true -> is_some (lo_delim o) = true /\ is_some (lo_open o) = true) /\
  (lo_opt o = true -> is_some (lo_open o) = true).
Proof.
  intros op item d c afd opt o. unfold list_ctor.
  destruct op, c, d, afd as [[|]|], opt as [[|]|]; simpl; intro H; try discriminate;
    injection H as <-; simpl; repeat split; auto; try discriminate.
Qed.

(* the items: what is left of the frontier when brackets and delimiters are dropped *)
Definition nonpunct (o : lopts) (t : rt) : bool := negb (mem (rname t) (lpunct o)).
Definition litems (result : sym) (o : lopts) (t : rt) : list rt :=
  filter (nonpunct o) (frontier (list_gen (list_init result o)) t).

(* cleanup of the items as container entries, in order; the first exception wins *)
Definition clean_tes (E : env) (l : list rt) : res (list te) :=
  all_ok (map (fun i => get_te (cl E i (MClean true false))) l).

Lemma clean_tes_cons : forall E i l,
  clean_tes E (i :: l) =
  match get_te (cl E i (MClean true false)) with
  | Err e => Err e
  | Ok x => match clean_tes E l with Ok r => Ok (x :: r) | Err e => Err e end
  end.
Proof. intros. unfold clean_tes. simpl. destruct (get_te _); reflexivity. Qed.

(* ------------------------------------------------------------------ *)
(* unfolding of the model                                              *)

Lemma cl_tail_node : forall E n ch T,
  cl E (RNode n ch) (MLTail T) =
  match sig_get (lt_tsigs T) (n, map rname ch) with
  | None => Err AssertErr
  | Some pos => match list_collect T (map (cl E) ch) pos with Ok l => Ok (OItems l) | Err e => Err e end
  end.
Proof. reflexivity. Qed.

Lemma cl_tail_null : forall E n T,
  cl E (RNull n) (MLTail T) =
  match sig_get (lt_tsigs T) (n, []) with
  | None => Err AssertErr
  | Some pos => match list_collect T [] pos with Ok l => Ok (OItems l) | Err e => Err e end
  end.
Proof. reflexivity. Qed.

Definition rs_of (E : env) (t : rt) : list (mode -> res out) :=
  match t with RNode _ ch | RSeq _ ch => map (cl E) ch | _ => [] end.

Lemma cl_clean_list : forall E t fc fch T,
  tmpl_get (e_tmpl E) (rname t) = Some (TL T) ->
  cl E t (MClean fc fch) =
  match sig_get (lt_sigs T) (rsig t) with
  | None => Err AssertErr
  | Some pos =>
     if lo_opt (lt_o T) && is_rnull t then Ok (OTe (embed t) fch)
     else match list_collect T (rs_of E t) pos with
          | Err e => Err e
          | Ok items => Ok (OTe (mkTe (rname t) true (CList (list_post (lt_o T) (map item_value items)))) fch)
          end
  end.
Proof. intros. destruct t; simpl in *; rewrite H; reflexivity. Qed.

(* ------------------------------------------------------------------ *)
(* shapes of the generated productions                                 *)

Section ListTemplate.
  Variable result : sym.
  Variable o : lopts.
  Hypothesis OK : lopts_ok result o.

  Let T := list_init result o.
  Let tail := lt_tail T.
  Let P := list_gen T.
  Let item := lo_item o.

  Definition all_punct (p : list sym) : Prop := Forall (fun s => In s (lpunct o)) p.

  Inductive lshape : list sym -> Prop :=
  | ls_punct p : all_punct p -> lshape p
  | ls_item pre post : all_punct pre -> all_punct post -> lshape (pre ++ item :: tail :: post).

  Lemma tail_cases :
    (is_some (lo_open o) || is_some (lo_delim o) = true /\ tail = result ++ sfx_tail /\ sym_eqb tail result = false) \/
    (is_some (lo_open o) || is_some (lo_delim o) = false /\ tail = result /\ sym_eqb tail result = true).
  Proof.
    subst tail T. unfold list_init. simpl.
    destruct (is_some (lo_open o) || is_some (lo_delim o)); [left|right]; repeat split.
    - apply sym_eqb_neq. apply app_neq_self. apply sfx_nonempty.
    - apply sym_eqb_refl.
  Qed.

  Lemma item_not_tail : item <> tail.
  Proof.
    destruct tail_cases as [(_ & E & _)|(_ & E & _)]; rewrite E; subst item.
    - apply (lok_item_tail _ _ OK).
    - apply (lok_item_res _ _ OK).
  Qed.

  Lemma tail_not_punct : ~ In tail (lpunct o).
  Proof.
    destruct tail_cases as [(_ & E & _)|(_ & E & _)]; rewrite E.
    - apply (lok_punct_tail _ _ OK).
    - apply (lok_punct_res _ _ OK).
  Qed.

  Lemma item_not_punct : ~ In item (lpunct o).
  Proof. apply (lok_item_punct _ _ OK). Qed.

  Ltac punct_tac :=
    repeat match goal with
           | |- all_punct _ => unfold all_punct
           | |- Forall _ [] => constructor
           | |- Forall _ (_ :: _) => constructor
           | |- In _ _ => simpl; tauto
           end.

  (* every production of the list symbol and of the tail symbol *)
  Lemma list_shapes : forall p,
    In p (sig_prods (lt_sigs T)) \/ In p (sig_prods (lt_tsigs T)) -> lshape p.
  Proof.
    intros p H.
    assert (G : In p (map opt_cat
                 [[lo_open o; lo_close o]; [lo_open o; Some item; Some tail; lo_close o]; [];
                  [lo_delim o; Some item; Some tail]; [lo_delim o]])).
    { pose proof tail_cases as TC. fold tail in TC.
      subst tail T item. unfold list_init in *. cbn [lt_sigs lt_tsigs lt_tail] in *.
      set (tl := if is_some (lo_open o) || is_some (lo_delim o) then result ++ sfx_tail else result) in *.
      destruct H as [H|H].
      - apply sig_prods_in in H. apply in_map_iff in H as [q [<- Hq]]. apply in_map.
        destruct (is_some (lo_open o)), (lo_opt o); simpl in Hq; simpl; tauto.
      - destruct TC as [(_ & _ & E)|(_ & _ & E)]; rewrite E in H.
        + apply sig_prods_in in H. apply in_map_iff in H as [q [<- Hq]]. apply in_map.
          destruct (lo_afd o); simpl in Hq; simpl; tauto.
        + apply sig_prods_in in H. apply in_map_iff in H as [q [<- Hq]]. apply in_map.
          destruct (is_some (lo_open o)), (lo_opt o); simpl in Hq; simpl; tauto. }
    clear H. simpl in G.
    destruct (lo_open o) as [op|] eqn:Eo, (lo_close o) as [c|] eqn:Ec, (lo_delim o) as [d|] eqn:Ed; simpl in G;
      repeat (destruct G as [<-|G]; [| ]); try contradiction;
      (let pt := (unfold all_punct, lpunct; rewrite ?Eo, ?Ec, ?Ed; simpl; repeat constructor; simpl; tauto) in
       first [ apply ls_punct; pt
             | apply (ls_item [] []); pt | apply (ls_item [_] [_]); pt
             | apply (ls_item [_] []); pt | apply (ls_item [] [_]); pt ]).
  Qed.

  Lemma P_result : plookup P result = Some (sig_prods (lt_sigs T)).
  Proof. unfold P, list_gen. cbn [plookup]. change (lt_res T) with result. now rewrite sym_eqb_refl. Qed.

  Lemma P_tail : plookup P tail = Some (sig_prods (if sym_eqb tail result then lt_sigs T else lt_tsigs T)).
  Proof.
    unfold P, list_gen. cbn [plookup]. change (lt_res T) with result. fold tail.
    destruct (sym_eqb tail result) eqn:E.
    - apply sym_eqb_eq in E. now rewrite E, sym_eqb_refl.
    - rewrite (sym_eqb_sym result tail), E. cbn [plookup]. now rewrite sym_eqb_refl.
  Qed.

  Lemma P_other : forall s, s <> result -> s <> tail -> plookup P s = None.
  Proof.
    intros s H1 H2. unfold P, list_gen. cbn [plookup]. change (lt_res T) with result. fold tail.
    assert (E1 : sym_eqb result s = false) by (apply sym_eqb_neq; congruence).
    assert (E2 : sym_eqb tail s = false) by (apply sym_eqb_neq; congruence).
    rewrite E1. destruct (sym_eqb tail result); cbn [plookup]; [reflexivity|now rewrite E2].
  Qed.

  Lemma P_punct : forall s, In s (lpunct o) -> plookup P s = None.
  Proof.
    intros s H. apply P_other; intro; subst s.
    - now apply (lok_punct_res _ _ OK).
    - now apply tail_not_punct.
  Qed.

  Lemma P_item : plookup P item = None.
  Proof. apply P_other; [apply (lok_item_res _ _ OK)|apply item_not_tail]. Qed.

  (* when tail = result both signature maps are the same *)
  Lemma tsigs_when_same : sym_eqb tail result = true -> lt_tsigs T = lt_sigs T.
  Proof.
    intro E. subst tail T. unfold list_init in *. cbn [lt_sigs lt_tsigs lt_tail] in *.
    rewrite E. apply sym_eqb_eq in E. now rewrite E.
  Qed.

  Lemma tail_prods : plookup P tail = Some (sig_prods (lt_tsigs T)).
  Proof.
    rewrite P_tail. destruct (sym_eqb tail result) eqn:E; [|reflexivity]. now rewrite tsigs_when_same.
  Qed.

  (* positions recorded for a production of the template *)
  Lemma sigs_get : forall names,
    In names (sig_prods (lt_sigs T)) ->
    sig_get (lt_sigs T) (result, names) = Some (find_index names item, find_index names tail).
  Proof.
    intros names H. subst T. unfold list_init in *. cbn [lt_sigs lt_tail] in *.
    apply sig_prods_in in H. rewrite make_sigs_get. simpl.
    match goal with |- (if ?b then _ else _) = _ => assert (Hb : b = true) end.
    { apply existsb_exists. apply in_map_iff in H as [q [Eq Hq]]. exists q. split; auto.
      apply sig_eqb_eq. now rewrite Eq. }
    rewrite Hb. reflexivity.
  Qed.

  Lemma tsigs_get : forall names,
    In names (sig_prods (lt_tsigs T)) ->
    sig_get (lt_tsigs T) (tail, names) = Some (find_index names item, find_index names tail).
  Proof.
    intros names H. subst tail T. unfold list_init in *. cbn [lt_sigs lt_tsigs lt_tail] in *.
    apply sig_prods_in in H. rewrite make_sigs_get. simpl.
    match goal with |- (if ?b then _ else _) = _ => assert (Hb : b = true) end.
    { apply existsb_exists. apply in_map_iff in H as [q [Eq Hq]]. exists q. split; auto.
      apply sig_eqb_eq. now rewrite Eq. }
    rewrite Hb. reflexivity.
  Qed.

  (* ---------------------------------------------------------------- *)
  (* children of a node that spells a production                       *)

  Lemma map_split : forall (ch : list rt) pre x y post,
    map rname ch = pre ++ x :: y :: post ->
    exists c1 cx cy c2, ch = c1 ++ cx :: cy :: c2 /\ map rname c1 = pre /\ rname cx = x /\ rname cy = y /\ map rname c2 = post.
  Proof.
    intros ch pre. revert ch. induction pre as [|p pre IH]; intros ch x y post H.
    - destruct ch as [|cx [|cy c2]]; simpl in H; try discriminate.
      injection H as Hx Hy Hp. exists [], cx, cy, c2. auto.
    - destruct ch as [|c ch]; simpl in H; [discriminate|]. injection H as Hc H.
      destruct (IH _ _ _ _ H) as (c1 & cx & cy & c2 & -> & H1 & H2 & H3 & H4).
      exists (c :: c1), cx, cy, c2. simpl. rewrite H1, Hc. auto.
  Qed.

  Lemma punct_children_items : forall ch,
    all_punct (map rname ch) -> filter (nonpunct o) (flat_map (frontier P) ch) = [].
  Proof.
    induction ch as [|c ch IH]; simpl; intro H; [reflexivity|].
    inversion H as [|? ? Hc Hr]; subst. rewrite filter_app, IH by assumption.
    rewrite (frontier_ext P c (P_punct _ Hc)). cbn [filter]. unfold nonpunct.
    apply mem_In in Hc. now rewrite Hc.
  Qed.

  Lemma item_child_items : forall c, rname c = item -> filter (nonpunct o) (frontier P c) = [c].
  Proof.
    intros c Hc.
    assert (F : frontier P c = [c]) by (apply frontier_ext; rewrite Hc; apply P_item).
    rewrite F. cbn [filter]. unfold nonpunct. rewrite Hc.
    assert (M : mem item (lpunct o) = false) by (apply mem_false; apply item_not_punct).
    now rewrite M.
  Qed.

  Lemma nth_error_map_cl : forall E (c1 : list rt) cx c2,
    nth_error (map (cl E) (c1 ++ cx :: c2)) (length c1) = Some (cl E cx).
  Proof. intros. rewrite map_app. rewrite nth_error_app2; rewrite map_length; [|lia]. now rewrite Nat.sub_diag. Qed.

  (* the shared part of transform_t_elem and _parse_tail_t_elem on a node
     that spells a production of the template *)
  Lemma collect_node : forall E ch,
    lshape (map rname ch) ->
    (forall c, In c ch -> rname c = tail -> valid P c = true ->
               cl E c (MLTail T) = match clean_tes E (filter (nonpunct o) (frontier P c)) with
                                   | Ok l => Ok (OItems l) | Err e => Err e end) ->
    forallb (valid P) ch = true ->
    list_collect T (map (cl E) ch) (find_index (map rname ch) item, find_index (map rname ch) tail) =
    clean_tes E (filter (nonpunct o) (flat_map (frontier P) ch)).
  Proof.
    intros E ch SH IH V. inversion SH as [p AP Ep | pre post APre APost Ep].
    - (* only brackets / delimiter *)
      rewrite punct_children_items by assumption.
      rewrite (find_index_notin _ item), (find_index_notin _ tail).
      + reflexivity.
      + intro H. eapply Forall_forall in AP; [|exact H]. now apply tail_not_punct.
      + intro H. eapply Forall_forall in AP; [|exact H]. now apply item_not_punct.
    - symmetry in Ep. destruct (map_split _ _ _ _ _ Ep) as (c1 & ci & ct & c2 & -> & H1 & Hi & Ht & H2).
      assert (NI : ~ In item pre).
      { intro H. eapply Forall_forall in APre; [|exact H]. now apply item_not_punct. }
      assert (NT : ~ In tail pre).
      { intro H. eapply Forall_forall in APre; [|exact H]. now apply tail_not_punct. }
      rewrite (find_index_app_notin pre item) by assumption.
      rewrite (find_index_app_notin pre tail) by assumption.
      rewrite find_index_head. simpl find_index at 1.
      assert (E1 : sym_eqb item tail = false) by (apply sym_eqb_neq; apply item_not_tail).
      rewrite E1, sym_eqb_refl.
      rewrite Nat.add_0_r. replace (length pre + 1)%nat with (length (c1 ++ [ci])) by (rewrite app_length, <- H1, map_length; reflexivity).
      replace (length pre) with (length c1) by (rewrite <- H1, map_length; reflexivity).
      unfold list_collect, at_pos. cbn [fst snd].
      rewrite nth_error_map_cl.
      replace (c1 ++ ci :: ct :: c2) with ((c1 ++ [ci]) ++ ct :: c2) by (rewrite <- app_assoc; reflexivity).
      rewrite nth_error_map_cl.
      (* the frontier *)
      rewrite <- app_assoc. simpl app.
      rewrite flat_map_app, filter_app. rewrite punct_children_items by (rewrite H1; assumption).
      simpl flat_map. rewrite !filter_app. rewrite (item_child_items ci Hi).
      rewrite (punct_children_items c2) by (rewrite H2; assumption).
      rewrite app_nil_r. simpl app. rewrite clean_tes_cons.
      destruct (get_te (cl E ci (MClean true false))) as [x|e]; [|reflexivity].
      rewrite (IH ct).
      + destruct (clean_tes E (filter (nonpunct o) (frontier P ct))); reflexivity.
      + apply in_or_app. right. right. now left.
      + exact Ht.
      + rewrite forallb_forall in V. apply V. apply in_or_app. right. right. now left.
  Qed.

  (* ---------------------------------------------------------------- *)
  (* _parse_tail_t_elem                                                *)

  Lemma tail_denote : forall E t,
    rname t = tail -> valid P t = true ->
    cl E t (MLTail T) = match clean_tes E (filter (nonpunct o) (frontier P t)) with
                        | Ok l => Ok (OItems l) | Err e => Err e end.
  Proof.
    intros E t. induction t as [n v|n|n ch IH|n ch IH] using rt_ind'; intros Hn V; cbn [rname] in Hn; subst n.
    - rewrite (valid_tok _ _ _ _ tail_prods) in V. discriminate.
    - rewrite (valid_null _ _ _ tail_prods) in V. apply existsb_syms in V.
      rewrite cl_tail_null, (tsigs_get [] V), (frontier_null _ _ _ tail_prods). reflexivity.
    - rewrite (valid_node _ _ _ _ tail_prods) in V.
      apply andb_true_iff in V as [V Vch]. apply andb_true_iff in V as [_ V]. apply existsb_syms in V.
      rewrite cl_tail_node, (tsigs_get _ V), (frontier_node _ _ _ _ tail_prods).
      rewrite collect_node; [reflexivity| | |exact Vch].
      + apply list_shapes. now right.
      + intros c Hc Hname Vc. rewrite Forall_forall in IH. apply IH; assumption.
    - rewrite (valid_seq _ _ _ _ tail_prods) in V. discriminate.
  Qed.

  (* ---------------------------------------------------------------- *)
  (* transform_t_elem                                                  *)

  Lemma list_denote_l : forall E t fc fch,
    tmpl_get (e_tmpl E) result = Some (TL T) ->
    rname t = result -> valid P t = true ->
    cl E t (MClean fc fch) =
    if lo_opt o && is_rnull t then Ok (OTe (embed t) fch)
    else match clean_tes E (litems result o t) with
         | Err e => Err e
         | Ok items => Ok (OTe (mkTe result true (CList (list_post o (map item_value items)))) fch)
         end.
  Proof.
    intros E t fc fch HT Hn V. rewrite <- Hn in HT.
    rewrite (cl_clean_list E t fc fch T HT). unfold litems. fold T. fold P.
    change (lt_o T) with o.
    destruct t as [n v|n|n ch|n ch]; cbn [rname] in Hn; subst n.
    - rewrite (valid_tok _ _ _ _ P_result) in V. discriminate.
    - rewrite (valid_null _ _ _ P_result) in V. apply existsb_syms in V.
      cbn [rsig rname]. rewrite (sigs_get [] V), (frontier_null _ _ _ P_result). reflexivity.
    - rewrite (valid_node _ _ _ _ P_result) in V.
      apply andb_true_iff in V as [V Vch]. apply andb_true_iff in V as [_ V]. apply existsb_syms in V.
      cbn [rsig rname is_rnull rs_of]. rewrite (sigs_get _ V), andb_false_r, (frontier_node _ _ _ _ P_result).
      rewrite collect_node; [reflexivity| | |exact Vch].
      + apply list_shapes. now left.
      + intros c Hc Hname Vc. apply tail_denote; assumption.
    - rewrite (valid_seq _ _ _ _ P_result) in V. discriminate.
  Qed.

  (* ---------------------------------------------------------------- *)
  (* concrete productions for given options                            *)

  Definition lp_of : list (list (option sym)) :=
    let lp0 := [[lo_open o; lo_close o]; [lo_open o; Some item; Some tail; lo_close o]] in
    let lp1 := if is_some (lo_open o) then lp0 else rev lp0 in
    if lo_opt o then lp1 ++ [[]] else lp1.

  Lemma sigs_eq : lt_sigs T = make_sigs result item tail lp_of.
  Proof. reflexivity. Qed.

  Lemma tsigs_eq : lt_tsigs T =
    make_sigs tail item tail
      (if sym_eqb tail result then lp_of
       else if lo_afd o then [[lo_delim o; Some item; Some tail]; [lo_delim o]; []]
            else [[lo_delim o; Some item; Some tail]; []]).
  Proof. reflexivity. Qed.

  Lemma sigs_prods_br : forall op c names,
    lo_open o = Some op -> lo_close o = Some c -> In names (sig_prods (lt_sigs T)) ->
    names = [op; c] \/ names = [op; item; tail; c] \/ names = [].
  Proof.
    intros op c names Eo Ec H. rewrite sigs_eq in H. apply sig_prods_in in H.
    unfold lp_of in H. rewrite Eo, Ec in H. cbn [is_some] in H.
    destruct (lo_opt o); simpl in H; intuition.
  Qed.

  Lemma tsigs_prods_sep : forall d names,
    lo_delim o = Some d -> In names (sig_prods (lt_tsigs T)) ->
    names = [d; item; tail] \/ names = [] \/ (lo_afd o = true /\ names = [d]).
  Proof.
    intros d names Ed H.
    destruct tail_cases as [(_ & _ & E)|(B & _ & _)].
    - rewrite tsigs_eq in H. fold tail in E. rewrite E in H. apply sig_prods_in in H. rewrite Ed in H.
      destruct (lo_afd o); simpl in H; intuition.
    - rewrite Ed in B. simpl in B. rewrite orb_true_r in B. discriminate.
  Qed.

  Lemma children_of_names1 : forall (ch : list rt) a, map rname ch = [a] -> exists x, ch = [x] /\ rname x = a.
  Proof. intros [|x [|y ch]] a H; try discriminate. injection H as H. eauto. Qed.

  Lemma children_of_names2 : forall (ch : list rt) a b,
    map rname ch = [a; b] -> exists x y, ch = [x; y] /\ rname x = a /\ rname y = b.
  Proof. intros [|x [|y [|z ch]]] a b H; try discriminate. injection H as H1 H2. eauto 6. Qed.

  Lemma children_of_names3 : forall (ch : list rt) a b c,
    map rname ch = [a; b; c] -> exists x y z, ch = [x; y; z] /\ rname x = a /\ rname y = b /\ rname z = c.
  Proof. intros [|x [|y [|z [|w ch]]]] a b c H; try discriminate. injection H as H1 H2 H3. eauto 8. Qed.

  Lemma children_of_names4 : forall (ch : list rt) a b c d,
    map rname ch = [a; b; c; d] ->
    exists x y z w, ch = [x; y; z; w] /\ rname x = a /\ rname y = b /\ rname z = c /\ rname w = d.
  Proof. intros [|x [|y [|z [|w [|v ch]]]]] a b c d H; try discriminate. injection H as H1 H2 H3 H4. eauto 10. Qed.

  (* ---------------------------------------------------------------- *)
  (* the frontier of a list without final delimiter alternates          *)

  Section NoFinal.
    Variables op d c : sym.
    Hypothesis Eo : lo_open o = Some op.
    Hypothesis Ed : lo_delim o = Some d.
    Hypothesis Ec : lo_close o = Some c.
    Hypothesis Eafd : lo_afd o = false.

    Inductive alt_tail : list rt -> Prop :=
    | at_nil : alt_tail []
    | at_cons dl it rest : rname dl = d -> rname it = item -> alt_tail rest -> alt_tail (dl :: it :: rest).

    Lemma d_punct : In d (lpunct o).
    Proof. unfold lpunct. rewrite Eo, Ed, Ec. simpl. tauto. Qed.
    Lemma op_punct : In op (lpunct o).
    Proof. unfold lpunct. rewrite Eo, Ed, Ec. simpl. tauto. Qed.
    Lemma c_punct : In c (lpunct o).
    Proof. unfold lpunct. rewrite Eo, Ed, Ec. simpl. tauto. Qed.

    Lemma tail_frontier_alt : forall t, rname t = tail -> valid P t = true -> alt_tail (frontier P t).
    Proof.
      intros t. induction t as [n v|n|n ch IH|n ch IH] using rt_ind'; intros Hn V; cbn [rname] in Hn; subst n.
      - rewrite (valid_tok _ _ _ _ tail_prods) in V. discriminate.
      - rewrite (frontier_null _ _ _ tail_prods). constructor.
      - rewrite (valid_node _ _ _ _ tail_prods) in V.
        apply andb_true_iff in V as [V Vch]. apply andb_true_iff in V as [Hne V]. apply existsb_syms in V.
        destruct (tsigs_prods_sep d _ Ed V) as [H|[H|[H _]]]; [| |congruence].
        + destruct (children_of_names3 _ _ _ _ H) as (x & y & z & -> & Hx & Hy & Hz).
          rewrite (frontier_node _ _ _ _ tail_prods). simpl flat_map. rewrite app_nil_r.
          rewrite (frontier_ext P x) by (rewrite Hx; apply P_punct, d_punct).
          rewrite (frontier_ext P y) by (rewrite Hy; apply P_item).
          simpl app. constructor; auto.
          inversion IH as [|? ? _ IH2]; subst. inversion IH2 as [|? ? _ IH3]; subst.
          inversion IH3 as [|? ? Hz' _]; subst. apply Hz'; auto.
          simpl in Vch. repeat (apply andb_true_iff in Vch as [? Vch]). assumption.
        + destruct ch; [discriminate Hne|discriminate H].
      - rewrite (valid_seq _ _ _ _ tail_prods) in V. discriminate.
    Qed.

    Lemma alt_tail_last : forall l, alt_tail l -> l <> [] -> exists l' it, l = l' ++ [it] /\ rname it = item.
    Proof.
      induction 1 as [|dl it rest Hd Hi Hr IH]; intro Hne; [congruence|].
      destruct rest as [|r0 rest'].
      - exists [dl], it. auto.
      - destruct IH as (l' & it' & E & Hit); [discriminate|].
        exists (dl :: it :: l'), it'. rewrite E. auto.
    Qed.

    (* yield through the frontier *)
    Lemma yield_frontier : forall t, valid P t = true -> yield t = flat_map yield (frontier P t).
    Proof.
      intros t. induction t as [n v|n|n ch IH|n ch IH] using rt_ind'; intro V.
      - destruct (plookup P n) eqn:L.
        + rewrite (valid_tok _ _ _ _ L) in V. discriminate.
        + rewrite frontier_ext by exact L. simpl. reflexivity.
      - destruct (plookup P n) eqn:L.
        + rewrite (frontier_null _ _ _ L). reflexivity.
        + rewrite frontier_ext by exact L. reflexivity.
      - destruct (plookup P n) eqn:L.
        + rewrite (frontier_node _ _ _ _ L). rewrite (valid_node _ _ _ _ L) in V.
          apply andb_true_iff in V as [_ Vch]. clear L.
          induction ch as [|x ch IHch]; [reflexivity|].
          simpl in Vch. apply andb_true_iff in Vch as [Vx Vch]. inversion IH; subst.
          simpl. rewrite flat_map_app. f_equal; auto.
        + rewrite frontier_ext by exact L. simpl. now rewrite app_nil_r.
      - destruct (plookup P n) eqn:L.
        + rewrite (valid_seq _ _ _ _ L) in V. discriminate.
        + rewrite frontier_ext by exact L. simpl. now rewrite app_nil_r.
    Qed.

    (* what is assumed of the subtrees the template does not define: brackets
       and delimiters are single tokens, an item matches at least one token and
       its last token is not the delimiter *)
    Definition leaf_ok (x : rt) : Prop :=
      if nonpunct o x then yield x <> [] /\ last (yield x) [] <> d else yield x = [rname x].

    Lemma yield_ends_item : forall l it,
      rname it = item -> leaf_ok it -> forall pre, flat_map yield (l ++ [it]) ++ [c] <> pre ++ [d; c].
    Proof.
      intros l it Hi Hok pre E. unfold leaf_ok, nonpunct in Hok. rewrite Hi in Hok.
      assert (M : mem item (lpunct o) = false) by (apply mem_false; apply item_not_punct).
      rewrite M in Hok. simpl in Hok. destruct Hok as [Hne Hlast].
      rewrite flat_map_app in E. simpl in E. rewrite app_nil_r in E.
      destruct (exists_last Hne) as (w & z & Ew). rewrite Ew in E, Hlast.
      rewrite last_last in Hlast.
      replace (pre ++ [d; c]) with ((pre ++ [d]) ++ [c]) in E by (rewrite <- app_assoc; reflexivity).
      apply app_inj_tail in E as [E _]. rewrite app_assoc in E. apply app_inj_tail in E as [_ E]. congruence.
    Qed.

    Lemma final_delim_rejected_l : forall t,
      rname t = result -> valid P t = true -> d <> op ->
      Forall leaf_ok (frontier P t) ->
      forall pre, yield t <> pre ++ [d; c].
    Proof.
      intros t Hn V Hdo LO pre. rewrite (yield_frontier t V).
      destruct t as [n v|n|n ch|n ch]; cbn [rname] in Hn; subst n.
      - rewrite (valid_tok _ _ _ _ P_result) in V. discriminate.
      - rewrite (frontier_null _ _ _ P_result). simpl. intro E. destruct pre; discriminate.
      - rewrite (valid_node _ _ _ _ P_result) in V.
        apply andb_true_iff in V as [V Vch]. apply andb_true_iff in V as [Hne V]. apply existsb_syms in V.
        rewrite (frontier_node _ _ _ _ P_result) in *.
        assert (PK : forall x s, rname x = s -> In s (lpunct o) -> leaf_ok x -> yield x = [s]).
        { intros x s Hx Hs Hok. unfold leaf_ok, nonpunct in Hok. rewrite Hx in Hok.
          apply mem_In in Hs. rewrite Hs in Hok. simpl in Hok. congruence. }
        destruct (sigs_prods_br op c _ Eo Ec V) as [H|[H|H]].
        + destruct (children_of_names2 _ _ _ H) as (x & y & -> & Hx & Hy).
          simpl flat_map in *. rewrite app_nil_r in *.
          rewrite (frontier_ext P x) in * by (rewrite Hx; apply P_punct, op_punct).
          rewrite (frontier_ext P y) in * by (rewrite Hy; apply P_punct, c_punct).
          pose proof (Forall_inv LO) as Lx. pose proof (Forall_inv (Forall_inv_tail LO)) as Ly.
          simpl. rewrite app_nil_r. rewrite (PK x op Hx op_punct Lx), (PK y c Hy c_punct Ly).
          intro E. destruct pre as [|p0 [|p1 pre]]; simpl in E; try congruence.
          destruct pre; discriminate.
        + destruct (children_of_names4 _ _ _ _ _ H) as (x & y & z & w & -> & Hx & Hy & Hz & Hw).
          simpl flat_map in *. rewrite app_nil_r in *.
          rewrite (frontier_ext P x) in * by (rewrite Hx; apply P_punct, op_punct).
          rewrite (frontier_ext P y) in * by (rewrite Hy; apply P_item).
          rewrite (frontier_ext P w) in * by (rewrite Hw; apply P_punct, c_punct).
          assert (Vz : valid P z = true).
          { simpl in Vch. repeat (apply andb_true_iff in Vch as [? Vch]). assumption. }
          pose proof (tail_frontier_alt z Hz Vz) as AT.
          assert (Lw : leaf_ok w).
          { rewrite Forall_forall in LO. apply LO.
            apply in_or_app; right. apply in_or_app; right. apply in_or_app; right. now left. }
          replace ([x] ++ [y] ++ frontier P z ++ [w]) with ((x :: y :: frontier P z) ++ [w]) by reflexivity.
          rewrite flat_map_app. simpl (flat_map yield [w]). rewrite app_nil_r, (PK w c Hw c_punct Lw).
          destruct (frontier P z) as [|f0 fr] eqn:Fz.
          * apply (yield_ends_item [x] y Hy).
            rewrite Forall_forall in LO. apply LO. simpl. auto.
          * destruct (alt_tail_last _ AT) as (l' & it & El & Hit); [discriminate|].
            rewrite El. replace (x :: y :: l' ++ [it]) with ((x :: y :: l') ++ [it]) by reflexivity.
            apply (yield_ends_item _ it Hit).
            rewrite Forall_forall in LO. apply LO. rewrite El.
            apply in_or_app; right. apply in_or_app; right. apply in_or_app; left.
            apply in_or_app; right. now left.
        + destruct ch; [discriminate Hne|discriminate H].
      - rewrite (valid_seq _ _ _ _ P_result) in V. discriminate.
    Qed.
  End NoFinal.

  (* ---------------------------------------------------------------- *)
  (* empty bracket pair, absent optional list, empty bracket-less list  *)

  Lemma empty_brackets_l : forall E op c b1 b2 fc fch,
    tmpl_get (e_tmpl E) result = Some (TL T) ->
    lo_open o = Some op -> lo_close o = Some c -> rname b1 = op -> rname b2 = c ->
    valid P (RNode result [b1; b2]) = true /\
    cl E (RNode result [b1; b2]) (MClean fc fch) = Ok (OTe (mkTe result true (CList [])) fch).
  Proof.
    intros E op c b1 b2 fc fch HT Eo Ec H1 H2.
    assert (Pop : In op (lpunct o)) by (unfold lpunct; rewrite Eo; simpl; tauto).
    assert (Pc : In c (lpunct o)) by (unfold lpunct; rewrite Eo, Ec; destruct (lo_delim o); simpl; tauto).
    assert (V : valid P (RNode result [b1; b2]) = true).
    { rewrite (valid_node _ _ _ _ P_result). cbn [is_nil negb map forallb].
      rewrite (valid_ext P b1) by (rewrite H1; now apply P_punct).
      rewrite (valid_ext P b2) by (rewrite H2; now apply P_punct).
      rewrite syms_existsb; [reflexivity|].
      rewrite sigs_eq. apply sig_prods_in. unfold lp_of. rewrite Eo, Ec, H1, H2. cbn [is_some].
      destruct (lo_opt o); simpl; tauto. }
    split; [exact V|].
    rewrite (list_denote_l E (RNode result [b1; b2]) fc fch HT eq_refl V). cbn [is_rnull]. rewrite andb_false_r.
    unfold litems. fold T. fold P. rewrite (frontier_node _ _ _ _ P_result).
    rewrite punct_children_items; [reflexivity|].
    constructor; [now rewrite H1|constructor; [now rewrite H2|constructor]].
  Qed.

  Lemma absent_optional_l : forall E fc fch,
    tmpl_get (e_tmpl E) result = Some (TL T) -> lo_opt o = true ->
    valid P (RNull result) = true /\
    cl E (RNull result) (MClean fc fch) = Ok (OTe (mkTe result true CNone) fch).
  Proof.
    intros E fc fch HT Hopt.
    assert (V : valid P (RNull result) = true).
    { rewrite (valid_null _ _ _ P_result). apply syms_existsb.
      rewrite sigs_eq. apply sig_prods_in. unfold lp_of. rewrite Hopt.
      apply in_map_iff. exists []. split; [reflexivity|]. apply in_or_app. right. now left. }
    split; [exact V|].
    rewrite (list_denote_l E (RNull result) fc fch HT eq_refl V), Hopt. reflexivity.
  Qed.

  Lemma bracketless_empty_l : forall E fc fch,
    tmpl_get (e_tmpl E) result = Some (TL T) -> lo_open o = None ->
    valid P (RNull result) = true /\
    cl E (RNull result) (MClean fc fch) = Ok (OTe (mkTe result true (CList [])) fch).
  Proof.
    intros E fc fch HT Eo.
    assert (Ec : lo_close o = None).
    { pose proof (lok_br _ _ OK) as B. rewrite Eo in B. destruct (lo_close o); [discriminate|reflexivity]. }
    assert (Hopt : lo_opt o = false).
    { destruct (lo_opt o) eqn:Ho; [|reflexivity]. pose proof (lok_opt _ _ OK Ho) as B. rewrite Eo in B. discriminate. }
    assert (V : valid P (RNull result) = true).
    { rewrite (valid_null _ _ _ P_result). apply syms_existsb.
      rewrite sigs_eq. apply sig_prods_in. unfold lp_of. rewrite Hopt, Eo, Ec. cbn [is_some]. simpl. tauto. }
    split; [exact V|].
    rewrite (list_denote_l E (RNull result) fc fch HT eq_refl V), Hopt.
    unfold litems. fold T. fold P. rewrite (frontier_null _ _ _ P_result). reflexivity.
  Qed.

  (* the (delimiter,) production contributes no item *)
  Lemma final_delim_no_item : forall d dl,
    lo_delim o = Some d -> rname dl = d ->
    filter (nonpunct o) (frontier P (RNode tail [dl])) = [].
  Proof.
    intros d dl Ed Hd. rewrite (frontier_node _ _ _ _ tail_prods).
    apply punct_children_items. constructor; [|constructor].
    rewrite Hd. unfold lpunct. rewrite Ed. destruct (lo_open o), (lo_close o); simpl; tauto.
  Qed.
End ListTemplate.

(* ------------------------------------------------------------------ *)
(* the special cases at the end of transform_t_elem                    *)

Lemma list_post_id : forall o vals,
  (lo_afd o = false \/ last vals CNone <> CNone) ->
  (is_some (lo_open o) = true \/ vals <> [CNone]) ->
  list_post o vals = vals.
Proof.
  intros o vals H1 H2. unfold list_post. destruct vals as [|v0 r]; [reflexivity|].
  assert (A : is_cnone (last (v0 :: r) CNone) && lo_afd o = false).
  { destruct H1 as [->|H1]; [apply andb_false_r|].
    destruct (last (v0 :: r) CNone); simpl; auto. congruence. }
  rewrite A.
  destruct (is_some (lo_open o)) eqn:B; simpl; [reflexivity|].
  destruct H2 as [H2|H2]; [discriminate|].
  destruct r as [|v1 r]; simpl; [|reflexivity].
  destruct v0; simpl; auto. congruence.
Qed.

Lemma list_post_final_none : forall o vals,
  lo_afd o = true -> list_post o (vals ++ [CNone]) = vals.
Proof.
  intros o vals H. unfold list_post. destruct (vals ++ [CNone]) eqn:E.
  - destruct vals; discriminate.
  - rewrite <- E. rewrite last_last, H. simpl. apply removelast_last.
Qed.
