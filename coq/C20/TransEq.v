(* C20/TransEq.v -- the functions TRANSLATED from the current ak/short_uuid.py
   (gen/C20_Translated.v, regenerated on every run) are extensionally equal to the
   hand-written model (Model.v), on all inputs, given enough fuel for the one while loop;
   hence every theorem about the model holds of the translated code (corollaries at the end).
   The proof scripts avoid the names of Python locals and normalise the arithmetic
   primitives (divmod, //, %) by rewriting, so that harmless rewrites of the source
   inside the translator's subset have a chance to go through. *)
From Coq Require Import ZArith List Bool Lia.
From AK Require Import Common.Sx Common.Err gen.C20_Consts C20.Model C20.Lemmas.
From AK Require Import C20.PyLib C20.PyLibLemmas gen.C20_Translated C20.TransInst.
Import ListNotations.
Open Scope Z_scope.

(* the current source is inside the translator's subset (otherwise gen/C20_Translated.v is a
   stub and this is the obligation that fails) *)
Lemma translation_is_available : translation_available = true.
Proof. reflexivity. Qed.

(* ------------------------------------------------------------------ *)
(* the module constants, as translated, against the extracted ones      *)

Lemma alphabet_eq : T__ALPHABET = py_chars alphabet.
Proof. vm_compute. reflexivity. Qed.

Definition index_table (al : list Z) : list (list Z * Z) :=
  map (fun '(i, c) => ([c], i)) (py_enumerate_from 0 al).

Lemma index_alphabet_eq : T__INDEX_ALPHABET = index_table alphabet.
Proof. vm_compute. reflexivity. Qed.

Lemma short_len_eq : T__SHORT_GUID_LEN = Z.of_nat short_len.
Proof. vm_compute. reflexivity. Qed.

Lemma alphabet_len : py_len T__ALPHABET = base.
Proof. rewrite alphabet_eq, py_len_chars. reflexivity. Qed.

Lemma base_nz : base <> 0.
Proof. pose proof base_pos. lia. Qed.

Lemma index_table_find c al : forall pos found,
  py_dict_find py_str_eqb (map (fun '(i, c) => ([c], i)) (py_enumerate_from pos al)) [c] found
  = index_from c al pos found.
Proof.
  induction al as [|x r IH]; intros pos found; cbn [py_enumerate_from map py_dict_find index_from]; [reflexivity|].
  rewrite py_str_eqb_single. apply IH.
Qed.

Lemma index_lookup c :
  py_dict_get py_str_eqb T__INDEX_ALPHABET [c] = match index_of c with Some d => Ok d | None => Err KeyErr end.
Proof.
  unfold py_dict_get. rewrite index_alphabet_eq. unfold index_table. rewrite index_table_find. reflexivity.
Qed.

Lemma alphabet_get i : 0 <= i < base -> py_list_get T__ALPHABET i = Ok [nth (Z.to_nat i) alphabet 0].
Proof. intros H. rewrite alphabet_eq. apply py_list_get_chars. exact H. Qed.

Lemma alphabet_get_0 : py_list_get T__ALPHABET 0 = Ok [a0].
Proof. rewrite alphabet_get by (pose proof base_ge_2; lia). reflexivity. Qed.

(* normal form of the monadic code: run the primitives whose side conditions hold *)
Ltac py_norm :=
  repeat first
    [ progress cbn [bind fst snd]
    | rewrite alphabet_len
    | rewrite py_divmod_ok by exact base_nz
    | rewrite py_floordiv_ok by exact base_nz
    | rewrite py_mod_ok by exact base_nz
    | rewrite alphabet_get_0
    | rewrite py_str_mul_single
    | rewrite rev_py_chars
    | progress cbn [py_ljust py_rjust]
    | rewrite bind_ret ].

(* equations between boolean tests on integers (the loop condition may be spelled
   `n`, `n != 0`, `n > 0`, ...) *)
Ltac zbool :=
  unfold py_truthy_int;
  repeat match goal with
         | |- context [?a =? ?b] => destruct (Z.eqb_spec a b)
         | |- context [?a <? ?b] => destruct (Z.ltb_spec a b)
         | |- context [?a <=? ?b] => destruct (Z.leb_spec a b)
         end;
  cbn [negb andb orb]; first [reflexivity | lia].

(* ------------------------------------------------------------------ *)
(* _str_to_int                                                          *)

Lemma str_loop_eq L fuel : forall l acc,
  T__str_to_int_loop1 L fuel (py_chars l) base acc = horner l acc.
Proof.
  induction l as [|c r IH]; intros acc; cbn [py_chars map T__str_to_int_loop1 horner]; [reflexivity|].
  rewrite index_lookup. destruct (index_of c); py_norm; [apply IH|reflexivity].
Qed.

Theorem translated_str_to_int_eq L fuel s : T__str_to_int L fuel s = str_to_int s.
Proof.
  unfold T__str_to_int, str_to_int. cbv zeta. py_norm. rewrite str_loop_eq. py_norm. reflexivity.
Qed.

(* ------------------------------------------------------------------ *)
(* _int_to_str: the while loop terminates within [k] + 1 iterations when n < 2^k *)

Lemma digits_zero k : digits k 0 = [].
Proof. destruct k; reflexivity. Qed.

Lemma int_loop_eq L : forall fuel n out k, 0 <= n -> n < 2 ^ Z.of_nat k -> (k < fuel)%nat ->
  T__int_to_str_loop1 L fuel base n out = Ok (0, out ++ digits k n).
Proof.
  induction fuel as [|f IH]; intros n out k H0 Hk Hf; [lia|].
  cbn [T__int_to_str_loop1].
  match goal with |- (if ?c then _ else _) = _ => replace c with (negb (n =? 0)) by zbool end.
  destruct (Z.eqb_spec n 0) as [->|Hn]; cbn [negb].
  - rewrite digits_zero, app_nil_r. reflexivity.
  - destruct k as [|k]; [cbn in Hk; lia|].
    pose proof base_ge_2 as Hb. pose proof (Z.mod_pos_bound n base base_pos) as Hm.
    py_norm. rewrite alphabet_get by exact Hm. py_norm.
    rewrite (IH _ _ k).
    + cbn [digits]. destruct (Z.eqb_spec n 0); [contradiction|]. rewrite <- app_assoc. reflexivity.
    + apply Z.div_pos; lia.
    + rewrite Nat2Z.inj_succ, Z.pow_succ_r in Hk by lia.
      apply Z.div_lt_upper_bound; [lia|].
      assert (0 < 2 ^ Z.of_nat k) by (apply Z.pow_pos_nonneg; lia). nia.
    + lia.
Qed.

Lemma lt_pow2_log2 n : 0 <= n -> n < 2 ^ Z.of_nat (S (Z.to_nat (Z.log2 n))).
Proof.
  intros H. destruct (Z.eq_dec n 0) as [->|Hn]; [cbn; lia|].
  rewrite Nat2Z.inj_succ, Z2Nat.id by apply Z.log2_nonneg. apply Z.log2_spec. lia.
Qed.

(* the stated fuel bound: two more than the binary length of the number *)
Theorem translated_int_to_str_eq L fuel n : 0 <= n -> (Z.to_nat (Z.log2 n) + 2 <= fuel)%nat ->
  T__int_to_str L fuel n = Ok (int_to_str n).
Proof.
  intros H0 Hf. unfold T__int_to_str, int_to_str. cbv zeta. py_norm.
  rewrite (int_loop_eq L fuel n [] (S (Z.to_nat (Z.log2 n)))); [|exact H0|apply lt_pow2_log2; exact H0|lia].
  py_norm. cbn [app].
  rewrite short_len_eq. unfold py_len. rewrite Z_to_nat_sub_of_nat. reflexivity.
Qed.

Lemma fuel_128 n : 0 <= n < 2 ^ 128 -> (Z.to_nat (Z.log2 n) + 2 <= 130)%nat.
Proof.
  intros [H0 H1]. destruct (Z.eq_dec n 0) as [->|Hn]; [cbn; lia|].
  assert (Z.log2 n < 128) by (apply Z.log2_lt_pow2; lia). pose proof (Z.log2_nonneg n). lia.
Qed.

(* ------------------------------------------------------------------ *)
(* the three API functions                                              *)

Theorem translated_to_short_eq of_str fuel u : 0 <= u -> (Z.to_nat (Z.log2 u) + 2 <= fuel)%nat ->
  T_uuid_to_short_str (mk_lib of_str) fuel u = Ok (uuid_to_short_str u).
Proof.
  intros H0 Hf. unfold T_uuid_to_short_str, uuid_to_short_str. cbn [UUID_int mk_lib].
  rewrite translated_int_to_str_eq by assumption. py_norm. reflexivity.
Qed.

Theorem translated_from_short_eq of_str fuel a :
  T_uuid_from_short_str (mk_lib of_str) fuel (obj_of a) = uuid_from_short_str a.
Proof.
  destruct a as [s|]; cbn [obj_of T_uuid_from_short_str uuid_from_short_str]; [|reflexivity].
  rewrite short_len_eq. unfold py_len. rewrite Z_eqb_of_nat.
  destruct (Nat.eqb (length s) short_len); cbn [negb]; [|reflexivity].
  rewrite translated_str_to_int_eq. cbn [UUID_of_int mk_lib].
  destruct (str_to_int s) as [n|e]; py_norm.
  - unfold std_of_int. destruct ((0 <=? n) && (n <? uuid_bound)); py_norm; [reflexivity|].
    vm_compute. reflexivity.
  - destruct e; vm_compute; reflexivity.
Qed.

Lemma of_str_oracle_self s std :
  of_str_oracle s std s = match std with Some n => Ok n | None => Err ValueErr end.
Proof. unfold of_str_oracle. rewrite py_str_eqb_refl. reflexivity. Qed.

Theorem translated_from_str_eq std fuel s :
  T_uuid_from_str (mk_lib (of_str_oracle s std)) fuel s = uuid_from_str std s.
Proof.
  unfold T_uuid_from_str, uuid_from_str. cbn [UUID_of_str mk_lib].
  rewrite of_str_oracle_self. destruct std as [n|]; py_norm; [reflexivity|].
  change (py_catches [ValueErr] ValueErr) with true. cbv iota.
  change (PyStr s) with (obj_of (PStr s)). rewrite translated_from_short_eq. py_norm. reflexivity.
Qed.

(* ------------------------------------------------------------------ *)
(* the property theorems, for the translated functions                  *)

Section Corollaries.
Variable of_str : list Z -> res Z.      (* uuid.UUID(str): not used by these two functions *)
Variable fuel : nat.
Hypothesis fuel_ok : (130 <= fuel)%nat.
Let L := mk_lib of_str.

Lemma to_short_t n : is_uuid n -> T_uuid_to_short_str L fuel n = Ok (uuid_to_short_str n).
Proof. intros H. apply translated_to_short_eq; [apply H|]. pose proof (fuel_128 n H). lia. Qed.

Lemma from_short_t s : T_uuid_from_short_str L fuel (PyStr s) = uuid_from_short_str (PStr s).
Proof. exact (translated_from_short_eq of_str fuel (PStr s)). Qed.

Lemma roundtrip_t n : is_uuid n ->
  exists s, T_uuid_to_short_str L fuel n = Ok s /\ T_uuid_from_short_str L fuel (PyStr s) = Ok n.
Proof.
  intros H. exists (uuid_to_short_str n). split; [apply to_short_t; exact H|].
  rewrite from_short_t. apply roundtrip_l. exact H.
Qed.

Lemma shape_t n : is_uuid n ->
  exists s, T_uuid_to_short_str L fuel n = Ok s /\ length s = short_len /\ in_alphabet s.
Proof. intros H. exists (uuid_to_short_str n). split; [apply to_short_t; exact H|apply shape_l; exact H]. Qed.

Lemma injective_t n m : is_uuid n -> is_uuid m ->
  T_uuid_to_short_str L fuel n = T_uuid_to_short_str L fuel m -> n = m.
Proof.
  intros Hn Hm. rewrite !to_short_t by assumption. intros [= E]. apply injective_l; assumption.
Qed.

Lemma accept_iff_t s n : T_uuid_from_short_str L fuel (PyStr s) = Ok n <-> valid_short s /\ n = value s.
Proof. rewrite from_short_t. apply accept_iff_l. Qed.

Lemma surjective_t s n : T_uuid_from_short_str L fuel (PyStr s) = Ok n ->
  is_uuid n /\ T_uuid_to_short_str L fuel n = Ok s.
Proof.
  rewrite from_short_t. intros H. apply surjective_l in H as [U E]. split; [exact U|].
  rewrite to_short_t by exact U. rewrite E. reflexivity.
Qed.

Lemma reject_t a : (forall s, a = PyStr s -> ~ valid_short s) -> T_uuid_from_short_str L fuel a = Err ValueErr.
Proof.
  intros H. destruct a as [s|].
  - rewrite from_short_t. apply from_short_invalid. apply H. reflexivity.
  - exact (translated_from_short_eq of_str fuel PNotStr).
Qed.
End Corollaries.

(* uuid_from_str: [std] is what uuid.UUID(s) answers for this very string *)
Lemma from_str_t fuel n : (130 <= fuel)%nat ->
  (forall s, T_uuid_from_str (mk_lib (of_str_oracle s (Some n))) fuel s = Ok n) /\
  (is_uuid n -> T_uuid_from_str (mk_lib (of_str_oracle (uuid_to_short_str n) None)) fuel (uuid_to_short_str n) = Ok n) /\
  (forall s, ~ valid_short s -> T_uuid_from_str (mk_lib (of_str_oracle s None)) fuel s = Err ValueErr).
Proof.
  intros _. repeat split; intros; rewrite translated_from_str_eq;
    [reflexivity|apply from_str_short; assumption|apply from_str_reject; assumption].
Qed.

(* histories of calls: the translated functions answer every history as the model does *)
Definition call_in_domain (c : call) : Prop :=
  match c with CToShort u => is_uuid u | _ => True end.

Lemma tr_eval_call_eq c : call_in_domain c -> tr_eval_call c = eval_call c.
Proof.
  destruct c as [u|a|std s]; cbn [call_in_domain tr_eval_call eval_call]; intros H.
  - unfold tr_to_short, lib0. rewrite translated_to_short_eq; [reflexivity|apply H|].
    pose proof (fuel_128 u H). unfold run_fuel. lia.
  - unfold tr_from_short, lib0. rewrite translated_from_short_eq. reflexivity.
  - unfold tr_from_str. rewrite translated_from_str_eq. reflexivity.
Qed.

Lemma tr_eval_seq_eq l : Forall call_in_domain l -> tr_eval_seq l = eval_seq l.
Proof.
  unfold tr_eval_seq, eval_seq. induction 1 as [|c r Hc Hr IH]; cbn [map]; [reflexivity|].
  rewrite tr_eval_call_eq by exact Hc. rewrite IH. reflexivity.
Qed.
