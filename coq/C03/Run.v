(* C03/Run.v -- correspondence entry points of C03.
   [Grammar]: the constructor (factorization, tables, left-recursion check) and
   the raw parse of each token list, exactly as C01.Run does (same argument
   order, so harness/props/llp_common.py:coq_case serves both).
   [Ctors]: constructor outcome only, for a batch of grammars over a common
   terminal set (used by the exhaustive small-grammar sweep).
   [Session]: a HISTORY of constructor calls made one after another in one
   process (the harness passes the same productions object mutated in place,
   equal copies, objects sharing their lists, ...), each followed by the parses
   of its inputs, and, after the last call, the parses of every accepted parser
   once more.  The model has no state between calls: the observation of call k
   is [call_sx] of the k-th grammar alone, and the late parses repeat the early
   ones (a parser is a value).
   All also evaluate the hypotheses of the C03 theorems ([part1_okb]) on the
   factorized grammar; the harness expects them to hold on every case.
   No proofs in this file. *)
From Coq Require Import ZArith List Bool.
From AK Require Export LLP.Build C03.Spec.
Import ListNotations.

(* outcome of LLParser.__init__ as far as C03 is concerned *)
Definition ctor_outcome (ug : list (sym * list (list sym))) (terminals : list sym) (smart : bool) (start : sym)
  : res unit :=
  match build ug terminals smart start with
  | Ok _ => Ok tt
  | Err e => Err e
  end.

(* the hypotheses [part1_ok] of the C03 theorems, evaluated on the factorized
   grammar of the case at hand (true when the factorization itself failed:
   then no theorem is applied) *)
Definition hyps_ok (ug : list (sym * list (list sym))) (terminals : list sym) (smart : bool) (start : sym) : bool :=
  match factorize ug terminals smart with
  | Ok (g, _) => part1_okb g (terminals ++ [END_TOKEN]) start
  | Err _ => true
  end.

(* one constructor call + the parses made with the parser it returned *)
Notation call := (list (sym * list (list sym)) * bool * sym * list (list (sym * list Z)))%type.

Definition call_sx (terminals : list sym) (fuel : nat) (c : call) : sx :=
  let '(ug, smart, start, inputs) := c in
  match build ug terminals smart start with
  | Err e => SL [SZ 1; SZ (err_code e); sx_bool (hyps_ok ug terminals smart start)]
  | Ok p =>
      SL [SZ 0; sx_bool (is_ambiguous (p_tables p)); sx_bool (hyps_ok ug terminals smart start);
          SL (map (fun inp => sx_res sx_tree (p_parse p fuel (mk_toks inp))) inputs)]
  end.

(* the parses of the same inputs with the same parser after all the other calls of the session *)
Definition late_sx (terminals : list sym) (fuel : nat) (c : call) : sx :=
  let '(ug, smart, start, inputs) := c in
  match build ug terminals smart start with
  | Err _ => SL []
  | Ok p => SL (map (fun inp => sx_res sx_tree (p_parse p fuel (mk_toks inp))) inputs)
  end.

(* constructor outcomes of a session: call k is judged on its own grammar *)
Definition session_outcomes (terminals : list sym) (calls : list call) : list (res unit) :=
  map (fun c : call => let '(ug, smart, start, _) := c in ctor_outcome ug terminals smart start) calls.

Inductive case :=
| Grammar (ug : list (sym * list (list sym))) (terminals : list sym) (smart : bool) (start : sym)
          (fuel : nat) (inputs : list (list (sym * list Z)))
| Ctors (terminals : list sym) (gs : list (list (sym * list (list sym)) * bool * sym))
| Session (terminals : list sym) (fuel : nat) (calls : list call).

Definition run (c : case) : sx :=
  match c with
  | Grammar ug terminals smart start fuel inputs => call_sx terminals fuel (ug, smart, start, inputs)
  | Ctors terminals gs =>
      SL (map (fun '(ug, smart, start) =>
                 if hyps_ok ug terminals smart start then
                   match ctor_outcome ug terminals smart start with
                   | Ok _ => SZ 0
                   | Err e => SZ (err_code e)
                   end
                 else SZ 99) gs)
  | Session terminals fuel calls =>
      SL [SL (map (call_sx terminals fuel) calls); SL (map (late_sx terminals fuel) calls)]
  end.
