(* C01/FactAll.v -- the whole factorization (factorize_all on create_productions),
   completeness of the validator fact_ok for grammars that meet the Prop-level
   specification, and factorize_ok without the 'smart' undo. *)
From Coq Require Import ZArith List Bool Lia Permutation.
From AK Require Import Common.Err LLP.Base LLP.Factor C01.Basics C01.Spec C01.LemmasFact
  C01.FactList C01.FactExp C01.FactProps.
Import ListNotations.
Local Open Scope nat_scope.

(* ---------------- duplicate-free keys ---------------- *)
Lemma nodup_syms_NoDup : forall l, nodup_syms l = true <-> NoDup l.
Proof.
  induction l as [|x l IH]; cbn [nodup_syms].
  - split; [constructor|reflexivity].
  - rewrite andb_true_iff, negb_true_iff, IH, mem_not_In. split.
    + intros [H1 H2]. now constructor.
    + intros H. inversion H; subst. now split.
Qed.

Lemma NoDup_grules : forall (g : grammar) k v, NoDup (gkeys g) -> In (k, v) g -> grules g k = v.
Proof.
  induction g as [|[k0 v0] g IH]; intros k v Hnd Hin; [contradiction|].
  unfold grules. cbn [glookup]. cbn [gkeys map fst] in Hnd. inversion Hnd as [|? ? Hn Hnd']; subst.
  destruct Hin as [Hin|Hin].
  - injection Hin as -> ->. now rewrite sym_eqb_refl.
  - destruct (sym_eqb k0 k) eqn:E.
    + apply sym_eqb_eq in E. subst. exfalso. apply Hn. change k with (fst (k, v)). now apply in_map.
    + apply (IH k v Hnd' Hin).
Qed.

Lemma grules_not_key : forall (g : grammar) k, ~ In k (gkeys g) -> grules g k = [].
Proof.
  induction g as [|[k0 v0] g IH]; intros k H; [reflexivity|].
  unfold grules. cbn [glookup]. destruct (sym_eqb k0 k) eqn:E.
  - apply sym_eqb_eq in E. subst. exfalso. apply H. now left.
  - apply IH. intro Hc. apply H. now right.
Qed.

Lemma grules_key_In : forall (g : grammar) k, In k (gkeys g) -> In (k, grules g k) g.
Proof.
  induction g as [|[k0 v0] g IH]; intros k H; [contradiction|].
  unfold grules. cbn [glookup]. destruct (sym_eqb k0 k) eqn:E.
  - apply sym_eqb_eq in E. subst. now left.
  - right. destruct H as [H|H]; [cbn in H; subst; rewrite sym_eqb_refl in E; discriminate|].
    now apply IH.
Qed.

Lemma concat_opt_total : forall A B (f : A -> option (list B)) l,
  (forall x, In x l -> exists e, f x = Some e) -> exists es, concat_opt (map f l) = Some es.
Proof.
  intros A B f. induction l as [|x l IH]; intros H; [cbn; eauto|].
  cbn [map concat_opt]. destruct (H x (or_introl eq_refl)) as [e ->].
  destruct IH as [es ->]; [intros y Hy; apply H; now right|]. eauto.
Qed.

(* ---------------- the validator accepts what meets the specification ---------------- *)
Section Complete.
  Variables (ug : ugrammar) (G : grammar) (SS : list sym).

  Definition rank (k : sym) : nat := length (filter (fun x => Nat.ltb (length k) (length x)) (gkeys G)).

  Lemma filter_length_le : forall A (P Q : A -> bool) l,
    (forall x, P x = true -> Q x = true) -> length (filter P l) <= length (filter Q l).
  Proof.
    intros A P Q. induction l as [|x l IH]; intros H; cbn; [lia|].
    specialize (IH H). destruct (P x) eqn:Ep.
    - rewrite (H x Ep). cbn. lia.
    - destruct (Q x); cbn; lia.
  Qed.

  Lemma filter_length_lt : forall A (P Q : A -> bool) l y,
    (forall x, P x = true -> Q x = true) -> In y l -> P y = false -> Q y = true ->
    length (filter P l) < length (filter Q l).
  Proof.
    intros A P Q. induction l as [|x l IH]; intros y H Hy Hp Hq; [contradiction|].
    cbn. destruct Hy as [->|Hy].
    - rewrite Hp, Hq. cbn. pose proof (filter_length_le A P Q l H). lia.
    - specialize (IH y H Hy Hp Hq). destruct (P x) eqn:Ep.
      + rewrite (H x Ep). cbn. lia.
      + destruct (Q x); cbn; lia.
  Qed.

  Lemma rank_lt : forall k x, In x (gkeys G) -> length k < length x -> rank x < rank k.
  Proof.
    intros k x Hx Hlt. unfold rank. apply filter_length_lt with (y := x).
    - intros z Hz. apply Nat.ltb_lt in Hz. apply Nat.ltb_lt. lia.
    - assumption.
    - apply Nat.ltb_ge. lia.
    - now apply Nat.ltb_lt.
  Qed.

  Lemma rank_key_lt : forall x, In x (gkeys G) -> rank x < length G.
  Proof.
    intros x Hx. unfold rank.
    replace (length G) with (length (filter (fun _ : sym => true) (gkeys G))).
    - apply filter_length_lt with (y := x); auto. apply Nat.ltb_ge. lia.
    - unfold gkeys. rewrite <- (map_length fst G). generalize (map fst G). intros l.
      induction l; cbn; congruence.
  Qed.

  Hypothesis Hrank : forall k v r, In (k, v) G -> In r v -> forall x, In x (tail1 SS r) -> length k < length x.

  (* enough fuel: one more than the rank of the suffix symbol referred to *)
  Lemma expand_total : forall n p,
    (forall x, p <> [] -> x = last p [] -> mem x SS = true -> In x (gkeys G) -> rank x < n) ->
    exists es, expand G SS (S n) p = Some es.
  Proof.
    induction n as [|n IH]; intros p Hp.
    - cbn [expand]. destruct p as [|s0 p0]; [eauto|].
      destruct (mem (last (s0 :: p0) []) SS) eqn:Em; [|eauto].
      destruct (in_dec sym_eq_dec (last (s0 :: p0) []) (gkeys G)) as [Hk|Hk].
      + exfalso. specialize (Hp _ ltac:(discriminate) eq_refl Em Hk). lia.
      + rewrite (grules_not_key _ _ Hk). cbn. eauto.
    - remember (S n) as m eqn:Em'. cbn [expand]. destruct p as [|s0 p0]; [eauto|].
      destruct (mem (last (s0 :: p0) []) SS) eqn:Em; [|eauto].
      set (b := last (s0 :: p0) []) in *.
      destruct (in_dec sym_eq_dec b (gkeys G)) as [Hk|Hk].
      2:{ rewrite (grules_not_key _ _ Hk). cbn. eauto. }
      assert (Hb : rank b < m) by (apply Hp; [discriminate|reflexivity|assumption|assumption]).
      assert (Hall : forall r, In r (grules G b) -> exists e, expand G SS m (rprod r) = Some e).
      { intros r Hr. apply IH. intros x Hne Hx Hm Hxk.
        assert (Hlt : length b < length x).
        { apply (Hrank b (grules G b) r); [now apply grules_key_In|assumption|].
          rewrite tail1_intro; [left; now rewrite Hx| assumption |now rewrite <- Hx]. }
        pose proof (rank_lt b x Hxk Hlt). lia. }
      assert (Hc : exists eb, concat_opt (map (fun r => expand G SS m (rprod r)) (grules G b)) = Some eb)
        by (apply concat_opt_total; exact Hall).
      destruct Hc as [eb ->]. cbn. eauto.
  Qed.

  Hypothesis Hlast : forall k v r, In (k, v) G -> In r v -> only_last_sfx SS (rprod r) = true.
  Hypothesis Hfresh : forall k, In k (map fst ug) -> mem k SS = false.
  Hypothesis Hnodup : NoDup (gkeys G).
  Hypothesis Hkeys : filter (fun k => negb (mem k SS)) (gkeys G) = map fst ug.
  Hypothesis Hexp : forall k v, In (k, v) G -> mem k SS = false -> Exp G SS v (uprods ug k).

  Lemma expand_rules_total : forall k v, In (k, v) G -> exists es, expand_rules G SS (S (length G)) v = Some es.
  Proof.
    intros k v Hin. unfold expand_rules.
    assert (Hall : forall r, In r v -> exists e, expand G SS (S (length G)) (rprod r) = Some e).
    { intros r Hr. apply expand_total. intros x Hne Hx Hm Hxk. now apply rank_key_lt. }
    apply concat_opt_total. exact Hall.
  Qed.

  Theorem fact_ok_complete : fact_ok ug G SS = true.
  Proof.
    unfold fact_ok. repeat (apply andb_true_iff; split).
    - apply forallb_forall. intros [k v] Hin. cbn [snd]. apply forallb_forall. intros r Hr. eapply Hlast; eassumption.
    - apply forallb_forall. intros [k ps] Hin. cbn [fst]. apply negb_true_iff. apply Hfresh.
      change k with (fst (k, ps)). now apply in_map.
    - now apply nodup_syms_NoDup.
    - rewrite Hkeys. apply list_eqb_refl. apply sym_eqb_refl.
    - apply forallb_forall. intros [k v] Hin. cbn [fst snd].
      destruct (mem k SS) eqn:Em; [reflexivity|].
      destruct (expand_rules_total k v Hin) as [es Hes]. rewrite Hes.
      destruct (Hexp k v Hin Em) as [F HF].
      rewrite (expand_rules_det G SS _ _ _ _ _ Hes HF).
      apply list_eqb_refl. apply list_eqb_refl. apply sym_eqb_refl.
  Qed.
End Complete.

Lemma filter_none : forall A (P : A -> bool) l, (forall x, In x l -> P x = false) -> filter P l = [].
Proof.
  intros A P. induction l as [|x l IH]; intros H; [reflexivity|].
  cbn. rewrite (H x (or_introl eq_refl)). apply IH. intros y Hy. apply H. now right.
Qed.

(* ---------------- factorize_all, as a relation ---------------- *)
Inductive FA : grammar -> grammar -> list sym -> Prop :=
| FA_nil : FA [] [] []
| FA_cons : forall s rules rest chunks rs sfxp g' ss',
    concat chunks = rules -> FG s 0%Z chunks rs sfxp -> FA rest g' ss' ->
    FA ((s, rules) :: rest) (((s, rs) :: sfxp) ++ g') (map fst sfxp ++ ss').

Lemma factorize_all_FA : forall g0 g1 ss, factorize_all g0 = Ok (g1, ss) -> FA g0 g1 ss.
Proof.
  induction g0 as [|[s rules] rest IH]; intros g1 ss H.
  - cbn in H. injection H as <- <-. constructor.
  - cbn [factorize_all] in H.
    destruct (factorize_list (S (S (total_len rules))) s rules) as [[[rs sfxp] ss0]|] eqn:E; [|discriminate].
    cbn [bind] in H. destruct (factorize_all rest) as [[g' ss']|] eqn:E'; [|discriminate].
    cbn [bind] in H. injection H as <- <-.
    destruct (factorize_list_FG _ _ _ _ _ _ E) as [-> [chunks [Hc HF]]].
    econstructor; try eassumption. now apply IH.
Qed.

(* create_productions: the user's productions, numbered *)
Lemma mk_rules_prods : forall s prods n, map rprod (fst (mk_rules s prods n)) = prods.
Proof.
  intros s. induction prods as [|p r IH]; intros n; cbn [mk_rules]; [reflexivity|].
  specialize (IH (n + 1)%Z). destruct (mk_rules s r (n + 1)) as [rs n']. cbn in *. now rewrite IH.
Qed.

Lemma create_productions_shape : forall ug n,
  Forall2 (fun (u : sym * list (list sym)) (e : sym * list rule) => fst e = fst u /\ map rprod (snd e) = snd u)
          ug (create_productions ug n).
Proof.
  induction ug as [|[s prods] r IH]; intros n; cbn [create_productions]; [constructor|].
  pose proof (mk_rules_prods s prods n) as Hm. destruct (mk_rules s prods n) as [rs n'].
  constructor; [split; [reflexivity|exact Hm]|apply IH].
Qed.

Lemma FA_keys : forall g0 g1 ss, FA g0 g1 ss ->
  forall k, In k (gkeys g1) -> In k (gkeys g0) \/ In k ss.
Proof.
  intros g0 g1 ss H. induction H as [|s rules rest chunks rs sfxp g' ss' Hc HF HA IH]; intros k Hk; [contradiction|].
  unfold gkeys in *. cbn [app map fst] in Hk. rewrite map_app in Hk. destruct Hk as [<-|Hk].
  - left. now left.
  - apply in_app_or in Hk as [Hk|Hk].
    + right. apply in_or_app. now left.
    + destruct (IH k Hk) as [H1|H1]; [left; now right|right; apply in_or_app; now right].
Qed.

Lemma FA_dunder : forall g0 g1 ss, FA g0 g1 ss -> forall k, In k ss -> has_dunder k = true.
Proof.
  intros g0 g1 ss H. induction H as [|s rules rest chunks rs sfxp g' ss' Hc HF HA IH]; intros k Hk; [contradiction|].
  apply in_app_or in Hk as [Hk|Hk]; [eapply FG_dunder; eassumption|now apply IH].
Qed.

Section AllInContext.
  Variables (G : grammar) (SS : list sym).
  Hypothesis HndG : NoDup (gkeys G).

  Definition g0_clean (g0 : grammar) : Prop := forall k v r, In (k, v) g0 -> In r v -> clean SS (rprod r).

  Lemma concat_clean : forall chunks rules, concat chunks = rules ->
    (forall r, In r rules -> clean SS (rprod r)) -> chunks_clean SS chunks.
  Proof.
    intros chunks rules Hc H c r Hin Hr. apply H. rewrite <- Hc. apply in_concat. now exists c.
  Qed.

  Lemma FA_props : forall g0 g1 ss, FA g0 g1 ss ->
    (forall kv, In kv g1 -> In kv G) -> (forall x, In x ss -> mem x SS = true) ->
    (forall k, In k (gkeys g0) -> mem k SS = false) -> g0_clean g0 ->
    (forall k v r, In (k, v) g1 -> In r v -> only_last_sfx SS (rprod r) = true) /\
    (forall k v r, In (k, v) g1 -> In r v -> ref_longer SS k r) /\
    Permutation (gtails SS g1) ss /\
    Forall2 (fun (e0 e1 : sym * list rule) => fst e1 = fst e0 /\ Exp G SS (snd e1) (map rprod (snd e0)))
            g0 (filter (fun kv => negb (mem (fst kv) SS)) g1) /\
    (forall k v, In (k, v) g1 -> mem k SS = true -> 2 <= length v).
  Proof.
    intros g0 g1 ss H. induction H as [|s rules rest chunks rs sfxp g' ss' Hc HF HA IH]; intros Hsub Hss Hk0 Hcl.
    - repeat split; try (intros; contradiction); constructor.
    - assert (Hsub' : forall kv, In kv g' -> In kv G) by (intros kv Hin; apply Hsub; apply in_or_app; now right).
      assert (Hss' : forall x, In x ss' -> mem x SS = true) by (intros x Hx; apply Hss; apply in_or_app; now right).
      assert (Hk0' : forall k, In k (gkeys rest) -> mem k SS = false) by (intros k Hk; apply Hk0; now right).
      assert (Hcl' : g0_clean rest) by (intros k v r Hin; eapply Hcl; right; eassumption).
      destruct (IH Hsub' Hss' Hk0' Hcl') as [I1 [I2 [I3 [I4 I5]]]].
      assert (Hctx : ctx G SS sfxp).
      { intros k v Hin. split.
        - apply NoDup_grules; [assumption|]. apply Hsub. right. apply in_or_app. now left.
        - apply Hss. apply in_or_app. left. change k with (fst (k, v)). now apply in_map. }
      assert (Hchunks : chunks_clean SS chunks).
      { eapply concat_clean; [eassumption|]. intros r Hr. eapply Hcl; [left; reflexivity|assumption]. }
      destruct (FG_last SS _ _ _ _ _ HF Hchunks) as [L1 L2].
      destruct (FG_rank SS _ _ _ _ _ HF Hchunks) as [R1 R2].
      pose proof (FG_tails G SS _ _ _ _ _ HF Hctx Hchunks) as T.
      pose proof (FG_exp G SS _ _ _ _ _ HF Hctx Hchunks) as E. rewrite Hc in E.
      assert (Hs : mem s SS = false) by (apply Hk0; now left).
      repeat split.
      + intros k v r Hin Hr. cbn [app] in Hin. destruct Hin as [Hin|Hin].
        * injection Hin as <- <-. now apply L1.
        * apply in_app_or in Hin as [Hin|Hin]; [eapply L2|eapply I1]; eassumption.
      + intros k v r Hin Hr. cbn [app] in Hin. destruct Hin as [Hin|Hin].
        * injection Hin as <- <-. now apply R1.
        * apply in_app_or in Hin as [Hin|Hin]; [eapply R2|eapply I2]; eassumption.
      + unfold gtails in *. cbn [app flat_map snd]. rewrite flat_map_app.
        rewrite app_assoc. apply Permutation_app; assumption.
      + cbn [app filter fst]. rewrite Hs. cbn [negb]. rewrite filter_app.
        replace (filter (fun kv => negb (mem (fst kv) SS)) sfxp) with (@nil (sym * list rule)).
        * cbn [app]. constructor; [split; [reflexivity|exact E]|exact I4].
        * symmetry. apply filter_none. intros [k v] Hin. cbn [fst].
          destruct (Hctx k v Hin) as [_ Hm]. now rewrite Hm.
      + intros k v Hin Hm. cbn [app] in Hin. destruct Hin as [Hin|Hin].
        * injection Hin as <- <-. congruence.
        * apply in_app_or in Hin as [Hin|Hin]; [eapply FG_count; eassumption|eapply I5; eassumption].
  Qed.
End AllInContext.

(* ---------------- what holds after factorize_all (before the 'smart' undo) ---------------- *)
Lemma uprods_In : forall (ug : ugrammar) k ps, NoDup (map fst ug) -> In (k, ps) ug -> uprods ug k = ps.
Proof.
  induction ug as [|[k0 p0] ug IH]; intros k ps Hnd Hin; [contradiction|].
  cbn [uprods]. cbn [map fst] in Hnd. inversion Hnd as [|? ? Hn Hnd']; subst.
  destruct Hin as [Hin|Hin].
  - injection Hin as -> ->. now rewrite sym_eqb_refl.
  - destruct (sym_eqb k0 k) eqn:E.
    + apply sym_eqb_eq in E. subst. exfalso. apply Hn. change k with (fst (k, ps)). now apply in_map.
    + now apply IH.
Qed.

Lemma map_fst_filter : forall (g : grammar) (P : sym -> bool),
  map fst (filter (fun kv => P (fst kv)) g) = filter P (map fst g).
Proof.
  intros g P. induction g as [|[k v] g IH]; [reflexivity|]. cbn. destruct (P k); cbn; now rewrite IH.
Qed.

Lemma FA_ss_keys : forall g0 g1 ss, FA g0 g1 ss -> forall x, In x ss -> In x (gkeys g1).
Proof.
  intros g0 g1 ss H. induction H as [|s rules rest chunks rs sfxp g' ss' Hc HF HA IH]; intros x Hx; [contradiction|].
  unfold gkeys. cbn [app map fst]. rewrite map_app. right. apply in_or_app.
  apply in_app_or in Hx as [Hx|Hx]; [now left|right; now apply IH].
Qed.

Lemma FA_ss_nodup : forall g0 g1 ss, FA g0 g1 ss -> NoDup (gkeys g1) -> NoDup ss.
Proof.
  intros g0 g1 ss H. induction H as [|s rules rest chunks rs sfxp g' ss' Hc HF HA IH]; intros Hnd; [constructor|].
  unfold gkeys in Hnd. cbn [app map fst] in Hnd. rewrite map_app in Hnd. inversion Hnd as [|? ? Hn Hnd']; subst.
  clear Hn. revert Hnd'. generalize (map fst sfxp). intros l Hnd'.
  induction l as [|x l IHl]; cbn [app] in *.
  - now apply IH.
  - inversion Hnd' as [|? ? Hn Hnd'']; subst. constructor; [|now apply IHl].
    intros Hx. apply Hn. apply in_or_app. apply in_app_or in Hx as [Hx|Hx]; [now left|right].
    eapply FA_ss_keys; eassumption.
Qed.

(* the specification that the validator checks, plus what the undo pass needs *)
Record fspec (ug : ugrammar) (G : grammar) (SS : list sym) : Prop := {
  fs_last : forall k v r, In (k, v) G -> In r v -> only_last_sfx SS (rprod r) = true;
  fs_rank : forall k v r, In (k, v) G -> In r v -> ref_longer SS k r;
  fs_fresh : forall k, In k (map fst ug) -> mem k SS = false;
  fs_nodup : NoDup (gkeys G);
  fs_keys : filter (fun k => negb (mem k SS)) (gkeys G) = map fst ug;
  fs_exp : forall k v, In (k, v) G -> mem k SS = false -> Exp G SS v (uprods ug k) }.

Lemma fspec_fact_ok : forall ug G SS, fspec ug G SS -> fact_ok ug G SS = true.
Proof.
  intros ug G SS [H1 H2 H3 H4 H5 H6]. apply fact_ok_complete; assumption.
Qed.

Definition no_dunder_ug (ug : ugrammar) : Prop :=
  (forall k, In k (map fst ug) -> has_dunder k = false) /\
  (forall k ps p x, In (k, ps) ug -> In p ps -> In x p -> has_dunder x = false).

Lemma dunder_not_in : forall SS x, (forall y, In y SS -> has_dunder y = true) -> has_dunder x = false -> mem x SS = false.
Proof.
  intros SS x H Hx. apply mem_not_In. intro Hin. apply H in Hin. congruence.
Qed.

Lemma forall2_exp_uprods : forall G SS (ug : ugrammar) (g0 fl : grammar),
  Forall2 (fun (u : sym * list (list sym)) (e : sym * list rule) => fst e = fst u /\ map rprod (snd e) = snd u) ug g0 ->
  Forall2 (fun (e0 e1 : sym * list rule) => fst e1 = fst e0 /\ Exp G SS (snd e1) (map rprod (snd e0))) g0 fl ->
  NoDup (map fst ug) ->
  map fst fl = map fst ug /\ forall k v, In (k, v) fl -> Exp G SS v (uprods ug k).
Proof.
  intros G SS ug g0 fl H. revert fl. induction H as [|u e ug' g0' [A1 A2] Hsh IH]; intros fl H2 Hnd.
  - inversion H2. split; [reflexivity|intros k v []].
  - inversion H2 as [|e0 e1 l0 l1 [B1 B2] H2']; subst. cbn [map fst] in Hnd. inversion Hnd as [|? ? Hn Hnd']; subst.
    destruct (IH _ H2' Hnd') as [I1 I2]. split.
    + cbn. now rewrite B1, A1, I1.
    + intros k v [Hin|Hin].
      * subst e1. cbn [fst snd] in *. destruct u as [ku pu]. cbn [fst snd] in *. cbn [uprods].
        rewrite B1, A1, sym_eqb_refl. now rewrite A2 in B2.
      * destruct u as [ku pu]. cbn [uprods]. cbn [fst] in Hn. destruct (sym_eqb ku k) eqn:E.
        -- exfalso. apply sym_eqb_eq in E. subst ku. apply Hn. rewrite <- I1.
           change k with (fst (k, v)). now apply in_map.
        -- now apply I2.
Qed.

Record g1spec (ug : ugrammar) (G : grammar) (SS : list sym) : Prop := {
  g1_fspec : fspec ug G SS;
  g1_tails : Permutation (gtails SS G) SS;
  g1_count : forall k v, In (k, v) G -> mem k SS = true -> 2 <= length v;
  g1_sskeys : forall x, In x SS -> In x (gkeys G);
  g1_dunder : forall x, In x SS -> has_dunder x = true;
  g1_ssnodup : NoDup SS }.

Lemma factorize_all_g1spec : forall ug g1 ss,
  no_dunder_ug ug -> factorize_all (create_productions ug 0) = Ok (g1, ss) -> NoDup (gkeys g1) ->
  g1spec ug g1 ss.
Proof.
  intros ug g1 ss [Hdk Hdp] Hfa Hnd.
  pose proof (factorize_all_FA _ _ _ Hfa) as HA.
  pose proof (create_productions_shape ug 0) as Hsh.
  set (g0 := create_productions ug 0) in *.
  assert (Hdun : forall x, In x ss -> has_dunder x = true) by (eapply FA_dunder; eassumption).
  assert (Hkeys0 : gkeys g0 = map fst ug).
  { unfold gkeys. clear -Hsh. induction Hsh as [|u e ug' g0' [H1 H2] Hsh IH]; [reflexivity|]. cbn. now rewrite H1, IH. }
  assert (Hk0 : forall k, In k (gkeys g0) -> mem k ss = false).
  { intros k Hk. apply dunder_not_in; [assumption|]. apply Hdk. now rewrite <- Hkeys0. }
  assert (Hcl : g0_clean ss g0).
  { intros k v r Hin Hr x Hx. apply dunder_not_in; [assumption|].
    clear -Hsh Hin Hr Hx Hdp. induction Hsh as [|u e ug' g0' [H1 H2] Hsh IH]; [contradiction|].
    destruct Hin as [Hin|Hin].
    - subst e. cbn [fst snd] in *. destruct u as [ku pu]. cbn [fst snd] in *.
      apply (Hdp ku pu (rprod r) x); [now left| |assumption]. rewrite <- H2. now apply in_map.
    - apply IH; [|assumption]. intros k0 ps p x0 Hin0. apply (Hdp k0 ps p x0). now right. }
  destruct (FA_props g1 ss Hnd g0 g1 ss HA (fun kv H => H) (fun x Hx => proj2 (mem_In x ss) Hx) Hk0 Hcl)
    as [P1 [P2 [P3 [P4 P5]]]].
  assert (Hfk : filter (fun k => negb (mem k ss)) (gkeys g1) = map fst ug).
  { unfold gkeys. rewrite <- (map_fst_filter g1 (fun k => negb (mem k ss))). rewrite <- Hkeys0. unfold gkeys.
    clear -P4. induction P4 as [|e0 e1 l0 l1 [H1 _] _ IH]; [reflexivity|]. cbn. now rewrite H1, IH. }
  assert (Hndu : NoDup (map fst ug)).
  { rewrite <- Hfk. now apply NoDup_filter. }
  constructor; try assumption.
  - constructor; try assumption.
    + intros k Hk. apply Hk0. now rewrite Hkeys0.
    + intros k v Hin Hm.
      assert (Hf : In (k, v) (filter (fun kv => negb (mem (fst kv) ss)) g1)).
      { apply filter_In. split; [assumption|]. cbn. now rewrite Hm. }
      destruct (forall2_exp_uprods g1 ss ug g0 _ Hsh P4 Hndu) as [_ Hx]. now apply Hx.
  - eapply FA_ss_keys; eassumption.
  - eapply FA_ss_nodup; eassumption.
Qed.

(* ---------------- factorize ---------------- *)
Lemma existsb_false : forall A (f : A -> bool) l, existsb f l = false <-> forall x, In x l -> f x = false.
Proof.
  intros A f. induction l as [|y l IH]; cbn.
  - split; [intros _ x []|reflexivity].
  - rewrite orb_false_iff, IH. split.
    + intros [H1 H2] x [<-|Hx]; [assumption|now apply H2].
    + intros H. split; [apply H; now left|intros x Hx; apply H; now right].
Qed.

Lemma factorize_inv : forall ug terminals smart g sfxs,
  factorize ug terminals smart = Ok (g, sfxs) ->
  no_dunder_ug ug /\
  exists g1 ss, factorize_all (create_productions ug 0) = Ok (g1, ss) /\ NoDup (gkeys g1) /\
                (g, sfxs) = if smart then smart_pass g1 terminals ss else (g1, ss).
Proof.
  intros ug terminals smart g sfxs H. unfold factorize in H.
  destruct (existsb has_dunder (map fst ug) || existsb (fun kv => existsb (existsb has_dunder) (snd kv)) ug) eqn:Ed; [discriminate|].
  apply orb_false_iff in Ed as [Ed1 Ed2].
  destruct (factorize_all (create_productions ug 0)) as [[g1 ss]|] eqn:Ef; [|discriminate].
  cbn [bind] in H. destruct (nodup_syms (gkeys g1)) eqn:En; [|discriminate]. cbn [negb] in H.
  split.
  - split.
    + intros k Hk. rewrite existsb_false in Ed1. now apply Ed1.
    + intros k ps p x Hin Hp Hx. rewrite existsb_false in Ed2. specialize (Ed2 _ Hin). cbn [snd] in Ed2.
      rewrite existsb_false in Ed2. specialize (Ed2 _ Hp). rewrite existsb_false in Ed2. now apply Ed2.
  - exists g1, ss. split; [reflexivity|]. split; [now apply nodup_syms_NoDup|].
    destruct smart; congruence.
Qed.

Theorem factorize_ok_plain : forall ug terminals g sfxs,
  factorize ug terminals false = Ok (g, sfxs) -> fact_ok ug g sfxs = true.
Proof.
  intros ug terminals g sfxs H.
  destruct (factorize_inv _ _ _ _ _ H) as [Hd [g1 [ss [Hf [Hnd Heq]]]]]. injection Heq as -> ->.
  apply fspec_fact_ok. apply g1_fspec. now apply factorize_all_g1spec.
Qed.
