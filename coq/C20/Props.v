(* C20/Props.v -- the property theorems, nothing else.
   Short uuid strings are a bijective encoding of UUIDs.
   UUID = integer n with 0 <= n < 2^128; strings = lists of code points. *)
From Coq Require Import ZArith List.
From AK Require Import Common.Err gen.C20_Consts C20.Model C20.Lemmas.
Import ListNotations.
Open Scope Z_scope.

(* the constants read from ak/short_uuid.py meet what the codec needs *)
Theorem consts_ok :
  NoDup alphabet /\ 2 <= base /\ 2 ^ 128 <= base ^ Z.of_nat short_len.
Proof. exact (conj alphabet_nodup (conj base_ge_2 bound_fits)). Qed.
Print Assumptions consts_ok.

(* uuid_from_short_str(uuid_to_short_str(u)) == u for every 128-bit UUID *)
Theorem roundtrip : forall n, 0 <= n < 2 ^ 128 ->
  uuid_from_short_str (PStr (uuid_to_short_str n)) = Ok n.
Proof. exact roundtrip_l. Qed.
Print Assumptions roundtrip.

(* every encoding is exactly short_len (22) characters of the alphabet *)
Theorem shape : forall n, 0 <= n < 2 ^ 128 ->
  length (uuid_to_short_str n) = short_len /\
  Forall (fun c => In c alphabet) (uuid_to_short_str n).
Proof. exact shape_l. Qed.
Print Assumptions shape.

(* distinct UUIDs get distinct strings *)
Theorem injective : forall n m, 0 <= n < 2 ^ 128 -> 0 <= m < 2 ^ 128 ->
  uuid_to_short_str n = uuid_to_short_str m -> n = m.
Proof. exact injective_l. Qed.
Print Assumptions injective.

(* exactly the strings of the right length, over the alphabet, denoting a
   number below 2^128 are accepted, with that number as the result ... *)
Theorem accept_iff : forall s n,
  uuid_from_short_str (PStr s) = Ok n <->
  (length s = short_len /\ Forall (fun c => In c alphabet) s /\ value s < 2 ^ 128) /\ n = value s.
Proof. exact accept_iff_l. Qed.
Print Assumptions accept_iff.

(* ... each accepted string is the encoding of its value (bijection) ... *)
Theorem surjective_on_valid : forall s n,
  uuid_from_short_str (PStr s) = Ok n -> 0 <= n < 2 ^ 128 /\ uuid_to_short_str n = s.
Proof. exact surjective_l. Qed.
Print Assumptions surjective_on_valid.

(* ... and any other argument is rejected with ValueError, nothing else *)
Theorem reject_value_error : forall a,
  (forall s, a = PStr s ->
     ~ (length s = short_len /\ Forall (fun c => In c alphabet) s /\ value s < 2 ^ 128)) ->
  uuid_from_short_str a = Err ValueErr.
Proof. exact reject_l. Qed.
Print Assumptions reject_value_error.

(* uuid_from_str accepts the canonical form (whatever uuid.UUID accepts, [std])
   and the short form, and rejects the rest with ValueError *)
Theorem from_str_both : forall n,
  (forall s, uuid_from_str (Some n) s = Ok n) /\
  (0 <= n < 2 ^ 128 -> uuid_from_str None (uuid_to_short_str n) = Ok n) /\
  (forall s, ~ (length s = short_len /\ Forall (fun c => In c alphabet) s /\ value s < 2 ^ 128) ->
             uuid_from_str None s = Err ValueErr).
Proof. exact (fun n => conj (from_str_canonical n) (conj (from_str_short n) from_str_reject)). Qed.
Print Assumptions from_str_both.

(* non-vacuity: concrete values meet the hypotheses and exercise both branches *)
Example roundtrip_max : uuid_from_short_str (PStr (uuid_to_short_str (2 ^ 128 - 1))) = Ok (2 ^ 128 - 1).
Proof. vm_compute. reflexivity. Qed.
Print Assumptions roundtrip_max.

Example reject_foreign_char :
  uuid_from_short_str (PStr (repeat 48 22)) = Err ValueErr /\          (* '0' * 22 *)
  uuid_from_short_str (PStr (repeat 122 22)) = Err ValueErr /\         (* 'z' * 22 >= 2^128 *)
  uuid_from_short_str (PStr (repeat 50 21)) = Err ValueErr.            (* too short *)
Proof. vm_compute. repeat split. Qed.
Print Assumptions reject_foreign_char.
