(* C17/Props.v -- the property theorems, nothing else.
   "Layered HTTP connections compose adapters without side effects."

   Vocabulary (C17/Model.v): a program is a list of operations [op] on a state
   (heap of mutable python objects + the connections / method callers / caller
   objects created so far); [step st o] = (state after, what the caller
   observes: the urllib Request handed to the opener, or the exception class).
   [reachable st]: st is produced from the empty state by ANY sequence of
   operations other than add_adapter; [reachable_any st] (C17/LemmasAdd.v): by
   any sequence at all (theorems 9-14).  [flat_own c] = adapters the connection
   was constructed with ++ those of its parent ++ ... (the whole chain).
   [spec_of h addr ids ads q] (C17/Lemmas.v) is the pure, heap-free function
   "apply the adapters [ads] in list order to (path, copy of the caller's
   headers), then assemble url / id header / method / body". *)
From Coq Require Import ZArith List Bool Lia.
From AK Require Import Common.Err gen.C17_Consts C17.Codec C17.Model C17.Base C17.Lemmas C17.CodecProofs C17.Spec C17.LemmasAdd.
Import ListNotations.
Open Scope Z_scope.

(* 0. the clauses and literal keys read from the current source are the ones the proofs rely on *)
Theorem source_clauses :
  hdr_copy = true /\ clone_wraps_nonlist = true /\ resp_reversed = true /\
  (basic_assert_key = basic_set_key /\ client_assert_key = basic_set_key /\ client_set_key = basic_set_key /\
   token_assert_key = basic_set_key /\ token_set_key = basic_set_key /\ capitalize basic_set_key = basic_set_key) /\
  (capitalize x_tag <> basic_set_key /\ capitalize reqid_set_key <> basic_set_key /\ capitalize ctype_set_key <> basic_set_key) /\
  reqid_test_key = (if reqid_ci then map low reqid_set_key else reqid_set_key) /\ ctype_test_key = ctype_set_key /\
  (Forall (fun v => upper v = v) verbs /\ length verbs = 5%nat).
Proof.
  exact (conj hdr_copy_true (conj clone_wraps_nonlist_true (conj resp_reversed_true (conj auth_keys_agree
        (conj other_keys_distinct (conj reqid_keys_agree (conj ctype_keys_agree verbs_upper))))))).
Qed.
Print Assumptions source_clauses.

(* 1. chain_applied_once: after ANY sequence of wraps / clones / component lookups / requests, a request
   through any connection applies exactly the adapters of its whole chain -- own, then parent's, ... --
   each once and in that order: what the opener receives is [spec_of] of that list. *)
Theorem chain_applied_once : forall st i c q ra,
  reachable st -> nth_error (conns st) i = Some c -> resolve st q = Ok ra ->
  snd (step st (ORequest i q)) =
  omap (spec_of (heap_of st) (fst (conn_root c)) (snd (conn_root c)) (flat_own c) ra).
Proof. intros st i c q ra R. apply request_obs. apply reachable_wf. exact R. Qed.
Print Assumptions chain_applied_once.

Theorem chain_unfold : forall b own parent r a s r0,
  flat_own (Wrap b own parent r) = own ++ flat_own parent /\ flat_own (Impl a s r0) = [].
Proof. intros. split; reflexivity. Qed.
Print Assumptions chain_unfold.

(* ... and a wrapper method declared with components sends through "prefix adapter of its component ++ the
   caller's chain", whether get_conn creates the prefixed connection, finds it in the per-caller cache or
   (empty prefix / no components) hands out the caller's own connection; AssertionError unless exactly one
   declared component is configured *)
Theorem wrapper_call_chain : forall st i m comps q ra,
  reachable st -> nth_error (callers st) i = Some m -> resolve st q = Ok ra ->
  snd (step st (OCall i comps q)) =
  match comp_chain (m_map m) comps with
  | Err e => Err e
  | Ok pre => omap (spec_of (heap_of st) (fst (conn_root (m_conn m))) (snd (conn_root (m_conn m)))
                            (pre ++ flat_own (m_conn m)) ra)
  end.
Proof. intros st i m comps q ra R. apply call_obs. apply reachable_wf. exact R. Qed.
Print Assumptions wrapper_call_chain.

(* each adapter exactly once, in list order: the harness's tag adapters append their mark to header X-Tag *)
Theorem adapters_each_once : forall ads path d0 p d s0,
  adapters_pre ads (path, d0) = Ok (p, d) -> tag_val d0 = Ok s0 ->
  tag_val d = Ok (s0 ++ tags ads).
Proof. exact adapters_pre_tags. Qed.
Print Assumptions adapters_each_once.

(* 2. prefix_order: prefixes are put in front of the path in list order, so the prefixes of inner (parent)
   connections -- later in the list -- end up outermost; joining drops one of two adjacent slashes *)
Theorem prefix_order : forall ads path d0 p d,
  adapters_pre ads (path, d0) = Ok (p, d) ->
  p = fold_left (fun s pre => join_prefix pre s) (prefixes ads) path.
Proof. exact adapters_pre_path. Qed.
Print Assumptions prefix_order.

Theorem prefix_join : forall p s,
  join_prefix p s = p ++ s \/
  (join_prefix p s = p ++ tl s /\ starts_with slash s = true /\ ends_with slash p = true).
Proof. exact join_prefix_cases. Qed.
Print Assumptions prefix_join.

(* response processors are CALLED in reverse order (the values they pass on: theorems R1-R5 below) *)
Theorem response_reverse_order : forall addr sids ads p meth params data d,
  q_resp (snd (assemble addr sids ads p meth params data d)) = rev (tags ads).
Proof. exact assemble_resp. Qed.
Print Assumptions response_reverse_order.

(* 3. one_auth: exactly one authenticating adapter anywhere in the chain and no Authorization key passed
   by the caller: Request.headers has the key Authorization exactly once, holding that adapter's value *)
Theorem one_auth : forall ads1 a ads2 ak sk v addr sids path meth params data d0 p d,
  auth_value a = Some (ak, sk, v) ->
  Forall (fun x => is_auth x = false) ads1 -> Forall (fun x => is_auth x = false) ads2 ->
  dict_mem basic_set_key d0 = false ->
  adapters_pre (ads1 ++ a :: ads2) (path, d0) = Ok (p, d) ->
  dict_get basic_set_key (q_headers (snd (assemble addr sids (ads1 ++ a :: ads2) p meth params data d))) = Some v /\
  NoDup (map fst (q_headers (snd (assemble addr sids (ads1 ++ a :: ads2) p meth params data d)))).
Proof. exact one_auth_l. Qed.
Print Assumptions one_auth.

(* ... whose value decodes (base64, utf-8) to the configured credentials *)
Theorem auth_decodes :
  (forall l p ak sk v, is_text l -> is_text p -> auth_value (ABasic l p) = Some (ak, sk, v) ->
     decode_basic basic_prefix v = Some (l ++ basic_sep ++ p)) /\
  (forall n i s ak sk v, is_text i -> is_text s -> auth_value (AClient n i s) = Some (ak, sk, v) ->
     decode_basic client_prefix v = Some (i ++ client_sep ++ s)) /\
  (forall t ak sk v, auth_value (AToken t) = Some (ak, sk, v) -> v = HStr (token_prefix ++ t)).
Proof. exact auth_decodes_l. Qed.
Print Assumptions auth_decodes.

Theorem codec_roundtrip :
  (forall l, is_bytes l -> b64_dec (b64 l) = l) /\
  (forall s, is_text s -> utf8_decode (utf8 s) = Some s) /\
  (forall s, is_text s -> is_bytes (utf8 s)).
Proof. exact (conj b64_roundtrip (conj utf8_roundtrip utf8_bytes)). Qed.
Print Assumptions codec_roundtrip.

(* two authenticating layers: the request is refused with AssertionError (unless an earlier adapter
   already failed), it is never sent with two credentials *)
Theorem two_auth_refused : forall ads1 a ads2 b ads3 path d0,
  is_auth a = true -> is_auth b = true -> Forall (fun x => is_auth x = false) ads2 ->
  (exists e, adapters_pre ads1 (path, d0) = Err e) \/
  (exists e, bind (adapters_pre ads1 (path, d0)) (adapter_pre a) = Err e) \/
  (exists e, bind (bind (adapters_pre ads1 (path, d0)) (adapter_pre a)) (adapters_pre ads2) = Err e) \/
  adapters_pre (ads1 ++ a :: ads2 ++ b :: ads3) (path, d0) = Err AssertErr.
Proof. exact two_auth_l. Qed.
Print Assumptions two_auth_refused.

(* 4. url_formula: address + ('/' unless one is there) + prefixed path + ('?' + urlencode(params) if params) *)
Theorem url_formula : forall addr sids ads p meth params data d,
  q_url (snd (assemble addr sids ads p meth params data d)) =
  addr ++ (if negb (ends_with slash addr) && negb (starts_with slash (p ++ query params)) then [slash] else [])
       ++ p ++ query params.
Proof. exact assemble_url. Qed.
Print Assumptions url_formula.

(* 5. body_encoding: None / bytes as is / str as utf-8 / anything else as utf-8 of json.dumps;
   method: upper-cased if given, else POST with a truthy body and GET without *)
Theorem body_encoding : forall addr sids ads p meth params data d,
  q_data (snd (assemble addr sids ads p meth params data d)) =
  match data with
  | None => None
  | Some (BBytes b) => Some b
  | Some (BStr s) => Some (utf8 s)
  | Some (BJson js _) => Some (utf8 js)
  end /\
  q_method (snd (assemble addr sids ads p meth params data d)) =
  match meth with
  | Some m => if nonempty m then upper m else default_method data
  | None => default_method data
  end.
Proof. intros. split; [apply assemble_body|apply assemble_method]. Qed.
Print Assumptions body_encoding.

(* reading [spec_of] backwards: a successful request IS "adapters, then assemble" on the caller's values *)
Theorem spec_inversion : forall h addr sids ads q cap v,
  spec_of h addr sids ads q = Ok (cap, v) ->
  exists d0 p d params data,
    init_dict h (a_headers q) = Ok d0 /\ adapters_pre ads (a_path q, d0) = Ok (p, d) /\
    read_params h (a_params q) = Ok params /\ read_body h (a_data q) = Ok data /\
    cap = snd (assemble addr sids ads p (a_meth q) params data d) /\
    respond ads (a_raw q) (a_resp q) = Ok v.
Proof. exact spec_of_inv. Qed.
Print Assumptions spec_inversion.

(* 6. frame: whatever sequence of operations (other than add_adapter) follows, every heap cell that
   existed -- adapter lists of connections, the caller's adapter lists, header dicts, params and data
   objects -- keeps its content, and the caller's objects stay where they were *)
Theorem frame : forall st ops,
  reachable st -> no_add ops ->
  (forall r, (r < length (heap_of st))%nat -> hget (heap_of (fst (run_ops st ops))) r = hget (heap_of st) r) /\
  (forall i r, nth_error (cobjs st) i = Some r ->
     nth_error (cobjs (fst (run_ops st ops))) i = Some r /\
     hget (heap_of (fst (run_ops st ops))) r = hget (heap_of st) r).
Proof.
  intros st ops R N. pose proof (reachable_wf _ R) as W. split.
  - apply frame_cells; assumption.
  - intros i r. apply frame_caller_objects; assumption.
Qed.
Print Assumptions frame.

(* 7. non-interference: a request through an existing connection, or a wrapper call on an existing
   caller, observes exactly the same after any such sequence as before it *)
Theorem noninterference : forall st ops,
  reachable st -> no_add ops ->
  (forall i c q ra, nth_error (conns st) i = Some c -> resolve st q = Ok ra ->
     snd (step (fst (run_ops st ops)) (ORequest i q)) = snd (step st (ORequest i q))) /\
  (forall i m comps q ra, nth_error (callers st) i = Some m -> resolve st q = Ok ra ->
     snd (step (fst (run_ops st ops)) (OCall i comps q)) = snd (step st (OCall i comps q))).
Proof.
  intros st ops R N. pose proof (reachable_wf _ R) as W. split.
  - intros i c q ra. apply noninterference_conn; assumption.
  - intros i m comps q ra. apply noninterference_caller; assumption.
Qed.
Print Assumptions noninterference.

(* 8. clone_list: clone(None) / clone(adapter) / clone(list) all succeed; the clone's chain is the given
   adapters ++ the original's chain, on the same address; the original caller is left as it was *)
Theorem clone_list : forall st i m ad l,
  reachable st -> nth_error (callers st) i = Some m -> adarg_list st ad = Ok l ->
  exists c,
    step st (OClone i ad) =
      ({| heap_of := heap_of st ++ [CAdapters (l ++ flat_own (m_conn m))]; cobjs := cobjs st;
          conns := conns st ++ [c];
          callers := callers st ++ [{| m_map := m_map m; m_conn := c; m_cache := [] |}] |}, Ok OUnit) /\
    flat_own c = l ++ flat_own (m_conn m) /\ conn_root c = conn_root (m_conn m).
Proof. intros st i m ad l R. apply clone_l. apply reachable_wf. exact R. Qed.
Print Assumptions clone_list.

(* ... a chain without authenticating layer and a caller who passed no Authorization key in any spelling:
   the Request has no Authorization header *)
Theorem no_auth_no_header : forall ads addr sids path meth params data d0 p d,
  Forall (fun x => is_auth x = false) ads ->
  last_cap basic_set_key d0 = None ->
  adapters_pre ads (path, d0) = Ok (p, d) ->
  dict_get basic_set_key (q_headers (snd (assemble addr sids ads p meth params data d))) = None.
Proof. exact no_auth_l. Qed.
Print Assumptions no_auth_no_header.

(* falsy bodies: whatever is not None is sent -- b'' and '' as zero bytes, {} [] 0 False as their json text,
   labelled application/json unless the (exact) key Content-Type is already in the headers *)
Theorem body_never_dropped : forall addr sids ads p meth params b d,
  exists bytes, q_data (snd (assemble addr sids ads p meth params (Some b) d)) = Some bytes /\
    bytes = match b with BBytes x => x | BStr s => utf8 s | BJson js _ => utf8 js end.
Proof. exact body_kept_l. Qed.
Print Assumptions body_never_dropped.

Theorem json_body : forall addr sids ads p meth params js t d,
  dict_mem ctype_test_key d = false ->
  q_data (snd (assemble addr sids ads p meth params (Some (BJson js t)) d)) = Some (utf8 js) /\
  dict_get (capitalize ctype_set_key) (q_headers (snd (assemble addr sids ads p meth params (Some (BJson js t)) d)))
    = Some (HStr ctype_val).
Proof. exact json_body_l. Qed.
Print Assumptions json_body.

(* end to end: EVERY successful request through a connection of a reachable state whose whole chain holds
   exactly one authenticating adapter carries exactly one Authorization header, with that adapter's value
   (that the caller did not pass the key himself follows from success: the adapter asserts it) *)
Theorem request_one_auth : forall st i c q ra cap rv ads1 a ads2 ak sk v,
  reachable st -> nth_error (conns st) i = Some c -> resolve st q = Ok ra ->
  flat_own c = ads1 ++ a :: ads2 -> auth_value a = Some (ak, sk, v) ->
  Forall (fun x => is_auth x = false) ads1 -> Forall (fun x => is_auth x = false) ads2 ->
  snd (step st (ORequest i q)) = Ok (OReq cap rv) ->
  dict_get basic_set_key (q_headers cap) = Some v /\ NoDup (map fst (q_headers cap)).
Proof. intros st i c q ra cap rv ads1 a ads2 ak sk v R. apply request_one_auth_l. apply reachable_wf. exact R. Qed.
Print Assumptions request_one_auth.

(* ... and goes to address + prefixes of the whole chain (inner ones outermost) + path (+ '?' + url-encoded
   params), with the body encoded by its type, the method upper-cased or defaulted, the response processors
   run in reverse order of the chain *)
Theorem request_shape : forall st i c q ra cap rv,
  reachable st -> nth_error (conns st) i = Some c -> resolve st q = Ok ra ->
  snd (step st (ORequest i q)) = Ok (OReq cap rv) ->
  exists params data,
    read_params (heap_of st) (a_params ra) = Ok params /\ read_body (heap_of st) (a_data ra) = Ok data /\
    let p := fold_left (fun s pre => join_prefix pre s) (prefixes (flat_own c)) (a_path ra) in
    let addr := fst (conn_root c) in
    q_url cap = addr ++ (if negb (ends_with slash addr) && negb (starts_with slash (p ++ query params)) then [slash] else [])
                     ++ p ++ query params /\
    q_data cap = match data with
                 | None => None
                 | Some (BBytes b) => Some b
                 | Some (BStr s) => Some (utf8 s)
                 | Some (BJson js _) => Some (utf8 js)
                 end /\
    q_method cap = match a_meth ra with
                   | Some m => if nonempty m then upper m else default_method data
                   | None => default_method data
                   end /\
    q_resp cap = rev (tags (flat_own c)).
Proof. intros st i c q ra cap rv R. apply request_shape_l. apply reachable_wf. exact R. Qed.
Print Assumptions request_shape.

(* ------------------------------------------------------------------ *)
(* the response path: "response processors in reverse order", for the   *)
(* VALUE returned to the caller.  [respond ads raw resp] (C17/Model.v)   *)
(* is everything behind the opener call: HTTPError for error statuses,   *)
(* else the base value -- raw_response=True: the response object itself; *)
(* False: '' for an empty body, json.loads of the utf-8 text otherwise -- *)
(* threaded through process_response of every adapter of [ads].  The     *)
(* four adapters of conn_http.py keep RequestAdapter's identity; the     *)
(* harness's tag adapter wraps (RMark k v), so [marks v] lists who        *)
(* processed v, outermost (= last to run) first.                          *)

(* R1. respond_chain (all adapter lists, raw or not, all answers): the loop runs over the reversed list, i.e.
   the first adapter's processor is outermost; every processor of the list is applied exactly once -- the
   marks around the returned value are the tags of the list, in list order -- and what is inside the marks
   is the base value, which no processor made *)
Theorem respond_chain : forall ads raw resp v, respond ads raw resp = Ok v ->
  exists b, r_code resp < 400 /\ response_base raw resp = Ok b /\ is_base b /\
    v = fold_left (fun v a => adapter_post a v) (rev ads) b /\
    v = fold_right adapter_post b ads /\
    marks v = tags ads /\ unmarked v = b.
Proof. exact respond_chain_l. Qed.
Print Assumptions respond_chain.

(* R2. raw and decoded responses alike: the same processors, the same order; only the base value differs *)
Theorem raw_and_decoded_alike : forall ads resp,
  (forall v, respond ads true resp = Ok v ->
     marks v = tags ads /\ unmarked v = RRaw (r_code resp) (r_body resp)) /\
  (forall v, respond ads false resp = Ok v ->
     marks v = tags ads /\
     ((decode_utf8 (r_body resp) = Some [] /\ unmarked v = RText []) \/
      (exists js, r_json resp = Some js /\ unmarked v = RJson js))) /\
  (forall b1 b2, response_base true resp = Ok b1 -> response_base false resp = Ok b2 -> r_code resp < 400 ->
     respond ads true resp = Ok (fold_right adapter_post b1 ads) /\
     respond ads false resp = Ok (fold_right adapter_post b2 ads)).
Proof.
  intros ads resp. split; [|split].
  - intros v H. destruct (respond_chain_l _ _ _ _ H) as (b & _ & E & _ & _ & _ & M & U).
    destruct (response_base_cases _ _ _ E) as [_ ->]. auto.
  - intros v H. destruct (respond_chain_l _ _ _ _ H) as (b & _ & E & _ & _ & _ & M & U).
    destruct (response_base_cases _ _ _ E) as [_ [[D ->]|(c & s & js & D & J & ->)]]; rewrite U; eauto.
  - intros b1 b2 E1 E2 L. rewrite !respond_spec, E1, E2.
    destruct (Z.leb_spec 400 (r_code resp)); [lia|]. split; reflexivity.
Qed.
Print Assumptions raw_and_decoded_alike.

(* R3. processors of a wrapping connection run after (around) those of the connection it wraps *)
Theorem response_chain_app : forall own parent b,
  post_chain (own ++ parent) b = post_chain own (post_chain parent b) /\
  forall ads, post_chain ads b = fold_right adapter_post b ads /\ post_loop ads b = post_chain ads b.
Proof. intros. split; [apply post_chain_app|]. intros ads. split; [reflexivity|apply post_loop_chain]. Qed.
Print Assumptions response_chain_app.

(* R4. an error status: HTTPError whatever the chain and raw_response; nothing is returned *)
Theorem http_error_raises : forall ads raw resp, 400 <= r_code resp -> respond ads raw resp = Err OtherErr.
Proof. exact http_error_l. Qed.
Print Assumptions http_error_raises.

(* R5. response_processed_once_reverse, end to end: EVERY successful request through a connection of a reachable
   state -- raw_response True or False -- returns the base value processed by every adapter of the WHOLE chain
   exactly once, over the reversed chain (the outermost connection's own adapters last = outermost) *)
Theorem response_processed_once_reverse : forall st i c q ra cap v,
  reachable st -> nth_error (conns st) i = Some c -> resolve st q = Ok ra ->
  snd (step st (ORequest i q)) = Ok (OReq cap v) ->
  exists b, response_base (a_raw ra) (a_resp ra) = Ok b /\ is_base b /\
    v = fold_left (fun v a => adapter_post a v) (rev (flat_own c)) b /\
    v = post_chain (flat_own c) b /\
    marks v = tags (flat_own c) /\ unmarked v = b /\
    q_resp cap = rev (tags (flat_own c)).
Proof. intros st i c q ra cap v R. apply response_processed_l. apply reachable_wf. exact R. Qed.
Print Assumptions response_processed_once_reverse.

(* ... and the same for a wrapper method with components (the prefix adapter of the component does not
   process responses) *)
Theorem wrapper_response_processed : forall st i m comps q ra cap v,
  reachable st -> nth_error (callers st) i = Some m -> resolve st q = Ok ra ->
  snd (step st (OCall i comps q)) = Ok (OReq cap v) ->
  exists pre b, comp_chain (m_map m) comps = Ok pre /\
    response_base (a_raw ra) (a_resp ra) = Ok b /\ is_base b /\
    v = post_chain (pre ++ flat_own (m_conn m)) b /\
    marks v = tags (flat_own (m_conn m)) /\ unmarked v = b.
Proof. intros st i m comps q ra cap v R. apply call_response_processed_l. apply reachable_wf. exact R. Qed.
Print Assumptions wrapper_response_processed.

(* ------------------------------------------------------------------ *)
(* add_adapter as an operation like any other (C17/LemmasAdd.v).        *)
(* [reachable_any st]: st is produced from the empty state by ANY       *)
(* sequence of operations.  [add_targets st ops]: the list objects      *)
(* (conn.adapters) written by the add_adapter calls when ops run from   *)
(* st.                                                                  *)

(* 9. frame_any: no operation sequence whatsoever writes an object the caller created (the lists he passed
   as `adapters`, header dicts, params, bodies) *)
Theorem frame_any : forall st ops i r,
  reachable_any st -> nth_error (cobjs st) i = Some r ->
  nth_error (cobjs (fst (run_ops st ops))) i = Some r /\
  hget (heap_of (fst (run_ops st ops))) r = hget (heap_of st) r.
Proof. intros st ops i r R. apply frame_any_l. apply reachable_any_own. exact R. Qed.
Print Assumptions frame_any.

(* 10. noninterference_any: a request through connection c / a wrapper call on caller m observes the same
   after ANY operation sequence in which add_adapter is not called on the object c / m.http_conn itself --
   derivations from it, clones, their component lookups and add_adapter on any of those included *)
Theorem noninterference_any : forall st ops,
  reachable_any st ->
  (forall i c q ra, nth_error (conns st) i = Some c -> resolve st q = Ok ra ->
     ~ In (conn_lref c) (add_targets st ops) ->
     snd (step (fst (run_ops st ops)) (ORequest i q)) = snd (step st (ORequest i q))) /\
  (forall i m comps q ra, nth_error (callers st) i = Some m -> resolve st q = Ok ra ->
     ~ In (conn_lref (m_conn m)) (add_targets st ops) ->
     snd (step (fst (run_ops st ops)) (OCall i comps q)) = snd (step st (OCall i comps q))).
Proof.
  intros st ops R. pose proof (reachable_any_own _ R) as J. pose proof (reachable_any_callers _ R) as K. split.
  - intros i c q ra. apply noninterference_any_l. exact J.
  - intros i m comps q ra. apply noninterference_call_any_l; assumption.
Qed.
Print Assumptions noninterference_any.

(* the lists written by add_adapter belong to connections: to one that existed before the run or to one
   made during it; a successful HttpConn(..) / BAuthConn(..) / ... / clone(..) makes ONE new object whose
   list is a new cell -- so add_adapter on a derived connection is never add_adapter on the original *)
Theorem add_targets_are_connections : forall ops st t, In t (add_targets st ops) ->
  (exists c, In c (conns st) /\ conn_lref c = t) \/ (length (heap_of st) <= t)%nat.
Proof. exact add_targets_old_or_new. Qed.
Print Assumptions add_targets_are_connections.

Theorem derived_is_new_object : forall st o, derives o = true -> snd (step st o) = Ok OUnit ->
  exists c', conns (fst (step st o)) = conns st ++ [c'] /\ (length (heap_of st) <= conn_lref c')%nat.
Proof. exact derive_fresh. Qed.
Print Assumptions derived_is_new_object.

(* 11. derive_then_add: derive a connection (or clone a caller), call add_adapter on the derived connection,
   continue with anything that does not call add_adapter on c itself: requests through c are as before *)
Theorem derive_then_add : forall st o a ops' i c q ra,
  reachable_any st -> derives o = true -> snd (step st o) = Ok OUnit ->
  nth_error (conns st) i = Some c -> resolve st q = Ok ra ->
  ~ In (conn_lref c) (add_targets (fst (run_ops st [o; OAddAdapter (length (conns st)) a])) ops') ->
  snd (step (fst (run_ops st (o :: OAddAdapter (length (conns st)) a :: ops'))) (ORequest i q)) =
  snd (step st (ORequest i q)).
Proof. intros st o a ops' i c q ra R. apply derive_then_add_l. apply reachable_any_own. exact R. Qed.
Print Assumptions derive_then_add.

(* 12. add_adapter_effect: conn.add_adapter(a) rewrites the connection's own list to `list ++ [a]` and nothing
   else; the next request through that connection is the specification of `list ++ [a]`: a is applied LAST,
   behind the adapters of the whole chain (a prefix added this way ends up outermost) *)
Theorem add_adapter_effect : forall st i c l a,
  nth_error (conns st) i = Some c -> hget (heap_of st) (conn_lref c) = Some (CAdapters l) ->
  step st (OAddAdapter i a) = (upd_heap st (hset (heap_of st) (conn_lref c) (CAdapters (l ++ [a]))), Ok OUnit) /\
  forall q ra, reachable_any st -> resolve st q = Ok ra ->
    snd (step (fst (step st (OAddAdapter i a))) (ORequest i q)) =
    omap (spec_of (heap_of st) (fst (conn_root c)) (snd (conn_root c)) (l ++ [a]) ra).
Proof.
  intros st i c l a Ec El. split; [apply add_adapter_step; assumption|].
  intros q ra R Er. apply request_after_add_l; try assumption. apply reachable_any_own. exact R.
Qed.
Print Assumptions add_adapter_effect.

(* 13. in ANY reachable state a request is the specification applied to the current content of the
   connection's own list, and a wrapper call the specification applied to its view (cached connection of
   its prefix, else prefix adapter + the current list of the caller's connection) *)
Theorem request_any : forall st i q c ra,
  nth_error (conns st) i = Some c -> resolve st q = Ok ra ->
  snd (step st (ORequest i q)) =
  match hget (heap_of st) (conn_lref c) with
  | Some (CAdapters ads) => omap (spec_of (heap_of st) (fst (conn_root c)) (snd (conn_root c)) ads ra)
  | _ => Err OtherErr
  end.
Proof. exact request_obs_any. Qed.
Print Assumptions request_any.

Theorem wrapper_call_any : forall st i comps q m ra,
  reachable_any st -> nth_error (callers st) i = Some m -> resolve st q = Ok ra ->
  snd (step st (OCall i comps q)) = view_obs (heap_of st) (call_view (heap_of st) m comps) ra.
Proof.
  intros st i comps q m ra R. apply call_obs_view; [apply reachable_any_own|apply reachable_any_callers]; exact R.
Qed.
Print Assumptions wrapper_call_any.

(* 14. the same caller objects passed to several requests: the second request observes what the first did *)
Theorem same_objects_reused : forall st i c q ra,
  reachable_any st -> nth_error (conns st) i = Some c -> resolve st q = Ok ra ->
  snd (step (fst (step st (ORequest i q))) (ORequest i q)) = snd (step st (ORequest i q)).
Proof.
  intros st i c q ra R Ec Er.
  pose proof (noninterference_any_l st [ORequest i q] i c q ra (reachable_any_own _ R) Ec Er) as H.
  cbn [run_ops add_targets add_target app] in H. destruct (step st (ORequest i q)) as [st1 x]. cbn [fst] in *.
  apply H. intros [].
Qed.
Print Assumptions same_objects_reused.

(* ------------------------------------------------------------------ *)
(* non-vacuity: concrete programs                                       *)

Definition ex_addr : str := [104;116;116;112;58;47;47;104].                         (* http://h *)
Definition ex_resp : response := {| r_code := 200; r_body := [123;125]; r_json := Some [123;125] |}.   (* 200, b'{}' *)
Definition ex_q : reqspec := {| s_meth := MVerb 1; s_path := [47;97]; s_params := Some 1%nat; s_data := Some 2%nat; s_headers := Some 0%nat;
                                s_raw := false; s_resp := ex_resp |}.
Definition ex_prog : list op :=
  [ ONewHeaders [([65], HStr [66])];                      (* {'A': 'B'} *)
    ONewParams [([107], [118;32])];                       (* {'k': 'v '} *)
    ONewBody (BJson [123;125] false);                     (* {} *)
    ONewList [ATag 120; APrefix [47;105;110]];            (* [tag x, prefix '/in'] *)
    OConn (WHttp (ADSingle (APrefix [47;97;112;105;47]))) (CDAddr ex_addr);     (* c0 = HttpConn(addr, adapters=prefix '/api/') *)
    OConn (WBasic [117] [112]) (CDConn 0);                (* c1 = BAuthConn(c0, 'u', 'p') *)
    OCaller [([99], [47;99])] (CDConn 1);                 (* m0 = Caller(c1) with map {'c': '/c'}; c2 = its HttpConn *)
    OClone 0 (ADList 3) ].                                (* m1 = m0.clone([tag x, prefix '/in']); c3 *)

Example reachable_example : reachable (fst (run_ops init ex_prog)) /\
  length (conns (fst (run_ops init ex_prog))) = 4%nat /\ length (callers (fst (run_ops init ex_prog))) = 2%nat.
Proof. split; [exists ex_prog; split; [repeat constructor|reflexivity]|vm_compute; split; reflexivity]. Qed.
Print Assumptions reachable_example.

(* the clone's request: prefixes '/c' (component), '/in' (clone), '/api/' (innermost connection, outermost in the
   path; one of the two adjacent slashes dropped), one
   Authorization header, tag x once, url-encoded params, json body; and the original's request before and
   after are the same *)
Example clone_request_example :
  match snd (step (fst (run_ops init ex_prog)) (OCall 1 (Some [[99]]) ex_q)) with
  | Ok (OReq cap _) =>
      q_url cap = ex_addr ++ [47;97;112;105;47] ++ [105;110] ++ [47;99] ++ [47;97] ++ [63;107;61;118;43] /\   (* http://h/api/in/c/a?k=v+ *)
      dict_get basic_set_key (q_headers cap) = Some (HBytes ([66;97;115;105;99;32] ++ [100;84;112;119])) /\   (* Basic dTpw *)
      dict_get (capitalize x_tag) (q_headers cap) = Some (HStr [120]) /\
      q_data cap = Some [123;125] /\ q_method cap = [80;79;83;84] /\ q_resp cap = [120]
  | _ => False
  end.
Proof. vm_compute. repeat split. Qed.
Print Assumptions clone_request_example.

(* two caller classes that inherit ONE wrapper method (declared for component 'c') with different prefix maps
   {'c': '/p'} and {'c': '/q'} over the same address: each call goes through the prefix of the caller it is made on,
   whichever class used the method first (in general: wrapper_call_chain reads [m_map m] only, noninterference) *)
Definition ex_two_classes : list op :=
  [ OCaller [([99], [47;112])] (CDAddr ex_addr);          (* m0 = ClassP(addr), _HTTP_PREFIX_MAP = {'c': '/p'} *)
    OCaller [([99], [47;113])] (CDAddr ex_addr);          (* m1 = ClassQ(addr), _HTTP_PREFIX_MAP = {'c': '/q'} *)
    OCaller [([100], [47;113])] (CDAddr ex_addr) ].       (* m2: no component of the method *)
Definition ex_q0 : reqspec := {| s_meth := MVerb 0; s_path := [47;97]; s_params := None; s_data := None; s_headers := None;
                                 s_raw := false; s_resp := ex_resp |}.
Definition url_of (st : state) (o : op) : option str :=
  match snd (step st o) with Ok (OReq cap _) => Some (q_url cap) | _ => None end.
Definition ex_call (m : nat) : op := OCall m (Some [[99]]) ex_q0.
Example prefix_per_caller_example :
  let st := fst (run_ops init ex_two_classes) in
  let c := ex_call in
  url_of st (c 0%nat) = Some (ex_addr ++ [47;112;47;97]) /\ url_of st (c 1%nat) = Some (ex_addr ++ [47;113;47;97]) /\
  url_of (fst (step st (c 0%nat))) (c 1%nat) = Some (ex_addr ++ [47;113;47;97]) /\
  url_of (fst (step st (c 1%nat))) (c 0%nat) = Some (ex_addr ++ [47;112;47;97]) /\
  url_of (fst (run_ops st [c 0%nat; c 1%nat; c 2%nat])) (c 0%nat) = Some (ex_addr ++ [47;112;47;97]) /\
  snd (step (fst (step st (c 0%nat))) (c 2%nat)) = Err AssertErr.
Proof. vm_compute. repeat split. Qed.
Print Assumptions prefix_per_caller_example.

(* add_adapter is rightly outside the quantifier: it DOES change later requests through the connection *)
Example add_adapter_interferes :
  exists ops i q, ~ no_add ops /\
    snd (step (fst (run_ops (fst (run_ops init ex_prog)) ops)) (ORequest i q)) <>
    snd (step (fst (run_ops init ex_prog)) (ORequest i q)).
Proof.
  exists [OAddAdapter 0 (ATag 121)], 0%nat, ex_q. split.
  - intros H. inversion H as [|o l Ho Hl]; subst. discriminate.
  - vm_compute. discriminate.
Qed.
Print Assumptions add_adapter_interferes.

(* two authenticating layers are refused *)
Example two_auth_example :
  snd (step (fst (run_ops init (ex_prog ++ [OConn (WToken [116]) (CDConn 1)]))) (ORequest 4 ex_q)) = Err AssertErr.
Proof. vm_compute. reflexivity. Qed.
Print Assumptions two_auth_example.

(* the Authorization value of the example decodes to 'u:p' *)
Example auth_decode_example :
  decode_basic basic_prefix (HBytes ([66;97;115;105;99;32] ++ [100;84;112;119])) = Some [117;58;112] /\
  auth_value (ABasic [117] [112]) = Some (basic_set_key, basic_set_key, HBytes ([66;97;115;105;99;32] ++ [100;84;112;119])).
Proof. vm_compute. split; reflexivity. Qed.
Print Assumptions auth_decode_example.

(* falsy bodies through the example chain: '' and b'' are sent as zero bytes, 0 and [] as their json text with
   Content-Type application/json; the default method (no verb given) is GET for all of them *)
Example falsy_bodies_example :
  let st := fst (run_ops init (ex_prog ++ [ONewBody (BStr []); ONewBody (BBytes []); ONewBody (BJson [48] false);
                                           ONewBody (BJson [91;93] false)])) in
  let q n := {| s_meth := MRaw None; s_path := [47;97]; s_params := None; s_data := Some n; s_headers := None;
               s_raw := false; s_resp := ex_resp |} in
  let data n := match snd (step st (ORequest 1 (q n))) with Ok (OReq cap _) => Some (q_data cap, q_method cap,
                   dict_get (capitalize ctype_set_key) (q_headers cap)) | _ => None end in
  data 4%nat = Some (Some [], [71;69;84], None) /\ data 5%nat = Some (Some [], [71;69;84], None) /\
  data 6%nat = Some (Some [48], [71;69;84], Some (HStr ctype_val)) /\
  data 7%nat = Some (Some [91;93], [71;69;84], Some (HStr ctype_val)).
Proof. vm_compute. repeat split. Qed.
Print Assumptions falsy_bodies_example.

(* add_adapter on the clone's connection (index 3): the hypothesis of noninterference_any holds for the
   original caller's connection (index 2) and for the connections below it, and the clone's requests do change *)
Example add_on_clone_example :
  let st := fst (run_ops init ex_prog) in
  let ops := [OAddAdapter 3 (AToken [116])] in
  (forall i c, (i < 3)%nat -> nth_error (conns st) i = Some c -> ~ In (conn_lref c) (add_targets st ops)) /\
  snd (step (fst (run_ops st ops)) (ORequest 3 ex_q)) <> snd (step st (ORequest 3 ex_q)) /\
  snd (step (fst (run_ops st ops)) (OCall 0 (Some [[99]]) ex_q)) = snd (step st (OCall 0 (Some [[99]]) ex_q)).
Proof.
  split; [|split].
  - intros [|[|[|i]]] c L; try lia; vm_compute; intros [= <-] [H|[]]; discriminate.
  - vm_compute. discriminate.
  - vm_compute. reflexivity.
Qed.
Print Assumptions add_on_clone_example.

(* a connection derived AFTER add_adapter on its parent inherits the added adapter (its list is built from the
   parent's current list); one derived BEFORE does not *)
Example derived_after_add_inherits :
  let st := fst (run_ops init (ex_prog ++ [OAddAdapter 0 (ATag 121); OConn (WHttp ADNone) (CDConn 0)])) in
  let tag i := match snd (step st (ORequest i ex_q)) with
               | Ok (OReq cap _) => dict_get (capitalize x_tag) (q_headers cap) | _ => None end in
  tag 4%nat = Some (HStr [121]) /\ tag 0%nat = Some (HStr [121]) /\ tag 1%nat = None /\ tag 3%nat = Some (HStr [120]).
Proof. vm_compute. repeat split. Qed.
Print Assumptions derived_after_add_inherits.

(* the response path through a three-adapter chain [tag a; tag b] (outer connection) ++ [tag c] (inner):
   processors ran c, b, a; the value is a(b(c(base))) -- for the decoded body, for the raw response, for an
   empty body alike; an error status raises; a body that is not json raises ValueError only when decoding is asked for *)
Definition ex_rprog : list op :=
  [ ONewList [ATag 97; ATag 98];
    OConn (WHttp (ADSingle (ATag 99))) (CDAddr ex_addr);
    OConn (WHttp (ADList 0)) (CDConn 0) ].
Definition ex_rq (raw : bool) (resp : response) : reqspec :=
  {| s_meth := MVerb 0; s_path := [47;97]; s_params := None; s_data := None; s_headers := None; s_raw := raw; s_resp := resp |}.
Example response_example :
  let st := fst (run_ops init ex_rprog) in
  let ret raw resp := match snd (step st (ORequest 1 (ex_rq raw resp))) with
                      | Ok (OReq cap v) => Ok (q_resp cap, v) | Ok OUnit => Err OtherErr | Err e => Err e end in
  let wrap b := RMark 97 (RMark 98 (RMark 99 b)) in
  reachable st /\
  ret false ex_resp = Ok ([99; 98; 97], wrap (RJson [123;125])) /\
  ret true ex_resp = Ok ([99; 98; 97], wrap (RRaw 200 [123;125])) /\
  ret false {| r_code := 204; r_body := []; r_json := None |} = Ok ([99; 98; 97], wrap (RText [])) /\
  ret true {| r_code := 204; r_body := []; r_json := None |} = Ok ([99; 98; 97], wrap (RRaw 204 [])) /\
  ret true {| r_code := 404; r_body := [123;125]; r_json := Some [123;125] |} = Err OtherErr /\
  ret false {| r_code := 200; r_body := [104;105]; r_json := None |} = Err ValueErr /\
  ret true {| r_code := 200; r_body := [104;105]; r_json := None |} = Ok ([99; 98; 97], wrap (RRaw 200 [104;105])) /\
  ret false {| r_code := 200; r_body := [255]; r_json := None |} = Err ValueErr.
Proof. split; [exists ex_rprog; split; [repeat constructor|reflexivity]|vm_compute; repeat split]. Qed.
Print Assumptions response_example.
