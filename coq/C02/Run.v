(* C02/Run.v -- correspondence entry point.  A case is a user grammar (ONE productions
   dict), a list of token strings and a PROGRAM over two parser objects (the dict built
   with smart_factorization False / True): constructor calls, is_ambiguous() calls and
   parse() calls in any order, any number of times (C02/Session.v).  Printed: the
   observation of every operation of the program; per smart value the validators
   [wf_grammar] and [hyps_ok] the C02 theorems assume; and (thorough tier only) the internal
   sets and the table of the objects AS THE PROGRAM LEAVES THEM. *)
From Coq Require Import ZArith List Bool.
From AK Require Export LLP.Build C02.Model C02.Session.
From AK Require C01.Run.      (* hyps_ok: C01's validator of the factorization, hypothesis of ll1_reject *)
Import ListNotations.

Inductive case :=
| Session2 (ug : list (sym * list (list sym))) (terminals : list sym) (start : sym)
           (fuel : nat) (inputs : list (list (sym * list Z))) (ops : list op) (diag : bool).

Definition sx_keyed_sets (keys : list sym) (m : setmap) : sx :=
  sx_list (fun k => SL [sx_str k; sx_list sx_str (sort_syms (sm_get m k))]) (sort_syms keys).

Definition sx_diag (p : parser) : sx :=
  let T := p_tables p in
  SL [sx_list sx_str (sort_syms (t_nulls T));
      sx_keyed_sets (gkeys (t_grammar T)) (t_first T);
      sx_keyed_sets (gkeys (t_grammar T)) (t_follow T);
      sx_list (fun c => SL [sx_str (fst (fst c)); sx_str (snd (fst c)); sx_list SZ (snd c)]) (diag_table T)].

Definition sx_diag_obj (o : option parser) : sx :=
  match o with Some p => sx_diag p | None => SL [] end.

(* the hypotheses of the theorems, evaluated on what the constructor returns *)
Definition run_validators (ug : list (sym * list (list sym))) (terminals : list sym) (start : sym)
           (smart : bool) : sx :=
  match build ug terminals smart start with
  | Err e => SL [SZ 1; SZ (err_code e)]
  | Ok p =>
      SL [SZ 0; sx_bool (wf_grammar (p_grammar p) (p_terminals p) (p_start p));
          sx_bool (C01.Run.hyps_ok ug start p)]
  end.

Definition run (c : case) : sx :=
  match c with
  | Session2 ug terminals start fuel inputs ops diag =>
      let '(bs, Wf) := session_w ug terminals start fuel inputs no_objects ops in
      SL [SL (map sx_obs bs);
          run_validators ug terminals start false;
          run_validators ug terminals start true;
          if diag then SL [sx_diag_obj (w_plain Wf); sx_diag_obj (w_smart Wf)] else SL []]
  end.
