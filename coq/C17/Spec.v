(* C17/Spec.v -- what the pure specification of a request (Lemmas.spec_of)
   says: order of path prefixes, every adapter once, response order, the
   Authorization header, url, method, body. *)
From Coq Require Import ZArith List Bool Lia.
From AK Require Import Common.Sx Common.Err gen.C17_Consts C17.Codec C17.Model C17.Base C17.Lemmas.
Import ListNotations.
Open Scope Z_scope.

Definition prefixes (ads : list adapter) : list str :=
  flat_map (fun a => match a with APrefix p => [p] | _ => [] end) ads.
Definition tags (ads : list adapter) : list Z := flat_map tag_of ads.
Definition is_auth (a : adapter) : bool := match auth_value a with Some _ => true | None => false end.

(* ---- one adapter ---- *)

Lemma auth_value_keys a ak sk v : auth_value a = Some (ak, sk, v) -> ak = auth_key /\ sk = auth_key.
Proof.
  destruct auth_keys_agree as (E1 & E2 & E3 & E4 & E5 & _).
  destruct a; cbn [auth_value]; try discriminate; intros [= <- <- _]; unfold auth_key in *; auto.
Qed.

Lemma adapter_pre_cases a path d p1 d1 : adapter_pre a (path, d) = Ok (p1, d1) ->
  match a with
  | APrefix p => p1 = join_prefix p path /\ d1 = d
  | ATag k => p1 = path /\
      ((dict_get x_tag d = None /\ d1 = dict_set x_tag (HStr [k]) d) \/
       (exists s, dict_get x_tag d = Some (HStr s) /\ d1 = dict_set x_tag (HStr (s ++ [k])) d))
  | _ => p1 = path /\ exists ak sk v, auth_value a = Some (ak, sk, v) /\ dict_mem auth_key d = false /\ d1 = dict_set auth_key v d
  end.
Proof.
  destruct a as [p|l p|n i s|t|k]; cbn [adapter_pre].
  - intros [= <- <-]. auto.
  - destruct (auth_value (ABasic l p)) as [[[ak sk] v]|] eqn:E; [|discriminate].
    destruct (auth_value_keys _ _ _ _ E) as [-> ->].
    destruct (dict_mem auth_key d) eqn:M; [discriminate|]. intros [= <- <-]. split; [reflexivity|]. eauto 8.
  - destruct (auth_value (AClient n i s)) as [[[ak sk] v]|] eqn:E; [|discriminate].
    destruct (auth_value_keys _ _ _ _ E) as [-> ->].
    destruct (dict_mem auth_key d) eqn:M; [discriminate|]. intros [= <- <-]. split; [reflexivity|]. eauto 8.
  - destruct (auth_value (AToken t)) as [[[ak sk] v]|] eqn:E; [|discriminate].
    destruct (auth_value_keys _ _ _ _ E) as [-> ->].
    destruct (dict_mem auth_key d) eqn:M; [discriminate|]. intros [= <- <-]. split; [reflexivity|]. eauto 8.
  - destruct (dict_get x_tag d) as [[s|b|]|] eqn:E; try discriminate; intros [= <- <-]; split; auto.
    right. eauto.
Qed.

(* ---- path prefixes: own prefixes first, so the prefixes of inner (parent) connections end up outermost ---- *)

Lemma adapters_pre_path ads : forall path d p' d',
  adapters_pre ads (path, d) = Ok (p', d') ->
  p' = fold_left (fun s p => join_prefix p s) (prefixes ads) path.
Proof.
  induction ads as [|a ads IH]; intros path d p' d'; cbn [adapters_pre prefixes flat_map fold_left].
  - intros [= <- <-]. reflexivity.
  - destruct (adapter_pre a (path, d)) as [[p1 d1]|e] eqn:E; cbn [bind]; [|discriminate].
    intros H. apply IH in H. fold (prefixes ads) in *. rewrite fold_left_app.
    apply adapter_pre_cases in E. destruct a; cbn [fold_left]; destruct E as [-> _]; exact H.
Qed.

Lemma join_prefix_cases p s :
  join_prefix p s = p ++ s \/
  (join_prefix p s = p ++ tl s /\ starts_with slash s = true /\ ends_with slash p = true).
Proof.
  unfold join_prefix. destruct (nonempty s && starts_with slash s && ends_with slash p) eqn:E; [|left; reflexivity].
  right. apply andb_prop in E as [E1 E3]. apply andb_prop in E1 as [E1 E2]. auto.
Qed.

(* ---- every tag adapter of the list leaves its mark exactly once, in list order ---- *)

Definition tag_val (d : dict) : res str :=
  match dict_get x_tag d with
  | None => Ok []
  | Some (HStr s) => Ok s
  | Some _ => Err TypeErr
  end.

Lemma x_tag_not_auth : auth_key <> x_tag.
Proof. vm_compute. discriminate. Qed.

Lemma adapters_pre_tags ads : forall path d p' d' s0,
  adapters_pre ads (path, d) = Ok (p', d') -> tag_val d = Ok s0 ->
  tag_val d' = Ok (s0 ++ tags ads).
Proof.
  induction ads as [|a ads IH]; intros path d p' d' s0; cbn [adapters_pre tags flat_map].
  - intros [= <- <-] H. rewrite app_nil_r. exact H.
  - destruct (adapter_pre a (path, d)) as [[p1 d1]|e] eqn:E; cbn [bind]; [|discriminate].
    intros H T. fold (tags ads). rewrite app_assoc. eapply IH; [exact H|].
    apply adapter_pre_cases in E. unfold tag_val in *.
    destruct a as [p|l p|n i s|t|k]; cbn [tag_of]; rewrite ?app_nil_r.
    + destruct E as [_ ->]. exact T.
    + destruct E as [_ (ak & sk & v & _ & _ & ->)]. rewrite dict_get_set_other by apply x_tag_not_auth. exact T.
    + destruct E as [_ (ak & sk & v & _ & _ & ->)]. rewrite dict_get_set_other by apply x_tag_not_auth. exact T.
    + destruct E as [_ (ak & sk & v & _ & _ & ->)]. rewrite dict_get_set_other by apply x_tag_not_auth. exact T.
    + destruct E as [_ [[E ->]|(s & E & ->)]]; rewrite E in T; injection T as <-; rewrite dict_get_set_same; reflexivity.
Qed.

(* response processors run over the reversed list *)
Lemma tags_rev ads : flat_map tag_of (rev ads) = rev (tags ads).
Proof.
  unfold tags. induction ads as [|a ads IH]; cbn [rev flat_map]; [reflexivity|].
  rewrite flat_map_app, IH. cbn [flat_map]. rewrite app_nil_r.
  destruct a; cbn [tag_of app]; rewrite ?app_nil_r; reflexivity.
Qed.

Lemma assemble_resp addr sids ads p meth params data d :
  q_resp (snd (assemble addr sids ads p meth params data d)) = rev (tags ads).
Proof.
  unfold assemble. rewrite resp_reversed_true.
  destruct data as [[b|s|js t]|]; cbn [snd q_resp]; apply tags_rev.
Qed.

(* ---- url, method, body ---- *)

Definition query (params : option (list (str * str))) : str :=
  match params with
  | Some p => if nonempty p then [63] ++ urlencode p else []
  | None => []
  end.

Lemma assemble_url addr sids ads p meth params data d :
  q_url (snd (assemble addr sids ads p meth params data d)) =
  addr ++ (if negb (ends_with slash addr) && negb (starts_with slash (p ++ query params)) then [slash] else [])
       ++ p ++ query params.
Proof.
  unfold assemble, query.
  destruct data as [[b|s|js t]|]; cbn [snd q_url];
    (destruct params as [pp|]; [destruct (nonempty pp)|]; rewrite ?app_nil_r;
     match goal with |- context [if ?c then _ :: _ else _] => destruct c end; reflexivity).
Qed.

Definition default_method (data : option body) : str :=
  if body_truthy data then meth_with_data else meth_without_data.

Lemma assemble_method addr sids ads p meth params data d :
  q_method (snd (assemble addr sids ads p meth params data d)) =
  match meth with
  | Some m => if nonempty m then upper m else default_method data
  | None => default_method data
  end.
Proof. unfold assemble, default_method. destruct data as [[b|s|js t]|]; cbn [snd q_method]; reflexivity. Qed.

Lemma assemble_body addr sids ads p meth params data d :
  q_data (snd (assemble addr sids ads p meth params data d)) =
  match data with
  | None => None
  | Some (BBytes b) => Some b
  | Some (BStr s) => Some (utf8 s)
  | Some (BJson js _) => Some (utf8 js)
  end.
Proof. unfold assemble. destruct data as [[b|s|js t]|]; cbn [snd q_data]; reflexivity. Qed.

(* the dict handed to urllib.request.Request *)
Definition final_dict (sids : bool) (data : option body) (d : dict) : dict :=
  let d1 := if sids then (if has_reqid d then d else dict_set reqid_set_key HGenId d) else d in
  match data with
  | Some (BJson _ _) => if dict_mem ctype_test_key d1 then d1 else dict_set ctype_set_key (HStr ctype_val) d1
  | _ => d1
  end.

Lemma assemble_headers addr sids ads p meth params data d :
  q_headers (snd (assemble addr sids ads p meth params data d)) = request_headers (final_dict sids data d).
Proof. unfold assemble, final_dict. destruct data as [[b|s|js t]|]; cbn [snd q_headers]; reflexivity. Qed.

(* ---- urllib's Request.headers: the LAST entry whose capitalized key is K wins ---- *)

Fixpoint last_cap (K : str) (d : dict) : option hval :=
  match d with
  | [] => None
  | (k, v) :: r =>
      match last_cap K r with
      | Some x => Some x
      | None => if str_eqb (capitalize k) K then Some v else None
      end
  end.

Lemma fold_headers_get K d : forall acc,
  dict_get K (fold_left (fun acc kv => dict_set (capitalize (fst kv)) (snd kv) acc) d acc) =
  match last_cap K d with Some x => Some x | None => dict_get K acc end.
Proof.
  induction d as [|[k v] d IH]; intros acc; cbn [fold_left last_cap fst snd]; [reflexivity|].
  rewrite IH. destruct (last_cap K d); [reflexivity|].
  destruct (str_eqb_spec (capitalize k) K) as [<-|N].
  - apply dict_get_set_same.
  - apply dict_get_set_other. exact N.
Qed.

Lemma request_headers_get K d : dict_get K (request_headers d) = last_cap K d.
Proof. unfold request_headers. rewrite fold_headers_get. destruct (last_cap K d); reflexivity. Qed.

Lemma request_headers_nodup d : NoDup (map fst (request_headers d)).
Proof.
  unfold request_headers.
  assert (G : forall acc, NoDup (map fst acc) ->
     NoDup (map fst (fold_left (fun acc kv => dict_set (capitalize (fst kv)) (snd kv) acc) d acc))).
  { induction d as [|kv d IH]; intros acc H; cbn [fold_left]; [exact H|]. apply IH. apply dict_set_nodup. exact H. }
  apply G. constructor.
Qed.

Lemma last_cap_app K d1 d2 :
  last_cap K (d1 ++ d2) = match last_cap K d2 with Some x => Some x | None => last_cap K d1 end.
Proof.
  induction d1 as [|[k v] d1 IH]; cbn [app last_cap]; [destruct (last_cap K d2); reflexivity|].
  rewrite IH. destruct (last_cap K d2); reflexivity.
Qed.

Lemma last_cap_set_other K k v d : capitalize k <> K -> last_cap K (dict_set k v d) = last_cap K d.
Proof.
  intros N. induction d as [|[k' v'] d IH]; cbn [dict_set last_cap].
  - rewrite (str_eqb_neq _ _ N). reflexivity.
  - destruct (str_eqb_spec k' k) as [->|N']; cbn [last_cap].
    + rewrite (str_eqb_neq _ _ N). reflexivity.
    + rewrite IH. reflexivity.
Qed.

Lemma last_cap_set_new K k v d : dict_mem k d = false -> capitalize k = K -> last_cap K (dict_set k v d) = Some v.
Proof.
  intros M E. rewrite dict_set_notin by exact M. rewrite last_cap_app. cbn [last_cap]. rewrite E, str_eqb_refl. reflexivity.
Qed.

Lemma dict_mem_set_other k k' v d : k' <> k -> dict_mem k (dict_set k' v d) = dict_mem k d.
Proof. intros N. rewrite !dict_mem_get, dict_get_set_other by exact N. reflexivity. Qed.

(* ---- Authorization ---- *)

Lemma cap_auth : capitalize auth_key = auth_key.
Proof. apply auth_keys_agree. Qed.

(* adapters without authentication neither look at nor produce the Authorization key *)
Lemma adapters_pre_noauth ads : forall path d p' d',
  Forall (fun a => is_auth a = false) ads ->
  adapters_pre ads (path, d) = Ok (p', d') ->
  dict_mem auth_key d' = dict_mem auth_key d /\ last_cap auth_key d' = last_cap auth_key d.
Proof.
  induction ads as [|a ads IH]; intros path d p' d' F; cbn [adapters_pre].
  - intros [= <- <-]. auto.
  - inversion F as [|a' ads' Fa Fads]; subst.
    destruct (adapter_pre a (path, d)) as [[p1 d1]|e] eqn:E; cbn [bind]; [|discriminate].
    intros H. destruct (IH _ _ _ _ Fads H) as [M L]. rewrite M, L. clear M L H IH.
    apply adapter_pre_cases in E. destruct other_keys_distinct as (Nx & _ & _).
    assert (Nx' : x_tag <> auth_key). { intros X. apply x_tag_not_auth. auto. }
    destruct a as [p|l p|n i s|t|k]; try (unfold is_auth in Fa; cbn in Fa; discriminate).
    + destruct E as [_ ->]. auto.
    + destruct E as [_ [[_ ->]|(s & _ & ->)]];
        (split; [apply dict_mem_set_other; exact Nx'|apply last_cap_set_other; exact Nx]).
Qed.

Lemma final_dict_auth sids data d : last_cap auth_key (final_dict sids data d) = last_cap auth_key d.
Proof.
  destruct other_keys_distinct as (_ & Nr & Nc). unfold final_dict.
  assert (E1 : last_cap auth_key (if sids then if has_reqid d then d else dict_set reqid_set_key HGenId d else d)
               = last_cap auth_key d).
  { destruct sids; [|reflexivity]. destruct (has_reqid d); [reflexivity|]. apply last_cap_set_other. exact Nr. }
  destruct data as [[b|s|js t]|]; try exact E1.
  match goal with |- context [if ?c then _ else _] => destruct c end; [exact E1|].
  rewrite last_cap_set_other by exact Nc. exact E1.
Qed.

(* A chain with exactly one authenticating adapter [a] (anywhere in it), and a
   caller who did not pass the Authorization key himself: the Request carries
   the value computed from a's credentials under 'Authorization', and -- keys of
   Request.headers being distinct -- only once. *)
Lemma one_auth_l ads1 a ads2 ak sk v addr sids path meth params data d0 p d :
  auth_value a = Some (ak, sk, v) ->
  Forall (fun x => is_auth x = false) ads1 -> Forall (fun x => is_auth x = false) ads2 ->
  dict_mem auth_key d0 = false ->
  adapters_pre (ads1 ++ a :: ads2) (path, d0) = Ok (p, d) ->
  let cap := snd (assemble addr sids (ads1 ++ a :: ads2) p meth params data d) in
  dict_get auth_key (q_headers cap) = Some v /\ NoDup (map fst (q_headers cap)).
Proof.
  intros Ea F1 F2 M0 H cap. unfold cap. rewrite assemble_headers. split; [|apply request_headers_nodup].
  rewrite request_headers_get, final_dict_auth.
  rewrite adapters_pre_app in H.
  destruct (adapters_pre ads1 (path, d0)) as [[p1 d1]|e] eqn:E1; cbn [bind] in H; [|discriminate].
  destruct (adapters_pre_noauth _ _ _ _ _ F1 E1) as [M1 _].
  cbn [adapters_pre] in H.
  destruct (adapter_pre a (p1, d1)) as [[p2 d2]|e] eqn:E2; cbn [bind] in H; [|discriminate].
  destruct (adapters_pre_noauth _ _ _ _ _ F2 H) as [_ L]. rewrite L.
  apply adapter_pre_cases in E2.
  destruct a as [pp|l pw|n i s|t|k]; cbn [auth_value] in Ea; try discriminate;
    destruct E2 as [_ (ak' & sk' & v' & Ea' & Md & ->)]; cbn [auth_value] in Ea';
    (assert (v' = v) as -> by congruence); apply last_cap_set_new; auto using cap_auth.
Qed.

(* two authenticating layers are refused (AssertionError), never sent with two credentials *)
Lemma two_auth_l ads1 a ads2 b ads3 path d0 :
  is_auth a = true -> is_auth b = true ->
  Forall (fun x => is_auth x = false) ads2 ->
  (exists e, adapters_pre ads1 (path, d0) = Err e) \/
  (exists e, bind (adapters_pre ads1 (path, d0)) (adapter_pre a) = Err e) \/
  (exists e, bind (bind (adapters_pre ads1 (path, d0)) (adapter_pre a)) (adapters_pre ads2) = Err e) \/
  adapters_pre (ads1 ++ a :: ads2 ++ b :: ads3) (path, d0) = Err AssertErr.
Proof.
  intros Ia Ib F2. rewrite adapters_pre_app. cbn [adapters_pre].
  destruct (adapters_pre ads1 (path, d0)) as [[p1 d1]|e] eqn:E1; cbn [bind]; [|left; eauto].
  destruct (adapter_pre a (p1, d1)) as [[p2 d2]|e] eqn:E2; cbn [bind]; [|right; left; eauto].
  rewrite adapters_pre_app. cbn [adapters_pre].
  destruct (adapters_pre ads2 (p2, d2)) as [[p3 d3]|e] eqn:E3; cbn [bind]; [|right; right; left; eauto].
  right. right. right.
  destruct (adapters_pre_noauth _ _ _ _ _ F2 E3) as [M _].
  apply adapter_pre_cases in E2.
  assert (M2 : dict_mem auth_key d2 = true).
  { destruct a as [pp|l pw|n i s|t|k]; try (unfold is_auth in Ia; cbn in Ia; discriminate);
      destruct E2 as [_ (ak' & sk' & v' & _ & _ & ->)]; rewrite dict_mem_get, dict_get_set_same; reflexivity. }
  rewrite M2 in M.
  destruct auth_keys_agree as (K1 & K2 & _ & K4 & _).
  destruct b as [pp|l pw|n i s|t|k]; try (unfold is_auth in Ib; cbn in Ib; discriminate);
    cbn [adapter_pre auth_value]; rewrite ?K1, ?K2, ?K4, M; reflexivity.
Qed.

(* ---- reading the specification backwards ---- *)

Lemma spec_of_inv h addr sids ads q cap v : spec_of h addr sids ads q = Ok (cap, v) ->
  exists d0 p d params data,
    init_dict h (a_headers q) = Ok d0 /\ adapters_pre ads (a_path q, d0) = Ok (p, d) /\
    read_params h (a_params q) = Ok params /\ read_body h (a_data q) = Ok data /\
    cap = snd (assemble addr sids ads p (a_meth q) params data d) /\
    respond ads (a_raw q) (a_resp q) = Ok v.
Proof.
  unfold spec_of. destruct (init_dict h (a_headers q)) as [d0|] eqn:E0; [|discriminate].
  destruct (adapters_pre ads (a_path q, d0)) as [[p d]|] eqn:E1; [|discriminate].
  destruct (read_params h (a_params q)) as [params|] eqn:E2; [|discriminate].
  destruct (read_body h (a_data q)) as [data|] eqn:E3; [|discriminate].
  destruct (respond ads (a_raw q) (a_resp q)) as [v'|] eqn:E4; cbn [bind]; [|discriminate].
  intros [= <- <-]. exists d0, p, d, params, data. auto 6.
Qed.

(* ---- clone ---- *)

Lemma clone_l st i m ad l : wf_state st ->
  nth_error (callers st) i = Some m -> adarg_list st ad = Ok l ->
  exists c,
    step st (OClone i ad) =
      ({| heap_of := heap_of st ++ [CAdapters (l ++ flat_own (m_conn m))]; cobjs := cobjs st;
          conns := conns st ++ [c];
          callers := callers st ++ [{| m_map := m_map m; m_conn := c; m_cache := [] |}] |}, Ok OUnit) /\
    flat_own c = l ++ flat_own (m_conn m) /\ conn_root c = conn_root (m_conn m).
Proof.
  intros W Em El. cbn [step]. rewrite Em.
  assert (Ec : clone_adapters st ad = Ok l).
  { unfold clone_adapters. rewrite clone_wraps_nonlist_true. destruct ad; exact El. }
  rewrite Ec. cbn [bind].
  assert (Wm : wf_conn (heap_of st) (m_conn m)).
  { destruct W as (_ & B & _). rewrite Forall_forall in B. apply (B m). eapply nth_error_In; eauto. }
  destruct (mk_wrap_ok _ true l (m_conn m) Wm) as [E1 _]. rewrite E1.
  eexists. split; [reflexivity|]. split; reflexivity.
Qed.

(* ---- the Authorization value decodes to the configured credentials ---- *)
From AK Require Import C17.CodecProofs.

Lemma skipn_len_app {A} (a b : list A) : skipn (length a) (a ++ b) = b.
Proof. induction a as [|x a IH]; cbn [length app skipn]; [reflexivity|exact IH]. Qed.

Lemma seps_text : is_text basic_sep /\ is_text client_sep.
Proof. split; unfold is_text, basic_sep, client_sep; repeat constructor; lia. Qed.

Lemma is_text_app a b : is_text a -> is_text b -> is_text (a ++ b).
Proof. intros Ha Hb. apply Forall_app. split; assumption. Qed.

Definition decode_basic (prefix : list Z) (v : hval) : option str :=
  match v with
  | HBytes b => utf8_decode (b64_dec (skipn (length prefix) b))
  | _ => None
  end.

Lemma auth_decodes_l :
  (forall l p ak sk v, is_text l -> is_text p -> auth_value (ABasic l p) = Some (ak, sk, v) ->
     decode_basic basic_prefix v = Some (l ++ basic_sep ++ p)) /\
  (forall n i s ak sk v, is_text i -> is_text s -> auth_value (AClient n i s) = Some (ak, sk, v) ->
     decode_basic client_prefix v = Some (i ++ client_sep ++ s)) /\
  (forall t ak sk v, auth_value (AToken t) = Some (ak, sk, v) -> v = HStr (token_prefix ++ t)).
Proof.
  destruct seps_text as [T1 T2]. split; [|split].
  - intros l p ak sk v Hl Hp E. cbn [auth_value] in E.
    assert (v = HBytes (basic_prefix ++ b64 (utf8 (l ++ basic_sep ++ p)))) as -> by congruence.
    unfold decode_basic. rewrite skipn_len_app.
    apply credentials_roundtrip. auto using is_text_app.
  - intros n i s ak sk v Hi Hs E. cbn [auth_value] in E.
    assert (v = HBytes (client_prefix ++ b64 (utf8 (i ++ client_sep ++ s)))) as -> by congruence.
    unfold decode_basic. rewrite skipn_len_app.
    apply credentials_roundtrip. auto using is_text_app.
  - intros t ak sk v E. cbn [auth_value] in E. congruence.
Qed.

(* ---- no authenticating layer, no Authorization key (in any spelling) from the caller: no such header ---- *)

Lemma no_auth_l ads addr sids path meth params data d0 p d :
  Forall (fun x => is_auth x = false) ads ->
  last_cap auth_key d0 = None ->
  adapters_pre ads (path, d0) = Ok (p, d) ->
  dict_get auth_key (q_headers (snd (assemble addr sids ads p meth params data d))) = None.
Proof.
  intros F L H. rewrite assemble_headers, request_headers_get, final_dict_auth.
  destruct (adapters_pre_noauth _ _ _ _ _ F H) as [_ E]. rewrite E. exact L.
Qed.

(* ---- a body is never dropped: whatever is not None is sent, also b'' / '' / {} / [] / 0 / False ---- *)

Lemma body_kept_l addr sids ads p meth params b d :
  exists bytes, q_data (snd (assemble addr sids ads p meth params (Some b) d)) = Some bytes /\
    bytes = match b with BBytes x => x | BStr s => utf8 s | BJson js _ => utf8 js end.
Proof. rewrite assemble_body. destruct b; eauto. Qed.

Lemma ctype_not_reqid : reqid_set_key <> ctype_test_key /\ capitalize reqid_set_key <> capitalize ctype_set_key.
Proof. vm_compute. split; discriminate. Qed.

(* a structured body -- truthy or not -- is sent as utf-8 of json.dumps and, unless the key Content-Type is
   already there, labelled application/json *)
Lemma json_body_l addr sids ads p meth params js t d :
  dict_mem ctype_test_key d = false ->
  let cap := snd (assemble addr sids ads p meth params (Some (BJson js t)) d) in
  q_data cap = Some (utf8 js) /\
  dict_get (capitalize ctype_set_key) (q_headers cap) = Some (HStr ctype_val).
Proof.
  intros M cap. unfold cap. split; [rewrite assemble_body; reflexivity|].
  rewrite assemble_headers, request_headers_get. unfold final_dict.
  destruct ctype_not_reqid as [N1 _].
  set (d1 := if sids then if has_reqid d then d else dict_set reqid_set_key HGenId d else d).
  assert (M1 : dict_mem ctype_test_key d1 = false).
  { unfold d1. destruct sids; [|exact M]. destruct (has_reqid d); [exact M|].
    rewrite dict_mem_set_other; [exact M|exact N1]. }
  rewrite M1. apply last_cap_set_new; [|reflexivity]. rewrite <- ctype_keys_agree. exact M1.
Qed.

(* ---- end to end: a successful request through a connection of a reachable state ---- *)

(* success through a chain with an authenticating adapter implies that the caller did not pass the key himself *)
Lemma one_auth_pre ads1 a ads2 ak sk v path d0 p d :
  auth_value a = Some (ak, sk, v) -> Forall (fun x => is_auth x = false) ads1 ->
  adapters_pre (ads1 ++ a :: ads2) (path, d0) = Ok (p, d) -> dict_mem auth_key d0 = false.
Proof.
  intros Ea F1 H. rewrite adapters_pre_app in H.
  destruct (adapters_pre ads1 (path, d0)) as [[p1 d1]|e] eqn:E1; cbn [bind] in H; [|discriminate].
  destruct (adapters_pre_noauth _ _ _ _ _ F1 E1) as [M1 _]. rewrite <- M1.
  cbn [adapters_pre] in H.
  destruct (adapter_pre a (p1, d1)) as [[p2 d2]|e] eqn:E2; cbn [bind] in H; [|discriminate].
  apply adapter_pre_cases in E2.
  destruct a; cbn [auth_value] in Ea; try discriminate; destruct E2 as [_ (ak' & sk' & v' & _ & Md & _)]; exact Md.
Qed.

Lemma request_inv st i c q ra cap v : wf_state st ->
  nth_error (conns st) i = Some c -> resolve st q = Ok ra ->
  snd (step st (ORequest i q)) = Ok (OReq cap v) ->
  exists d0 p d params data,
    init_dict (heap_of st) (a_headers ra) = Ok d0 /\ adapters_pre (flat_own c) (a_path ra, d0) = Ok (p, d) /\
    read_params (heap_of st) (a_params ra) = Ok params /\ read_body (heap_of st) (a_data ra) = Ok data /\
    cap = snd (assemble (fst (conn_root c)) (snd (conn_root c)) (flat_own c) p (a_meth ra) params data d) /\
    respond (flat_own c) (a_raw ra) (a_resp ra) = Ok v.
Proof.
  intros W Ec Er H. rewrite (request_obs _ _ _ _ _ W Ec Er) in H.
  destruct (spec_of (heap_of st) (fst (conn_root c)) (snd (conn_root c)) (flat_own c) ra) as [[cap' v']|e] eqn:E;
    cbn [omap] in H; [|discriminate].
  injection H as <- <-. apply spec_of_inv. exact E.
Qed.

Lemma request_one_auth_l st i c q ra cap rv ads1 a ads2 ak sk v : wf_state st ->
  nth_error (conns st) i = Some c -> resolve st q = Ok ra ->
  flat_own c = ads1 ++ a :: ads2 -> auth_value a = Some (ak, sk, v) ->
  Forall (fun x => is_auth x = false) ads1 -> Forall (fun x => is_auth x = false) ads2 ->
  snd (step st (ORequest i q)) = Ok (OReq cap rv) ->
  dict_get auth_key (q_headers cap) = Some v /\ NoDup (map fst (q_headers cap)).
Proof.
  intros W Ec Er Ef Ea F1 F2 H.
  destruct (request_inv _ _ _ _ _ _ _ W Ec Er H) as (d0 & p & d & params & data & _ & Hp & _ & _ & -> & _).
  rewrite Ef in Hp |- *.
  exact (one_auth_l ads1 a ads2 ak sk v _ _ (a_path ra) _ _ _ d0 p d Ea F1 F2
           (one_auth_pre _ _ _ _ _ _ _ _ _ _ Ea F1 Hp) Hp).
Qed.

Lemma request_shape_l st i c q ra cap rv : wf_state st ->
  nth_error (conns st) i = Some c -> resolve st q = Ok ra ->
  snd (step st (ORequest i q)) = Ok (OReq cap rv) ->
  exists params data,
    read_params (heap_of st) (a_params ra) = Ok params /\ read_body (heap_of st) (a_data ra) = Ok data /\
    let p := fold_left (fun s pre => join_prefix pre s) (prefixes (flat_own c)) (a_path ra) in
    let addr := fst (conn_root c) in
    q_url cap = addr ++ (if negb (ends_with slash addr) && negb (starts_with slash (p ++ query params)) then [slash] else [])
                     ++ p ++ query params /\
    q_data cap = match data with
                 | None => None
                 | Some (BBytes b) => Some b
                 | Some (BStr s) => Some (utf8 s)
                 | Some (BJson js _) => Some (utf8 js)
                 end /\
    q_method cap = match a_meth ra with
                   | Some m => if nonempty m then upper m else default_method data
                   | None => default_method data
                   end /\
    q_resp cap = rev (tags (flat_own c)).
Proof.
  intros W Ec Er H.
  destruct (request_inv _ _ _ _ _ _ _ W Ec Er H) as (d0 & p & d & params & data & _ & Hp & Hpa & Hb & -> & _).
  exists params, data. split; [exact Hpa|]. split; [exact Hb|]. cbn zeta.
  rewrite <- (adapters_pre_path _ _ _ _ _ Hp).
  split; [apply assemble_url|]. split; [apply assemble_body|]. split; [apply assemble_method|apply assemble_resp].
Qed.

(* ---- the response path: every processor of the list once, over the reversed list, raw or decoded ---- *)

(* the marks the harness's tag adapters leave around a returned value, outermost first; the value inside *)
Fixpoint marks (v : rval) : list Z := match v with RMark k v' => k :: marks v' | _ => [] end.
Fixpoint unmarked (v : rval) : rval := match v with RMark _ v' => unmarked v' | _ => v end.

(* processors of the list applied so that the FIRST adapter's is the outermost (= the last to run) *)
Definition post_chain (ads : list adapter) (b : rval) : rval := fold_right adapter_post b ads.

Lemma post_loop_rev ads b : post_loop ads b = fold_left (fun v a => adapter_post a v) (rev ads) b.
Proof. unfold post_loop. rewrite resp_reversed_true. reflexivity. Qed.

Lemma post_loop_chain ads b : post_loop ads b = post_chain ads b.
Proof.
  rewrite post_loop_rev. unfold post_chain.
  rewrite <- (rev_involutive ads) at 2. rewrite fold_left_rev_right. reflexivity.
Qed.

Lemma post_chain_app l1 l2 b : post_chain (l1 ++ l2) b = post_chain l1 (post_chain l2 b).
Proof. unfold post_chain. apply fold_right_app. Qed.

Lemma marks_post_chain ads b : marks (post_chain ads b) = tags ads ++ marks b.
Proof.
  unfold post_chain, tags. induction ads as [|a ads IH]; cbn [fold_right flat_map app]; [reflexivity|].
  destruct a; cbn [adapter_post tag_of app marks]; rewrite IH; reflexivity.
Qed.

Lemma unmarked_post_chain ads b : unmarked (post_chain ads b) = unmarked b.
Proof.
  unfold post_chain. induction ads as [|a ads IH]; cbn [fold_right]; [reflexivity|].
  destruct a; cbn [adapter_post unmarked]; exact IH.
Qed.

(* what the code hands to the first processor: never something a processor made *)
Definition is_base (v : rval) : Prop := match v with RMark _ _ => False | _ => True end.

Lemma is_base_marks v : is_base v -> marks v = [] /\ unmarked v = v.
Proof. destruct v; cbn [is_base marks unmarked]; tauto. Qed.

Lemma response_base_cases raw resp b : response_base raw resp = Ok b ->
  is_base b /\
  (if raw then b = RRaw (r_code resp) (r_body resp)
   else (decode_utf8 (r_body resp) = Some [] /\ b = RText []) \/
        (exists c s js, decode_utf8 (r_body resp) = Some (c :: s) /\ r_json resp = Some js /\ b = RJson js)).
Proof.
  unfold response_base. destruct raw.
  - intros [= <-]. split; [exact I|reflexivity].
  - destruct (decode_utf8 (r_body resp)) as [[|c s]|]; try discriminate.
    + intros [= <-]. split; [exact I|]. left. auto.
    + destruct (r_json resp) as [js|]; [|discriminate]. intros [= <-]. split; [exact I|]. right. eauto 6.
Qed.

Lemma respond_spec ads raw resp :
  respond ads raw resp =
  if 400 <=? r_code resp then Err OtherErr
  else bind (response_base raw resp) (fun b => Ok (post_chain ads b)).
Proof.
  unfold respond, opener_open. destruct (400 <=? r_code resp); cbn [bind]; [reflexivity|].
  destruct (response_base raw resp) as [b|e]; cbn [bind]; [|reflexivity]. rewrite post_loop_chain. reflexivity.
Qed.

Lemma respond_chain_l ads raw resp v : respond ads raw resp = Ok v ->
  exists b, r_code resp < 400 /\ response_base raw resp = Ok b /\ is_base b /\
    v = fold_left (fun v a => adapter_post a v) (rev ads) b /\
    v = post_chain ads b /\
    marks v = tags ads /\ unmarked v = b.
Proof.
  rewrite respond_spec. destruct (Z.leb_spec 400 (r_code resp)) as [G|L]; [discriminate|].
  destruct (response_base raw resp) as [b|e] eqn:E; cbn [bind]; [|discriminate]. intros [= <-].
  destruct (response_base_cases _ _ _ E) as [B _]. destruct (is_base_marks _ B) as [M U].
  exists b. split; [exact L|]. split; [reflexivity|]. split; [exact B|].
  split; [rewrite <- post_loop_rev; symmetry; apply post_loop_chain|]. split; [reflexivity|].
  split; [rewrite marks_post_chain, M, app_nil_r; reflexivity|rewrite unmarked_post_chain; exact U].
Qed.

Lemma http_error_l ads raw resp : 400 <= r_code resp -> respond ads raw resp = Err OtherErr.
Proof. intros G. rewrite respond_spec. destruct (Z.leb_spec 400 (r_code resp)); [reflexivity|lia]. Qed.

Lemma response_processed_l st i c q ra cap v : wf_state st ->
  nth_error (conns st) i = Some c -> resolve st q = Ok ra ->
  snd (step st (ORequest i q)) = Ok (OReq cap v) ->
  exists b, response_base (a_raw ra) (a_resp ra) = Ok b /\ is_base b /\
    v = fold_left (fun v a => adapter_post a v) (rev (flat_own c)) b /\
    v = post_chain (flat_own c) b /\
    marks v = tags (flat_own c) /\ unmarked v = b /\
    q_resp cap = rev (tags (flat_own c)).
Proof.
  intros W Ec Er H.
  destruct (request_inv _ _ _ _ _ _ _ W Ec Er H) as (d0 & p & d & params & data & _ & _ & _ & _ & -> & R).
  destruct (respond_chain_l _ _ _ _ R) as (b & _ & E & B & V1 & V2 & M & U).
  exists b. rewrite assemble_resp. auto 10.
Qed.

Lemma call_response_processed_l st i m comps q ra cap v : wf_state st ->
  nth_error (callers st) i = Some m -> resolve st q = Ok ra ->
  snd (step st (OCall i comps q)) = Ok (OReq cap v) ->
  exists pre b, comp_chain (m_map m) comps = Ok pre /\
    response_base (a_raw ra) (a_resp ra) = Ok b /\ is_base b /\
    v = post_chain (pre ++ flat_own (m_conn m)) b /\
    marks v = tags (flat_own (m_conn m)) /\ unmarked v = b.
Proof.
  intros W Em Er H. rewrite (call_obs _ _ _ _ _ _ W Em Er) in H.
  destruct (comp_chain (m_map m) comps) as [pre|e] eqn:Ecc; [|discriminate].
  destruct (spec_of _ _ _ _ ra) as [[cap' v']|e] eqn:E; cbn [omap] in H; [|discriminate].
  injection H as <- <-.
  apply spec_of_inv in E as (d0 & p & d & params & data & _ & _ & _ & _ & _ & R).
  destruct (respond_chain_l _ _ _ _ R) as (b & _ & Eb & B & _ & V2 & M & U).
  exists pre, b. split; [reflexivity|]. split; [exact Eb|]. split; [exact B|]. split; [exact V2|]. split; [|exact U].
  rewrite M. unfold tags. rewrite flat_map_app. fold (tags (flat_own (m_conn m))).
  assert (P : flat_map tag_of pre = []).
  { unfold comp_chain in Ecc. destruct comps as [cs|]; [|injection Ecc as <-; reflexivity].
    destruct (filter _ cs) as [|x [|y r]]; try discriminate.
    destruct (map_get x (m_map m)) as [pp|]; [|discriminate]. injection Ecc as <-.
    unfold prefix_ads. destruct (nonempty pp); reflexivity. }
  rewrite P. reflexivity.
Qed.
