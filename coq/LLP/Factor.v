(* LLP/Factor.v -- model of LLParser._create_productions (plain productions),
   _factorize_productions, _factorize_prods_list, _split_prods_rules,
   _factorize_common_prefix_prods.  No proofs in this file. *)
From Coq Require Import ZArith List Bool.
From AK Require Import Common.Err LLP.Base.
Import ListNotations.
Open Scope Z_scope.

(* ---- _create_productions / _make_prod_rules_list: global sort_n counter ---- *)
Fixpoint mk_rules (s : sym) (prods : list (list sym)) (n : Z) : list rule * Z :=
  match prods with
  | [] => ([], n)
  | p :: r => let '(rs, n') := mk_rules s r (n + 1) in (mkRule s p n :: rs, n')
  end.

Fixpoint create_productions (ug : list (sym * list (list sym))) (n : Z) : grammar :=
  match ug with
  | [] => []
  | (s, prods) :: r => let '(rs, n') := mk_rules s prods n in (s, rs) :: create_productions r n'
  end.

(* ---- _split_prods_rules: consecutive rules with the same first symbol ---- *)
Definition start_of (r : rule) : option sym := match rprod r with [] => None | x :: _ => Some x end.
Definition osym_eqb (a b : option sym) : bool :=
  match a, b with
  | None, None => true
  | Some x, Some y => sym_eqb x y
  | _, _ => false
  end.

Fixpoint split_chunks_aux (rules : list rule) (cur : list rule) (cur_start : option sym) : list (list rule) :=
  match rules with
  | [] => match cur with [] => [] | _ => [cur] end
  | r :: rest =>
      let s := start_of r in
      if osym_eqb s cur_start then split_chunks_aux rest (cur ++ [r]) s
      else match cur with
           | [] => split_chunks_aux rest [r] s
           | _ => cur :: split_chunks_aux rest [r] s
           end
  end.
Definition split_chunks (rules : list rule) : list (list rule) := split_chunks_aux rules [] None.

(* ---- longest common prefix ---- *)
Fixpoint lcp2 (a b : list sym) : list sym :=
  match a, b with
  | x :: a', y :: b' => if sym_eqb x y then x :: lcp2 a' b' else []
  | _, _ => []
  end.
Definition lcp (ps : list (list sym)) : list sym :=
  match ps with
  | [] => []
  | p :: r => fold_left lcp2 r p
  end.

(* f"{symbol}__S{group_id:02}" *)
Fixpoint dec_digits (fuel : nat) (n : Z) (acc : list Z) : list Z :=
  match fuel with
  | O => acc
  | S f => if n <? 10 then (48 + n) :: acc else dec_digits f (n / 10) ((48 + n mod 10) :: acc)
  end.
Definition fmt02 (n : Z) : list Z := if n <? 10 then [48; 48 + n] else dec_digits 20 n [].
Definition suffix_name (s : sym) (gid : Z) : sym := s ++ [95;95;83] ++ fmt02 gid.

Fixpoint number_rules (s : sym) (prods : list (list sym)) (n : Z) : list rule :=
  match prods with
  | [] => []
  | p :: r => mkRule s p n :: number_rules s r (n + 1)
  end.

(* _factorize_prods_list: result = (rules of [s], suffix productions in yield order, suffix symbols) *)
Fixpoint factorize_list (fuel : nat) (s : sym) (rules : list rule)
  : res (list rule * grammar * list sym) :=
  match fuel with
  | O => Err Hang
  | S f =>
      let fix go (chunks : list (list rule)) (gid : Z) : res (list rule * grammar * list sym) :=
        match chunks with
        | [] => Ok ([], [], [])
        | [r] :: rest =>
            bind (go rest gid) (fun '(rs, sfxp, sfxs) => Ok (r :: rs, sfxp, sfxs))
        | chunk :: rest =>
            let prefix := lcp (map rprod chunk) in
            match prefix, chunk with
            | [], _ => Err AssertErr              (* assert len(common_prefix) > 0 *)
            | _, [] => Err AssertErr
            | _, first :: _ =>
                let g := suffix_name s gid in
                let grp_rule := mkRule s (prefix ++ [g]) (rsort first) in
                let sfx_rules := number_rules g (map (fun r => skipn (length prefix) (rprod r)) chunk) 0 in
                bind (factorize_list f g sfx_rules) (fun '(grules', sub_p, sub_s) =>
                bind (go rest (gid + 1)) (fun '(rs, sfxp, sfxs) =>
                  Ok (grp_rule :: rs, ((g, grules') :: sub_p) ++ sfxp, (g :: sub_s) ++ sfxs)))
            end
        end in
      go (split_chunks rules) 0
  end.

Definition total_len (rules : list rule) : nat := fold_left (fun a r => (a + length (rprod r))%nat) rules 0%nat.

Fixpoint factorize_all (g : grammar) : res (grammar * list sym) :=
  match g with
  | [] => Ok ([], [])
  | (s, rules) :: rest =>
      bind (factorize_list (S (S (total_len rules))) s rules) (fun '(rs, sfxp, sfxs) =>
      bind (factorize_all rest) (fun '(g', ss') => Ok (((s, rs) :: sfxp) ++ g', sfxs ++ ss')))
  end.

(* ---- smart_factorization: undo 'terminal suffix' groups ---- *)
(* sorted(result_rules.items(), key=lambda kv: -len(kv[0])): stable, longest names first *)
Fixpoint insert_by_len (k : sym) (l : list sym) : list sym :=
  match l with
  | [] => [k]
  | x :: r => if (length x <? length k)%nat then k :: l else x :: insert_by_len k r
  end.
Definition sort_by_len_desc (l : list sym) : list sym := fold_left (fun acc k => insert_by_len k acc) l [].

Inductive newrule := Keep (r : rule) | Inl (p : list sym).

Definition smart_rules (g : grammar) (terminals sfxs : list sym) (rr : list rule)
  : list newrule * list sym :=
  fold_left (fun '(acc, rem) r =>
    match rprod r with
    | [a; b] =>
        if mem a terminals && mem b sfxs && (length (grules g b) <=? 5)%nat
        then (acc ++ map (fun sr => Inl (a :: rprod sr)) (grules g b), rem ++ [b])
        else (acc ++ [Keep r], rem)
    | _ => (acc ++ [Keep r], rem)
    end) rr ([], []).

Fixpoint renumber (s : sym) (l : list newrule) (i : Z) : list rule :=
  match l with
  | [] => []
  | Keep r :: t => mkRule s (rprod r) i :: renumber s t (i + 1)
  | Inl p :: t => mkRule s p i :: renumber s t (i + 1)
  end.

Definition smart_pass (g : grammar) (terminals sfxs : list sym) : grammar * list sym :=
  let order := sort_by_len_desc (gkeys g) in
  let '(g', rem) :=
    fold_left (fun '(g, rem) s =>
      let rr := grules g s in
      let '(nr, rem') := smart_rules g terminals sfxs rr in
      if (length rr =? length nr)%nat then (g, rem ++ rem')
      else (gupdate g s (renumber s nr 0), rem ++ rem')) order (g, []) in
  (gremove g' rem, filter (fun s => negb (mem s rem)) sfxs).

(* "Symbol names containing '__' are reserved" *)
Fixpoint has_dunder (s : sym) : bool :=
  match s with
  | [] => false
  | x :: r => match r with
              | y :: _ => (Z.eqb x 95 && Z.eqb y 95) || has_dunder r
              | [] => false
              end
  end.

Fixpoint nodup_syms (l : list sym) : bool :=
  match l with
  | [] => true
  | x :: r => negb (mem x r) && nodup_syms r
  end.

(* _create_productions + _factorize_productions.  The assertions of the code are part of
   the model:  assert '__' not in symbol  (for every key of the user's productions, and for
   every symbol inside a plain production),
   assert s not in result_rules  /  assert grp_symbol_suffix not in suffix_symbols
   (no symbol is produced twice by the factorization). *)
Definition factorize (ug : list (sym * list (list sym))) (terminals : list sym) (smart : bool)
  : res (grammar * list sym) :=
  if existsb has_dunder (map fst ug)
     || existsb (fun kv => existsb (existsb has_dunder) (snd kv)) ug then Err AssertErr else
  bind (factorize_all (create_productions ug 0)) (fun '(g, sfxs) =>
    if negb (nodup_syms (gkeys g)) then Err AssertErr
    else if smart then Ok (smart_pass g terminals sfxs) else Ok (g, sfxs)).
