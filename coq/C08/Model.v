(* C08/Model.v -- executable model of ak/color.py:171-617 (_CHTextChunk, CHText).

   A str is a [list Z] of code points, Python ints are [Z].
   chunk  = _CHTextChunk(c_prefix, text, c_suffix)        (frozen dataclass)
   chtext = CHText with its two slots (scrlen, chunks)     (mutable object)

   CHText objects are mutable and `+=` works in place, `fixed_len` may return
   its receiver, so programs are run over a heap of objects (object id = index
   in the heap); variables hold object ids.  Pure helper functions mirror the
   methods one by one; [exec_stmt] mirrors what one Python statement does.

   Constants regenerated from the source on every run (gen/C08_Consts.v):
     iadd_copies          __iadd__ iterates over a copy of other.chunks
     append_skips_empty   _append_chunk returns at once for a chunk with empty text
     fixed_len_aliases    CHText.fixed_len returns self when no resize is needed
     align_chars          the tuple of align characters tested in __format__
   No proofs in this file. *)
From Coq Require Import ZArith List Bool.
From AK Require Import Common.Sx Common.Err C08.PyStr gen.C08_Consts.
Import ListNotations.
Open Scope Z_scope.

Record chunk := Chunk { c_prefix : list Z; c_text : list Z; c_suffix : list Z }.
Record chtext := CHText { scrlen : Z; chunks : list chunk }.

(* ------------------------------------------------------------------ *)
(* _CHTextChunk                                                         *)

Definition make_plain (s : list Z) : chunk := Chunk [] s [].
Definition is_plain (c : chunk) : bool := is_nil (c_prefix c).          (* not self.c_prefix *)
Definition clone (c : chunk) (s : list Z) : chunk := Chunk (c_prefix c) s (c_suffix c).
Definition has_same_type (a b : chunk) : bool := str_eqb (c_prefix a) (c_prefix b).
(* only called after has_same_type was tested, the assert is not modelled *)
Definition add_chunks_same_type (a b : chunk) : chunk :=
  Chunk (c_prefix a) (c_text a ++ c_text b) (c_suffix a).
Definition chunk_str (c : chunk) : list Z := c_prefix c ++ c_text c ++ c_suffix c.
Definition chunk_eqb (a b : chunk) : bool :=
  str_eqb (c_prefix a) (c_prefix b) && str_eqb (c_text a) (c_text b) && str_eqb (c_suffix a) (c_suffix b).
Definition chunk_eq_str (c : chunk) (s : list Z) : bool := is_plain c && str_eqb (c_text c) s.

(* chunk[i] / chunk[a:b] = self.clone(self.text[index]) *)
Definition chunk_index (c : chunk) (i : Z) : res chunk :=
  bind (py_index (c_text c) i) (fun ch => Ok (clone c [ch])).
Definition chunk_slice (c : chunk) (a b : option Z) : chunk := clone c (py_slice (c_text c) a b).

(* ------------------------------------------------------------------ *)
(* CHText: pure parts                                                   *)

Definition empty_text : chtext := CHText 0 [].

(* _append_chunk: `self.chunks[-1]` is the last element *)
Fixpoint append_to (l : list chunk) (c : chunk) : list chunk :=
  match l with
  | [] => [c]
  | [x] => if has_same_type c x then [clone x (c_text x ++ c_text c)] else [x; c]
  | x :: r => x :: append_to r c
  end.

Definition append_chunk (t : chtext) (c : chunk) : chtext :=
  if append_skips_empty && is_nil (c_text c) then t
  else CHText (scrlen t + zlen (c_text c)) (append_to (chunks t) c).

Definition append_all (t : chtext) (cs : list chunk) : chtext := fold_left append_chunk cs t.

(* `for part in other.chunks: self._append_chunk(part)` when other IS self and
   the list is not copied: the list iterator is index based and sees the
   elements appended meanwhile *)
Definition live_fuel : nat := 2000%nat.
Fixpoint live_loop (fuel : nat) (i : nat) (t : chtext) : res chtext :=
  match fuel with
  | O => Err Hang
  | S f => match nth_error (chunks t) i with
           | None => Ok t
           | Some c => live_loop f (S i) (append_chunk t c)
           end
  end.

(* the CHText branch of __iadd__; [self_alias] = `other is self` *)
Definition iadd_text (self_alias : bool) (t other : chtext) : res chtext :=
  if iadd_copies || negb self_alias then Ok (append_all t (chunks other))
  else live_loop live_fuel 0 t.

Definition plain_text (t : chtext) : list Z := flat_map c_text (chunks t).
Definition text_str (t : chtext) : list Z := flat_map chunk_str (chunks t).

(* _get_chunk_pos on the rest of the chunk list: the chunk holding [pos], the
   offset in it and the chunks behind it *)
Fixpoint chunk_pos (l : list chunk) (pos : Z) : option (chunk * Z * list chunk) :=
  match l with
  | [] => None
  | c :: r => if pos <? zlen (c_text c) then Some (c, pos, r)
              else chunk_pos r (pos - zlen (c_text c))
  end.
Definition get_chunk_pos (t : chtext) (pos : Z) : option (chunk * Z * list chunk) :=
  if pos <? 0 then None else chunk_pos (chunks t) pos.

(* text[i] for an int i *)
Definition text_index (t : chtext) (i : Z) : res chtext :=
  let idx := if i <? 0 then scrlen t + i else i in
  match get_chunk_pos t idx with
  | None => Err IndexErr
  | Some (c, p, _) =>
      bind (py_index (c_text c) p) (fun ch => Ok (append_chunk empty_text (clone c [ch])))
  end.

(* the while loop of __getitem__ (slice branch) *)
Fixpoint take_loop (remain : Z) (cur : chunk) (rest : list chunk) : list chunk :=
  if remain <=? zlen (c_text cur) then [clone cur (py_slice (c_text cur) None (Some remain))]
  else cur :: match rest with
              | [] => []
              | c :: r => take_loop (remain - zlen (c_text cur)) c r
              end.

(* text[a:b]  (step None) *)
Definition text_slice (t : chtext) (a b : option Z) : chtext :=
  let start_pos := match a with
                   | None => 0
                   | Some s => if s <? 0 then Z.max 0 (scrlen t + s) else s
                   end in
  let end_pos := match b with
                 | None => scrlen t
                 | Some e => if e <? 0 then Z.max 0 (scrlen t + e) else e
                 end in
  let remain := end_pos - start_pos in
  if remain <=? 0 then empty_text
  else match get_chunk_pos t start_pos with
       | None => empty_text
       | Some (c, p, rest) =>
           let cur := clone c (py_slice (c_text c) (Some p) None) in
           append_all empty_text (take_loop remain cur rest)
       end.

(* __eq__ *)
Fixpoint chunks_eqb (a b : list chunk) : bool :=       (* len test + all(zip) *)
  match a, b with
  | [], [] => true
  | x :: a', y :: b' => chunk_eqb x y && chunks_eqb a' b'
  | _, _ => false
  end.
Definition text_eq_text (a b : chtext) : bool := chunks_eqb (chunks a) (chunks b).
Definition text_eq_str (t : chtext) (s : list Z) : bool :=
  match chunks t with
  | [p] => is_plain p && str_eqb (c_text p) s
  | [] => is_nil s                                   (* not self.chunks and not other *)
  | _ => false
  end.
Definition text_eq_chunk (t : chtext) (c : chunk) : bool :=
  match chunks t with
  | [] => is_nil (c_text c)
  | [p] => chunk_eqb p c
  | _ => false
  end.

(* __format__ *)
Definition is_align (c : Z) : bool := existsb (Z.eqb c) align_chars.
Definition ch_s : Z := 115.
Definition ch_space : Z := 32.
Definition ch_lt : Z := 60.
Definition ch_gt : Z := 62.

(* the leading `if format_spec:` block: Some spec' or ValueError *)
Definition strip_type (spec : list Z) : res (list Z) :=
  match rev spec with
  | [] => Ok spec
  | last :: _ =>
      if negb (is_digit last) && negb (is_align last) then
        if last =? ch_s then Ok (removelast spec) else Err ValueErr
      else Ok spec
  end.

(* i = min(1, len-1); while i >= 0: ... ; (align_ch_pos, align_char) *)
Definition find_align (spec : list Z) : Z * Z :=
  match spec with
  | [] => (-1, ch_lt)
  | [c0] => if is_align c0 then (0, c0) else (-1, ch_lt)
  | c0 :: c1 :: _ => if is_align c1 then (1, c1)
                     else if is_align c0 then (0, c0) else (-1, ch_lt)
  end.

Definition format_gen (body : list Z) (blen : Z) (spec0 : list Z) : res (list Z) :=
  bind (strip_type spec0) (fun spec =>
  let '(apos, ach) := find_align spec in
  let width_part := skipn (Z.to_nat (apos + 1)) spec in
  bind (if is_nil width_part then Ok 0
        else match py_int width_part with Some w => Ok w | None => Err ValueErr end) (fun width =>
  let filler := if apos =? 1 then nth 0 spec ch_space else ch_space in
  let fw := Z.max (width - blen) 0 in
  if fw =? 0 then Ok body
  else if ach =? ch_lt then Ok (body ++ rep filler fw)
  else if ach =? ch_gt then Ok (rep filler fw ++ body)
  else let pw := fw / 2 in
       Ok (rep filler pw ++ body ++ rep filler (fw - pw)))).

Definition text_format (t : chtext) (spec : list Z) : res (list Z) :=
  format_gen (text_str t) (scrlen t) spec.

(* CHText.make / _merge_chunks / resize_chunks_list / calc_chunks_len *)
Fixpoint need_merge (l : list chunk) : bool :=
  match l with
  | c :: ((n :: _) as r) => has_same_type c n || need_merge r
  | _ => false
  end.
Fixpoint merge_loop (cur : chunk) (l : list chunk) : list chunk :=
  match l with
  | [] => [cur]
  | c :: r => if has_same_type cur c then merge_loop (add_chunks_same_type cur c) r
              else cur :: merge_loop c r
  end.
Definition merge_chunks (l : list chunk) : list chunk :=
  if need_merge l then match l with [] => [] | c :: r => merge_loop c r end else l.
Definition calc_chunks_len (l : list chunk) : Z := fold_right (fun c n => zlen (c_text c) + n) 0 l.
Definition text_make (l : list chunk) : chtext :=
  let m := merge_chunks l in CHText (calc_chunks_len m) m.

Fixpoint resize_loop (l : list chunk) (remaining : Z) (result : list chunk) : list chunk :=
  match l with
  | [] => result ++ [make_plain (rep ch_space remaining)]
  | item :: r =>
      if remaining =? 0 then result
      else let n := zlen (c_text item) in
           if n <=? remaining then resize_loop r (remaining - n) (result ++ [item])
           else resize_loop r 0 (result ++ [clone item (py_slice (c_text item) None (Some remaining))])
  end.
Definition resize_chunks_list (l : list chunk) (new_len : Z) : res (list chunk) :=
  if new_len <? 0 then Err AssertErr
  else let existing := calc_chunks_len l in
       if existing =? new_len then Ok l
       else if existing <? new_len then Ok (l ++ [make_plain (rep ch_space (new_len - existing))])
       else Ok (resize_loop l new_len []).

(* _CHTextChunk.fixed_len, as the argument list of the CHText(...) it returns *)
Definition chunk_fixed_parts (c : chunk) (n : Z) : list chunk :=
  let d := n - zlen (c_text c) in
  if 0 <? d then [c; make_plain (rep ch_space d)]
  else if d <? 0 then [clone c (py_slice (c_text c) None (Some n))]
  else [c].

(* ------------------------------------------------------------------ *)
(* programs over a heap of CHText objects                               *)

(* an operand: str, chunk, variable holding a CHText, or a list/tuple of
   operands written with PNil/PCons *)
Inductive part :=
| PS (s : list Z)
| PC (c : chunk)
| PV (v : nat)
| PNil
| PCons (x : part) (r : part).

Record state := State { heap : list chtext; vars : list nat }.

Definition hget (h : list chtext) (id : nat) : chtext := nth id h empty_text.
Fixpoint hset (h : list chtext) (id : nat) (t : chtext) : list chtext :=
  match h, id with
  | [], _ => []
  | _ :: r, O => t :: r
  | x :: r, S k => x :: hset r k t
  end.
Definition var_id (vs : list nat) (v : nat) : nat := nth v vs 0%nat.

(* `obj += p` for the CHText object [id] *)
Fixpoint iadd_part (vs : list nat) (h : list chtext) (id : nat) (p : part) : res (list chtext) :=
  match p with
  | PS s => Ok (hset h id (append_chunk (hget h id) (make_plain s)))
  | PC c => Ok (hset h id (append_chunk (hget h id) c))
  | PV v => let j := var_id vs v in
            bind (iadd_text (Nat.eqb j id) (hget h id) (hget h j)) (fun t => Ok (hset h id t))
  | PNil => Ok h
  | PCons x r => bind (iadd_part vs h id x) (fun h' => iadd_part vs h' id r)
  end.

(* CHText( *parts ): a new object, then `self += part` for each *)
Definition new_from (vs : list nat) (h : list chtext) (p : part) : res (list chtext * nat) :=
  let id := length h in
  bind (iadd_part vs (h ++ [empty_text]) id p) (fun h' => Ok (h', id)).

(* sep.join(iterable): [items] are the elements of the iterable *)
Fixpoint join_loop (vs : list nat) (h : list chtext) (id : nat) (sep : chtext)
         (items : list part) (is_first : bool) : res (list chtext) :=
  match items with
  | [] => Ok h
  | x :: r =>
      bind (if is_first then Ok h
            else bind (iadd_text false (hget h id) sep) (fun t => Ok (hset h id t))) (fun h1 =>
      bind (iadd_part vs h1 id x) (fun h2 => join_loop vs h2 id sep r false))
  end.
Definition join_new (vs : list nat) (h : list chtext) (sep : chtext) (items : list part)
  : res (list chtext * nat) :=
  let id := length h in
  bind (join_loop vs (h ++ [empty_text]) id sep items true) (fun h' => Ok (h', id)).

(* what `sep.join(X)` may be given instead of a list of operands *)
Inductive iterable :=
| ItText (v : nat)          (* a CHText *)
| ItChunk (c : chunk)       (* a bare chunk *)
| ItStr (s : list Z).       (* a str: its characters *)

Inductive stmt :=
(* statements binding a new variable (the next index) *)
| SNew (p : part)                         (* CHText( *p ) *)
| SMake (cs : list chunk)                 (* CHText.make(cs) *)
| SMakeResize (cs : list chunk) (n : Z)   (* CHText.make(CHText.resize_chunks_list(cs, n)) *)
| SAdd (a : nat) (p : part)               (* v_a + p *)
| SRadd (p : part) (a : nat)              (* p + v_a,  p a str / chunk / list *)
| SJoin (a : nat) (items : list part)     (* v_a.join([...]) *)
| SIndex (a : nat) (i : Z)                (* v_a[i] *)
| SSlice (a : nat) (lo hi : option Z)     (* v_a[lo:hi] *)
| SFixed (a : nat) (n : Z)                (* v_a.fixed_len(n) *)
| SChunkAdd (c : chunk) (p : part)        (* c + p   (also c += p) *)
| SChunkRadd (p : part) (c : chunk)       (* p + c *)
| SChunkJoin (c : chunk) (items : list part)
| SChunkFixed (c : chunk) (n : Z)
(* in-place *)
| SIadd (a : nat) (p : part)              (* v_a += p *)
(* observations *)
| OFormat (a : nat) (spec : list Z)
| OEq (a : nat) (p : part)                (* v_a == p  and  p == v_a ; p a str / chunk / variable *)
| OChunkIndex (c : chunk) (i : Z)
| OChunkSlice (c : chunk) (lo hi : option Z)
| OChunkEq (c : chunk) (p : part)         (* c == p ; p a str / chunk *)
| OChunkFormat (c : chunk) (spec : list Z)
(* a text / chunk / str used as an iterable *)
| SJoinIt (a : nat) (it : iterable)       (* v_a.join(X), X a CHText / chunk / str *)
| SChunkJoinIt (c : chunk) (it : iterable)
| OIter (a : nat)                         (* list(v_a), for x in v_a, tuple(v_a), *v_a, ... *)
| ORevIter (a : nat)                      (* list(reversed(v_a)) *)
| OIn (a : nat) (p : part)                (* p in v_a *)
| OChunkIter (c : chunk) (rev : bool).    (* list(c) / list(reversed(c)) *)

(* what the harness reads off a comparison: a == b, b == a, a != b, b != a.  Neither class defines
   __ne__, so Python answers != with the negation of __eq__ (of the reflected __eq__ when the first
   one returns NotImplemented). *)
Definition sx_eq_obs (b : bool) : sx := SL [sx_bool b; sx_bool b; sx_bool (negb b); sx_bool (negb b)].

Definition sx_chunk (c : chunk) : sx := SL [sx_str (c_prefix c); sx_str (c_text c); sx_str (c_suffix c)].

Fixpoint first_index (vs : list nat) (id : nat) (k : Z) : Z :=
  match vs with
  | [] => k
  | x :: r => if Nat.eqb x id then k else first_index r id (k + 1)
  end.

(* bind the next variable to object [id]; observation = (0 j), j the first
   variable holding the same object *)
Definition bind_var (h : list chtext) (vs : list nat) (id : nat) : state * sx :=
  let vs' := vs ++ [id] in
  (State h vs', SL [SZ 0; SZ (first_index vs' id 0)]).
(* the statement raised: the harness binds the variable to a fresh CHText() *)
Definition bind_err (h : list chtext) (vs : list nat) (e : err) : state * sx :=
  (State (h ++ [empty_text]) (vs ++ [length h]), SL [SZ 1; SZ (err_code e)]).
Definition finish (st : state) (r : res (list chtext * nat)) : state * sx :=
  match r with
  | Ok (h', id) => bind_var h' (vars st) id
  | Err e => bind_err (heap st) (vars st) e
  end.
Definition alloc (h : list chtext) (t : chtext) : list chtext * nat := (h ++ [t], length h).

Definition chunks_part (cs : list chunk) : part := fold_right (fun c r => PCons (PC c) r) PNil cs.

(* ------------------------------------------------------------------ *)
(* a text (or a chunk, or a str) used as an ITERABLE                    *)

(* iter(t): neither class defines __iter__ (nor __reversed__ / __contains__), so Python's
   sequence iterator asks for t[0], t[1], ... until IndexError: every item is a CHText of one
   visible character.  The walk ends at the latest at index = number of characters, where
   _get_chunk_pos finds nothing; running out of fuel is reported as Hang, never as an end. *)
Fixpoint iter_loop (fuel : nat) (t : chtext) (i : Z) : res (list chtext) :=
  match fuel with
  | O => Err Hang
  | S f => match text_index t i with
           | Ok x => bind (iter_loop f t (i + 1)) (fun r => Ok (x :: r))
           | Err IndexErr => Ok []
           | Err e => Err e
           end
  end.
Definition text_items (t : chtext) : res (list chtext) :=
  iter_loop (S (length (plain_text t))) t 0.

(* reversed(t): len(t), then t[n-1], ..., t[0]; an IndexError ends the walk silently *)
Fixpoint rev_loop (k : nat) (t : chtext) : res (list chtext) :=
  match k with
  | O => Ok []
  | S j => match text_index t (Z.of_nat j) with
           | Ok x => bind (rev_loop j t) (fun r => Ok (x :: r))
           | Err IndexErr => Ok []
           | Err e => Err e
           end
  end.
Definition text_rev_items (t : chtext) : res (list chtext) := rev_loop (Z.to_nat (scrlen t)) t.

(* the items of a bare chunk: c[0], c[1], ... = clone(text[i]) until str raises IndexError *)
Definition chunk_items (c : chunk) : list chunk := map (fun ch => clone c [ch]) (c_text c).

(* `result += x` for a CHText x that is no variable: for part in x.chunks[:]: _append_chunk(part) *)
Definition text_part (x : chtext) : part := chunks_part (chunks x).

Definition iter_parts (vs : list nat) (h : list chtext) (it : iterable) : res (list part) :=
  match it with
  | ItText v => bind (text_items (hget h (var_id vs v))) (fun l => Ok (map text_part l))
  | ItChunk c => Ok (map PC (chunk_items c))
  | ItStr s => Ok (map (fun ch => PS [ch]) s)
  end.

(* `p in t`: no __contains__, so any(item == p for item in iter(t)); an item is a fresh object *)
Definition item_eq (vs : list nat) (h : list chtext) (x : chtext) (p : part) : bool :=
  match p with
  | PS s => text_eq_str x s
  | PC c => text_eq_chunk x c
  | PV v => text_eq_text x (hget h (var_id vs v))
  | _ => false
  end.

(* what the harness reads off every variable at the end (and off every item of an iteration) *)
Definition sx_text (t : chtext) : sx :=
  SL [SZ (scrlen t); sx_list sx_chunk (chunks t); sx_str (text_str t); sx_str (plain_text t)].

Definition exec_stmt (st : state) (s : stmt) : state * sx :=
  let h := heap st in
  let vs := vars st in
  let obj a := hget h (var_id vs a) in
  match s with
  | SNew p => finish st (new_from vs h p)
  | SMake cs => finish st (Ok (alloc h (text_make cs)))
  | SMakeResize cs n => finish st (bind (resize_chunks_list cs n) (fun l => Ok (alloc h (text_make l))))
  | SAdd a p =>                                   (* result = type(self)(self); result += p *)
      finish st (new_from vs h (PCons (PV a) (PCons p PNil)))
  | SRadd p a =>                                  (* type(self)(other, self) *)
      finish st (new_from vs h (PCons p (PCons (PV a) PNil)))
  | SJoin a items => finish st (join_new vs h (obj a) items)
  | SIndex a i => finish st (bind (text_index (obj a) i) (fun t => Ok (alloc h t)))
  | SSlice a lo hi => finish st (Ok (alloc h (text_slice (obj a) lo hi)))
  | SFixed a n =>
      let d := n - scrlen (obj a) in
      if d <? 0 then finish st (Ok (alloc h (text_slice (obj a) None (Some n))))
      else if 0 <? d then finish st (new_from vs h (PCons (PV a) (PCons (PS (rep ch_space d)) PNil)))
      else if fixed_len_aliases then bind_var h vs (var_id vs a)
      else finish st (new_from vs h (PCons (PV a) PNil))
  | SChunkAdd c p => finish st (new_from vs h (PCons (PC c) (PCons p PNil)))
  | SChunkRadd p c => finish st (new_from vs h (PCons p (PCons (PC c) PNil)))
  | SChunkJoin c items => finish st (join_new vs h (append_chunk empty_text c) items)
  | SChunkFixed c n => finish st (new_from vs h (chunks_part (chunk_fixed_parts c n)))
  | SIadd a p =>
      match iadd_part vs h (var_id vs a) p with
      | Ok h' => (State h' vs, SL [SZ 0; SZ 1])   (* __iadd__ returns self *)
      | Err e => (st, SL [SZ 1; SZ (err_code e)])
      end
  | OFormat a spec => (st, sx_res sx_str (text_format (obj a) spec))
  | OEq a p =>
      let b := match p with
               | PS s => text_eq_str (obj a) s
               | PC c => text_eq_chunk (obj a) c
               | PV v => Nat.eqb (var_id vs a) (var_id vs v) || text_eq_text (obj a) (obj v)
               | _ => false                       (* NotImplemented both ways *)
               end in
      (st, sx_eq_obs b)
  | OChunkIndex c i => (st, sx_res sx_chunk (chunk_index c i))
  | OChunkSlice c lo hi => (st, sx_res sx_chunk (Ok (chunk_slice c lo hi)))
  | OChunkEq c p =>
      let b := match p with
               | PS s => chunk_eq_str c s
               | PC d => chunk_eqb c d
               | _ => false
               end in
      (st, sx_eq_obs b)
  | OChunkFormat c spec => (st, sx_res sx_str (text_format (append_chunk empty_text c) spec))
  | SJoinIt a it => finish st (bind (iter_parts vs h it) (fun items => join_new vs h (obj a) items))
  | SChunkJoinIt c it =>
      finish st (bind (iter_parts vs h it) (fun items => join_new vs h (append_chunk empty_text c) items))
  | OIter a => (st, sx_res (sx_list sx_text) (text_items (obj a)))
  | ORevIter a => (st, sx_res (sx_list sx_text) (text_rev_items (obj a)))
  | OIn a p => (st, sx_res sx_bool (bind (text_items (obj a)) (fun l => Ok (existsb (fun x => item_eq vs h x p) l))))
  | OChunkIter c rv => (st, sx_list sx_chunk (if rv then rev (chunk_items c) else chunk_items c))
  end.

Fixpoint exec (st : state) (prog : list stmt) : state * list sx :=
  match prog with
  | [] => (st, [])
  | s :: r => let '(st1, o) := exec_stmt st s in
              let '(st2, os) := exec st1 r in (st2, o :: os)
  end.

Definition init_state : state := State [] [].

Definition dump (st : state) : list sx := map (fun id => sx_text (hget (heap st) id)) (vars st).
