(* C16/PropsTranslated.v -- the id-format theorems of Props.v once more, for the expression TRANSLATED from the
   current text of _HttpConnImpl._generate_request_id (gen/C16_Translated.v: T_request_id_format fuel conn_part seq,
   seq : option Z = the value of the counter that was read, None when ids are switched off); nothing else.
   A file of its own so that Props.v (hand model) still checks when the source has left the hand model. *)
From Coq Require Import ZArith List.
From AK Require Import Common.Err Common.PyLib C16.Instr gen.C16_Consts C16.Model gen.C16_Translated C16.TransEq.
Import ListNotations.
Open Scope Z_scope.

(* translated expression = hand model's [fmt], for every non-negative sequence number and connection part *)
Theorem translated_format_eq : forall fuel cp n, 0 <= n ->
  T_request_id_format fuel cp (Some n) = Ok (VStr (fmt cp n)).
Proof. exact TransEq.translated_format_eq. Qed.
Print Assumptions translated_format_eq.

Theorem translated_format_none : forall fuel cp, T_request_id_format fuel cp None = Ok VNone.
Proof. exact TransEq.translated_format_none. Qed.
Print Assumptions translated_format_none.

(* the id computed by the translated code is injective in the sequence number (even across connection parts) *)
Theorem id_injective_translated : forall fuel1 fuel2 cp1 cp2 n m, 0 <= n -> 0 <= m ->
  T_request_id_format fuel1 cp1 (Some n) = T_request_id_format fuel2 cp2 (Some m) -> n = m.
Proof. exact id_injective_t. Qed.
Print Assumptions id_injective_translated.

(* in every interleaving: the translated expression applied to the numbers handed out gives exactly the
   X-request-id values the opener saw, and they are pairwise distinct *)
Theorem ids_pairwise_distinct_translated : forall fuel cp c0 reqs sched, 0 <= c0 ->
  let st := exec cp impl_prog sched (init (Some c0) reqs) in
  let ids := map (fun n => T_request_id_format fuel cp (Some n)) (numbers st) in
  ids = map (fun s => Ok (VStr s)) (generated_ids st) /\ NoDup ids.
Proof. exact ids_distinct_t. Qed.
Print Assumptions ids_pairwise_distinct_translated.

(* non-vacuity: the translated expression runs; 3 and 10003 share the 4-digit part and differ in the tail *)
Example translated_format_runs :
  T_request_id_format 0 [97; 98] (Some 3) =
    Ok (VStr [97; 98; 48; 48; 48; 51; 45; 48; 48; 48; 48; 45; 48; 48; 48; 48; 45; 48; 48; 48; 48; 45;
              48; 48; 48; 48; 48; 48; 48; 48; 48; 48; 48; 51]) /\
  T_request_id_format 0 [] (Some 3) <> T_request_id_format 0 [] (Some 10003).
Proof. split; [vm_compute; reflexivity|vm_compute; discriminate]. Qed.
Print Assumptions translated_format_runs.
