(* C14/LemLoop.v -- the incremental resolution loop of add_new_items:
   invariant between the registry and the set of descriptions registered so far,
   the walk towards a resolved ancestor, one pass, the while loop. *)
From Coq Require Import ZArith List Bool Lia Permutation.
From AK Require Import Common.Err C14.Model C14.LemBase C14.LemSpec.
Import ListNotations.
Open Scope Z_scope.

(* ------------------------------------------------------------------ reference graph *)
Definition step (S : dset) (a b : str) : Prop :=
  exists d, lookup a S = Some d /\ d_parent d = Some b.

Inductive reach (S : dset) : str -> str -> Prop :=
| reach_one a b : step S a b -> reach S a b
| reach_cons a b c : step S a b -> reach S b c -> reach S a c.

Definition acyclic (S : dset) : Prop := forall a, ~ reach S a a.

Lemma reach_snoc S a b c : reach S a b -> step S b c -> reach S a c.
Proof.
  induction 1 as [a b H|a b c' H1 H2 IH]; intros Hs.
  - eapply reach_cons; [exact H|apply reach_one; exact Hs].
  - eapply reach_cons; [exact H1|apply IH; exact Hs].
Qed.

Definition complete (S : dset) (x : str) : Prop := exists r, resolves S x r.
Definition incomplete (S : dset) (x : str) : Prop := forall r, ~ resolves S x r.

Lemma step_incomplete S a b : step S a b -> incomplete S b -> incomplete S a.
Proof.
  intros (d & L & P) Hb r R. inversion R as [? d0 L0 P0|? d0 p0 rp0 L0 P0 R0]; subst.
  - congruence.
  - assert (d0 = d) by congruence. subst. assert (p0 = b) by congruence. subst. exact (Hb _ R0).
Qed.

Lemma reach_incomplete S a b : reach S a b -> incomplete S b -> incomplete S a.
Proof.
  induction 1 as [a b H|a b c H1 H2 IH]; intros Hb.
  - eapply step_incomplete; eauto.
  - eapply step_incomplete; eauto.
Qed.

Lemma step_complete S a b : step S a b -> complete S b -> complete S a.
Proof. intros (d & L & P) [r R]. eexists. eapply R_child; eauto. Qed.

(* the path in the order in which it is resolved: every element refers to the one before it *)
Fixpoint rchain (S : dset) (pid : str) (l : list str) : Prop :=
  match l with
  | [] => True
  | j :: r => step S j pid /\ rchain S j r
  end.

Lemma rchain_complete S l : forall pid, rchain S pid l -> complete S pid -> forall x, In x l -> complete S x.
Proof.
  induction l as [|j r IH]; intros pid H C x Hx; [contradiction|].
  destruct H as [H1 H2]. assert (complete S j) as Cj by (eapply step_complete; eauto).
  destruct Hx as [<-|Hx]; [exact Cj|]. eapply IH; eauto.
Qed.

(* ------------------------------------------------------------------ invariant *)
Definition unresolved (m : smap) (x : str) : Prop := exists e, lookup x m = Some e /\ e_fmt e = None.
Definition resolved (m : smap) (x : str) : Prop := exists e, lookup x m = Some e /\ e_fmt e <> None.

Definition entry_ok (nc : bool) (S : dset) (id : str) (d : descr) (e : entry) : Prop :=
  e_parent e = d_parent d /\
  ((pristine d e /\ d_parent d <> None) \/ (exists r, resolves S id r /\ resolved_as nc r e)).

Definition Inv (nc : bool) (S : dset) (m : smap) : Prop :=
  map fst m = map fst S /\
  forall id d e, lookup id S = Some d -> lookup id m = Some e -> entry_ok nc S id d e.

Definition saturated (S : dset) (m : smap) : Prop := forall id r, resolves S id r -> resolved m id.
Definition cant_ok (S : dset) (cant : list str) : Prop := forall x, In x cant -> incomplete S x.
(* resolved entries are never touched again *)
Definition mono (m m' : smap) : Prop := forall x e, lookup x m = Some e -> e_fmt e <> None -> lookup x m' = Some e.

Lemma Inv_lookup_S nc S m id e : Inv nc S m -> lookup id m = Some e -> exists d, lookup id S = Some d.
Proof. intros [K _] H. eapply lookup_same_keys_Some; eauto. Qed.

Lemma Inv_lookup_m nc S m id d : Inv nc S m -> lookup id S = Some d -> exists e, lookup id m = Some e.
Proof. intros [K _] H. eapply lookup_same_keys_Some; [symmetry; exact K|exact H]. Qed.

Lemma Inv_unresolved nc S m x e d :
  Inv nc S m -> lookup x m = Some e -> e_fmt e = None -> lookup x S = Some d ->
  pristine d e /\ e_parent e = d_parent d /\ d_parent d <> None.
Proof.
  intros [_ I] Hm Hf HS. destruct (I _ _ _ HS Hm) as [Hp [[P N]|(r & _ & (_ & _ & _ & F))]].
  - auto.
  - congruence.
Qed.

Lemma Inv_resolved nc S m x e :
  Inv nc S m -> lookup x m = Some e -> e_fmt e <> None -> exists r, resolves S x r /\ resolved_as nc r e.
Proof.
  intros HI Hm Hf. destruct (Inv_lookup_S _ _ _ _ _ HI Hm) as [d HS].
  destruct HI as [_ I]. destruct (I _ _ _ HS Hm) as [_ [[(_ & _ & _ & F) _]|H]]; [congruence|exact H].
Qed.

Lemma mono_refl m : mono m m.
Proof. intros x e H _. exact H. Qed.

Lemma mono_trans m1 m2 m3 : mono m1 m2 -> mono m2 m3 -> mono m1 m3.
Proof. intros H1 H2 x e L F. apply H2; [apply H1; assumption|exact F]. Qed.

(* ------------------------------------------------------------------ the walk *)
Lemma NoDup_incl_len (l k : list str) : NoDup l -> incl l k -> (length l <= length k)%nat.
Proof. apply NoDup_incl_length. Qed.

Lemma walk_spec nc S m cant :
  Inv nc S m -> acyclic S -> cant_ok S cant ->
  forall fuel cur path,
    In cur (map fst m) ->
    rchain S cur (rev path) ->
    (forall x, In x path -> reach S x cur) ->
    NoDup path ->
    (forall x, In x path -> unresolved m x) ->
    (length m < fuel + length path)%nat ->
    match walk fuel m cant cur path with
    | WFound top p' =>
        (exists ext, p' = path ++ ext) /\ rchain S top (rev p') /\ NoDup p' /\
        (forall x, In x p' -> unresolved m x) /\ resolved m top /\ (unresolved m cur -> In cur p')
    | WCant p' =>
        (exists ext, p' = path ++ ext) /\ (forall x, In x p' -> incomplete S x) /\ incomplete S cur
    | WAssert => False
    | WHang => False
    end.
Proof.
  intros HI Hac Hcant. induction fuel as [|f IH]; intros cur path Hcur Hch Hreach Hnd Hun Hfuel.
  - exfalso. assert (incl path (map fst m)) as Hincl.
    { intros x Hx. destruct (Hun x Hx) as (e & L & _). eapply lookup_In_keys; eauto. }
    pose proof (NoDup_incl_len _ _ Hnd Hincl) as Hl. rewrite map_length in Hl. lia.
  - cbn [walk].
    destruct (mem_str cur path) eqn:Emem.
    { apply mem_str_In in Emem. exact (Hac cur (Hreach _ Emem)). }
    apply mem_str_nIn in Emem.
    destruct (lookup_Some_of_In _ _ Hcur) as [e Le]. rewrite Le.
    destruct (e_fmt e) as [fm|] eqn:Ef.
    { (* found *)
      repeat split.
      - exists []. rewrite app_nil_r. reflexivity.
      - exact Hch.
      - exact Hnd.
      - exact Hun.
      - exists e. split; [exact Le|congruence].
      - intros (e2 & L2 & F2). congruence. }
    destruct (Inv_lookup_S _ _ _ _ _ HI Le) as [d Ld].
    destruct (Inv_unresolved _ _ _ _ _ _ HI Le Ef Ld) as (Hpr & Hpar & Hnn).
    assert (forall x, incomplete S cur -> In x path -> incomplete S x) as Hpathinc.
    { intros x Hc Hx. eapply reach_incomplete; [apply Hreach; exact Hx|exact Hc]. }
    destruct (e_parent e) as [p|] eqn:Ep; [|congruence].
    assert (step S cur p) as Hstep by (exists d; split; [exact Ld|congruence]).
    destruct (mem_str cur cant || negb (has_key p m)) eqn:Ec.
    { (* cannot be resolved now *)
      assert (incomplete S cur) as Hinc.
      { apply orb_prop in Ec as [Ec|Ec].
        - apply Hcant. apply mem_str_In. exact Ec.
        - apply negb_true_iff, has_key_false in Ec.
          eapply step_incomplete; [exact Hstep|].
          intros r R. assert (exists dp, lookup p S = Some dp) as [dp Lp] by (inversion R; eauto).
          destruct (Inv_lookup_m _ _ _ _ _ HI Lp) as [ep Lep]. congruence. }
      repeat split.
      - exists []. rewrite app_nil_r. reflexivity.
      - intros x Hx. apply Hpathinc; assumption.
      - exact Hinc. }
    apply orb_false_elim in Ec as [Ec1 Ec2]. apply negb_false_iff, has_key_In in Ec2.
    specialize (IH p (path ++ [cur]) Ec2).
    assert (unresolved m cur) as Ucur by (exists e; split; assumption).
    assert (rchain S p (rev (path ++ [cur]))) as H1.
    { rewrite rev_unit. cbn [rchain]. split; assumption. }
    assert (forall x, In x (path ++ [cur]) -> reach S x p) as H2.
    { intros x Hx. apply in_app_or in Hx as [Hx|[<-|[]]].
      - eapply reach_snoc; [apply Hreach; exact Hx|exact Hstep].
      - apply reach_one. exact Hstep. }
    assert (NoDup (path ++ [cur])) as H3.
    { eapply Permutation_NoDup; [apply Permutation_cons_append|]. constructor; assumption. }
    assert (forall x, In x (path ++ [cur]) -> unresolved m x) as H4.
    { intros x Hx. apply in_app_or in Hx as [Hx|[<-|[]]]; [apply Hun; exact Hx|exact Ucur]. }
    assert (length m < f + length (path ++ [cur]))%nat as H5.
    { rewrite app_length. cbn [length]. lia. }
    specialize (IH H1 H2 H3 H4 H5).
    destruct (walk f m cant p (path ++ [cur])) as [top p'|p'| |]; try contradiction.
    + destruct IH as ([ext ->] & A & B & C & D & _).
      repeat split; auto.
      * exists (cur :: ext). rewrite <- app_assoc. reflexivity.
      * intros _. apply in_or_app. left. apply in_or_app. right. left. reflexivity.
    + destruct IH as ([ext ->] & A & B).
      repeat split.
      * exists (cur :: ext). rewrite <- app_assoc. reflexivity.
      * exact A.
      * apply A. apply in_or_app. left. apply in_or_app. right. left. reflexivity.
Qed.

Ltac splits := repeat match goal with |- _ /\ _ => split end.

(* ------------------------------------------------------------------ resolving a path *)
Lemma Inv_update nc S m j e' d :
  Inv nc S m -> lookup j S = Some d -> entry_ok nc S j d e' -> Inv nc S (update j e' m).
Proof.
  intros [K I] Ld Hok. split; [rewrite update_keys; exact K|].
  intros id d0 e0 L0 Lm. destruct (str_eq_dec id j) as [->|Hne].
  - rewrite lookup_update_same in Lm.
    + assert (d0 = d) by congruence. assert (e0 = e') by congruence. subst. exact Hok.
    + rewrite K. eapply lookup_In_keys; eauto.
  - rewrite lookup_update_other in Lm by exact Hne. eapply I; eauto.
Qed.

Lemma resolve_path_spec nc S : wfS S -> forall l m pid pe rp,
  Inv nc S m ->
  resolves S pid rp -> resolved_as nc rp pe ->
  rchain S pid l -> NoDup l ->
  (forall x, In x l -> unresolved m x) ->
  exists m', resolve_path nc m pe l = Ok m' /\ Inv nc S m' /\
             (forall x, In x l -> resolved m' x) /\
             (forall x, ~ In x l -> lookup x m' = lookup x m).
Proof.
  intros W. induction l as [|j r IH]; intros m pid pe rp HI Rp Pe Hch Hnd Hun; cbn [resolve_path].
  - exists m. splits; auto. intros x [].
  - destruct Hch as [(d & Ld & Pd) Hch]. inversion Hnd as [|? ? Hj Hnd']; subst.
    destruct (Hun j (or_introl eq_refl)) as (e & Le & Fe). rewrite Le.
    destruct (Inv_unresolved _ _ _ _ _ _ HI Le Fe Ld) as (Hpr & Hpar & _).
    assert (e_parent e = Some pid) as Hp by congruence.
    destruct (resolve_entry_child nc d e pe rp pid (W _ _ Ld) (resolves_wf _ _ _ W Rp) Hpr Hp Pe)
      as (e' & Hres & Has & Hpe' & _).
    rewrite Hres. cbn [bind].
    assert (resolves S j (child_res d rp)) as Rj by (eapply R_child; eauto).
    assert (Inv nc S (update j e' m)) as HI'.
    { eapply Inv_update; eauto. split; [congruence|]. right. eexists. split; eauto. }
    destruct (IH (update j e' m) j e' (child_res d rp) HI' Rj Has Hch Hnd') as (m' & Hrp & HI'' & Hall & Hout).
    { intros x Hx. destruct (Hun x (or_intror Hx)) as (ex & Lx & Fx).
      exists ex. split; [|exact Fx]. rewrite lookup_update_other; [exact Lx|]. intros ->. contradiction. }
    exists m'. splits; auto.
    + intros x [<-|Hx]; [|apply Hall; exact Hx].
      exists e'. split.
      * rewrite Hout by exact Hj. apply lookup_update_same. eapply lookup_In_keys; eauto.
      * destruct Has as (_ & _ & _ & F). congruence.
    + intros x Hx. rewrite Hout by (intros H; apply Hx; right; exact H).
      apply lookup_update_other. intros ->. apply Hx. left. reflexivity.
Qed.

(* ------------------------------------------------------------------ one pass *)
Lemma Inv_keys_eq nc S m m' : Inv nc S m -> Inv nc S m' -> map fst m' = map fst m.
Proof. intros [K _] [K' _]. congruence. Qed.

Lemma pass_spec nc S : wfS S -> acyclic S -> forall ids m cant any,
  Inv nc S m -> cant_ok S cant -> (forall x, In x ids -> In x (map fst m)) ->
  exists m' cant' any',
    pass nc ids m cant any = Ok (m', cant', any') /\
    Inv nc S m' /\ cant_ok S cant' /\ mono m m' /\
    (forall x, In x ids -> complete S x -> resolved m' x) /\
    (saturated S m -> m' = m /\ any' = any).
Proof.
  intros W Hac. induction ids as [|i r IH]; intros m cant any HI Hc Hids; cbn [pass].
  - exists m, cant, any. splits; auto using mono_refl. intros x [].
  - assert (forall x, In x r -> In x (map fst m)) as Hr by (intros x Hx; apply Hids; right; exact Hx).
    destruct (lookup_Some_of_In _ _ (Hids i (or_introl eq_refl))) as [e Le]. rewrite Le.
    destruct (e_fmt e) as [fm|] eqn:Fe.
    { (* already resolved *)
      destruct (IH m cant any HI Hc Hr) as (m' & cant' & any' & Hp & HI' & Hc' & Hm & Hall & Hsat).
      exists m', cant', any'. splits; auto.
      intros x [<-|Hx] Cx; [|apply Hall; assumption].
      exists e. split; [apply Hm; [exact Le|congruence]|congruence]. }
    assert (unresolved m i) as Ui by (exists e; split; assumption).
    pose proof (walk_spec nc S m cant HI Hac Hc (Datatypes.S (length m)) i []) as Hw.
    specialize (Hw (Hids i (or_introl eq_refl)) I).
    specialize (Hw (fun x (H : In x []) => match H with end) (NoDup_nil _)).
    specialize (Hw (fun x (H : In x []) => match H with end)).
    specialize (Hw ltac:(cbn [length]; lia)).
    destruct (walk (Datatypes.S (length m)) m cant i []) as [top p'|p'| |]; try contradiction.
    + (* a resolved ancestor was reached *)
      destruct Hw as (_ & Hch & Hnd & Hun & (pe & Lpe & Fpe) & Hin). specialize (Hin Ui).
      rewrite Lpe.
      destruct (Inv_resolved _ _ _ _ _ HI Lpe Fpe) as (rp & Rp & Pe).
      destruct (resolve_path_spec nc S W (rev p') m top pe rp HI Rp Pe Hch) as (m1 & Hrp & HI1 & Hall1 & Hout1).
      { apply NoDup_rev. exact Hnd. }
      { intros x Hx. apply Hun. apply in_rev. exact Hx. }
      rewrite Hrp. cbn [bind].
      assert (forall x, In x r -> In x (map fst m1)) as Hr1.
      { intros x Hx. rewrite (Inv_keys_eq _ _ _ _ HI HI1). apply Hr. exact Hx. }
      assert (mono m m1) as Hm1.
      { intros x ex Lx Fx. rewrite Hout1; [exact Lx|].
        intros Hx. apply in_rev in Hx. destruct (Hun x Hx) as (ex' & Lx' & Fx'). congruence. }
      destruct (IH m1 cant (any || negb match p' with [] => true | _ :: _ => false end) HI1 Hc Hr1)
        as (m' & cant' & any' & Hp & HI' & Hc' & Hm & Hall & Hsat).
      assert (complete S i) as Ci.
      { eapply rchain_complete; [exact Hch|exists rp; exact Rp|apply in_rev in Hin; exact Hin]. }
      exists m', cant', any'. split; [exact Hp|]. split; [exact HI'|]. split; [exact Hc'|].
      split; [eapply mono_trans; eauto|]. split.
      * intros x [<-|Hx] Cx; [|apply Hall; assumption].
        destruct (Hall1 i) as (ex & Lx & Fx); [apply in_rev in Hin; exact Hin|].
        exists ex. split; [apply Hm; assumption|exact Fx].
      * intros Hs. exfalso.
        destruct Ci as [ri Ri]. destruct (Hs _ _ Ri) as (e2 & L2 & F2). congruence.
    + (* cannot be resolved now *)
      destruct Hw as (_ & Hinc & Hi).
      assert (cant_ok S (p' ++ cant)) as Hc2.
      { intros x Hx. apply in_app_or in Hx as [Hx|Hx]; [apply Hinc|apply Hc]; exact Hx. }
      destruct (IH m (p' ++ cant) any HI Hc2 Hr) as (m' & cant' & any' & Hp & HI' & Hc' & Hm & Hall & Hsat).
      exists m', cant', any'. splits; auto.
      intros x [<-|Hx] Cx; [|apply Hall; assumption].
      destruct Cx as [rx Rx]. exfalso. exact (Hi _ Rx).
Qed.

(* ------------------------------------------------------------------ the while loop *)
Lemma saturated_after nc S m m1 ids :
  Inv nc S m -> mono m m1 ->
  (forall x, unresolved m x -> In x ids) ->
  (forall x, In x ids -> complete S x -> resolved m1 x) ->
  saturated S m1.
Proof.
  intros HI Hm Hids Hall id r R.
  assert (exists d, lookup id S = Some d) as [d Ld] by (inversion R; eauto).
  destruct (Inv_lookup_m _ _ _ _ _ HI Ld) as [e Le].
  destruct (e_fmt e) as [fm|] eqn:Fe.
  - exists e. split; [apply Hm; [exact Le|congruence]|congruence].
  - apply Hall; [apply Hids; exists e; split; assumption|exists r; exact R].
Qed.

Lemma loop_spec nc S : wfS S -> acyclic S -> forall fuel ids m cant,
  (2 <= fuel)%nat -> Inv nc S m -> cant_ok S cant ->
  (forall x, In x ids -> In x (map fst m)) ->
  (forall x, unresolved m x -> In x ids) ->
  exists m', resolve_loop fuel nc ids m cant = Ok m' /\ Inv nc S m' /\ saturated S m' /\ mono m m' /\
             (saturated S m -> m' = m).
Proof.
  intros W Hac fuel ids m cant Hf HI Hc Hids Hun.
  destruct fuel as [|[|f]]; try lia. cbn [resolve_loop].
  destruct (pass_spec nc S W Hac ids m cant false HI Hc Hids) as (m1 & cant1 & any1 & Hp & HI1 & Hc1 & Hm1 & Hall1 & Hsat1).
  rewrite Hp. cbn [bind].
  assert (saturated S m1) as S1 by exact (saturated_after nc S m m1 ids HI Hm1 Hun Hall1).
  destruct any1.
  - (* a second pass over a saturated registry resolves nothing *)
    assert (forall x, In x ids -> In x (map fst m1)) as Hids1.
    { intros x Hx. rewrite (Inv_keys_eq _ _ _ _ HI HI1). apply Hids. exact Hx. }
    destruct (pass_spec nc S W Hac ids m1 cant1 false HI1 Hc1 Hids1) as (m2 & cant2 & any2 & Hp2 & HI2 & Hc2 & Hm2 & Hall2 & Hsat2).
    rewrite Hp2. cbn [bind]. destruct (Hsat2 S1) as [-> ->].
    exists m1. splits; auto.
    intros Hs. destruct (Hsat1 Hs) as [_ ?]. discriminate.
  - exists m1. splits; auto. intros Hs. apply Hsat1. exact Hs.
Qed.

Lemma lookup_In_pair {V} k (m : list (str * V)) v : lookup k m = Some v -> In (k, v) m.
Proof.
  induction m as [|[k' v'] r IH]; cbn [lookup]; [discriminate|].
  destruct (str_eqb k k') eqn:E.
  - apply str_eqb_eq in E. subst. intros [= ->]. left. reflexivity.
  - intros H. right. apply IH. exact H.
Qed.

Lemma unresolved_ids_In m x : unresolved m x -> In x (unresolved_ids m).
Proof.
  intros (e & L & F). unfold unresolved_ids. apply in_map_iff. exists (x, e). split; [reflexivity|].
  apply filter_In. split; [apply lookup_In_pair; exact L|]. cbn. rewrite F. reflexivity.
Qed.

Lemma unresolved_ids_keys m x : In x (unresolved_ids m) -> In x (map fst m).
Proof.
  unfold unresolved_ids. intros H. apply in_map_iff in H as (p & <- & Hp).
  apply filter_In in Hp as [Hp _]. apply in_map. exact Hp.
Qed.

Lemma resolve_pending_spec nc S m : wfS S -> acyclic S -> Inv nc S m ->
  exists m', resolve_pending nc m = Ok m' /\ Inv nc S m' /\ saturated S m' /\ mono m m' /\
             (saturated S m -> m' = m).
Proof.
  intros W Hac HI. unfold resolve_pending.
  remember (sort_strs (unresolved_ids m)) as ids eqn:Eids.
  assert (forall x, In x ids -> In x (map fst m)) as Hk.
  { intros x Hx. subst ids. apply (proj1 (sort_strs_In _ _)) in Hx. apply unresolved_ids_keys. exact Hx. }
  assert (forall x, unresolved m x -> In x ids) as Hu.
  { intros x Hx. subst ids. apply (proj2 (sort_strs_In _ _)). apply unresolved_ids_In. exact Hx. }
  clear Eids. destruct ids as [|i0 ids0].
  - exists m. splits; auto using mono_refl.
    intros id r R. assert (exists d, lookup id S = Some d) as [d Ld] by (inversion R; eauto).
    destruct (Inv_lookup_m _ _ _ _ _ HI Ld) as [e Le].
    exists e. split; [exact Le|]. intros Fe.
    exact (Hu id (ex_intro _ e (conj Le Fe))).
  - apply loop_spec; auto.
    + cbn [length]. lia.
    + intros x [].
Qed.
