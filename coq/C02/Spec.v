(* C02/Spec.v -- the textbook notions the table builder is compared with:
   inductive Nullable / First / Follow / Predict over a grammar, derivations and
   the language of a grammar, LL(1)-ness.  Definitions only. *)
From Coq Require Import ZArith List Bool.
From AK Require Import Common.Err LLP.Base LLP.Table C02.Model.
Import ListNotations.

Section Spec.
  Variable g : grammar.
  Variable terms : list sym.     (* with $END$ *)
  Variable start : sym.

  (* A =>* eps *)
  Inductive Nullable : sym -> Prop :=
  | Nullable_intro : forall nt r, In r (grules g nt) -> NullSeq (rprod r) -> Nullable nt
  with NullSeq : list sym -> Prop :=
  | NullSeq_nil : NullSeq []
  | NullSeq_cons : forall s p, Nullable s -> NullSeq p -> NullSeq (s :: p).

  (* A =>* t beta *)
  Inductive First : sym -> sym -> Prop :=
  | First_t : forall nt r pre t post,
      In r (grules g nt) -> rprod r = pre ++ t :: post -> NullSeq pre ->
      mem t terms = true -> First nt t
  | First_nt : forall nt r pre s post t,
      In r (grules g nt) -> rprod r = pre ++ s :: post -> NullSeq pre ->
      mem s terms = false -> First s t -> First nt t.

  Definition FirstSym (s t : sym) : Prop :=
    (mem s terms = true /\ t = s) \/ (mem s terms = false /\ First s t).

  (* alpha =>* t beta *)
  Definition FirstSeq (p : list sym) (t : sym) : Prop :=
    exists pre s post, p = pre ++ s :: post /\ NullSeq pre /\ FirstSym s t.

  (* start $END$ =>* alpha X t beta *)
  Inductive Follow : sym -> sym -> Prop :=
  | Follow_start : Follow start END_TOKEN
  | Follow_next : forall nt r pre X post t,
      In r (grules g nt) -> rprod r = pre ++ X :: post -> mem X terms = false ->
      FirstSeq post t -> Follow X t
  | Follow_last : forall nt r pre X post t,
      In r (grules g nt) -> rprod r = pre ++ X :: post -> mem X terms = false ->
      NullSeq post -> Follow nt t -> Follow X t.

  (* look-ahead set of an alternative *)
  Definition Predict (r : rule) (t : sym) : Prop :=
    FirstSeq (rprod r) t \/ (NullSeq (rprod r) /\ Follow (rsym r) t).

  (* "LL(1) as written": look-ahead sets of the alternatives of every symbol pairwise disjoint *)
  Definition LL1 : Prop :=
    forall nt i j ri rj t,
      nth_error (grules g nt) i = Some ri -> nth_error (grules g nt) j = Some rj -> i <> j ->
      Predict ri t -> Predict rj t -> False.

  (* derivation trees and their yield (token name, token value) *)
  Inductive Deriv : sym -> dtree -> list (sym * list Z) -> Prop :=
  | Deriv_term : forall s v, mem s terms = true -> Deriv s (DLeaf s v) [(s, v)]
  | Deriv_nt : forall nt r ds w,
      mem nt terms = false -> In r (grules g nt) -> DerivSeq (rprod r) ds w ->
      Deriv nt (DNode nt ds) w
  with DerivSeq : list sym -> list dtree -> list (sym * list Z) -> Prop :=
  | DerivSeq_nil : DerivSeq [] [] []
  | DerivSeq_cons : forall s p d ds w1 w2,
      Deriv s d w1 -> DerivSeq p ds w2 -> DerivSeq (s :: p) (d :: ds) (w1 ++ w2).

  Definition in_language (w : list (sym * list Z)) : Prop := exists d, Deriv start d w.
End Spec.

Scheme Nullable_mind := Minimality for Nullable Sort Prop
  with NullSeq_mind := Minimality for NullSeq Sort Prop.
Scheme Deriv_mind := Minimality for Deriv Sort Prop
  with DerivSeq_mind := Minimality for DerivSeq Sort Prop.
