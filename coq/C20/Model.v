(* C20/Model.v -- executable model of ak/short_uuid.py (whole file).
   Strings are lists of code points ([list Z]); a UUID is its 128-bit integer.
   [alphabet], [short_len] and [caught] are regenerated from the source on
   every run (gen/C20_Consts.v).  No proofs in this file. *)
From Coq Require Import ZArith List Bool.
From AK Require Import Common.Sx Common.Err gen.C20_Consts.
Import ListNotations.
Open Scope Z_scope.

Definition base : Z := Z.of_nat (length alphabet).
Definition a0 : Z := nth 0 alphabet 0.
Definition uuid_bound : Z := 2 ^ 128.

(* _INDEX_ALPHABET = dict((char, pos) ...): a later duplicate would win *)
Fixpoint index_from (c : Z) (l : list Z) (pos : Z) (found : option Z) : option Z :=
  match l with
  | [] => found
  | x :: r => index_from c r (pos + 1) (if x =? c then Some pos else found)
  end.
Definition index_of (c : Z) : option Z := index_from c alphabet 0 None.

(* _int_to_str: while number: number, digit = divmod(number, alpha_len) *)
Fixpoint digits (fuel : nat) (n : Z) : list Z :=
  match fuel with
  | O => []
  | S f => if n =? 0 then []
           else nth (Z.to_nat (n mod base)) alphabet 0 :: digits f (n / base)
  end.

Definition int_to_str (n : Z) : list Z :=
  let out := digits (S (Z.to_nat (Z.log2 n))) n in
  out ++ repeat a0 (short_len - length out)%nat.

(* _str_to_int: for char in string[::-1]: number = number*alpha_len + INDEX[char] *)
Fixpoint horner (rs : list Z) (acc : Z) : res Z :=
  match rs with
  | [] => Ok acc
  | c :: r => match index_of c with
              | None => Err KeyErr
              | Some d => horner r (acc * base + d)
              end
  end.
Definition str_to_int (s : list Z) : res Z := horner (rev s) 0.

(* try: ... except <caught>: raise ValueError *)
Definition translate (e : err) : err :=
  if existsb (err_eqb e) caught then ValueErr else e.

(* python-level argument of uuid_from_short_str *)
Inductive pyarg := PStr (s : list Z) | PNotStr.

Definition uuid_from_short_str (a : pyarg) : res Z :=
  match a with
  | PNotStr => Err ValueErr
  | PStr s =>
      if negb (Nat.eqb (length s) short_len) then Err ValueErr
      else match str_to_int s with
           | Err e => Err (translate e)
           | Ok n => (* uuid.UUID(int=n): ValueError unless 0 <= n < 1<<128 *)
               if (0 <=? n) && (n <? uuid_bound) then Ok n
               else Err (translate ValueErr)
           end
  end.

Definition uuid_to_short_str (u : Z) : list Z := int_to_str u.

(* uuid_from_str: [std] is the result of the standard library's uuid.UUID(s)
   (None = it raised ValueError); it is supplied by the harness / quantified
   over in the theorems. *)
Definition uuid_from_str (std : option Z) (s : list Z) : res Z :=
  match std with
  | Some n => Ok n
  | None => uuid_from_short_str (PStr s)
  end.

(* ------------------------------------------------------------------ *)
(* sequences of API calls made one after another in ONE process.
   The three functions read the module-level constants and write nothing
   (no cache, no lazily filled table, no mutable default argument), so the
   model of a sequence is the single-call model applied to each call on its
   own; the correspondence check runs whole sequences against the
   implementation, which is what makes memory kept between calls visible. *)
Inductive call :=
| CToShort (u : Z)
| CFromShort (a : pyarg)
| CFromStr (std : option Z) (s : list Z).

Inductive outcome :=
| OStr (s : list Z)        (* uuid_to_short_str returned this string *)
| ORes (r : res Z).        (* uuid_from_short_str / uuid_from_str returned / raised *)

Definition eval_call (c : call) : outcome :=
  match c with
  | CToShort u => OStr (uuid_to_short_str u)
  | CFromShort a => ORes (uuid_from_short_str a)
  | CFromStr std s => ORes (uuid_from_str std s)
  end.

Definition eval_seq (l : list call) : list outcome := map eval_call l.
