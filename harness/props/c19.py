"""C19  Command options are inherited exactly along the declared command graph  (ak/cli_tools.py)"""
import ast
import os

from harness.lib import sx as SX

ID = "C19"
COQ_DIR = "C19"
RUN_MOD = "C19.Run"
MODEL_TARGETS = ["C19/Run.vo"]
PROOF_TARGETS = ["C19/Lemmas.vo", "C19/LemmasOps.vo", "C19/LemmasParse.vo", "C19/LemmasDecl.vo", "C19/LemmasVec.vo",
                 "C19/LemmasDup.vo"]
PROPS = ["C19/Props.v"]
ALLOWED_AXIOMS = []
IMPL_TIMEOUT = 20.0
COQ_SHARD = 12

RULE = ("random command graphs of 1-9 declarations (chains, forests, diamonds, dense DAGs, a command naming a parent "
        "and that parent's ancestor, several internal '!' option sets, duplicated/blank parent references, random "
        "white space); store_true options, options that take a value ('--name VALUE') and nargs='*' positionals assigned to "
        "random parsers or to the ArgParser itself, now and then an option string that is already in use (as a flag or as a "
        "value option) on a random target; then EVERY (parser name, option) pair ('--f', '--u VALUE', '--u=VALUE'), every "
        "standard option for every command, value options without value / before an option / given twice, multi-token "
        "vectors (several added flags around one block of words, with and without a command), default-command vectors "
        "(empty, option first, word first, internal set name first) and random mixed vectors are parsed; a malformed stream "
        "(duplicate names, unknown/forward/self parents, empty names, conflicting option strings of both kinds, unknown "
        "get_cmd_parser names, bad default_command).  35 % of the graphs take their parser names from a family with containment / "
        "near collisions (one name a prefix, suffix or inner substring of another, names differing by case or by '-' vs '_', "
        "names with ', . + @', 'p,q' next to p and q, a parser named like an added option without its dashes, one 120-character "
        "name; now and then get_cmd_parser(<near miss of a declared name>)).  Every 7th graph and the fixed cases are run a second "
        "time in a child interpreter with 'python -O' (assert statements stripped); for well-formed declarations the observation "
        "must be identical (oracle clause optimize-mode).  Non-trivial = a constructed parser with at least one inherited option "
        "(some parser has a dependent) and one parsed vector.")
TRUSTED_BASE = [
    "argparse (CPython 3.12): a parser accepts '--o' iff an action with that option string was added to it; parents=[...] copies the "
    "standard actions; conflicting option strings raise ArgumentError; sub-command dispatch through add_subparsers.  In the theorems "
    "argparse is a universally quantified function with these hypotheses: sub_spec (single-option vectors) and sub_spec_vec "
    "(vectors '--f.. w.. --g..' of store_true flags around one block of words for the nargs='*' positionals, '--u VALUE', "
    "'--u=VALUE', a word first for a parser without positionals; acceptance and namespace); the concrete stand-in mini_sub is "
    "proved to satisfy both and is compared with the real argparse on every run",
    "gen/C19_Consts.v: the shape of register_dependent (idempotent / assert-fresh), the literal ['-h','--help'] and the container "
    "consulted by the default-command test, the appended '--help', the standard option strings, the --color choices and default are "
    "read from ak/cli_tools.py by harness/props/c19.py:gen_consts (ast, fail-closed)",
    "iteration order of the python set of parent names is not modelled (first occurrences are used); it influences only the order of "
    "_dependent_parsers, which no compared observable depends on",
]
ASSUMPTIONS = [
    "commands=[...] is given (multi-command mode); every declaration is (str, str)",
    "option names are distinct, are not the standard option strings and no option string is a proper prefix of another one "
    "(argparse abbreviation matching is outside the model); options are store_true flags, '--name' options taking one value "
    "(default None) or nargs='*' positionals added with add_argument on the ArgParser or on get_cmd_parser(name); other actions, "
    "types, nargs, short option strings and several option strings per argument are not modelled (the propagation code forwards "
    "args/kwargs unchanged)",
    "command names used in argument vectors do not start with '-'",
    "for ill-formed declarations python is not run with -O (the declaration checks are assert statements); for well-formed "
    "declarations behaviour under -O is tested to be the same (share of the cases, child interpreter), not proved",
    "parser names, the default command and plain words consist of ASCII letters, digits and '_ - , . + @' and do not start with '-'",
]
MODELLED = ("ak/cli_tools.py AkArgumentParser, ArgParser.__init__ (multi-command branch), parse_args, _init_multicmd_parser, "
            "add_argument (store_true flags, one-value options, nargs='*' positionals), get_cmd_parser; not modelled: single-command "
            "mode, std_app_configure, help output, argparse internals, other argparse actions/types")


class ExtractError(Exception):
    pass


# ------------------------------------------------------------------ constants
_REG_IDEM = """
if name in self._dependent_parsers:
    assert self._dependent_parsers[name] is parser
    return
self._dependent_parsers[name] = parser
"""
_REG_FRESH = """
assert name not in self._dependent_parsers
self._dependent_parsers[name] = parser
"""


def _norm_body(body):
    """statements without docstring and without assert messages -> dump"""
    out = []
    for i, st in enumerate(body):
        if i == 0 and isinstance(st, ast.Expr) and isinstance(st.value, ast.Constant) and isinstance(st.value.value, str):
            continue
        out.append(st)
    mod = ast.Module(body=out, type_ignores=[])
    for n in ast.walk(mod):
        if isinstance(n, ast.Assert):
            n.msg = None
    return ast.dump(mod)


def _find_class(tree, name):
    for n in tree.body:
        if isinstance(n, ast.ClassDef) and n.name == name:
            return n
    raise ExtractError(f"class {name} not found")


def _find_method(cls, name):
    for n in cls.body:
        if isinstance(n, ast.FunctionDef) and n.name == name:
            return n
    raise ExtractError(f"method {cls.name}.{name} not found")


def _str_list(node):
    if isinstance(node, (ast.List, ast.Tuple)) and node.elts and all(
            isinstance(e, ast.Constant) and isinstance(e.value, str) for e in node.elts):
        return [e.value for e in node.elts]
    return None


def gen_consts(repo):
    src = open(os.path.join(repo, "ak", "cli_tools.py")).read()
    tree = ast.parse(src)
    ak = _find_class(tree, "AkArgumentParser")
    ap = _find_class(tree, "ArgParser")
    # --- register_dependent: one of two recognised shapes
    reg = _find_method(ak, "register_dependent")
    if [a.arg for a in reg.args.args] != ["self", "name", "parser"]:
        raise ExtractError("register_dependent: unexpected signature")
    d = _norm_body(reg.body)
    if d == _norm_body(ast.parse(_REG_IDEM).body):
        reg_idem = True
    elif d == _norm_body(ast.parse(_REG_FRESH).body):
        reg_idem = False
    else:
        raise ExtractError("register_dependent: unrecognised body")
    # --- parse_args: default-command test and appended help option
    pa = _find_method(ap, "parse_args")
    help_choices = None
    appended = None
    for n in ast.walk(pa):
        if isinstance(n, ast.Call) and isinstance(n.func, ast.Name) and n.func.id == "all" and len(n.args) == 1 \
                and isinstance(n.args[0], (ast.GeneratorExp, ast.ListComp)):
            g = n.args[0]
            if len(g.generators) != 1 or g.generators[0].ifs:
                raise ExtractError("parse_args: unrecognised default-command test")
            it = g.generators[0].iter
            if not (isinstance(it, (ast.List, ast.Tuple)) and len(it.elts) == 2):
                raise ExtractError("parse_args: default-command test does not consult two containers")
            hc = _str_list(it.elts[0])
            second = it.elts[1]
            if hc is None:
                raise ExtractError("parse_args: first container is not a list of strings")
            if not (isinstance(second, ast.Attribute) and isinstance(second.value, ast.Name)
                    and second.value.id == "self" and second.attr == "command_parsers"):
                raise ExtractError("parse_args: default-command test no longer consults self.command_parsers "
                                   "(the model and default_command_internal_name_refuted must be revised)")
            elt = g.elt
            if not (isinstance(elt, ast.Compare) and len(elt.ops) == 1 and isinstance(elt.ops[0], ast.NotIn)
                    and isinstance(elt.left, ast.Name) and elt.left.id == "first_arg"):
                raise ExtractError("parse_args: unrecognised membership test")
            if help_choices is not None:
                raise ExtractError("parse_args: several all(...) tests")
            help_choices = hc
        if isinstance(n, ast.Call) and isinstance(n.func, ast.Attribute) and n.func.attr == "append" \
                and isinstance(n.func.value, ast.Name) and n.func.value.id == "args" and len(n.args) == 1 \
                and isinstance(n.args[0], ast.Constant) and isinstance(n.args[0].value, str):
            appended = n.args[0].value
    if help_choices is None or appended is None:
        raise ExtractError("parse_args: default-command test / appended help option not found")
    # --- standard options
    mk = _find_method(ap, "_mk_std_args")
    verbose = color = no_color = None
    choices = default = None
    for n in ast.walk(mk):
        if isinstance(n, ast.Call) and isinstance(n.func, ast.Attribute) and n.func.attr == "add_argument":
            names = [a.value for a in n.args if isinstance(a, ast.Constant) and isinstance(a.value, str)]
            if len(names) != len(n.args):
                raise ExtractError("_mk_std_args: non literal option string")
            kw = {k.arg: k.value for k in n.keywords}
            action = kw.get("action")
            action = action.value if isinstance(action, ast.Constant) else None
            if action == "count":
                verbose = names
            elif action == "store_true":
                no_color = names
            elif "choices" in kw:
                color = names
                choices = _str_list(kw["choices"])
                dv = kw.get("default")
                default = dv.value if isinstance(dv, ast.Constant) and isinstance(dv.value, str) else None
                nargs = kw.get("nargs")
                if not (isinstance(nargs, ast.Constant) and nargs.value == "?") or "const" in kw:
                    raise ExtractError("_mk_std_args: --color is no longer nargs='?' without const")
            else:
                raise ExtractError("_mk_std_args: unrecognised standard argument")
    if not (verbose and len(verbose) == 2 and len(verbose[0]) == 2 and verbose[0][0] == "-" and verbose[0][1] != "-"
            and verbose[1].startswith("--")):
        raise ExtractError("_mk_std_args: verbosity option is not ('-x', '--long')")
    if not (color and len(color) == 1 and color[0].startswith("--") and choices and default is not None):
        raise ExtractError("_mk_std_args: colour option not recognised")
    if not (no_color and len(no_color) == 1 and no_color[0].startswith("--")):
        raise ExtractError("_mk_std_args: no-colour option not recognised")

    def L(strs):
        return "[" + "; ".join(SX.cstr(s) for s in strs) + "]"
    text = ("(* generated from ak/cli_tools.py by harness/props/c19.py -- do not edit *)\n"
            "From Coq Require Import ZArith List.\nImport ListNotations.\n"
            f"Definition reg_idempotent : bool := {SX.cbool(reg_idem)}.\n"
            f"Definition help_choices : list (list Z) := {L(help_choices)}.\n"
            f"Definition help_appended : list Z := {SX.cstr(appended)}.\n"
            f"Definition opt_verbose_short : list Z := {SX.cstr(verbose[0])}.\n"
            f"Definition opt_verbose_long : list Z := {SX.cstr(verbose[1])}.\n"
            f"Definition opt_color : list Z := {SX.cstr(color[0])}.\n"
            f"Definition opt_no_color : list Z := {SX.cstr(no_color[0])}.\n"
            f"Definition color_choices : list (list Z) := {L(choices)}.\n"
            f"Definition color_default : list Z := {SX.cstr(default)}.\n")
    return {"C19_Consts": text}


# ------------------------------------------------------------------ cases
# case = {"cfg": [no_log, no_log_file, help_if_no_args], "cmds": [decl strings], "default": str|None,
#         "ops": [[target|None, "flag"|"pos"|"val", name]], "argvs": [[str]], "shape": str}
#   flag: add_argument('--name', action='store_true'); pos: add_argument('name', nargs='*'); val: add_argument('--name')
STD_LONG = ["help", "verbose", "color", "no-color"]
COLOR_CHOICES = ["auto", "always", "yes", "1", "never", "no", "0"]
RESERVED = {"color", "command", "verbose", "no_color", "_no_log_file", "help"}


def _name(prefix, i):
    return prefix + "abcdefghijklmnopqrstuvwxyz"[i // 26 % 26] + "abcdefghijklmnopqrstuvwxyz"[i % 26]


def _graph(rng, shape, n):
    """-> list of (name, internal, [parents])"""
    names = []
    out = []
    for i in range(n):
        internal = rng.random() < (0.3 if shape != "noint" else 0.0)
        nm = _name("s" if internal else "c", i)
        if shape == "chain":
            ps = [names[-1]] if names else []
        elif shape == "forest":
            ps = [rng.choice(names)] if names and rng.random() < 0.7 else []
        elif shape == "diamond":
            # a, b:a, c:a, d:b,c , then more of the same on top
            if i == 0:
                ps = []
            elif i in (1, 2):
                ps = [names[0]]
            elif i == 3:
                ps = [names[1], names[2]]
            else:
                ps = rng.sample(names, min(len(names), rng.choice([1, 2, 2, 3])))
        elif shape == "dense":
            ps = [p for p in names if rng.random() < 0.6]
        elif shape == "shortcut":
            # names a parent and that parent's ancestor
            ps = names[-2:] if len(names) >= 2 else list(names)
        else:
            ps = [p for p in names if rng.random() < 0.3]
        names.append(nm)
        out.append((nm, internal, ps))
    if all(x[1] for x in out) and rng.random() < 0.9:
        nm, _, ps = out[0]
        out[0] = ("c" + nm[1:], False, ps)
        out = [(a, b, ["c" + p[1:] if p == nm else p for p in c]) for a, b, c in out]
    return out


def _render(rng, g, messy, shuffle=True):
    out = []
    for nm, internal, ps in g:
        s = ("!" if internal else "") + nm
        ps = list(ps)
        if shuffle:
            rng.shuffle(ps)
        if messy and ps and rng.random() < 0.3:
            ps.append(rng.choice(ps))          # duplicate reference
        chunks = []
        for p in ps:
            if messy:
                p = rng.choice(["", " ", "  ", "\t"]) + p + rng.choice(["", " ", "\u00a0", " \t"])
            chunks.append(p)
        if messy and rng.random() < 0.2:
            chunks.insert(rng.randrange(len(chunks) + 1), rng.choice(["", " ", "  "]))
        if chunks or (messy and rng.random() < 0.1):
            s += ":" + ",".join(chunks)
        out.append(s)
    return out


# --- names that contain / nearly equal one another (the model and the oracle compare names exactly) -------------------
_BASES = ["run", "out", "cmd1", "a", "ca", "log-file", "x_y", "Ab", "o", "v", "help", "color", "command", "st.d", "n0"]
NAME_PUNCT = ",.+@"


def _valid_name(s, pool):
    return (0 < len(s) <= 130 and s not in pool and s[0] not in "-!" and ":" not in s
            and all(c.isascii() and (c.isalnum() or c in "_-" + NAME_PUNCT) for c in s))


def _variant(rng, pool):
    src = [x for x in pool if len(x) <= 24]
    s = rng.choice(src)
    k = rng.randrange(15)
    if k == 0:
        return rng.choice(["dry-", "re", "std", "x", "_", "0", "no-"]) + s           # s becomes a suffix
    if k == 1:
        return s + rng.choice(["0", "1", "s", "-x", "_", "-", "2", "10"])            # ... a prefix
    if k == 2:
        return rng.choice(["x", "pre-", "_"]) + s + rng.choice(["y", "-post", "_"])  # ... an inner substring
    if k == 3:
        return s.swapcase()
    if k == 4:
        return s.upper() if s != s.upper() else s.lower()
    if k == 5:
        return s.replace("-", "_") if "-" in s else (s.replace("_", "-") if "_" in s.strip("_") else s + "-" + s)
    if k == 6:
        return s + s
    if k == 7:
        return s[:-1]
    if k == 8:
        return s[1:]
    if k == 9:
        return s + rng.choice(NAME_PUNCT)                                            # name + a separator character
    if k == 10:
        return rng.choice(src) + rng.choice([",", ",", "-", "_", "."]) + s           # the text of a parent list 'p,q'
    if k == 11:
        return s * (120 // len(s))                                                   # very long
    if k == 12:
        return s.capitalize() if s != s.capitalize() else s.title().swapcase()
    if k == 13:
        return s[::-1]
    return rng.choice(NAME_PUNCT.replace(",", "")) + s


def _collide(rng, g):
    """rename the nodes of g to a family of names with containment / near collisions; parents keep their (shuffled) order"""
    pool = [rng.choice(_BASES)]
    if rng.random() < 0.3:
        pool.append(rng.choice(_BASES))
        pool = list(dict.fromkeys(pool))
    tries = 0
    while len(pool) < len(g) and tries < 400:
        tries += 1
        v = _variant(rng, pool)
        if _valid_name(v, pool) and not (len(v) > 60 and any(len(x) > 60 for x in pool)):
            pool.append(v)
    while len(pool) < len(g):
        pool.append("zq%d" % len(pool))
    rng.shuffle(pool)
    ren = {old[0]: new for old, new in zip(g, pool)}
    out = []
    for nm, internal, ps in g:
        ps = [ren[p] for p in ps]
        rng.shuffle(ps)
        # a name with ',' cannot be referred to as a parent (the reference means two other names): mostly dropped
        ps = [p for p in ps if "," not in p or rng.random() < 0.15]
        out.append((ren[nm], internal, ps))
    # now and then an earlier parser whose NAME is the text of a later parent list ('p,q' next to p and q)
    cand = [i for i, x in enumerate(out) if len(x[2]) >= 2 and all("," not in p for p in x[2])]
    if cand and rng.random() < 0.3:
        i = rng.choice(cand)
        nm = ",".join(out[i][2])
        if nm not in [x[0] for x in out]:
            out.insert(rng.randrange(0, i + 1), (nm, rng.random() < 0.5, []))
    return out


def _rename_node(g, ops, old, new):
    g2 = [(new if a == old else a, b, [new if p == old else p for p in c]) for a, b, c in g]
    ops2 = [[new if o[0] == old else o[0], o[1], o[2]] for o in ops]
    return g2, ops2


def _argvs(rng, g, ops, default, big):
    keys = [x[0] for x in g]
    cmds = [x[0] for x in g if not x[1]]
    ints = [x[0] for x in g if x[1]]
    flags = list(dict.fromkeys(o[2] for o in ops if o[1] == "flag"))
    vals = list(dict.fromkeys(o[2] for o in ops if o[1] == "val"))
    av = []
    # every (parser name, option) pair
    for k in keys:
        for f in flags:
            av.append([k, "--" + f])
        for u in vals:
            av.append([k, "--" + u, rng.choice(["x", "w1", "never"])])
            if big or rng.random() < 0.5:
                av.append([k, "--" + u + "=" + rng.choice(["x", "zz"])])
    # a value option without its value, before an option, given twice, between words
    for u in vals:
        c = rng.choice(cmds) if cmds else keys[0]
        av.append([c, "--" + u])
        av.append([c, "--" + u, "--" + (rng.choice(flags) if flags else "color")])
        av.append([c, "--" + u, "x", "--" + u + "=zz"])
        av.append([c, "w1", "--" + u, "x", "zz"])
        av.append(["--" + u, "x"])
        av.append(["--" + u + "=x", "w1"])
    # standard options for every command
    for c in cmds:
        av.append([c])
        for s in (["--color", "--no-color", "-v", "--verbose", "--color=never"] if big or len(cmds) <= 4
                  else rng.sample(["--color", "--no-color", "-v", "--verbose", "--color=never", "-vv"], 3)):
            av.append([c, s])
    # default command
    av.append([])
    for f in flags:
        av.append(["--" + f])
    for s in ["--color", "--no-color", "-v", "-h", "--help"]:
        av.append([s])
    words = ["x", "w1", "never", "zz"] + cmds[:2]
    av.append(["x"])
    av.append(["w1", "x"])
    for i in ints:
        av.append([i])
        av.append([i, "x"])
        av.append(["x", i])
        if flags:
            av.append([i, "--" + rng.choice(flags)])
    # multi-token vectors of added flags and one block of words (theorems option_scope_vector / vector_namespace /
    # default_command_vector): for some commands, and without a command (default command)
    if flags:
        for c in rng.sample(cmds, min(len(cmds), 4 if big else 3)) + [None, None]:
            pre = rng.sample(flags, min(len(flags), rng.randrange(0, 4)))
            post = rng.sample(flags, min(len(flags), rng.randrange(0, 3)))
            blk = [rng.choice(["x", "w1", "zz"]) for _ in range(rng.choice([0, 0, 1, 2, 3]))]
            av.append(([c] if c else []) + ["--" + f for f in pre] + blk + ["--" + f for f in post])
    # random mixed vectors
    toks = [["--" + f] for f in flags] + [[t] for t in ["--color", "--color=always", "--color=bad", "--color=auto", "--no-color",
                                                        "-v", "-vv", "--verbose", "--oqq"]]
    toks += [["--" + u, "w1"] for u in vals] + [["--" + u + "=x"] for u in vals] + ([["--" + f + "=x"] for f in flags[:1]])
    for _ in range(10 if big else 6):
        v = []
        if rng.random() < 0.7 and keys:
            v.append(rng.choice(cmds or keys))
        pre = [t for _ in range(rng.randrange(0, 3)) for t in rng.choice(toks)]
        blk = [rng.choice(words) for _ in range(rng.choice([0, 0, 1, 2]))]
        post = [t for _ in range(rng.randrange(0, 3)) for t in rng.choice(toks)]
        tail = [rng.choice(words)] if rng.random() < 0.1 else []     # a second block: rejected
        vec = v + pre + blk + post + tail
        if "--no-color" in vec:
            # '--color=auto' next to '--no-color' depends on CPython string identity (value `is` default): not generated
            vec = ["--color=yes" if t == "--color=auto" else t for t in vec]
        av.append(vec)
    return av


def _mk_case(rng, shape, n, big, messy=False, collide=False):
    g = _graph(rng, shape, n)
    if collide:
        g = _collide(rng, g)
    keys = [x[0] for x in g]
    cmds = [x[0] for x in g if not x[1]]
    ops = []
    k = rng.randrange(1, 7)
    for i in range(k):
        r = rng.random()
        tgt = None if r < 0.2 else rng.choice(keys)
        ops.append([tgt, "flag", _name("o", rng.randrange(0, 26) * 26 + i)])
    # positionals: give the default command one most of the time
    if cmds and rng.random() < 0.6:
        ops.insert(rng.randrange(len(ops) + 1), [rng.choice([cmds[0], cmds[0], None] + keys), "pos", _name("p", 0)])
    if rng.random() < 0.2:
        ops.append([rng.choice(keys), "pos", _name("p", 1)])
    # options that take a value
    for i in range(rng.choice([0, 1, 1, 2])):
        ops.insert(rng.randrange(len(ops) + 1), [None if rng.random() < 0.15 else rng.choice(keys), "val", _name("u", rng.randrange(0, 26) * 26 + i)])
    # now and then an option string that is already in use, on a random target: ArgumentError iff the scopes meet
    # (theorem duplicate_option_conflict); the case then ends at that call
    if rng.random() < 0.12:
        fl = [o for o in ops if o[1] in ("flag", "val")]
        ops.append([None if rng.random() < 0.1 else rng.choice(keys), rng.choice(["flag", "flag", "val"]), rng.choice(fl)[2]])
    if collide and rng.random() < 0.18:
        # get_cmd_parser with a name that is only NEAR a declared one (prefix, other case, '-' for '_', ...): ValueError;
        # the case ends at this call, so it comes last
        for _ in range(20):
            near = _variant(rng, keys)
            if _valid_name(near, keys) and "," not in near:
                ops.append([near, rng.choice(["flag", "val"]), _name("o", 25 * 26 + 25)])
                break
    if collide and rng.random() < 0.35:
        # a parser named like an option without its dashes (or like a positional)
        keys0 = [x[0] for x in g]
        new = rng.choice(ops)[2]
        if new not in keys0:
            g, ops = _rename_node(g, ops, rng.choice(keys0), new)
        cmds = [x[0] for x in g if not x[1]]
    default = None
    r = rng.random()
    if r < 0.2 and cmds:
        default = rng.choice(cmds)
    cfg = [rng.random() < 0.1, rng.random() < 0.1, rng.random() < 0.08]
    return {"cfg": cfg, "cmds": _render(rng, g, messy, shuffle=not collide), "default": default, "ops": ops,
            "argvs": _argvs(rng, g, ops, default, big), "shape": shape + ("+names" if collide else "")}


def _malformed(rng):
    out = []

    def c(cmds, default=None, ops=(), argvs=(), cfg=(False, False, False)):
        out.append({"cfg": list(cfg), "cmds": list(cmds), "default": default, "ops": [list(o) for o in ops],
                    "argvs": [list(a) for a in argvs], "shape": "malformed"})
    c([])
    c(["ca", "ca"])
    c(["ca", "!ca"])
    c(["ca:cb", "cb"])
    c(["ca:ca"])
    c([""])
    c(["!"])
    c([":ca"])
    c(["ca ", "cb:ca"])
    c(["ca", "cb:ca:cc"])
    c(["ca", "cb: ca , ,ca,"], argvs=[["cb"], ["ca"]])
    c(["!!sa", "cb:!sa"])
    c(["ca", "cb:ca,cz"])
    c(["ca", "cb:ca", "cc:cb,ca,cd"])
    c(["ca", ":"])
    c(["ca", "cb:"], argvs=[["cb"]])
    # no command at all / bad default
    c(["!sa", "!sb:sa"], argvs=[[], ["sa"], ["x"], ["-h"], ["--color"]])
    c(["ca", "!sa"], default="sa", argvs=[[], ["sa"], ["x"], ["ca"]])
    c(["ca", "!sa"], default="zz", argvs=[[], ["sa"], ["x"], ["ca"], ["zz"]])
    c(["ca", "cb"], default="cb", argvs=[[], ["x"], ["ca"], ["cb"], ["--color"]])
    # conflicting option strings, unknown command in get_cmd_parser
    c(["ca", "cb:ca"], ops=[["cb", "flag", "oaa"], ["ca", "flag", "oaa"]], argvs=[["cb", "--oaa"]])
    c(["ca", "cb:ca"], ops=[["ca", "flag", "oaa"], ["cb", "flag", "oaa"]], argvs=[["cb", "--oaa"]])
    c(["ca", "cb:ca"], ops=[["ca", "flag", "oaa"], [None, "flag", "oaa"]])
    c(["ca", "cb"], ops=[["ca", "flag", "oaa"], ["cb", "flag", "oaa"]], argvs=[["ca", "--oaa"], ["cb", "--oaa"]])
    c(["ca", "cb"], ops=[["cq", "flag", "oaa"]])
    c(["ca", "cb"], ops=[[None, "flag", "color"]])
    c(["ca", "cb"], ops=[["ca", "flag", "verbose"]])
    c(["ca", "cb"], ops=[["ca", "flag", "verbose"]], cfg=(True, False, False), argvs=[["ca", "--verbose"], ["cb", "--verbose"], ["-v"]])
    c(["ca", "cb"], ops=[["ca", "flag", "help"]])
    c(["ca", "cb"], ops=[["ca", "flag", "no-color"]])
    # options that take a value: conflicts with flags and standard options, parsing corner cases
    c(["ca", "cb:ca"], ops=[["ca", "val", "uaa"], ["cb", "flag", "uaa"]])
    c(["ca", "cb:ca"], ops=[["cb", "flag", "uaa"], ["ca", "val", "uaa"]])
    c(["ca", "cb"], ops=[["ca", "val", "uaa"], ["cb", "flag", "uaa"]],
      argvs=[["ca", "--uaa", "x"], ["cb", "--uaa"], ["cb", "--uaa", "x"], ["ca", "--uaa"], ["ca", "--uaa=x"], ["cb", "--uaa=x"]])
    c(["ca", "cb"], ops=[[None, "val", "color"]])
    c(["ca", "cb"], ops=[["ca", "val", "verbose"]], cfg=(True, False, False), argvs=[["ca", "--verbose", "x"], ["cb", "--verbose", "x"]])
    c(["ca", "cb:ca", "!sa", "cc:sa"], ops=[["ca", "val", "uaa"], ["sa", "val", "ubb"], ["ca", "pos", "paa"], [None, "flag", "oaa"]],
      argvs=[["cb", "--uaa", "x"], ["cb", "--uaa=x"], ["cb", "--uaa"], ["cb", "--uaa", "--oaa"], ["cb", "--uaa", "-v"], ["cc", "--uaa", "x"],
             ["cc", "--ubb", "x"], ["cb", "--ubb", "x"], ["cb", "--uaa", "x", "--uaa", "y"], ["cb", "--uaa=x", "--uaa", "y"],
             ["cb", "w", "--uaa", "x"], ["cb", "--uaa", "x", "w", "z"], ["cb", "w", "--uaa", "x", "z"], ["--uaa", "x"], ["--uaa", "x", "w"],
             ["cb", "--uaa", "never", "--color", "never"], ["cb", "--color", "--uaa", "x"], ["cb", "--oaa=x"], ["cb", "--uaa=x=y"],
             ["cb", "--uaa", "cb"], ["sa", "--ubb", "x"], ["cc", "--ubb=x", "--oaa"]])
    # configuration switches
    c(["ca", "cb:ca"], cfg=(True, True, False), argvs=[[], ["-v"], ["cb", "--no-color"], ["cb", "--verbose"]])
    c(["ca", "cb:ca"], cfg=(False, False, True), argvs=[[], ["cb"], ["x"]])
    c(["ca", "cb:ca"], cfg=(False, True, True), ops=[["ca", "pos", "paa"]], argvs=[[], ["cb"], ["x"], ["cb", "x", "y"]])
    # colour option corner cases
    c(["ca"], ops=[["ca", "pos", "paa"]],
      argvs=[["--color", "x"], ["--color", "never", "x"], ["x", "--color"], ["x", "--color", "no"], ["--color", "--no-color"],
             ["--no-color", "--color"], ["--no-color", "--color=1"], ["--color=0", "--color=1"], ["--no-color", "--no-color"],
             ["x", "-v", "y"], ["-v", "x", "y", "-v"], ["--color=zz"], ["-vvv", "--verbose"]])
    return out


OPT_EVERY = 7
SHAPES = ["chain", "forest", "diamond", "dense", "shortcut", "random", "random", "diamond", "noint"]


def gen_cases(rng, tier):
    big = tier == "thorough"
    cases = []
    # fixed small ones first: the test-suite tree and the two diamonds of DESIGN section 7
    cases.append({"cfg": [False, False, False],
                  "cmds": ["cmd1", "!options", "cmd2:cmd1,options", "cmd3:cmd2", "cmd4:cmd1"], "default": None,
                  "ops": [["cmd1", "flag", "arg_c1_a1"], ["options", "flag", "arg_opt"], ["cmd2", "flag", "arg_c2_a2"]],
                  "argvs": [["cmd1"], ["options"], ["cmd2"], ["cmd3"], ["cmd4"], ["cmd4", "--arg_opt"], ["cmd3", "--arg_opt"],
                            ["cmd3", "--arg_c1_a1", "--arg_c2_a2"], ["cmd4", "--arg_c1_a1"], ["cmd4", "--arg_c2_a2"]],
                  "shape": "testsuite"})
    cases.append({"cfg": [False, False, False], "cmds": ["a", "b:a", "c:a", "d:b,c"], "default": None,
                  "ops": [["a", "flag", "oa"], ["b", "flag", "ob"], ["c", "flag", "xc"], ["d", "flag", "yd"]],
                  "argvs": [[k, "--" + o] for k in "abcd" for o in ["oa", "ob", "xc", "yd"]], "shape": "diamond"})
    cases.append({"cfg": [False, False, False], "cmds": ["a", "b:a", "c:a,b"], "default": None,
                  "ops": [["a", "flag", "oa"], ["b", "flag", "ob"], ["c", "flag", "xc"]],
                  "argvs": [[k, "--" + o] for k in "abc" for o in ["oa", "ob", "xc"]], "shape": "shortcut"})
    cases += _malformed(rng)
    n_graphs = 6000 if big else 420
    for i in range(n_graphs):
        shape = SHAPES[i % len(SHAPES)]
        n = rng.choice([1, 2, 3, 4, 4, 5, 5, 6, 7, 8, 9]) if shape != "diamond" else rng.choice([4, 4, 5, 6, 7, 9])
        cases.append(_mk_case(rng, shape, n, big, messy=rng.random() < 0.3, collide=rng.random() < 0.35))
        if i % OPT_EVERY == 0:
            cases[-1]["opt"] = True         # also run in a child interpreter with assert statements stripped (python -O)
    for c in cases[:3]:
        c["opt"] = True
    return cases


def search_cases(rng, tier):
    out = []
    for i in range(1500):
        shape = ["diamond", "dense", "shortcut", "random"][i % 4]
        out.append(_mk_case(rng, shape, rng.choice([3, 4, 5, 6, 8]), False, messy=rng.random() < 0.2, collide=i % 3 == 0))
        if i % 4 == 1 and i < 400:
            out[-1]["opt"] = True
    return out + _malformed(rng)


def kind(case):
    return case.get("shape", "?")


# ------------------------------------------------------------------ implementation
def _canon_val(v):
    if v is None:
        return [1]
    if isinstance(v, bool):
        return [2, 1 if v else 0]
    if isinstance(v, int):
        return [3, v]
    if isinstance(v, str):
        return [0, v]
    if isinstance(v, list) and all(isinstance(x, str) for x in v):
        return [4, list(v)]
    return [9]


def _exc(e):
    return SX.exc_name(e)


_CHILD = (
    "import sys, json, os\n"
    "assert_on = False\n"
    "try:\n"
    "    assert False\n"
    "except AssertionError:\n"
    "    assert_on = True\n"
    "from harness.props import c19\n"
    "import ak.cli_tools as m\n"
    "root = os.path.realpath(os.environ['VERIF_REPO'])\n"
    "case = json.load(sys.stdin)\n"
    "if assert_on or not os.path.realpath(m.__file__).startswith(root + os.sep):\n"
    "    out = {'__child__': 'not -O or ak not from the repo'}\n"
    "else:\n"
    "    out = c19._impl_run_plain(case)\n"
    "sys.stdout.write(json.dumps(out))\n")


def impl_run(case):
    obs = _impl_run_plain(case)
    if case.get("opt") and _wellformed(_parsed_names(case)) and case["cmds"]:
        # the same case in a child interpreter that strips assert statements (python -O): for declarations that violate no
        # assertion the observation must be the same (oracle clause optimize-mode)
        import json
        import subprocess
        import sys
        try:
            r = subprocess.run([sys.executable, "-O", "-c", _CHILD], input=json.dumps(dict(case, opt=False)), text=True,
                               stdout=subprocess.PIPE, stderr=subprocess.PIPE, timeout=IMPL_TIMEOUT - 5)
            obs["O"] = json.loads(r.stdout) if r.returncode == 0 else {"__child__": "rc %d: %s" % (r.returncode, r.stderr[-300:])}
        except subprocess.TimeoutExpired:
            obs["O"] = {"__child__": "timeout"}
    return obs


def _impl_run_plain(case):
    import contextlib
    import io
    from ak.cli_tools import ArgParser
    cfg = case["cfg"]
    sink_o, sink_e = io.StringIO(), io.StringIO()

    def parse(p, argv):
        sink_o.seek(0), sink_o.truncate(0), sink_e.seek(0), sink_e.truncate(0)
        try:
            with contextlib.redirect_stdout(sink_o), contextlib.redirect_stderr(sink_e):
                ns = p.parse_args(list(argv))
        except SystemExit:
            return ["err", "SystemExit"]
        except Exception as e:  # noqa  (Hang is a BaseException and passes through)
            return ["err", _exc(e)]
        return ["ok", sorted([k, _canon_val(v)] for k, v in vars(ns).items())]
    try:
        p = ArgParser([(c, "help text") for c in case["cmds"]], case["default"],
                      _no_log=cfg[0], _no_log_file=cfg[1], _help_if_no_args=cfg[2], description="d")
    except Exception as e:  # noqa
        return {"ctor": ["err", _exc(e)]}
    obs = {"ctor": ["ok"], "keys": list(p.command_parsers.keys()), "default": p.default_command}
    for i, (tgt, k, name) in enumerate(case["ops"]):
        try:
            target = p if tgt is None else p.get_cmd_parser(tgt)
            if k == "flag":
                target.add_argument("--" + name, action="store_true", help="h")
            elif k == "val":
                target.add_argument("--" + name, help="h")
            elif k == "pos":
                target.add_argument(name, nargs="*", help="h")
            else:
                raise RuntimeError("unknown option kind in the case")
        except Exception as e:  # noqa
            obs["ops"] = ["err", _exc(e), i]
            return obs
    obs["ops"] = ["ok"]
    obs["parses"] = [parse(p, a) for a in case["argvs"]]
    # for the oracle: the same vectors with the default command written out
    # the default command as the documentation defines it (given, or the first command), not as the code computed it
    cmds = [n for n, i, _ in _parsed_names(case) if not i]
    d = case["default"] if case["default"] is not None else (cmds[0] if cmds else None)
    obs["alt"] = [parse(p, [d] + list(a)) if isinstance(d, str) and (not a or a[0] not in cmds) else None
                  for a in case["argvs"]]
    return obs


# ------------------------------------------------------------------ model side
CODES = {"ValueError": 1, "AssertionError": 4, "AttributeError": 5, "ArgumentError": 20, "SystemExit": 21}


def _code(name):
    return CODES.get(name, 99)


def _cstrs(strs):
    strs = list(strs)
    if not strs:
        return "(@nil (list Z))"
    return "[" + "; ".join(SX.cstr(s) for s in strs) + "]"


def coq_case(case, obs):
    cfg = case["cfg"]
    ops = []
    for tgt, k, name in case["ops"]:
        t = "TGlobal" if tgt is None else f"TCmd {SX.cstr(tgt)}"
        ops.append(f"({t}, {dict(flag='KFlag', pos='KPos', val='KVal')[k]}, {SX.cstr(name)})")
    ops_t = "[" + "; ".join(ops) + "]" if ops else "(@nil (target * okind * list Z))"
    av = "[" + "; ".join(_cstrs(a) for a in case["argvs"]) + "]" if case["argvs"] else "(@nil (list (list Z)))"
    return (f"Case (mkCfg {SX.cbool(cfg[0])} {SX.cbool(cfg[1])} {SX.cbool(cfg[2])}) {_cstrs(case['cmds'])} "
            f"{SX.copt(case['default'], SX.cstr)} {ops_t} {av}")


HASH_MOD = 2147483647
HASH_MUL = 1000003


def _hash_sx(x, h=0):
    """mirror of Run.v hash_sx on the canonical encoding"""
    if isinstance(x, bool):
        x = 1 if x else 0
    if isinstance(x, int):
        return (h * HASH_MUL + x + 7) % HASH_MOD
    if isinstance(x, str):
        x = [ord(c) for c in x]
    h = (h * HASH_MUL + 1) % HASH_MOD
    for e in x:
        h = _hash_sx(e, h)
    return (h * HASH_MUL + 2) % HASH_MOD


def _sx_parse(r):
    if r[0] == "err":
        return [1, _code(r[1])]
    return [0, _hash_sx([[k, v] for k, v in r[1]])]


def expected_sx(case, obs):
    if obs["ctor"][0] == "err":
        return SX.dumps([1, _code(obs["ctor"][1])])
    if obs["ops"][0] == "err":
        tail = [1, _code(obs["ops"][1]), obs["ops"][2]]
    else:
        tail = [0, [_sx_parse(r) for r in obs["parses"]]]
    d = obs["default"]
    return SX.dumps([0, list(obs["keys"]), SX.opt(d) if (d is None or isinstance(d, str)) else [[9]], tail])


def _safe_word(s):
    return isinstance(s, str) and s != "" and all(c.isascii() and (c.isalnum() or c in "_-") for c in s) and not s.startswith("-")


def _safe_name(s):
    """command / parser names and plain words: argparse classifies a token by its first character only"""
    return isinstance(s, str) and s != "" and all(c.isascii() and (c.isalnum() or c in "_-" + NAME_PUNCT) for c in s) \
        and not s.startswith("-")


def _parsed_names(case):
    """names as the declaration syntax of the docstring defines them: '!name:parent,parent'"""
    out = []
    for c in case["cmds"]:
        head, _, tail = c.partition(":")
        internal = head.startswith("!")
        name = head[1:] if internal else head
        parents = []
        for p in tail.split(","):
            p = p.strip()
            if p and p not in parents:
                parents.append(p)
        out.append((name, internal, parents))
    return out


def in_model(case, obs):
    if "__hang__" in obs:
        return False
    if not case["argvs"]:
        return all(isinstance(o[2], str) and _safe_word(o[2]) for o in case["ops"])
    names = [n for n, _, _ in _parsed_names(case)]
    if not all(_safe_name(n) for n in names):
        return False
    if case["default"] is not None and not _safe_name(case["default"]):
        return False
    optnames = [o[2] for o in case["ops"]]
    reserved = RESERVED - ({"verbose"} if case["cfg"][0] else set())
    if not all(_safe_word(o) and "-" not in o and o not in reserved for o in optnames):
        return False
    if any(o[1] not in ("flag", "pos", "val") for o in case["ops"]):
        return False
    poss = [o[2] for o in case["ops"] if o[1] == "pos"]
    if len(set(poss)) != len(poss) or set(poss) & {o[2] for o in case["ops"] if o[1] != "pos"}:
        return False
    if any("-" in p for p in poss):
        return False
    valnames = {o[2] for o in case["ops"] if o[1] == "val"}
    longs = set(STD_LONG) | {o[2] for o in case["ops"] if o[1] != "pos"}
    for a in case["argvs"]:
        has_no_color = "--no-color" in a
        for i, t in enumerate(a):
            if not isinstance(t, str):
                return False
            if not t.startswith("-"):
                if not _safe_name(t):
                    return False
                if t == "auto" and has_no_color:
                    return False
                continue
            if t in ("-h", "--help", "--color", "--no-color", "--verbose"):
                continue
            if t.startswith("-") and not t.startswith("--"):
                if len(t) >= 2 and set(t[1:]) == {"v"}:
                    continue
                return False
            if t.startswith("--color="):
                v = t[len("--color="):]
                if not _safe_word(v) or (v == "auto" and has_no_color):
                    return False
                continue
            body, eq, val = t[2:].partition("=")
            if not _safe_word(body):
                return False
            if eq and not (val == "" or all(c.isascii() and (c.isalnum() or c in "_-=") for c in val)):
                return False
            # argparse abbreviations: the token must not be a proper prefix of a known long option
            if any(l != body and l.startswith(body) for l in longs):
                return False
    return True


# ------------------------------------------------------------------ oracle (statement, independently)
def _wellformed(decls):
    seen = []
    for name, _, parents in decls:
        if not name or name in seen or any(p not in seen for p in parents):
            return False
        seen.append(name)
    return True


def _ancestors(decls):
    """name -> set of transitive parents (the declared graph, nothing of the implementation)"""
    anc = {}
    for name, _, parents in decls:
        s = set(parents)
        for p in parents:
            s |= anc[p]
        anc[name] = s
    return anc


def _scope(declared, anc, tgt):
    """names of the parsers an add_argument call on tgt (None = the ArgParser) must reach"""
    if tgt is None:
        return set(declared)
    return {c for c in declared if c == tgt or tgt in anc[c]}


def _has_shared_ancestor(decls):
    anc = _ancestors(decls)
    for name, _, parents in decls:
        for i, p in enumerate(parents):
            up = anc[p] | {p}
            for q in parents[i + 1:]:
                if up & (anc[q] | {q}):
                    return True
    return False


def oracle(case, obs):
    if "__hang__" in obs:
        return [("hang", "call did not return")]
    out = []
    decls = _parsed_names(case)
    wf = bool(case["cmds"]) and _wellformed(decls)
    if wf and "O" in obs:
        o2 = obs["O"]
        mine = {k: v for k, v in obs.items() if k != "O"}
        if "__child__" in o2:
            out.append(("optimize-mode", f"the run under python -O failed: {o2['__child__']}"))
        elif o2 != mine:
            diff = [k for k in sorted(set(o2) | set(mine)) if o2.get(k) != mine.get(k)]
            where = ""
            if "parses" in diff and isinstance(o2.get("parses"), list) and isinstance(mine.get("parses"), list):
                j = next((j for j, (x, y) in enumerate(zip(mine["parses"], o2["parses"])) if x != y), None)
                if j is not None:
                    where = f"; parse_args({case['argvs'][j]!r}) gives {_short(mine['parses'][j])} but under -O {_short(o2['parses'][j])}"
            out.append(("optimize-mode", f"ArgParser(commands={case['cmds']!r}): every declaration is well formed (no assertion fires), yet "
                                         f"with assert statements stripped (python -O) the observation differs in {diff!r}{where}"))
    if obs["ctor"][0] == "err":
        if wf:
            sig = "diamond-assertion" if (obs["ctor"][1] == "AssertionError" and _has_shared_ancestor(decls)) else "declare-raises"
            out.append((sig, f"ArgParser(commands={case['cmds']!r}) raised {obs['ctor'][1]} although every parent refers to an earlier command"))
        return out
    if not wf:
        return out          # the property quantifies over acyclic declarations with parents declared earlier
    if obs["ops"][0] == "err":
        # an option with a new name, added to a declared parser or to the ArgParser itself, must be accepted
        i = obs["ops"][2]
        tgt, k, name = case["ops"][i]
        names_all = [o[2] for o in case["ops"]]
        std = {"help", "color", "no-color"} | (set() if case["cfg"][0] else {"verbose"})
        declared = [n for n, _, _ in decls]
        if names_all.count(name) == 1 and _safe_word(name) and name not in std and (tgt is None or tgt in declared):
            out.append(("add-argument-raises", f"add_argument of the new option {name!r} on {tgt or 'the ArgParser'!r} raised {obs['ops'][1]}"))
        elif k in ("flag", "val") and _safe_word(name) and name not in std and (tgt is None or tgt in declared) and \
                all(o[1] in ("flag", "val") and (o[0] is None or o[0] in declared) for o in case["ops"][:i] if o[2] == name):
            # the same option string was added before: a conflict is legitimate only if some parser is in scope of both calls
            anc0 = _ancestors(decls)
            mine = _scope(declared, anc0, tgt)
            if not any(mine & _scope(declared, anc0, o[0]) for o in case["ops"][:i] if o[2] == name):
                out.append(("add-argument-raises",
                            f"add_argument of {name!r} on {tgt or 'the ArgParser'!r} raised {obs['ops'][1]} although no parser is in scope "
                            f"of this call and of an earlier call that added {name!r} (the option leaked into an unrelated parser)"))
        return out          # otherwise a genuinely duplicated option string etc.: outside the quantifier
    if not in_model(case, obs):
        return out
    anc = _ancestors(decls)
    declared = [n for n, _, _ in decls]
    # every call returned: two calls that added the same option string must have disjoint scopes, otherwise the
    # second one did not reach a parser it had to reach (argparse would have refused the duplicate there)
    for i, (tgt, k, name) in enumerate(case["ops"]):
        if k not in ("flag", "val"):
            continue
        for tgt0, k0, name0 in case["ops"][:i]:
            if k0 in ("flag", "val") and name0 == name and _scope(declared, anc, tgt) & _scope(declared, anc, tgt0):
                out.append(("option-not-inherited",
                            f"{name!r} was added on {tgt0 or 'the ArgParser'!r} and again on {tgt or 'the ArgParser'!r} without a conflict "
                            f"although both calls must reach {sorted(_scope(declared, anc, tgt) & _scope(declared, anc, tgt0))[0]!r}"))
    internal = {n for n, i, _ in decls if i}
    commands = [n for n, i, _ in decls if not i]
    flags = {}
    vals = {}
    for tgt, k, name in case["ops"]:
        if k == "flag":
            flags.setdefault(name, []).append(tgt)
        elif k == "val":
            vals.setdefault(name, []).append(tgt)
    for name in set(flags) & set(vals):       # one option string, two kinds (on unrelated parsers): not judged by name
        del flags[name], vals[name]
    no_log = case["cfg"][0]
    default = case["default"] if case["default"] is not None else (commands[0] if commands else None)
    for argv, r, alt in zip(case["argvs"], obs["parses"], obs["alt"]):
        accepted = r[0] == "ok"
        if len(argv) == 2 and argv[0] in commands and argv[1].startswith("--") and argv[1][2:] in flags:
            o = argv[1][2:]
            tgts = flags[o]
            want = any(tgt is None or tgt == argv[0] or tgt in anc[argv[0]] for tgt in tgts)
            if want and not accepted:
                out.append(("option-not-inherited", f"{argv!r}: option added to {tgts!r} (None = the ArgParser) is rejected ({r[1]}) by {argv[0]}"))
            if not want and accepted:
                out.append(("option-leaks", f"{argv!r}: option added to {tgts!r} is accepted by {argv[0]}, which does not descend from any of them"))
            if accepted and dict((k, v) for k, v in r[1]).get("command") != [0, argv[0]]:
                out.append(("wrong-command", f"{argv!r}: namespace.command is not {argv[0]!r}"))
        # an option that takes a value: 'cmd --u VALUE' and 'cmd --u=VALUE'
        vtok = None
        if len(argv) == 3 and argv[0] in commands and argv[1].startswith("--") and argv[1][2:] in vals and _safe_word(argv[2]):
            vtok = (argv[1][2:], argv[2])
        elif len(argv) == 2 and argv[0] in commands and argv[1].startswith("--") and "=" in argv[1] and \
                argv[1][2:].partition("=")[0] in vals:
            vtok = (argv[1][2:].partition("=")[0], argv[1][2:].partition("=")[2])
        if vtok is not None:
            u, value = vtok
            want = any(tgt is None or tgt == argv[0] or tgt in anc[argv[0]] for tgt in vals[u])
            if want and not accepted:
                out.append(("option-not-inherited", f"{argv!r}: option added to {vals[u]!r} (None = the ArgParser) is rejected ({r[1]}) by {argv[0]}"))
            if not want and accepted:
                out.append(("option-leaks", f"{argv!r}: option added to {vals[u]!r} is accepted by {argv[0]}, which does not descend from any of them"))
            if want and accepted:
                nsd = dict((k, v) for k, v in r[1])
                if nsd.get(u) != [0, value]:
                    out.append(("namespace-value", f"{argv!r}: namespace.{u} is {nsd.get(u)!r}, expected {value!r}"))
                if nsd.get("command") != [0, argv[0]]:
                    out.append(("wrong-command", f"{argv!r}: namespace.command is not {argv[0]!r}"))
        if len(argv) > 2 and argv[0] in commands and vtok is None:
            # several added flags and one block of words: accepted iff EVERY flag is in scope of the command and, when there
            # are words, some nargs='*' positional is; the namespace has every flag in scope (True iff given) and the words
            toks = argv[1:]
            wpos = [i for i, t in enumerate(toks) if not t.startswith("-")]
            if all((t.startswith("--") and t[2:] in flags) or not t.startswith("-") for t in toks) and \
                    (not wpos or wpos[-1] - wpos[0] + 1 == len(wpos)):
                def in_sc(tgts, c=argv[0]):
                    return any(tgt is None or tgt == c or tgt in anc[c] for tgt in tgts)
                given = [t[2:] for t in toks if t.startswith("--")]
                words = [toks[i] for i in wpos]
                pos_in = [name for tgt, k, name in case["ops"] if k == "pos" and in_sc([tgt])]
                bad = [f for f in given if not in_sc(flags[f])]
                if accepted and bad:
                    out.append(("option-leaks", f"{argv!r}: accepted although {bad!r} were added to {[flags[f] for f in bad]!r}, none an ancestor of {argv[0]}"))
                elif accepted and words and not pos_in:
                    out.append(("option-leaks", f"{argv!r}: the words are accepted although no positional is in scope of {argv[0]}"))
                elif not accepted and not bad and (not words or pos_in):
                    out.append(("option-not-inherited", f"{argv!r}: rejected ({r[1]}) although every option is in scope of {argv[0]}"))
                elif accepted:
                    nsd = dict((k, v) for k, v in r[1])
                    for f, tgts in flags.items():
                        if in_sc(tgts) and nsd.get(f) != [2, 1 if f in given else 0]:
                            out.append(("namespace-flag", f"{argv!r}: namespace.{f} is {nsd.get(f)!r}, expected {f in given}"))
                        if not in_sc(tgts) and f in nsd:
                            out.append(("option-leaks", f"{argv!r}: namespace has {f!r}, which is not in scope of {argv[0]}"))
                    for u, tgts in vals.items():
                        if in_sc(tgts) and nsd.get(u) != [1]:
                            out.append(("namespace-value", f"{argv!r}: namespace.{u} is {nsd.get(u)!r}, expected None"))
                        if not in_sc(tgts) and u in nsd:
                            out.append(("option-leaks", f"{argv!r}: namespace has {u!r}, which is not in scope of {argv[0]}"))
                    for j, pn in enumerate(pos_in):
                        if nsd.get(pn) != [4, words if j == 0 else []]:
                            out.append(("namespace-positional", f"{argv!r}: namespace.{pn} is {nsd.get(pn)!r}"))
                    if nsd.get("command") != [0, argv[0]]:
                        out.append(("wrong-command", f"{argv!r}: namespace.command is not {argv[0]!r}"))
        if len(argv) == 2 and argv[0] in commands and argv[1] in ("--color", "--no-color", "--color=never") and not accepted:
            out.append(("std-option-rejected", f"{argv!r} rejected with {r[1]}"))
        if len(argv) == 2 and argv[0] in commands and argv[1] in ("-v", "--verbose") and not no_log and not accepted:
            out.append(("std-option-rejected", f"{argv!r} rejected with {r[1]}"))
        # default command
        first = argv[0] if argv else None
        if default in commands and first not in commands and first not in ("-h", "--help") \
                and not (not argv and case["cfg"][2]) and alt is not None:
            if r != alt:
                if first in internal:
                    out.append(("default-internal-set-name",
                                f"parse_args({argv!r}) gave {_short(r)} but parse_args({[default] + argv!r}) gave {_short(alt)}: "
                                f"{first!r} is an internal option set, not a command"))
                else:
                    out.append(("default-command", f"parse_args({argv!r}) gave {_short(r)} but parse_args({[default] + argv!r}) gave {_short(alt)}"))
    # at most one report per signature and case
    seen = set()
    uniq = []
    for s, m in out:
        if s not in seen:
            seen.add(s)
            uniq.append((s, m))
    return uniq


def _short(r):
    if r[0] == "err":
        return r[1]
    return "Namespace(" + ", ".join(f"{k}={v[1:]}" for k, v in r[1]) + ")"


def nontrivial(case, obs):
    if "__hang__" in obs or obs["ctor"][0] != "ok":
        return False
    return any(p for _, _, p in _parsed_names(case)) and bool(case["ops"]) and bool(case["argvs"])


def outcome(case, obs):
    if "__hang__" in obs:
        return "hang"
    if obs["ctor"][0] == "err":
        return "ctor:" + obs["ctor"][1]
    if obs["ops"][0] == "err":
        return "add:" + obs["ops"][1]
    return "parsed"


def shrink_candidates(case):
    # fewer argument vectors, fewer options, fewer trailing declarations
    av = case["argvs"]
    if len(av) > 1:
        half = len(av) // 2
        yield dict(case, argvs=av[:half])
        yield dict(case, argvs=av[half:])
        for i in range(min(len(av), 12)):
            yield dict(case, argvs=av[:i] + av[i + 1:])
    for i in range(len(case["ops"])):
        yield dict(case, ops=case["ops"][:i] + case["ops"][i + 1:])
    if len(case["cmds"]) > 1:
        yield dict(case, cmds=case["cmds"][:-1])


def extra_coverage():
    return {"parses_note": "every case parses 20-150 argument vectors; see distribution.outcomes"}


TECHNIQUE = ("Coq proof (induction over the declaration list with a closed form of the eager registration, induction over the "
             "add_argument sequence) on a hand-written Gallina model + per-run correspondence check against the real "
             "ArgParser/argparse + code shape and literals regenerated from the source")
LEVEL_TEXT = ("Full (model level, unbounded declaration lists / option lists / argument vectors): declare_never_fails (wf <-> the "
              "declarations are accepted; every acyclic order incl. diamonds), declare_fails_only_by_assertion, "
              "constructor_never_fails / constructor_accepts_rendered / declaration_syntax (string syntax), "
              "dependents_are_descendants (dependents = transitive descendants, each once), option_scope_state (flags, value "
              "options and positionals: parser c holds o iff the adding call is in scope of c) and option_scope (an added flag "
              "is accepted by command d iff it was added to the ArgParser, to d or to a transitive parent of d), "
              "option_scope_vector + vector_namespace (multi-token vectors '--f.. w.. --g..': accepted iff EVERY flag is in "
              "scope and, with words, a positional is; the namespace has exactly the flags in scope, True iff given, the words "
              "in the first positional in scope, the value options in scope at None), value_option_scope ('d --u VALUE' and "
              "'d --u=VALUE' accepted iff in scope; namespace holds VALUE), add_argument_exceptions / "
              "get_cmd_parser_unknown_name (only ValueError for an unknown name and ArgumentError), duplicate_option_conflict "
              "(re-adding an option string, as flag or value option, raises ArgumentError iff the scopes of the two calls meet, "
              "otherwise returns), std_option_conflict, std_options_everywhere, default_is_first_command, default_command + "
              "default_command_subparse under the explicit guard 'first argument is not the name of any declared parser', "
              "default_command_vector (the default command on multi-token vectors: acceptance, command, words to its positional). "
              " Refuted: default_command_statement (the property's own wording) by default_command_internal_name_refuted -- "
              "open finding default-internal-set-name, now delimited exactly: default_command_without_positional (the wording "
              "HOLDS for every default command without a positional) and default_internal_name_disagrees (it FAILS for every "
              "default command with a nargs='*' positional and every internal set name).  Partial in this sense: argparse is a "
              "universally quantified function constrained by sub_spec / sub_spec_vec (the vector shapes listed in TRUSTED_BASE); "
              "the stand-in mini_sub is proved to meet both (argparse_model_meets_spec, argparse_model_meets_vector_spec) and is "
              "compared with the real argparse on every run; vectors outside those shapes (standard options mixed with added "
              "ones, value options inside longer vectors, repeated blocks), single-command mode and help output are tested by "
              "the correspondence only / not claimed.")
LEVEL_NOTE = ("Trusted: Coq kernel + vm_compute; fidelity of the hand model (checked by correspondence, not proved); argparse "
              "(abstracted as sub_spec, concrete stand-in compared per run); the ast extractor and the harness.")
DESIGN_REF = "DESIGN.md section 8, C19"
