(* C06/Inv3.v -- invariants of the two nested traversals, part 3: the outer DFS
   (RGraph._read_branch) reduces the commit graph faithfully.
   - [fr s c]: what the three per-repository caches (done / visited / selected) say about
     commit c: the list of its nearest RCommits ("front"), [None] when c is not classified;
   - [finish_fr], [finish_cases]: the effect of registering one commit, field by field;
   - [visit_ind]: an induction principle for the outer DFS on acyclic histories (enough
     fuel, every parent classified before its child, the rc_parents of a commit are the
     union of the fronts of its parents, classified commits are never re-examined);
   - [GI]: the reduction invariant: the RCommit graph is sound and complete for
     reachability between classified commits and RCommits. *)
From Coq Require Import ZArith List Bool Lia Arith Sorting.Permutation.
From AK Require Import Common.Sx Common.Err gen.C06_Consts C06.Model C06.Lemmas C06.Inv C06.Spec C06.Inv2.
Import ListNotations.
Open Scope nat_scope.

Definition cid (s : state) (i : nat) : nat := rc_cid (rc_get s i).
Definition rpar (s : state) (i : nat) : list nat := rc_parents (rc_get s i).

(* ------------------------------------------------------------------ *)
(* the caches as one partial function                                   *)

Definition fr (s : state) (c : nat) : option (list nat) :=
  if nmem c (s_done s) then Some []
  else match alookup c (s_visited s) with
       | Some rcs => Some rcs
       | None => match alookup c (s_selected s) with Some i => Some [i] | None => None end
       end.

Lemma cached_fr s c : cached s c = true <-> exists l, fr s c = Some l.
Proof.
  unfold cached, fr, ahas. destruct (nmem c (s_done s)); cbn [orb]; [split; eauto|].
  destruct (alookup c (s_visited s)); cbn [orb]; [split; eauto|].
  destruct (alookup c (s_selected s)); cbn; split; eauto; try discriminate. intros [l H]; discriminate.
Qed.

Lemma cached_false_fr s c : cached s c = false <-> fr s c = None.
Proof.
  pose proof (cached_fr s c) as H. destruct (cached s c); split; intros E; try discriminate; try reflexivity.
  - destruct (proj1 H eq_refl) as [l Hl]. congruence.
  - destruct (fr s c) eqn:F; [|reflexivity]. assert (false = true) by (apply H; eauto). discriminate.
Qed.

Lemma fr_eq s s' c :
  s_done s' = s_done s -> s_visited s' = s_visited s -> s_selected s' = s_selected s -> fr s' c = fr s c.
Proof. unfold fr. intros -> -> ->. reflexivity. Qed.

Lemma fold_add_uniq_in x l a : In x (fold_left (fun acc i => add_uniq i acc) l a) <-> In x a \/ In x l.
Proof.
  revert a. induction l as [|y l IH]; intros a; cbn [fold_left In]; [tauto|]. rewrite IH, add_uniq_in. intuition.
Qed.

Lemma add_cached_in s p rcps x :
  In x (add_cached s p rcps) <-> In x rcps \/ exists l, fr s p = Some l /\ In x l.
Proof.
  unfold add_cached, fr. destruct (nmem p (s_done s)).
  - split; [auto|]. intros [H|(l & [= <-] & [])]. exact H.
  - destruct (alookup p (s_visited s)) as [rcs|].
    + rewrite fold_add_uniq_in. split.
      * intros [H|H]; [auto|right; eauto].
      * intros [H|(l & [= <-] & H)]; auto.
    + destruct (alookup p (s_selected s)) as [i|].
      * rewrite in_app_iff. split.
        -- intros [H|[<-|[]]]; [auto|right; exists [i]; split; [reflexivity|left; reflexivity]].
        -- intros [H|(l & [= <-] & [<-|[]])]; auto. right. left. reflexivity.
      * split; [auto|]. intros [H|(l & E & _)]; [exact H|discriminate].
Qed.

(* the list of RCommits only grows, at the end *)
Definition pre (s s' : state) : Prop := exists l, s_rcommits s' = s_rcommits s ++ l.

Lemma pre_refl s : pre s s.
Proof. exists []. rewrite app_nil_r. reflexivity. Qed.

Lemma pre_trans s1 s2 s3 : pre s1 s2 -> pre s2 s3 -> pre s1 s3.
Proof. intros [l1 E1] [l2 E2]. exists (l1 ++ l2). rewrite E2, E1, app_assoc. reflexivity. Qed.

Lemma pre_eq s s' : s_rcommits s' = s_rcommits s -> pre s s'.
Proof. intros E. exists []. rewrite app_nil_r. exact E. Qed.

Lemma pre_len s s' : pre s s' -> len s <= len s'.
Proof. intros [l E]. unfold len. rewrite E, app_length. lia. Qed.

Lemma pre_get s s' i : pre s s' -> i < len s -> rc_get s' i = rc_get s i.
Proof. intros [l E] H. unfold rc_get. rewrite E. apply app_nth1. exact H. Qed.

(* ------------------------------------------------------------------ *)
(* the effect of [finish] on the caches and on the list of RCommits     *)

Lemma nmem_cons_ne c' c l : c' <> c -> nmem c' (c :: l) = nmem c' l.
Proof. intros N. unfold nmem. cbn [existsb]. destruct (Nat.eqb_spec c' c); [contradiction|reflexivity]. Qed.

Lemma fr_add_done s c c' : fr (add_done s c) c' = if Nat.eqb c' c then Some [] else fr s c'.
Proof.
  unfold fr. cbn [add_done s_done s_visited s_selected]. destruct (Nat.eqb_spec c' c) as [->|N].
  - unfold nmem. cbn [existsb]. rewrite Nat.eqb_refl. reflexivity.
  - rewrite nmem_cons_ne by exact N. reflexivity.
Qed.

Lemma fr_add_visited s c rcps c' :
  fr s c = None -> fr (add_visited s c rcps) c' = if Nat.eqb c' c then Some rcps else fr s c'.
Proof.
  intros Hn. unfold fr in *. cbn [add_visited s_done s_visited s_selected alookup].
  destruct (Nat.eqb_spec c' c) as [->|N]; [|reflexivity].
  destruct (nmem c (s_done s)); [discriminate|reflexivity].
Qed.

Lemma fr_add_rcommit s rc c' :
  fr s (rc_cid rc) = None ->
  fr (add_rcommit s rc) c' = if Nat.eqb c' (rc_cid rc) then Some [len s] else fr s c'.
Proof.
  intros Hn. unfold fr in *. cbn [add_rcommit s_done s_visited s_selected alookup].
  destruct (Nat.eqb_spec c' (rc_cid rc)) as [->|N]; [|reflexivity].
  destruct (nmem (rc_cid rc) (s_done s)); [discriminate|].
  destruct (alookup (rc_cid rc) (s_visited s)); [discriminate|]. reflexivity.
Qed.

Definition bh (h : history) (head c : nat) : bool := nonempty (c_tags (get_commit h c)) || (c =? head).

(* the four things [finish] can do *)
Definition fin_none (h : history) (head : nat) (s : state) (c : nat) (rcps : list nat) (s' : state) : Prop :=
  (bh h head c = false \/ rcps = []) /\ matches h c = false /\
  s_rcommits s' = s_rcommits s /\ s_bparents s' = s_bparents s /\ s_anc s' = s_anc s /\
  s_rbuilds s' = s_rbuilds s /\ s_brcommits s' = s_brcommits s /\ s_prev_builds s' = s_prev_builds s /\
  s_hang s' = s_hang s.

Definition fin_rc (h : history) (head : nat) (s : state) (c : nat) (rcps : list nat) (s' : state) : Prop :=
  bh h head c = false /\ matches h c = true /\ s' = add_rcommit s (mkRC c rcps true []).

Definition fin_bh (h : history) (head : nat) (s : state) (c : nat) (rcps : list nat) (s' : state) : Prop :=
  bh h head c = true /\ matches h c = false /\ rcps <> [] /\
  exists bp hrb hg, find_new s rcps = (bp, [], hrb, hg) /\
  s_rcommits s' = s_rcommits s /\ s_bparents s' = bp /\ s_anc s' = s_anc s /\
  s_rbuilds s' = s_rbuilds s /\ s_brcommits s' = s_brcommits s /\ s_prev_builds s' = s_prev_builds s /\
  s_hang s' = s_hang s || hg.

Definition fin_build (h : history) (head : nat) (s : state) (c : nat) (rcps : list nat) (s' : state) : Prop :=
  bh h head c = true /\
  exists bp new hrb hg bnums anc m,
    find_new s rcps = (bp, new, hrb, hg) /\
    (nonempty (c_tags (get_commit h c)) = false -> bnums = [bn_not_built]) /\
    s' = set_bnmap
           (add_rbuild (add_rcommit (set_bparents s bp hg) (mkRC c rcps (matches h c) bnums)) (len s)
              (mkRB (Z.of_nat (len s)) NORMAL (hd bn_not_built bnums) (Some (len s)) hrb (add_uniq (len s) new)) anc) m.

Lemma sort_bnums_nil : sort_bnums [] = [].
Proof. reflexivity. Qed.

Lemma finish_cases h head s c rcps :
  let s' := finish h head s c rcps in
  fin_none h head s c rcps s' \/ fin_rc h head s c rcps s' \/ fin_bh h head s c rcps s' \/ fin_build h head s c rcps s'.
Proof.
  cbn zeta. unfold fin_none, fin_rc, fin_bh, fin_build, finish. fold (bh h head c).
  destruct (matches h c) eqn:Em; cbn [orb negb].
  - (* matching *)
    destruct (bh h head c) eqn:Eb.
    + right. right. right. split; [reflexivity|].
      destruct (find_new s rcps) as [[[bp new] hrb] hg]. cbn [orb].
      do 7 eexists. split; [reflexivity|]. split; [|reflexivity].
      intros Et. unfold bh in Eb. rewrite Et in *. cbn [orb] in Eb. rewrite Eb. cbn [andb negb].
      destruct (c_tags (get_commit h c)); [reflexivity|discriminate].
    + right. left. split; [reflexivity|]. split; reflexivity.
  - destruct (nonempty rcps) eqn:En; cbn [negb].
    + destruct (bh h head c) eqn:Eb.
      * destruct (find_new s rcps) as [[[bp new] hrb] hg] eqn:EF.
        destruct (nonempty new || (1 <? length hrb)) eqn:Er.
        -- right. right. right. split; [reflexivity|].
           do 7 eexists. split; [reflexivity|]. split; [|reflexivity].
           intros Et. unfold bh in Eb. rewrite Et in *. cbn [orb] in Eb. rewrite Eb. cbn [andb negb].
           destruct (c_tags (get_commit h c)); [reflexivity|discriminate].
        -- right. right. left. split; [reflexivity|]. split; [reflexivity|].
           split; [destruct rcps; [discriminate|congruence]|].
           apply orb_false_iff in Er as [Er _]. destruct new; [|discriminate].
           exists bp, hrb, hg. split; [reflexivity|].
           destruct rcps as [|r0 rcps0]; [discriminate|]. cbn. repeat split; reflexivity.
      * left. split; [left; reflexivity|]. split; [reflexivity|].
        destruct rcps; cbn; repeat split; reflexivity.
    + left. split; [right; destruct rcps; [reflexivity|discriminate]|]. split; [reflexivity|].
      cbn. repeat split; reflexivity.
Qed.

(* the caches after [finish]: only commit c changes; either no RCommit is created and the
   front of c is [rcps], or RCommit number [len s] is created for c with parents [rcps] *)
Lemma finish_fr h head s c rcps :
  cached s c = false ->
  let s' := finish h head s c rcps in
  (forall c', c' <> c -> fr s' c' = fr s c') /\
  ((s_rcommits s' = s_rcommits s /\ fr s' c = Some rcps /\ matches h c = false) \/
   (exists bn, s_rcommits s' = s_rcommits s ++ [mkRC c rcps (matches h c) bn] /\ fr s' c = Some [len s])).
Proof.
  intros Hc. apply cached_false_fr in Hc. cbn zeta. unfold finish.
  assert (forall s0 : state, fr s0 c = None ->
            (forall c', c' <> c -> fr (match rcps with [] => add_done s0 c | _ => add_visited s0 c rcps end) c' = fr s0 c') /\
            fr (match rcps with [] => add_done s0 c | _ => add_visited s0 c rcps end) c = Some rcps) as Hnone.
  { intros s0 H0. destruct rcps as [|r0 rcps0].
    - split; [intros c' N|]; rewrite fr_add_done; [apply Nat.eqb_neq in N; rewrite N|rewrite Nat.eqb_refl]; reflexivity.
    - split; [intros c' N|]; rewrite (fr_add_visited _ _ _ _ H0); [apply Nat.eqb_neq in N; rewrite N|rewrite Nat.eqb_refl]; reflexivity. }
  assert (forall (s0 : state) bn, fr s0 c = None ->
            (forall c', c' <> c -> fr (add_rcommit s0 (mkRC c rcps (matches h c) bn)) c' = fr s0 c') /\
            fr (add_rcommit s0 (mkRC c rcps (matches h c) bn)) c = Some [len s0]) as Hrc.
  { intros s0 bn H0. split; [intros c' N|]; rewrite fr_add_rcommit by exact H0; cbn [rc_cid];
      [apply Nat.eqb_neq in N; rewrite N|rewrite Nat.eqb_refl]; reflexivity. }
  destruct (matches h c) eqn:Em; cbn [orb negb].
  - destruct (nonempty (c_tags (get_commit h c)) || (c =? head)).
    + destruct (find_new s rcps) as [[[bp new] hrb] hg]. cbn [orb].
      match goal with |- context [mkRC c rcps true ?bn] => destruct (Hrc (set_bparents s bp hg) bn) as (H1 & H2) end.
      { exact Hc. }
      split.
      * intros c' N. exact (H1 c' N).
      * right. eexists. split; [reflexivity|]. exact H2.
    + destruct (Hrc s [] Hc) as (H1 & H2). split; [exact H1|]. right. eexists. split; [reflexivity|exact H2].
  - destruct (nonempty rcps) eqn:En; cbn [negb].
    + destruct (nonempty (c_tags (get_commit h c)) || (c =? head)).
      * destruct (find_new s rcps) as [[[bp new] hrb] hg].
        destruct (nonempty new || (1 <? length hrb)).
        -- match goal with |- context [mkRC c rcps false ?bn] => destruct (Hrc (set_bparents s bp hg) bn) as (H1 & H2) end.
           { exact Hc. }
           split.
           ++ intros c' N. exact (H1 c' N).
           ++ right. eexists. split; [reflexivity|]. exact H2.
        -- destruct (Hnone (set_bparents s bp hg)) as (H1 & H2).
           { exact Hc. }
           split.
           ++ intros c' N. etransitivity; [|exact (H1 c' N)]. destruct rcps; reflexivity.
           ++ left. split; [destruct rcps; reflexivity|]. split; [|reflexivity].
              etransitivity; [|exact H2]. destruct rcps; reflexivity.
      * destruct (Hnone s Hc) as (H1 & H2). split; [exact H1|]. left. split; [destruct rcps; reflexivity|]. split; [exact H2|reflexivity].
    + destruct rcps; [|discriminate]. split.
      * intros c' N. rewrite fr_add_done. apply Nat.eqb_neq in N. rewrite N. reflexivity.
      * left. split; [reflexivity|]. split; [|reflexivity]. rewrite fr_add_done, Nat.eqb_refl. reflexivity.
Qed.

(* ------------------------------------------------------------------ *)
(* an induction principle for the outer DFS on an acyclic history       *)

Lemma cached_of_fr s c l : fr s c = Some l -> cached s c = true.
Proof. intros H. apply cached_fr. eauto. Qed.

Section VisitInd.
  Variable h : history.
  Variable head : nat.
  Hypothesis Ha : acyclic h.
  Variable P : state -> Prop.

  (* the rc_parents of a commit are the union of the fronts of its parents *)
  Definition rcps_ok (s : state) (c : nat) (rcps : list nat) : Prop :=
    forall x, In x rcps <-> exists p l, In p (parents_of h c) /\ fr s p = Some l /\ In x l.

  Hypothesis step : forall s c rcps,
    P s -> reach h head c -> cached s c = false ->
    (forall p, In p (parents_of h c) -> cached s p = true) -> rcps_ok s c rcps ->
    P (finish h head s c rcps).

  Definition vpost (s : state) (c : nat) (s' : state) : Prop :=
    P s' /\ cached s' c = true /\
    (forall c', cached s c' = true -> fr s' c' = fr s c') /\
    (forall c', cached s' c' = true -> cached s c' = true \/ c' <= c).

  Definition linv (s : state) (c : nat) (dps : list nat) (a : state * list nat) : Prop :=
    P (fst a) /\
    (forall c', cached s c' = true -> fr (fst a) c' = fr s c') /\
    (forall c', cached (fst a) c' = true -> cached s c' = true \/ c' < c) /\
    (forall p, In p dps -> cached (fst a) p = true) /\
    (forall x, In x (snd a) <-> exists p l, In p dps /\ fr (fst a) p = Some l /\ In x l).

  Lemma visit_ind : forall fuel s c, c < fuel -> reach h head c -> P s -> vpost s c (visit h head fuel s c).
  Proof.
    induction fuel as [|f IH]; intros s c Hlt Hr HP; [lia|]. cbn [visit].
    destruct (cached s c) eqn:Ec.
    { split; [exact HP|]. split; [exact Ec|]. split; [reflexivity|auto]. }
    set (F := fun (a : state * list nat) p => let s' := visit h head f (fst a) p in (s', add_cached s' p (snd a))).
    assert (forall l dps a, (forall p, In p l -> In p (parents_of h c)) -> linv s c dps a ->
                            linv s c (dps ++ l) (fold_left F l a)) as HF.
    { induction l as [|p l IHl]; intros dps a Hl Hi; cbn [fold_left]; [rewrite app_nil_r; exact Hi|].
      replace (dps ++ p :: l) with ((dps ++ [p]) ++ l) by (rewrite <- app_assoc; reflexivity).
      apply IHl; [intros q Hq; apply Hl; right; exact Hq|].
      destruct a as [sa ra]. destruct Hi as (Pa & Fa & Ba & Da & Ra). cbn [fst snd] in *.
      assert (In p (parents_of h c)) as Hp by (apply Hl; left; reflexivity).
      pose proof (Ha c p Hp) as Hpc.
      destruct (IH sa p) as (P2 & C2 & F2 & B2); [lia|eapply reach_trans; [exact Hr|]; eapply reach_step; [exact Hp|constructor]|exact Pa|].
      unfold F. cbv beta zeta. cbn [fst snd]. set (s2 := visit h head f sa p) in *.
      assert (forall q, In q dps -> fr s2 q = fr sa q) as Hq by (intros q Hq; apply F2, Da, Hq).
      split; [exact P2|]. split; [|split; [|split]].
      - intros c' Hc'. rewrite F2; [apply Fa, Hc'|]. destruct (proj1 (cached_fr s c') Hc') as [l0 E0].
        eapply cached_of_fr. rewrite Fa by exact Hc'. exact E0.
      - intros c' Hc'. destruct (B2 c' Hc') as [H|H]; [destruct (Ba c' H); auto|right; lia].
      - intros q Hin. apply in_app_or in Hin as [Hin|[<-|[]]]; [|exact C2].
        pose proof (Da q Hin) as Hd. destruct (proj1 (cached_fr sa q) Hd) as [l0 E0].
        eapply cached_of_fr. rewrite Hq by exact Hin. exact E0.
      - intros x. cbn [fst snd]. rewrite add_cached_in, Ra. split.
        + intros [(q & l0 & Hin & E & Hx)|(l0 & E & Hx)].
          * exists q, l0. split; [apply in_or_app; left; exact Hin|]. split; [rewrite Hq by exact Hin; exact E|exact Hx].
          * exists p, l0. split; [apply in_or_app; right; left; reflexivity|]. auto.
        + intros (q & l0 & Hin & E & Hx). apply in_app_or in Hin as [Hin|[<-|[]]].
          * left. exists q, l0. split; [exact Hin|]. split; [rewrite <- Hq by exact Hin; exact E|exact Hx].
          * right. eauto. }
    specialize (HF (rev (parents_of h c)) [] (s, [])).
    change (c_parents (get_commit h c)) with (parents_of h c).
    destruct (fold_left F (rev (parents_of h c)) (s, [])) as [s1 rcps].
    destruct HF as (P1 & F1 & B1 & D1 & R1).
    { intros p Hp. apply in_rev. exact Hp. }
    { cbn [fst snd]. split; [exact HP|]. split; [reflexivity|]. split; [auto|]. split; [intros p []|].
      intros x. split; [intros []|intros (p & l & [] & _)]. }
    cbn [fst snd app] in *.
    assert (cached s1 c = false) as Ec1.
    { destruct (cached s1 c) eqn:E; [|reflexivity]. destruct (B1 c E) as [H|H]; [congruence|lia]. }
    assert (forall p, In p (parents_of h c) -> cached s1 p = true) as Hpar by (intros p Hp; apply D1; apply in_rev in Hp; exact Hp).
    assert (rcps_ok s1 c rcps) as Hrc.
    { intros x. rewrite R1. split; intros (p & l & Hp & H); exists p, l; (split; [|exact H]); [apply in_rev; exact Hp|apply in_rev in Hp; exact Hp]. }
    pose proof (step s1 c rcps P1 Hr Ec1 Hpar Hrc) as P2.
    destruct (finish_fr h head s1 c rcps Ec1) as (Hother & Hc). cbn zeta in *.
    set (s2 := finish h head s1 c rcps) in *.
    assert (cached s2 c = true) as C2.
    { destruct Hc as [(_ & E & _)|(bn & _ & E)]; eapply cached_of_fr; exact E. }
    split; [exact P2|]. split; [exact C2|]. split.
    - intros c' Hc'. assert (c' <> c) as N by (intros ->; congruence). rewrite Hother by exact N. apply F1, Hc'.
    - intros c' Hc'. destruct (Nat.eq_dec c' c) as [->|N]; [right; lia|].
      destruct (proj1 (cached_fr s2 c') Hc') as [l0 E0]. rewrite Hother in E0 by exact N.
      destruct (B1 c' (cached_of_fr _ _ _ E0)) as [H|H]; [auto|right; lia].
  Qed.
End VisitInd.

(* ------------------------------------------------------------------ *)
(* the reduction invariant                                              *)

Inductive rreach (s : state) : nat -> nat -> Prop :=
| rreach_refl i : rreach s i i
| rreach_step i p j : In p (rpar s i) -> rreach s p j -> rreach s i j.

Lemma rreach_trans s i j k : rreach s i j -> rreach s j k -> rreach s i k.
Proof. induction 1; [auto|]. intros. eapply rreach_step; eauto. Qed.

Lemma rreach_mono s s' : (forall i p, In p (rpar s i) -> In p (rpar s' i)) -> forall i j, rreach s i j -> rreach s' i j.
Proof. intros H i j R. induction R; [constructor|]. eapply rreach_step; [apply H; eassumption|assumption]. Qed.

Record GI (h : history) (s : state) : Prop := mkGI {
  (* classified commits are closed under parents *)
  gi_closed : forall c p, cached s c = true -> In p (parents_of h c) -> cached s p = true;
  (* the front of a commit consists of RCommits of commits it reaches *)
  gi_front : forall c l i, fr s c = Some l -> In i l -> i < len s /\ reach h c (cid s i);
  (* the commit of RCommit i is classified as "selected", with RCommit i *)
  gi_sel : forall i, i < len s -> fr s (cid s i) = Some [i];
  (* edges of the RCommit graph go to older RCommits whose commits are reachable *)
  gi_par : forall i p, In p (rpar s i) -> p < i /\ i < len s /\ reach h (cid s i) (cid s p);
  (* completeness: every RCommit whose commit is reachable from a classified commit is
     reachable in the RCommit graph from the front of that commit *)
  gi_complete : forall c l j, fr s c = Some l -> j < len s -> reach h c (cid s j) ->
                              exists f, In f l /\ rreach s f j;
  gi_flags : forall i, i < len s -> expl s i = matches h (cid s i);
  (* a classified matching commit has an RCommit *)
  gi_match : forall c, cached s c = true -> matches h c = true -> exists i, i < len s /\ cid s i = c
}.

Lemma GI_reach_closed h s c m : GI h s -> cached s c = true -> reach h c m -> cached s m = true.
Proof. intros G Hc R. induction R as [a|a p b Hp _ IH]; [exact Hc|]. apply IH. eapply gi_closed; eassumption. Qed.

Lemma GI_cid_cached h s i : GI h s -> i < len s -> cached s (cid s i) = true.
Proof. intros G Hi. eapply cached_of_fr. apply (gi_sel h s G i Hi). Qed.

Lemma GI_rreach_sound h s i j : GI h s -> rreach s i j -> j <= i /\ (i < len s -> j < len s) /\ reach h (cid s i) (cid s j).
Proof.
  intros G R. induction R as [i|i p j Hp _ IH]; [split; [lia|split; [auto|constructor]]|].
  destruct (gi_par h s G i p Hp) as (H1 & H2 & H3). destruct IH as (I1 & I2 & I3).
  split; [lia|]. split; [intros _; apply I2; lia|]. eapply reach_trans; eassumption.
Qed.

Lemma rc_get_snoc s s' rc i :
  s_rcommits s' = s_rcommits s ++ [rc] -> rc_get s' i = if i =? len s then rc else rc_get s i.
Proof.
  intros E. unfold rc_get, len. rewrite E. destruct (Nat.eqb_spec i (length (s_rcommits s))) as [->|N].
  - apply nth_middle.
  - destruct (lt_dec i (length (s_rcommits s))) as [L|L]; [apply app_nth1; exact L|].
    rewrite !nth_overflow; [reflexivity|lia|rewrite app_length; cbn; lia].
Qed.

Lemma GI_init h : GI h init_state.
Proof.
  constructor; unfold len, fr, cached, rpar, rc_get; cbn; try discriminate; try (intros; lia).
  - intros i p H. destruct i; destruct H.
Qed.

Lemma GI_step h s s' c rcps :
  acyclic h -> GI h s -> cached s c = false ->
  (forall p, In p (parents_of h c) -> cached s p = true) -> rcps_ok h s c rcps ->
  (forall c', c' <> c -> fr s' c' = fr s c') ->
  ((s_rcommits s' = s_rcommits s /\ fr s' c = Some rcps /\ matches h c = false) \/
   (exists bn, s_rcommits s' = s_rcommits s ++ [mkRC c rcps (matches h c) bn] /\ fr s' c = Some [len s])) ->
  GI h s'.
Proof.
  intros Ha G Ec Hpar Hrc Hother Hcase.
  assert (forall c', cached s c' = true -> c' <> c) as Hne by (intros c' H ->; congruence).
  assert (forall c', cached s c' = true -> cached s' c' = true) as Hmono.
  { intros c' H. destruct (proj1 (cached_fr s c') H) as [l E]. eapply cached_of_fr. rewrite Hother by (apply Hne, H). exact E. }
  assert (forall c', c' <> c -> cached s' c' = true -> cached s c' = true) as Hback.
  { intros c' N H. destruct (proj1 (cached_fr s' c') H) as [l E]. rewrite Hother in E by exact N. eapply cached_of_fr, E. }
  assert (forall x, In x rcps -> x < len s /\ reach h c (cid s x)) as Hrcps.
  { intros x Hx. apply Hrc in Hx as (p & l & Hp & E & Hx). destruct (gi_front h s G p l x E Hx) as (H1 & H2).
    split; [exact H1|]. eapply reach_step; eassumption. }
  (* an old RCommit reachable from c is reachable from rcps *)
  assert (forall j, j < len s -> reach h c (cid s j) -> exists f, In f rcps /\ rreach s f j) as Hvia.
  { intros j Hj R. pose proof (Hne _ (GI_cid_cached h s j G Hj)) as N.
    inversion R as [|? p ? Hp Rp]; subst; [congruence|].
    destruct (proj1 (cached_fr s p) (Hpar p Hp)) as [lp Ep].
    destruct (gi_complete h s G p lp j Ep Hj Rp) as (f & Hf & Rf). exists f. split; [|exact Rf].
    apply Hrc. eauto. }
  destruct Hcase as [(Erc & Efr & Em)|(bn & Erc & Efr)].
  - (* no new RCommit *)
    assert (forall i, rc_get s' i = rc_get s i) as Hget by (intros i; unfold rc_get; rewrite Erc; reflexivity).
    assert (len s' = len s) as Hlen by (unfold len; rewrite Erc; reflexivity).
    assert (forall i, cid s' i = cid s i) as Hcid by (intros i; unfold cid; rewrite Hget; reflexivity).
    assert (forall i, rpar s' i = rpar s i) as Hrp by (intros i; unfold rpar; rewrite Hget; reflexivity).
    assert (forall i j, rreach s i j -> rreach s' i j) as Hrr by (apply rreach_mono; intros i p; rewrite Hrp; auto).
    constructor; rewrite ?Hlen.
    + intros c0 p H0 Hp. destruct (Nat.eq_dec c0 c) as [->|N]; [apply Hmono, Hpar, Hp|].
      apply Hmono. eapply gi_closed; [exact G|apply Hback; eassumption|exact Hp].
    + intros c0 l i E Hi. rewrite Hcid. destruct (Nat.eq_dec c0 c) as [->|N].
      * rewrite Efr in E. injection E as <-. apply Hrcps, Hi.
      * rewrite Hother in E by exact N. eapply gi_front; eassumption.
    + intros i Hi. rewrite Hcid, Hother by (apply Hne, (GI_cid_cached h s i G Hi)). apply (gi_sel h s G i Hi).
    + intros i p Hp. rewrite Hrp in Hp. rewrite !Hcid. apply (gi_par h s G i p Hp).
    + intros c0 l j E Hj R. rewrite Hcid in R. destruct (Nat.eq_dec c0 c) as [->|N].
      * rewrite Efr in E. injection E as <-. destruct (Hvia j Hj R) as (f & Hf & Rf). exists f. split; [exact Hf|apply Hrr, Rf].
      * rewrite Hother in E by exact N. destruct (gi_complete h s G c0 l j E Hj R) as (f & Hf & Rf).
        exists f. split; [exact Hf|apply Hrr, Rf].
    + intros i Hi. unfold expl. rewrite Hget, Hcid. apply (gi_flags h s G i Hi).
    + intros c0 H0 Hm. destruct (Nat.eq_dec c0 c) as [->|N]; [congruence|].
      destruct (gi_match h s G c0 (Hback c0 N H0) Hm) as (i & Hi & E). exists i. rewrite Hcid. auto.
  - (* RCommit number [len s] is created for c *)
    set (n := len s) in *. set (rc := mkRC c rcps (matches h c) bn) in *.
    pose proof (rc_get_snoc s s' rc) as Hsn. specialize (fun i => Hsn i Erc). fold n in Hsn.
    assert (len s' = S n) as Hlen by (unfold len, n, len; rewrite Erc, app_length; cbn; lia).
    assert (forall i, i <> n -> rc_get s' i = rc_get s i) as Hget.
    { intros i N. rewrite Hsn. apply Nat.eqb_neq in N. rewrite N. reflexivity. }
    assert (rc_get s' n = rc) as Hgn by (rewrite Hsn, Nat.eqb_refl; reflexivity).
    assert (forall i, i <> n -> cid s' i = cid s i) as Hcid by (intros i N; unfold cid; rewrite Hget by exact N; reflexivity).
    assert (cid s' n = c) as Hcn by (unfold cid; rewrite Hgn; reflexivity).
    assert (forall i, i <> n -> rpar s' i = rpar s i) as Hrp by (intros i N; unfold rpar; rewrite Hget by exact N; reflexivity).
    assert (rpar s' n = rcps) as Hrn by (unfold rpar; rewrite Hgn; reflexivity).
    assert (rpar s n = []) as Hrn0 by (unfold rpar, rc_get, n, len; rewrite nth_overflow by lia; reflexivity).
    assert (forall i j, rreach s i j -> rreach s' i j) as Hrr.
    { apply rreach_mono. intros i p Hp. destruct (Nat.eq_dec i n) as [->|N]; [rewrite Hrn0 in Hp; destruct Hp|rewrite Hrp by exact N; exact Hp]. }
    constructor; rewrite ?Hlen.
    + intros c0 p H0 Hp. destruct (Nat.eq_dec c0 c) as [->|N]; [apply Hmono, Hpar, Hp|].
      apply Hmono. eapply gi_closed; [exact G|apply Hback; eassumption|exact Hp].
    + intros c0 l i E Hi. destruct (Nat.eq_dec c0 c) as [->|N].
      * rewrite Efr in E. injection E as <-. destruct Hi as [<-|[]]. rewrite Hcn. split; [lia|constructor].
      * rewrite Hother in E by exact N. destruct (gi_front h s G c0 l i E Hi) as (H1 & H2). fold n in H1.
        rewrite Hcid by lia. split; [lia|exact H2].
    + intros i Hi. destruct (Nat.eq_dec i n) as [->|N]; [rewrite Hcn; exact Efr|].
      assert (i < len s) as Hi' by (fold n; lia). rewrite Hcid by exact N.
      rewrite Hother by (apply Hne, (GI_cid_cached h s i G Hi')). apply (gi_sel h s G i Hi').
    + intros i p Hp. destruct (Nat.eq_dec i n) as [->|N].
      * rewrite Hrn in Hp. destruct (Hrcps p Hp) as (H1 & H2). fold n in H1. rewrite Hcn, Hcid by lia. repeat split; [exact H1|lia|exact H2].
      * rewrite Hrp in Hp by exact N. destruct (gi_par h s G i p Hp) as (H1 & H2 & H3). fold n in H2.
        rewrite !Hcid by lia. repeat split; [exact H1|lia|exact H3].
    + intros c0 l j E Hj R. destruct (Nat.eq_dec c0 c) as [->|N].
      * rewrite Efr in E. injection E as <-. exists n. split; [left; reflexivity|].
        destruct (Nat.eq_dec j n) as [->|Nj]; [constructor|].
        rewrite Hcid in R by exact Nj. destruct (Hvia j ltac:(fold n; lia) R) as (f & Hf & Rf).
        eapply rreach_step; [rewrite Hrn; exact Hf|apply Hrr, Rf].
      * rewrite Hother in E by exact N. pose proof (cached_of_fr _ _ _ E) as H0.
        destruct (Nat.eq_dec j n) as [->|Nj].
        -- rewrite Hcn in R. pose proof (GI_reach_closed h s c0 c G H0 R). congruence.
        -- rewrite Hcid in R by exact Nj. destruct (gi_complete h s G c0 l j E ltac:(fold n; lia) R) as (f & Hf & Rf).
           exists f. split; [exact Hf|apply Hrr, Rf].
    + intros i Hi. destruct (Nat.eq_dec i n) as [->|N].
      * unfold expl. rewrite Hgn, Hcn. reflexivity.
      * unfold expl. rewrite Hget, Hcid by exact N. apply (gi_flags h s G i). fold n. lia.
    + intros c0 H0 Hm. destruct (Nat.eq_dec c0 c) as [->|N]; [exists n; split; [lia|exact Hcn]|].
      destruct (gi_match h s G c0 (Hback c0 N H0) Hm) as (i & Hi & E). fold n in Hi. exists i. rewrite Hcid by lia. split; [lia|exact E].
Qed.

Lemma GI_finish h head s c rcps :
  acyclic h -> GI h s -> cached s c = false ->
  (forall p, In p (parents_of h c) -> cached s p = true) -> rcps_ok h s c rcps ->
  GI h (finish h head s c rcps).
Proof.
  intros Ha G Ec Hpar Hrc. destruct (finish_fr h head s c rcps Ec) as (H1 & H2).
  eapply GI_step; eassumption.
Qed.
