(* C06/Inv4.v -- invariants of the two nested traversals, part 4: the inner DFS
   (_find_new_rcommits_in_build) explores the RCommit graph completely: afterwards the set
   K = keys(rcommits_bparents) + builds of the current branch contains the heads it was
   started from and the parents of everything it added, never runs out of fuel, and
   everything it added is reachable from the heads. *)
From Coq Require Import ZArith List Bool Lia Arith Sorting.Permutation.
From AK Require Import Common.Sx Common.Err gen.C06_Consts C06.Model C06.Lemmas C06.Inv C06.Spec C06.Inv2 C06.Inv3.
Import ListNotations.
Open Scope nat_scope.

Definition bpo (a : iacc) : list (nat * list nat) := fst (fst a).

(* RCommit i is a build of the current branch or its parent builds are known *)
Definition inKb (s : state) (bp : list (nat * list nat)) (i : nat) : Prop :=
  In i (keys bp) \/ is_cur_build s i = true.

Definition epost (s : state) (roots : list nat) (a a' : iacc) : Prop :=
  snd a' = snd a /\
  (forall k, In k (keys (bpo a)) -> In k (keys (bpo a'))) /\
  (forall p, In p roots -> inKb s (bpo a') p) /\
  (forall k, In k (keys (bpo a')) -> In k (keys (bpo a)) \/
             ((exists r, In r roots /\ rreach s r k) /\ forall p, In p (rpar s k) -> inKb s (bpo a') p)).

Lemma inKb_mono s bp bp' i : (forall k, In k (keys bp) -> In k (keys bp')) -> inKb s bp i -> inKb s bp' i.
Proof. intros H [H1|H1]; [left; apply H, H1|right; exact H1]. Qed.

Lemma epost_refl s a : epost s [] a a.
Proof. split; [reflexivity|]. split; [auto|]. split; [intros p []|auto]. Qed.

Lemma epost_cons s p ps a a1 a2 : epost s [p] a a1 -> epost s ps a1 a2 -> epost s (p :: ps) a a2.
Proof.
  intros (H1 & M1 & R1 & N1) (H2 & M2 & R2 & N2). split; [congruence|]. split; [auto|]. split; [|].
  - intros q [<-|Hq]; [eapply inKb_mono; [exact M2|apply R1; left; reflexivity]|apply R2, Hq].
  - intros k Hk. destruct (N2 k Hk) as [H|((r & Hr & Rr) & Hp)].
    + destruct (N1 k H) as [H'|((r & [<-|[]] & Rr) & Hp)]; [left; exact H'|right]. split.
      * exists p. split; [left; reflexivity|exact Rr].
      * intros q Hq. eapply inKb_mono; [exact M2|apply Hp, Hq].
    + right. split; [exists r; split; [right; exact Hr|exact Rr]|exact Hp].
Qed.

Lemma fold_epost s f
  (IH : forall a c, c < f -> epost s [c] a (inner f s a c)) :
  forall ps a, Forall (fun p => p < f) ps -> epost s ps a (fold_left (istep s f) ps a).
Proof.
  induction ps as [|p ps IHps]; intros a Hps; cbn [fold_left]; [apply epost_refl|].
  inversion Hps; subst. eapply epost_cons; [|apply IHps; assumption].
  unfold istep. destruct a as [[bp1 new1] hg1].
  destruct (is_cur_build s p) eqn:Ec; cbn [orb].
  { split; [reflexivity|]. split; [auto|]. split; [intros q [<-|[]]; right; exact Ec|auto]. }
  destruct (ahas p bp1) eqn:Eh.
  { split; [reflexivity|]. split; [auto|]. split; [intros q [<-|[]]; left; apply alookup_In; exact Eh|auto]. }
  apply IH. assumption.
Qed.

Lemma inner_epost s : parents_lt s -> forall f a c, c < f -> epost s [c] a (inner f s a c).
Proof.
  intros Hp f. induction f as [|f IH]; intros a c Hc; [lia|].
  rewrite inner_unfold. cbn zeta.
  assert (epost s (rev (rpar s c)) a (fold_left (istep s f) (rev (rc_parents (rc_get s c))) a)) as HF.
  { apply (fold_epost s f IH). apply Forall_rev. eapply Forall_impl; [|apply Hp]. cbn beta. intros; lia. }
  destruct (fold_left (istep s f) (rev (rc_parents (rc_get s c))) a) as [[bp1 new1] hg1].
  destruct HF as (H1 & M1 & R1 & N1). unfold bpo in *. cbn [fst snd] in *.
  assert (forall k, In k (keys bp1) -> In k (keys (bp1 ++ [(c, parent_builds s bp1 (rc_parents (rc_get s c)))]))) as Mx.
  { intros k Hk. unfold keys. rewrite map_app. apply in_or_app. left. exact Hk. }
  unfold epost, bpo. cbn [fst snd].
  split; [exact H1|]. split; [intros k Hk; apply Mx, M1, Hk|]. split.
  - intros q [<-|[]]. left. unfold keys. rewrite map_app. apply in_or_app. right. left. reflexivity.
  - intros k Hk. unfold keys in Hk. rewrite map_app in Hk. apply in_app_or in Hk as [Hk|[<-|[]]].
    + destruct (N1 k Hk) as [H|((r & Hr & Rr) & Hpk)]; [left; exact H|right]. split.
      * exists c. split; [left; reflexivity|]. eapply rreach_step; [apply in_rev; exact Hr|exact Rr].
      * intros q Hq. eapply inKb_mono; [exact Mx|apply Hpk, Hq].
    + right. split; [exists c; split; [left; reflexivity|constructor]|].
      intros q Hq. eapply inKb_mono; [exact Mx|]. apply R1. apply in_rev in Hq. exact Hq.
Qed.

(* find_new: what _find_new_rcommits_in_build returns and does to rcommits_bparents *)
Lemma find_new_explore s heads bp new hrb hg :
  parents_lt s -> Forall (fun p => p < len s) heads ->
  find_new s heads = (bp, new, hrb, hg) ->
  hg = false /\
  exists ks, keys bp = keys (s_bparents s) ++ ks /\ new = filter (expl s) ks /\ NoDup ks /\
    Forall (fun k => k < len s /\ ~ In k (keys (s_bparents s)) /\ is_cur_build s k = false) ks /\
    (forall p, In p heads -> inKb s bp p) /\
    (forall k, In k ks -> (exists r, In r heads /\ rreach s r k) /\ forall p, In p (rpar s k) -> inKb s bp p).
Proof.
  intros Hp Hh EF. destruct (find_new_ext s heads bp new hrb hg Hp Hh EF) as (ks & Ek & En & Dk & Fk).
  revert EF. unfold find_new.
  pose proof (fold_epost s (S (length (s_rcommits s))) (inner_epost s Hp _) (rev heads) (s_bparents s, [], false)) as HF.
  change (fun (a : iacc) (p : nat) => let '(bp0, _, _) := a in
            if is_cur_build s p || ahas p bp0 then a else inner (S (length (s_rcommits s))) s a p)
    with (istep s (S (length (s_rcommits s)))).
  destruct (fold_left _ _ _) as [[bp1 new1] hg1]. intros [= <- <- <- <-].
  destruct HF as (H1 & M1 & R1 & N1).
  { apply Forall_rev. eapply Forall_impl; [|exact Hh]. cbn beta. unfold len. intros; lia. }
  unfold bpo in *. cbn [fst snd] in *. split; [exact H1|].
  exists ks. repeat split; auto.
  - intros p Hp0. apply R1. apply in_rev in Hp0. exact Hp0.
  - rewrite Forall_forall in Fk. destruct (Fk k H) as (_ & Hn & _).
    destruct (N1 k) as [H'|((r & Hr & Rr) & _)]; [rewrite Ek; apply in_or_app; right; exact H|contradiction|].
    exists r. split; [apply in_rev; exact Hr|exact Rr].
  - intros p Hp0. rewrite Forall_forall in Fk. destruct (Fk k H) as (_ & Hn & _).
    destruct (N1 k) as [H'|(_ & Hpk)]; [rewrite Ek; apply in_or_app; right; exact H|contradiction|].
    apply Hpk, Hp0.
Qed.

(* ------------------------------------------------------------------ *)
(* small facts                                                          *)

Lemma bh_spec h head c : bh h head c = true <-> tagged h c \/ c = head.
Proof.
  unfold bh, tagged. rewrite orb_true_iff, Nat.eqb_eq.
  destruct (c_tags (get_commit h c)); cbn [nonempty]; split; intros [H|H]; auto; try discriminate; try congruence.
  left. discriminate.
Qed.

Lemma reach_antisym h a b : acyclic h -> reach h a b -> reach h b a -> a = b.
Proof. intros Ha R1 R2. pose proof (reach_le h Ha _ _ R1). pose proof (reach_le h Ha _ _ R2). lia. Qed.

Lemma reach_inv h a b : reach h a b -> a = b \/ exists p, In p (parents_of h a) /\ reach h p b.
Proof. intros R. destruct R as [a|a p b Hp Rp]; [left; reflexivity|right; eauto]. Qed.

Lemma pre_cid s s' i : pre s s' -> i < len s -> cid s' i = cid s i.
Proof. intros P H. unfold cid. rewrite (pre_get s s' i P H). reflexivity. Qed.

Lemma pre_rpar s s' i : pre s s' -> i < len s -> rpar s' i = rpar s i.
Proof. intros P H. unfold rpar. rewrite (pre_get s s' i P H). reflexivity. Qed.

Lemma pre_expl s s' i : pre s s' -> i < len s -> expl s' i = expl s i.
Proof. intros P H. unfold expl. rewrite (pre_get s s' i P H). reflexivity. Qed.

Lemma app_snoc_neq {A} (l : list A) x : l ++ [x] <> l.
Proof. intros E. apply (f_equal (@length A)) in E. rewrite app_length in E. cbn in E. lia. Qed.

Lemma is_cur_build_In s i : is_cur_build s i = true -> In i (s_brcommits s) /\ ~ In i (s_prev_builds s).
Proof. unfold is_cur_build. rewrite andb_true_iff, negb_true_iff, nmem_In, nmem_false. tauto. Qed.

(* ------------------------------------------------------------------ *)
(* the invariant of one branch                                          *)

Section Branch.
  Variable h : history.
  Variable lower : list nat.      (* heads of the branches read before *)
  Variable head : nat.
  Hypothesis Ha : acyclic h.

  Definition inK (s : state) (i : nat) : Prop := inKb s (s_bparents s) i.
  Definition bhc (c : nat) : Prop := tagged h c \/ c = head.

  (* a build of the current branch: made from a tagged / head commit b of the branch outside the
     lower branches, labelled 'not built' when b carries no tag; every RCommit in it belongs to
     a commit that b reaches and that no other build commit of the branch below b reaches *)
  Definition rb_ok (s : state) (rb : rbuild) : Prop :=
    exists i, rb_commit rb = Some i /\ i < len s /\ rb_type rb = NORMAL /\
      ~ in_lower h lower (cid s i) /\ reach h head (cid s i) /\ bhc (cid s i) /\
      (~ tagged h (cid s i) -> rb_num rb = bn_not_built) /\
      forall j, In j (rb_rcommits rb) ->
        j < len s /\ reach h (cid s i) (cid s j) /\
        forall b', ~ in_lower h lower b' -> bhc b' -> reach h (cid s i) b' -> reach h b' (cid s j) -> b' = cid s i.

  Record BI (s : state) : Prop := mkBI {
    bi_gi : GI h s;
    bi_wj : WJ s;
    bi_hang : s_hang s = false;
    bi_lower : forall c, in_lower h lower c -> cached s c = true;
    bi_scope : forall c, cached s c = true -> in_lower h lower c \/ reach h head c;
    (* K is closed under the edges of the RCommit graph *)
    bi_closed : forall i p, inK s i -> In p (rpar s i) -> inK s p;
    (* explicit RCommits in K are listed under a build of the branch *)
    bi_listed : forall i, inK s i -> expl s i = true -> In i (builds_listing (s_rbuilds s));
    (* everything below a tagged / head commit finished in this branch has been explored *)
    bi_explored : forall c j, cached s c = true -> ~ in_lower h lower c -> bhc c ->
                              j < len s -> reach h c (cid s j) -> inK s j;
    bi_builds : Forall (rb_ok s) (s_rbuilds s);
    bi_brc : Forall (fun i => i < len s) (s_brcommits s);
    bi_brc2 : Forall (fun i => In i (s_prev_builds s) \/ In i (keys (s_anc s))) (s_brcommits s)
  }.

  Lemma rb_ok_pre s s' rb : pre s s' -> rb_ok s rb -> rb_ok s' rb.
  Proof.
    intros P (i & E & Hi & Ty & H1 & H2 & H3 & H4 & H5). pose proof (pre_len s s' P) as L.
    exists i. rewrite (pre_cid s s' i P Hi). repeat split; auto; try lia.
    - destruct (H5 j H) as (J1 & _). lia.
    - destruct (H5 j H) as (J1 & J2 & _). rewrite (pre_cid s s' j P J1). exact J2.
    - destruct (H5 j H) as (J1 & _ & J3). rewrite (pre_cid s s' j P J1). exact J3.
  Qed.

  Lemma inK_lt s i : WJ s -> Forall (fun i => i < len s) (s_brcommits s) -> inK s i -> i < len s.
  Proof.
    intros W B [H|H].
    - pose proof (w_bparents s W) as F. rewrite Forall_forall in F. apply F, H.
    - apply is_cur_build_In in H as [H _]. rewrite Forall_forall in B. apply B, H.
  Qed.

  Lemma inK_rreach s i j : (forall i p, inK s i -> In p (rpar s i) -> inK s p) -> inK s i -> rreach s i j -> inK s j.
  Proof. intros C Hi R. induction R as [i|i p j Hp _ IH]; [exact Hi|]. apply IH. eapply C; eassumption. Qed.

  Lemma BI_finish s c rcps :
    BI s -> reach h head c -> cached s c = false ->
    (forall p, In p (parents_of h c) -> cached s p = true) -> rcps_ok h s c rcps ->
    BI (finish h head s c rcps).
  Proof.
    intros B Hr Ec Hpar Hrc. destruct B as [G W Hg Lw Sc Cl Li Ex Bu Br Br2].
    pose proof (GI_finish h head s c rcps Ha G Ec Hpar Hrc) as G'.
    assert (forall x, In x rcps -> x < len s /\ reach h c (cid s x)) as Hrcps.
    { intros x Hx. apply Hrc in Hx as (p & l & Hp & E & Hx). destruct (gi_front h s G p l x E Hx) as (H1 & H2).
      split; [exact H1|]. eapply reach_step; eassumption. }
    assert (Forall (fun i => i < len s) rcps) as Frc by (apply Forall_forall; intros x Hx; apply Hrcps, Hx).
    destruct (finish_WJ h head s c rcps W Frc) as (W' & Lle).
    destruct (finish_fr h head s c rcps Ec) as (Hother & Hfr).
    pose proof (finish_cases h head s c rcps) as Hcase. cbn zeta in *.
    set (s' := finish h head s c rcps) in *.
    assert (pre s s') as P.
    { destruct Hfr as [(E & _)|(bn & E & _)]; [apply pre_eq, E|eexists; exact E]. }
    assert (forall c', cached s c' = true -> c' <> c) as Hne by (intros c' H ->; congruence).
    assert (forall c', cached s c' = true -> cached s' c' = true) as Hmono.
    { intros c' H. destruct (proj1 (cached_fr s c') H) as [l E]. eapply cached_of_fr. rewrite Hother by (apply Hne, H). exact E. }
    assert (forall c', c' <> c -> cached s' c' = true -> cached s c' = true) as Hback.
    { intros c' N H. destruct (proj1 (cached_fr s' c') H) as [l E]. rewrite Hother in E by exact N. eapply cached_of_fr, E. }
    assert (~ in_lower h lower c) as Hnl by (intros H; apply Lw in H; congruence).
    assert (forall c', cached s' c' = true -> in_lower h lower c' \/ reach h head c') as Sc'.
    { intros c' H. destruct (Nat.eq_dec c' c) as [->|N]; [right; exact Hr|apply Sc, Hback; assumption]. }
    assert (forall i, inK s i -> i < len s) as Klt by (intros i; apply inK_lt; assumption).
    assert (Forall (rb_ok s') (s_rbuilds s)) as Bu' by (eapply Forall_impl; [|exact Bu]; intros rb; apply rb_ok_pre, P).
    (* old tagged / head commits: only old RCommits are below them *)
    assert (forall c0 j, c0 <> c -> cached s' c0 = true -> j < len s' -> reach h c0 (cid s' j) -> j < len s) as Hold.
    { intros c0 j N H0 Hj R. destruct (lt_dec j (len s)) as [L|L]; [exact L|exfalso].
      destruct Hfr as [(E & _)|(bn & E & _)]; [unfold len in *; rewrite E in Hj; lia|].
      assert (j = len s) as -> by (unfold len in *; rewrite E, app_length in Hj; cbn in Hj; lia).
      unfold cid in R. rewrite (rc_get_snoc s s' _ (len s) E), Nat.eqb_refl in R. cbn [rc_cid] in R.
      pose proof (GI_reach_closed h s c0 c G (Hback c0 N H0) R). congruence. }
    destruct Hcase as [F|[F|[F|F]]].
    - (* nothing but the caches *)
      destruct F as (Hb & Em & E1 & E2 & E3 & E4 & E5 & E6 & E7).
      assert (fr s' c = Some rcps) as Efr.
      { destruct Hfr as [(_ & E & _)|(bn & E & _)]; [exact E|]. rewrite E1 in E. symmetry in E. apply app_snoc_neq in E. destruct E. }
      assert (len s' = len s) as HL by (unfold len; rewrite E1; reflexivity).
      assert (forall i, inK s' i <-> inK s i) as HK.
      { intros i. unfold inK, inKb, is_cur_build. rewrite E2, E5, E6. tauto. }
      assert (forall i, rc_get s' i = rc_get s i) as Hget by (intros i; unfold rc_get; rewrite E1; reflexivity).
      constructor; auto.
      + congruence.
      + intros i p Hi Hp. apply HK. apply (Cl i p); [apply HK, Hi|]. unfold rpar in *. rewrite Hget in Hp. exact Hp.
      + intros i Hi He. rewrite E4. apply Li; [apply HK, Hi|]. unfold expl in *. rewrite Hget in He. exact He.
      + intros c0 j H0 Hn0 Hb0 Hj R. apply HK. destruct (Nat.eq_dec c0 c) as [->|N].
        * exfalso. destruct Hb as [Hb|Hb].
          -- apply bh_spec in Hb0. congruence.
          -- subst rcps. destruct (gi_complete h s' G' c [] j Efr Hj R) as (f & [] & _).
        * apply (Ex c0 j (Hback c0 N H0) Hn0 Hb0); [rewrite <- HL; exact Hj|].
          unfold cid in *. rewrite Hget in R. exact R.
      + rewrite E4. exact Bu'.
      + rewrite E5, HL. exact Br.
      + rewrite E5, E6, E3. exact Br2.
    - (* a plain RCommit *)
      destruct F as (Hb & Em & E). set (rc := mkRC c rcps true []) in *.
      assert (s_rcommits s' = s_rcommits s ++ [rc]) as E1 by (rewrite E; reflexivity).
      assert (len s' = S (len s)) as HL by (unfold len; rewrite E1, app_length; cbn; lia).
      assert (forall i, inK s' i <-> inK s i) as HK by (intros i; rewrite E; reflexivity).
      constructor; auto.
      + rewrite E. exact Hg.
      + intros i p Hi Hp. apply HK. apply HK in Hi. apply (Cl i p Hi). rewrite <- (pre_rpar s s' i P (Klt i Hi)). exact Hp.
      + intros i Hi He. apply HK in Hi. replace (s_rbuilds s') with (s_rbuilds s) by (rewrite E; reflexivity).
        apply Li; [exact Hi|]. rewrite <- (pre_expl s s' i P (Klt i Hi)). exact He.
      + intros c0 j H0 Hn0 Hb0 Hj R. apply HK. destruct (Nat.eq_dec c0 c) as [->|N].
        * apply bh_spec in Hb0. congruence.
        * pose proof (Hold c0 j N H0 Hj R) as Hj'. apply (Ex c0 j (Hback c0 N H0) Hn0 Hb0 Hj').
          rewrite <- (pre_cid s s' j P Hj'). exact R.
      + replace (s_rbuilds s') with (s_rbuilds s) by (rewrite E; reflexivity). exact Bu'.
      + replace (s_brcommits s') with (s_brcommits s) by (rewrite E; reflexivity).
        eapply Forall_impl; [|exact Br]. cbn beta. intros; lia.
      + rewrite E. exact Br2.
    - (* a tagged / head commit that is not a reported build *)
      destruct F as (Hb & Em & Hne0 & bp & hrb & hg & EF & E1 & E2 & E3 & E4 & E5 & E6 & E7).
      destruct (find_new_explore s rcps bp [] hrb hg (w_parents s W) Frc EF) as (-> & ks & Ek & En & Dk & Fk & Hh & Hks).
      rewrite Forall_forall in Fk.
      assert (fr s' c = Some rcps) as Efr.
      { destruct Hfr as [(_ & E & _)|(bn & E & _)]; [exact E|]. rewrite E1 in E. symmetry in E. apply app_snoc_neq in E. destruct E. }
      assert (len s' = len s) as HL by (unfold len; rewrite E1; reflexivity).
      assert (forall i, rc_get s' i = rc_get s i) as Hget by (intros i; unfold rc_get; rewrite E1; reflexivity).
      assert (forall i, inK s' i <-> inKb s bp i) as HK.
      { intros i. unfold inK, inKb, is_cur_build. rewrite E2, E5, E6. tauto. }
      assert (forall i, inK s' i <-> inK s i \/ In i ks) as HK2.
      { intros i. rewrite HK. unfold inK, inKb. rewrite Ek, in_app_iff. tauto. }
      assert (forall i p, inK s' i -> In p (rpar s' i) -> inK s' p) as Cl'.
      { intros i p Hi Hp. unfold rpar in Hp. rewrite Hget in Hp. apply HK2 in Hi as [Hi|Hi].
        - apply HK2. left. apply (Cl i p Hi Hp).
        - apply HK. apply (proj2 (Hks i Hi)). exact Hp. }
      constructor; auto.
      + rewrite E7, Hg. reflexivity.
      + intros i Hi He. rewrite E4. unfold expl in He. rewrite Hget in He. apply HK2 in Hi as [Hi|Hi]; [apply Li; assumption|].
        exfalso. assert (In i (filter (expl s) ks)) as Hin by (apply filter_In; split; assumption). rewrite <- En in Hin. destruct Hin.
      + intros c0 j H0 Hn0 Hb0 Hj R. destruct (Nat.eq_dec c0 c) as [->|N].
        * destruct (gi_complete h s' G' c rcps j Efr Hj R) as (f & Hf & Rf).
          apply (inK_rreach s' f j Cl'); [|exact Rf]. apply HK, Hh, Hf.
        * apply HK2. left. apply (Ex c0 j (Hback c0 N H0) Hn0 Hb0); [rewrite <- HL; exact Hj|].
          unfold cid in *. rewrite Hget in R. exact R.
      + rewrite E4. exact Bu'.
      + rewrite E5, HL. exact Br.
      + rewrite E5, E6, E3. exact Br2.
    - (* a reported build *)
      destruct F as (Hb & bp & new & hrb & hg & bnums & anc & m & EF & Hbn & E).
      destruct (find_new_explore s rcps bp new hrb hg (w_parents s W) Frc EF) as (-> & ks & Ek & En & Dk & Fk & Hh & Hks).
      rewrite Forall_forall in Fk.
      set (n := len s) in *. set (rc := mkRC c rcps (matches h c) bnums) in *.
      set (rb := mkRB (Z.of_nat n) NORMAL (hd bn_not_built bnums) (Some n) hrb (add_uniq n new)) in *.
      assert (s_rcommits s' = s_rcommits s ++ [rc]) as E1 by (rewrite E; reflexivity).
      assert (s_bparents s' = bp) as E2 by (rewrite E; reflexivity).
      assert (s_rbuilds s' = s_rbuilds s ++ [rb]) as E4 by (rewrite E; reflexivity).
      assert (s_brcommits s' = s_brcommits s ++ [n]) as E5 by (rewrite E; reflexivity).
      assert (s_prev_builds s' = s_prev_builds s) as E6 by (rewrite E; reflexivity).
      assert (s_hang s' = s_hang s || false) as E7 by (rewrite E; reflexivity).
      assert (len s' = S n) as HL by (unfold len, n, len; rewrite E1, app_length; cbn; lia).
      assert (rc_get s' n = rc) as Hgn by (rewrite (rc_get_snoc s s' rc n E1); fold n; rewrite Nat.eqb_refl; reflexivity).
      assert (cid s' n = c) as Hcn by (unfold cid; rewrite Hgn; reflexivity).
      assert (fr s' c = Some [n]) as Efr.
      { destruct Hfr as [(E0 & _)|(bn & _ & E0)]; [|exact E0]. rewrite E1 in E0. apply app_snoc_neq in E0. destruct E0. }
      assert (~ In n (s_prev_builds s)) as Hnp.
      { intros H. pose proof (w_prev s W) as F. rewrite Forall_forall in F. specialize (F n H). unfold n in F. lia. }
      assert (forall i, inK s' i <-> inKb s bp i \/ i = n) as HK.
      { intros i. unfold inK, inKb, is_cur_build. rewrite E2, E5, E6. split.
        - intros [H|H]; [auto|]. apply andb_true_iff in H as [H1 H2]. apply nmem_In, in_app_or in H1 as [H1|[<-|[]]]; [|auto].
          left. right. apply andb_true_iff. split; [apply nmem_In, H1|exact H2].
        - intros [[H|H]| ->]; [auto| |].
          + right. apply andb_true_iff in H as [H1 H2]. apply andb_true_iff. split; [|exact H2].
            apply nmem_In, in_or_app. left. apply nmem_In, H1.
          + right. apply andb_true_iff. split; [apply nmem_In, in_or_app; right; left; reflexivity|].
            apply negb_true_iff, nmem_false, Hnp. }
      assert (forall i, inKb s bp i <-> inK s i \/ In i ks) as HK2.
      { intros i. unfold inK, inKb. rewrite Ek, in_app_iff. tauto. }
      assert (forall i, In i ks -> i < n) as Hksn by (intros i Hi; apply (Fk i Hi)).
      assert (forall i p, inK s' i -> In p (rpar s' i) -> inK s' p) as Cl'.
      { intros i p Hi Hp. apply HK. left. apply HK in Hi as [Hi| ->].
        - apply HK2 in Hi as [Hi|Hi].
          + rewrite (pre_rpar s s' i P (Klt i Hi)) in Hp. apply HK2. left. apply (Cl i p Hi Hp).
          + rewrite (pre_rpar s s' i P (Hksn i Hi)) in Hp. apply (proj2 (Hks i Hi)). exact Hp.
        - unfold rpar in Hp. rewrite Hgn in Hp. cbn [rc_parents rc] in Hp. apply Hh, Hp. }
      constructor; auto.
      + rewrite E7, Hg. reflexivity.
      + intros i Hi He. rewrite E4. unfold builds_listing. rewrite map_app, concat_app. cbn [map concat rb_rcommits rb]. rewrite app_nil_r.
        apply in_or_app. apply HK in Hi as [Hi| ->]; [|right; apply add_uniq_in; left; reflexivity].
        apply HK2 in Hi as [Hi|Hi].
        * left. apply Li; [exact Hi|]. rewrite <- (pre_expl s s' i P (Klt i Hi)). exact He.
        * right. apply add_uniq_in. right. rewrite En. apply filter_In. split; [exact Hi|].
          rewrite <- (pre_expl s s' i P (Hksn i Hi)). exact He.
      + intros c0 j H0 Hn0 Hb0 Hj R. destruct (Nat.eq_dec c0 c) as [->|N].
        * destruct (gi_complete h s' G' c [n] j Efr Hj R) as (f & [<-|[]] & Rf).
          apply (inK_rreach s' n j Cl'); [|exact Rf]. apply HK. right. reflexivity.
        * pose proof (Hold c0 j N H0 Hj R) as Hj'. apply HK. left. apply HK2. left.
          apply (Ex c0 j (Hback c0 N H0) Hn0 Hb0 Hj'). rewrite <- (pre_cid s s' j P Hj'). exact R.
      + rewrite E4. apply Forall_app. split; [exact Bu'|]. constructor; [|constructor].
        exists n. rewrite Hcn. split; [reflexivity|]. split; [lia|]. split; [reflexivity|]. split; [exact Hnl|].
        split; [exact Hr|]. split; [apply bh_spec, Hb|]. split.
        { intros Ht. cbn [rb_num rb]. rewrite Hbn; [reflexivity|].
          unfold tagged in Ht. destruct (c_tags (get_commit h c)); [reflexivity|exfalso; apply Ht; discriminate]. }
        intros j Hj. cbn [rb_rcommits rb] in Hj. apply add_uniq_in in Hj as [->|Hj].
        * rewrite Hcn. split; [lia|]. split; [constructor|]. intros b' _ _ R1 R2. apply (reach_antisym h b' c Ha R2 R1).
        * rewrite En in Hj. apply filter_In in Hj as [Hj _]. pose proof (Hksn j Hj) as Hjn.
          rewrite (pre_cid s s' j P Hjn). split; [lia|].
          destruct (Hks j Hj) as ((r & Hrr & Rr) & _). destruct (Hrcps r Hrr) as (_ & Rc).
          destruct (GI_rreach_sound h s r j G Rr) as (_ & _ & R3).
          split; [eapply reach_trans; eassumption|].
          intros b' Hn' Hb' R1 R2. destruct (Nat.eq_dec b' c) as [->|N]; [reflexivity|exfalso].
          destruct (reach_inv h c b' R1) as [Heq|(p & Hp & Rp)]; [congruence|].
          pose proof (GI_reach_closed h s p b' G (Hpar p Hp) Rp) as Hcb.
          pose proof (Ex b' j Hcb Hn' Hb' Hjn R2) as HKj. destruct (Fk j Hj) as (_ & Hn1 & Hn2).
          destruct HKj as [HKj|HKj]; [contradiction|congruence].
      + rewrite E5, HL. apply Forall_app. split; [eapply Forall_impl; [|exact Br]; cbn beta; intros; lia|].
        constructor; [lia|constructor].
      + rewrite E5, E6. replace (s_anc s') with (s_anc s ++ [(n, anc)]) by (rewrite E; reflexivity).
        unfold keys. rewrite map_app. apply Forall_app. split.
        * eapply Forall_impl; [|exact Br2]. cbn beta. intros i [H|H]; [left; exact H|right; apply in_or_app; left; exact H].
        * constructor; [|constructor]. right. apply in_or_app. right. left. reflexivity.
  Qed.
End Branch.
